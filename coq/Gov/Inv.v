(** Gov/Inv.v — the block-boundary invariant GovInv of the governance state and its
    preservation by every governance transaction and by plain transfers (C15). *)
From Coq Require Import ZArith NArith List Bool Permutation Lia.
From Verif Require Import Gov.Model Gov.AList Gov.Tally.
Import ListNotations.
Open Scope Z_scope.

(* ------------------------------------------------------------------ specification sums *)
Definition sum_stakes (d : durable) : Z := al_sumk (fun (_ : N) s => st_amount s) (d_stakes d).

Definition vote_contrib (issue : N) (c : cand) (k : vkey) (v : vote) : Z :=
  if N.eqb (fst k) issue then countZ c (vt_cands v) * vt_amount v else 0.
(** Σ over the voters currently voting for [c] on [issue] of their recorded voting amount
    (with multiplicity when a ballot names a candidate twice) *)
Definition tally_spec_v (votes : list (vkey * vote)) (issue : N) (c : cand) : Z := al_sumk (vote_contrib issue c) votes.
Definition tally_spec (d : durable) := tally_spec_v (d_votes d).

Definition vamount (issue : N) (k : vkey) (v : vote) : Z := if N.eqb (fst k) issue then vt_amount v else 0.
Definition vsum_v (votes : list (vkey * vote)) (issue : N) : Z := al_sumk (vamount issue) votes.

Definition result_of (results : list (N * list (cand * Z))) (issue : N) : list (cand * Z) :=
  match al_get N.eqb issue results with Some l => l | None => [] end.

(* ------------------------------------------------------------------ the invariant *)
Record MoneyInv (donated : Z) (d : durable) : Prop := {
  mi_total : d_total d = sum_stakes d;
  mi_sysbal : d_sysbal d = d_total d + donated;
  mi_stake_nonneg : Forall (fun e : N * stake => 0 <= st_amount (snd e)) (d_stakes d);
  mi_bal_nonneg : forall a, 0 <= bal_of d a;
}.

Record VoteInvC (votes : list (vkey * vote)) (results : list (N * list (cand * Z))) (vtotals : list (N * Z)) : Prop := {
  vi_votes_nodup : NoDup (map fst votes);
  vi_vote_nonneg : forall k v, In (k, v) votes -> 0 <= vt_amount v;
  vi_vote_issue : forall k v, In (k, v) votes -> In (fst k) catalog;
  vi_tally : forall issue c, tally_get (result_of results issue) c = tally_spec_v votes issue c;
  vi_nodup : forall issue, NoDup (map fst (result_of results issue));
  vi_vtotal : forall issue, is_ex issue = true -> getZ issue vtotals = vsum_v votes issue;
}.
Definition VoteInv (d : durable) := VoteInvC (d_votes d) (d_results d) (d_vtotals d).

Definition BoundInv (d : durable) : Prop :=
  forall k v, In (k, v) (d_votes d) -> vt_amount v <= st_amount (get_stake d (snd k)).

Record GovInv (donated : Z) (d : durable) : Prop := {
  gi_money : MoneyInv donated d;
  gi_votes : VoteInv d;
  gi_bound : BoundInv d;
}.

(* ------------------------------------------------------------------ small facts *)
Lemma forall_al_set {K V} (eqb : K -> K -> bool) (P : K * V -> Prop) k v m :
  Forall P m -> P (k, v) -> Forall P (al_set eqb k v m).
Proof.
  induction m as [|[k' v'] m IH]; simpl; intros F Pk.
  - constructor; auto.
  - inversion F; subst. destruct (eqb k k'); constructor; auto.
Qed.

Lemma getZ_set k v m k' : getZ k' (al_set N.eqb k v m) = if N.eqb k' k then v else getZ k' m.
Proof.
  unfold getZ. destruct (N.eqb k' k) eqn:E.
  - apply N.eqb_eq in E; subst. now rewrite (al_get_set_same N.eqb Neqb_eq).
  - rewrite (al_get_set_other N.eqb Neqb_eq); auto. intros ->. rewrite N.eqb_refl in E. discriminate.
Qed.

Lemma result_of_set i l rs j : result_of (al_set N.eqb i l rs) j = if N.eqb j i then l else result_of rs j.
Proof.
  unfold result_of. destruct (N.eqb j i) eqn:E.
  - apply N.eqb_eq in E; subst. now rewrite (al_get_set_same N.eqb Neqb_eq).
  - rewrite (al_get_set_other N.eqb Neqb_eq); auto. intros ->. rewrite N.eqb_refl in E. discriminate.
Qed.

Lemma get_result_result_of d i : get_result d i = result_of (d_results d) i.
Proof. reflexivity. Qed.

Definition stake_of (stakes : list (N * stake)) (a : N) : stake :=
  match al_get N.eqb a stakes with Some s => s | None => {| st_amount := 0; st_when := 0 |} end.
Lemma get_stake_stake_of d a : get_stake d a = stake_of (d_stakes d) a.
Proof. reflexivity. Qed.

Lemma stake_of_set who s stakes a : stake_of (al_set N.eqb who s stakes) a = if N.eqb a who then s else stake_of stakes a.
Proof.
  unfold stake_of. destruct (N.eqb a who) eqn:E.
  - apply N.eqb_eq in E; subst. now rewrite (al_get_set_same N.eqb Neqb_eq).
  - rewrite (al_get_set_other N.eqb Neqb_eq); auto. intros ->. rewrite N.eqb_refl in E. discriminate.
Qed.

Lemma stake_of_nonneg stakes a :
  Forall (fun e : N * stake => 0 <= st_amount (snd e)) stakes -> 0 <= st_amount (stake_of stakes a).
Proof.
  intros F. unfold stake_of. destruct (al_get N.eqb a stakes) as [s|] eqn:G; simpl; [|lia].
  apply (al_get_in N.eqb Neqb_eq) in G. rewrite Forall_forall in F. apply (F (a, s)). exact G.
Qed.

Lemma sum_stakes_set who s stakes :
  al_sumk (fun (_ : N) s => st_amount s) (al_set N.eqb who s stakes)
  = al_sumk (fun (_ : N) s => st_amount s) stakes - st_amount (stake_of stakes who) + st_amount s.
Proof.
  rewrite (al_sumk_set N.eqb Neqb_eq). unfold stake_of. destruct (al_get N.eqb who stakes); simpl; lia.
Qed.

Lemma stake_le_sum stakes a :
  Forall (fun e : N * stake => 0 <= st_amount (snd e)) stakes ->
  st_amount (stake_of stakes a) <= al_sumk (fun (_ : N) s => st_amount s) stakes.
Proof.
  intros F. unfold stake_of. destruct (al_get N.eqb a stakes) as [s|] eqn:G; simpl.
  - apply (al_get_in N.eqb Neqb_eq) in G.
    apply (al_sumk_ge (fun (_ : N) s => st_amount s) stakes a s); auto.
    intros k v H. rewrite Forall_forall in F. apply (F (k, v) H).
  - apply al_sumk_nonneg. intros k v H. rewrite Forall_forall in F. apply (F (k, v) H).
Qed.

(* ------------------------------------------------------------------ Sync *)
Lemma sync_frame c issue rmap ext d m d' m' :
  sync c issue rmap ext d m = SyncOk d' m' ->
  d_bal d' = d_bal d /\ d_sysbal d' = d_sysbal d /\ d_stakes d' = d_stakes d /\ d_total d' = d_total d
  /\ d_votes d' = d_votes d
  /\ d_results d' = al_set N.eqb issue (build_vote_list (c_fixed c) rmap) (d_results d)
  /\ d_vtotals d' = (if is_ex issue then al_set N.eqb issue (Z.abs ext) (d_vtotals d) else d_vtotals d).
Proof.
  unfold sync. destruct (vpr_apply _ _ _) as [v' disk'].
  destruct (is_ex issue).
  - destruct (build_vote_list (c_fixed c) rmap) as [|[topc topa] l] eqn:B; [discriminate|].
    destruct (threshold _ topa) as [th|]; [|discriminate].
    destruct th.
    + destruct (parse_dec topc); [|discriminate]. intros [= <- <-]; simpl; repeat split; auto.
    + intros [= <- <-]; simpl; repeat split; auto.
  - intros [= <- <-]; simpl; repeat split; auto.
Qed.

Lemma vote_contrib_same issue c who v : vote_contrib issue c (issue, who) v = countZ c (vt_cands v) * vt_amount v.
Proof. unfold vote_contrib. simpl. now rewrite N.eqb_refl. Qed.
Lemma vote_contrib_other issue j c who v : N.eqb issue j = false -> vote_contrib j c (issue, who) v = 0.
Proof. unfold vote_contrib. simpl. now intros ->. Qed.
Lemma vamount_same issue who v : vamount issue (issue, who) v = vt_amount v.
Proof. unfold vamount. simpl. now rewrite N.eqb_refl. Qed.
Lemma vamount_other issue j who v : N.eqb issue j = false -> vamount j (issue, who) v = 0.
Proof. unfold vamount. simpl. now intros ->. Qed.

(* ------------------------------------------------------------------ replacing one ballot *)
(** [votes' = votes[(issue,who) := nv]], the result of [issue] rebuilt from
    sub(old) ; add(new): the vote clauses are preserved. *)
Lemma vote_update_inv fx votes results vtotals issue who nv r1 :
  VoteInvC votes results vtotals ->
  In issue catalog -> 0 <= vt_amount nv ->
  let old := al_get vkey_eqb (issue, who) votes in
  let oa := match old with Some o => vt_amount o | None => 0 end in
  let oc := match old with Some o => vt_cands o | None => [] end in
  rmap_sub oc oa (result_of results issue) = Some r1 ->
  VoteInvC (al_set vkey_eqb (issue, who) nv votes)
           (al_set N.eqb issue (build_vote_list fx (rmap_add (vt_cands nv) (vt_amount nv) r1)) results)
           (if is_ex issue then al_set N.eqb issue (Z.abs (getZ issue vtotals - oa + vt_amount nv)) vtotals else vtotals).
Proof.
  intros VI Hcat Hnv old oa oc Hsub.
  destruct VI as [ND NN ISS TAL RND VT].
  assert (NN' : forall k v, In (k, v) (al_set vkey_eqb (issue, who) nv votes) -> 0 <= vt_amount v).
  { intros k v H. apply (in_al_set_nodup vkey_eqb vkey_eqb_eq) in H; auto.
    destruct H as [[-> ->]|[_ H]]; eauto. }
  assert (ND1 : NoDup (map fst r1)) by (eapply rmap_sub_nodup; [apply RND | exact Hsub]).
  assert (ND2 : NoDup (map fst (rmap_add (vt_cands nv) (vt_amount nv) r1))) by (now apply rmap_add_nodup).
  assert (OA : match old with Some x => vt_amount x | None => 0 end = oa) by reflexivity.
  split.
  - now apply (nodup_al_set vkey_eqb vkey_eqb_eq).
  - exact NN'.
  - intros k v H. apply (in_al_set_nodup vkey_eqb vkey_eqb_eq) in H; auto.
    destruct H as [[-> ->]|[_ H]]; eauto.
  - intros j c. rewrite result_of_set. unfold tally_spec_v.
    rewrite (al_sumk_set vkey_eqb vkey_eqb_eq). fold old.
    destruct (N.eqb j issue) eqn:E.
    + apply N.eqb_eq in E; subst j.
      rewrite build_vote_list_get by exact ND2.
      rewrite rmap_add_get, (rmap_sub_get _ _ _ _ c Hsub), TAL.
      unfold tally_spec_v. rewrite ?vote_contrib_same.
      assert (P : 0 <= al_sumk (vote_contrib issue c) (al_set vkey_eqb (issue, who) nv votes)).
      { apply al_sumk_nonneg. intros k v H. unfold vote_contrib. destruct (N.eqb (fst k) issue); [|lia].
        apply Z.mul_nonneg_nonneg; [apply countZ_nonneg | eauto]. }
      rewrite (al_sumk_set vkey_eqb vkey_eqb_eq) in P. fold old in P.
      rewrite ?vote_contrib_same in P.
      subst oa oc. destruct old as [o|]; rewrite ?vote_contrib_same in *; simpl in *; rewrite Z.abs_eq; lia.
    + assert (E' : N.eqb issue j = false) by (rewrite N.eqb_sym; exact E).
      rewrite TAL. unfold tally_spec_v. destruct old; rewrite ?(vote_contrib_other _ _ _ _ _ E'); lia.
  - intros j. rewrite result_of_set. destruct (N.eqb j issue); [now apply build_vote_list_nodup | apply RND].
  - intros j Hex. unfold vsum_v. rewrite (al_sumk_set vkey_eqb vkey_eqb_eq). fold old.
    destruct (N.eqb issue j) eqn:E.
    + apply N.eqb_eq in E; subst j. rewrite Hex, getZ_set, N.eqb_refl.
      rewrite (VT issue Hex). unfold vsum_v.
      assert (P : 0 <= al_sumk (vamount issue) (al_set vkey_eqb (issue, who) nv votes)).
      { apply al_sumk_nonneg. intros k v H. unfold vamount. destruct (N.eqb (fst k) issue); [eauto|lia]. }
      rewrite (al_sumk_set vkey_eqb vkey_eqb_eq) in P. fold old in P.
      subst oa. destruct old as [o|]; rewrite ?vamount_same in *; simpl in *; rewrite Z.abs_eq; lia.
    + assert (G : getZ j (if is_ex issue then al_set N.eqb issue (Z.abs (getZ issue vtotals - oa + vt_amount nv)) vtotals else vtotals) = getZ j vtotals).
      { destruct (is_ex issue); auto. rewrite getZ_set. rewrite N.eqb_sym, E. reflexivity. }
      rewrite G, (VT j Hex). unfold vsum_v. destruct old; rewrite ?(vamount_other _ _ _ _ E); lia.
Qed.

(** the ballot that is stored as the empty string: the record disappears *)
Lemma vote_delete_inv fx votes results vtotals issue who nv r1 :
  VoteInvC votes results vtotals ->
  In issue catalog -> vote_stored_empty issue nv = true ->
  let old := al_get vkey_eqb (issue, who) votes in
  let oa := match old with Some o => vt_amount o | None => 0 end in
  let oc := match old with Some o => vt_cands o | None => [] end in
  rmap_sub oc oa (result_of results issue) = Some r1 ->
  VoteInvC (al_del vkey_eqb (issue, who) votes)
           (al_set N.eqb issue (build_vote_list fx (rmap_add (vt_cands nv) (vt_amount nv) r1)) results)
           (if is_ex issue then al_set N.eqb issue (Z.abs (getZ issue vtotals - oa + vt_amount nv)) vtotals else vtotals).
Proof.
  intros VI Hcat He old oa oc Hsub.
  unfold vote_stored_empty in He. apply andb_true_iff in He. destruct He as [He Ha]. apply andb_true_iff in He. destruct He as [Hx Hc].
  apply negb_true_iff in Hx. apply Z.eqb_eq in Ha. destruct (vt_cands nv) as [|c0 cs] eqn:Ec; [|discriminate].
  rewrite Hx, Ha. cbn [rmap_add].
  destruct VI as [ND NN ISS TAL RND VT].
  assert (ND1 : NoDup (map fst r1)) by (eapply rmap_sub_nodup; [apply RND | exact Hsub]).
  split.
  - now apply (nodup_al_del vkey_eqb).
  - intros k v H. apply (al_del_in vkey_eqb) in H. eauto.
  - intros k v H. apply (al_del_in vkey_eqb) in H. eauto.
  - intros j c. rewrite result_of_set. unfold tally_spec_v.
    rewrite (al_sumk_del vkey_eqb vkey_eqb_eq). fold old.
    destruct (N.eqb j issue) eqn:E.
    + apply N.eqb_eq in E; subst j.
      rewrite build_vote_list_get by exact ND1.
      rewrite (rmap_sub_get _ _ _ _ c Hsub), TAL. unfold tally_spec_v.
      assert (P : 0 <= al_sumk (vote_contrib issue c) (al_del vkey_eqb (issue, who) votes)).
      { apply al_sumk_nonneg. intros k v H. apply (al_del_in vkey_eqb) in H. unfold vote_contrib. destruct (N.eqb (fst k) issue); [|lia].
        apply Z.mul_nonneg_nonneg; [apply countZ_nonneg | eauto]. }
      rewrite (al_sumk_del vkey_eqb vkey_eqb_eq) in P. fold old in P.
      subst oa oc. destruct old as [o|]; rewrite ?vote_contrib_same in *; simpl in *; rewrite Z.abs_eq; lia.
    + assert (E' : N.eqb issue j = false) by (rewrite N.eqb_sym; exact E).
      rewrite TAL. unfold tally_spec_v. destruct old; rewrite ?(vote_contrib_other _ _ _ _ _ E'); lia.
  - intros j. rewrite result_of_set. destruct (N.eqb j issue); [now apply build_vote_list_nodup | apply RND].
  - intros j Hex. unfold vsum_v. rewrite (al_sumk_del vkey_eqb vkey_eqb_eq). fold old.
    assert (E : N.eqb issue j = false).
    { destruct (N.eqb issue j) eqn:E; auto. apply N.eqb_eq in E. subst j. congruence. }
    rewrite (VT j Hex). unfold vsum_v. destruct old; rewrite ?(vamount_other _ _ _ _ E); lia.
Qed.

(** setVote *)
Lemma vote_put_inv fx votes results vtotals issue who nv r1 :
  VoteInvC votes results vtotals ->
  In issue catalog -> 0 <= vt_amount nv ->
  let old := al_get vkey_eqb (issue, who) votes in
  let oa := match old with Some o => vt_amount o | None => 0 end in
  let oc := match old with Some o => vt_cands o | None => [] end in
  rmap_sub oc oa (result_of results issue) = Some r1 ->
  VoteInvC (put_vote issue who nv votes)
           (al_set N.eqb issue (build_vote_list fx (rmap_add (vt_cands nv) (vt_amount nv) r1)) results)
           (if is_ex issue then al_set N.eqb issue (Z.abs (getZ issue vtotals - oa + vt_amount nv)) vtotals else vtotals).
Proof.
  intros VI Hcat Hnv old oa oc Hsub. unfold put_vote.
  destruct (vote_stored_empty issue nv) eqn:E.
  - now apply vote_delete_inv.
  - now apply vote_update_inv.
Qed.

Lemma in_put_vote issue who nv votes k v :
  NoDup (map fst votes) -> In (k, v) (put_vote issue who nv votes) ->
  (k = (issue, who) /\ v = nv) \/ (k <> (issue, who) /\ In (k, v) votes).
Proof.
  intros ND. unfold put_vote. destruct (vote_stored_empty issue nv).
  - intros H. right. now apply (in_al_del_nodup vkey_eqb vkey_eqb_eq).
  - now apply (in_al_set_nodup vkey_eqb vkey_eqb_eq).
Qed.

(* ------------------------------------------------------------------ voteBP / voteDAO *)
Lemma exec_vote_inv c no d m who issue cands d' m' donated :
  GovInv donated d -> In issue catalog ->
  exec_vote c no d m who issue cands = (EOk, d', m') -> GovInv donated d'.
Proof.
  intros [MI VI BI] Hcat. unfold exec_vote.
  destruct (st_amount (get_stake d who) =? 0); [discriminate|].
  destruct (_ && _); [discriminate|].
  destruct (_ && _); [discriminate|].
  unfold vcmd_sub.
  set (old := get_vote d issue who).
  destruct (rmap_sub _ _ (get_result d issue)) as [r1|] eqn:Hsub; [|discriminate].
  unfold vcmd_add. cbn [vt_cands vt_amount].
  set (s := get_stake d who) in *.
  match goal with |- context [sync c issue ?r ?t ?D ?M] => destruct (sync c issue r t D M) as [dd mm|mm] eqn:S end; [|discriminate].
  intros [= <- <-].
  apply sync_frame in S. cbn [d_bal d_sysbal d_stakes d_total d_votes d_results d_vtotals set_votes set_stakes] in S.
  destruct S as (Sb & Ssb & Sst & Stot & Sv & Sr & Svt).
  destruct MI as [MT MS MN MB].
  assert (SN : 0 <= st_amount s) by (apply stake_of_nonneg; exact MN).
  split.
  - split.
    + rewrite Stot, MT. unfold sum_stakes. rewrite Sst, sum_stakes_set. cbn [st_amount]. change (stake_of (d_stakes d) who) with s. lia.
    + rewrite Ssb, Stot. exact MS.
    + rewrite Sst. apply forall_al_set; auto.
    + intros a. unfold bal_of. rewrite Sb. apply MB.
  - unfold VoteInv. rewrite Sv, Sr, Svt.
    pose proof (vote_put_inv (c_fixed c) (d_votes d) (d_results d) (d_vtotals d) issue who
                  {| vt_cands := cands; vt_amount := st_amount s |} r1 VI Hcat SN) as L.
    cbn [vt_cands vt_amount] in L. apply L. exact Hsub.
  - intros k v H. rewrite Sv in H. rewrite get_stake_stake_of, Sst, stake_of_set.
    apply in_put_vote in H; [|apply VI].
    destruct H as [[-> ->]|[Nk H]].
    + cbn [snd vt_amount]. rewrite N.eqb_refl. cbn [st_amount]. lia.
    + specialize (BI k v H). destruct (N.eqb (snd k) who) eqn:E.
      * apply N.eqb_eq in E. rewrite E in BI. cbn [st_amount]. fold s in BI. exact BI.
      * exact BI.
Qed.

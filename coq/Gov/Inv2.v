(** Gov/Inv2.v — GovInv is preserved by stake, unstake (including the refresh of shrunken
    votes), by plain transfers, hence by every history; refusal rules; exact pay-back. *)
From Coq Require Import ZArith NArith List Bool Permutation Lia.
From Verif Require Import Gov.Model Gov.AList Gov.Tally Gov.Inv.
Import ListNotations.
Open Scope Z_scope.

Ltac prj := cbn [d_total d_sysbal d_stakes d_bal d_votes d_results d_vtotals d_params d_vpr
                  set_total set_sysbal set_stakes set_bal set_votes set_results set_vtotals set_params set_dvpr] in *.

(* ------------------------------------------------------------------ stake *)
Lemma exec_stake_inv c no d m who amt d' m' donated :
  GovInv donated d -> 0 <= amt ->
  exec_stake c no d m who amt = (EOk, d', m') -> GovInv donated d'.
Proof.
  intros [[MT MS MN MB] VI BI] Hamt. unfold exec_stake.
  destruct (bal_of d who <? amt) eqn:Eb; [discriminate|]. apply Z.ltb_ge in Eb.
  destruct (_ && _); [discriminate|].
  destruct (_ <? staking_min c m); [discriminate|].
  intros [= <- <-].
  set (s := get_stake d who).
  assert (SN : 0 <= st_amount s) by (apply stake_of_nonneg; exact MN).
  assert (TN : 0 <= d_total d).
  { rewrite MT. apply al_sumk_nonneg. intros k v H. rewrite Forall_forall in MN. apply (MN (k, v) H). }
  split; [split| |]; cbn [d_total d_sysbal d_stakes d_bal d_votes d_results d_vtotals set_total set_sysbal set_stakes set_bal].
  - unfold sum_stakes in *. prj. rewrite sum_stakes_set. cbn [st_amount].
    change (stake_of (d_stakes d) who) with s. rewrite !Z.abs_eq by lia. lia.
  - rewrite Z.abs_eq by lia. lia.
  - apply forall_al_set; auto. cbn [snd st_amount]. lia.
  - intros a. unfold bal_of. prj. rewrite getZ_set. destruct (N.eqb a who); [|apply MB].
    fold (bal_of d who). rewrite Z.abs_eq; lia.
  - exact VI.
  - intros k v H. prj. rewrite get_stake_stake_of. prj. rewrite stake_of_set.
    specialize (BI k v H). destruct (N.eqb (snd k) who) eqn:E; [|exact BI].
    apply N.eqb_eq in E. rewrite E in BI. change (get_stake d who) with s in BI. cbn [st_amount]. lia.
Qed.

(* ------------------------------------------------------------------ refresh of shrunken votes *)
Record MidInv (d : durable) (who : N) (done : list N) : Prop := {
  md_votes : VoteInv d;
  md_bound_others : forall k v, In (k, v) (d_votes d) -> snd k <> who -> vt_amount v <= st_amount (get_stake d (snd k));
  md_bound_done : forall k v, In (k, v) (d_votes d) -> snd k = who -> In (fst k) done -> vt_amount v <= st_amount (get_stake d who);
}.

Definition same_money (d d' : durable) : Prop :=
  d_stakes d' = d_stakes d /\ d_total d' = d_total d /\ d_bal d' = d_bal d /\ d_sysbal d' = d_sysbal d.

Lemma refresh_one_ok c who staked issue d m d' m' done :
  MidInv d who done -> In issue catalog ->
  st_amount (get_stake d who) = staked -> 0 <= staked ->
  refresh_one c who staked issue (EOk, d, m) = (EOk, d', m') ->
  MidInv d' who (issue :: done) /\ same_money d d'.
Proof.
  intros [VI BO BD] Hcat Hst Hnn. unfold refresh_one.
  destruct (get_vote d issue who) as [old|] eqn:G.
  2:{ intros [= <- <-]. split; [|repeat split].
      split; auto. intros k v H Hk [Hi|Hi]; [|eauto].
      exfalso. destruct k as [i a]; simpl in *; subst.
      apply (in_al_get vkey_eqb vkey_eqb_eq) in H; [|apply VI]. unfold get_vote in G. congruence. }
  destruct (vt_amount old <=? staked) eqn:E.
  { apply Z.leb_le in E. intros [= <- <-]. split; [|repeat split].
    split; auto. intros k v H Hk [Hi|Hi]; [|eauto].
    destruct k as [i a]; simpl in *; subst.
    apply (in_al_get vkey_eqb vkey_eqb_eq) in H; [|apply VI]. unfold get_vote in G. rewrite G in H. injection H as <-. lia. }
  unfold vcmd_sub.
  destruct (rmap_sub (vt_cands old) (vt_amount old) (get_result d issue)) as [r1|] eqn:Hsub; [|discriminate].
  unfold vcmd_add. cbn [vt_cands vt_amount].
  match goal with |- context [sync c issue ?r ?t ?D ?M] => destruct (sync c issue r t D M) as [dd mm|mm] eqn:S end; [|discriminate].
  intros [= <- <-].
  apply sync_frame in S. cbn [d_bal d_sysbal d_stakes d_total d_votes d_results d_vtotals set_votes] in S.
  destruct S as (Sb & Ssb & Sst & Stot & Sv & Sr & Svt).
  split; [|repeat split; auto].
  assert (GS : forall a, get_stake dd a = get_stake d a) by (intros a; rewrite !get_stake_stake_of, Sst; reflexivity).
  split.
  - unfold VoteInv. rewrite Sv, Sr, Svt.
    pose proof (vote_put_inv (c_fixed c) (d_votes d) (d_results d) (d_vtotals d) issue who
                  {| vt_cands := vt_cands old; vt_amount := staked |} r1 VI Hcat Hnn) as L.
    cbn [vt_cands vt_amount] in L. unfold get_vote in G. rewrite G in L. apply L. exact Hsub.
  - intros k v H Hk. rewrite Sv in H. rewrite GS.
    apply in_put_vote in H; [|apply VI].
    destruct H as [[-> ->]|[_ H]]; [simpl in Hk; congruence | eauto].
  - intros k v H Hk Hi. rewrite Sv in H. rewrite GS.
    apply in_put_vote in H; [|apply VI].
    destruct H as [[-> ->]|[Nk H]]; [cbn [vt_amount]; lia|].
    destruct Hi as [Hi|Hi]; [|eauto].
    exfalso. apply Nk. destruct k; simpl in *; congruence.
Qed.

Lemma refresh_fold_err c who staked issues e d m :
  e <> EOk -> fold_left (fun acc issue => refresh_one c who staked issue acc) issues (e, d, m) = (e, d, m).
Proof.
  intros Ne. induction issues as [|i is IH]; cbn [fold_left]; auto.
  assert (R : refresh_one c who staked i (e, d, m) = (e, d, m)) by (unfold refresh_one; destruct e; auto; congruence).
  rewrite R. exact IH.
Qed.

Lemma refresh_fold_ok c who staked : forall issues done d m d' m',
  (forall i, In i issues -> In i catalog) ->
  MidInv d who done -> st_amount (get_stake d who) = staked -> 0 <= staked ->
  fold_left (fun acc issue => refresh_one c who staked issue acc) issues (EOk, d, m) = (EOk, d', m') ->
  MidInv d' who (rev issues ++ done) /\ same_money d d'.
Proof.
  induction issues as [|i is IH]; intros done d m d' m' Hc MI Hs Hn; cbn [fold_left rev app].
  - intros [= <- <-]. split; auto. repeat split.
  - destruct (refresh_one c who staked i (EOk, d, m)) as [[e1 d1] m1] eqn:R.
    destruct (err_eqb e1 EOk) eqn:Ee.
    + assert (e1 = EOk) by (destruct e1; simpl in Ee; congruence). subst e1.
      destruct (refresh_one_ok c who staked i d m d1 m1 done MI (Hc i (or_introl eq_refl)) Hs Hn R) as [MI1 SM1].
      intros F.
      assert (Hs1 : st_amount (get_stake d1 who) = staked).
      { rewrite get_stake_stake_of. destruct SM1 as (-> & _). exact Hs. }
      destruct (IH (i :: done) d1 m1 d' m' (fun j Hj => Hc j (or_intror Hj)) MI1 Hs1 Hn F) as [MI2 SM2].
      split.
      * rewrite <- app_assoc. exact MI2.
      * destruct SM1 as (A1 & A2 & A3 & A4), SM2 as (B1 & B2 & B3 & B4). repeat split; congruence.
    + rewrite refresh_fold_err by (intros ->; discriminate). intros [= -> _ _]. discriminate.
Qed.

(* ------------------------------------------------------------------ unstake *)
Lemma exec_unstake_shape c no d m who amt d' m' :
  exec_unstake c no d m who amt = (EOk, d', m') ->
  st_amount (get_stake d who) <> 0 /\ amt <= st_amount (get_stake d who) /\ st_when (get_stake d who) + StakingDelay <= no
  /\ (st_amount (get_stake d who) - amt = 0 \/ staking_min c m <= st_amount (get_stake d who) - amt)
  /\ exists d2 m2,
       fold_left (fun acc issue => refresh_one c who (Z.abs (st_amount (get_stake d who) - amt)) issue acc) catalog
         (EOk, set_stakes (al_set N.eqb who {| st_amount := Z.abs (st_amount (get_stake d who) - amt); st_when := no |} (d_stakes d)) d, m) = (EOk, d2, m2)
       /\ amt <= d_sysbal d2 /\ m' = m2
       /\ d' = set_sysbal (d_sysbal d2 - amt)
                (set_bal (al_set N.eqb who (bal_of d2 who + amt) (d_bal d2)) (set_total (Z.abs (d_total d2 - amt)) d2)).
Proof.
  unfold exec_unstake. intros H. set (s := get_stake d who) in *.
  destruct (st_amount s =? 0) eqn:E0; [discriminate|]. apply Z.eqb_neq in E0.
  destruct (st_amount s <? amt) eqn:E1; [discriminate|]. apply Z.ltb_ge in E1.
  destruct (no <? st_when s + StakingDelay) eqn:E2; [discriminate|]. apply Z.ltb_ge in E2.
  destruct (negb (st_amount s - amt =? 0) && (st_amount s - amt <? staking_min c m)) eqn:E3; [discriminate|].
  cbn [st_amount] in H.
  match type of H with context [fold_left ?f catalog ?a] => destruct (fold_left f catalog a) as [[e2 d2] m2] eqn:F end.
  destruct e2; try discriminate.
  cbn [d_sysbal set_total] in H.
  destruct (d_sysbal d2 <? amt) eqn:E4; [discriminate|]. apply Z.ltb_ge in E4.
  injection H as <- <-.
  repeat split; auto.
  - apply andb_false_iff in E3. destruct E3 as [E3|E3].
    + left. apply negb_false_iff, Z.eqb_eq in E3. exact E3.
    + right. apply Z.ltb_ge in E3. exact E3.
  - exists d2, m2. repeat split; auto.
Qed.

Lemma exec_unstake_inv c no d m who amt d' m' donated :
  GovInv donated d -> 0 <= amt ->
  exec_unstake c no d m who amt = (EOk, d', m') -> GovInv donated d'.
Proof.
  intros [[MT MS MN MB] VI BI] Hamt H.
  apply exec_unstake_shape in H.
  set (s := get_stake d who) in *.
  destruct H as (Hnz & Hle & _ & _ & d2 & m2 & F & Hsys & _ & ->).
  assert (SN : 0 <= st_amount s) by (apply stake_of_nonneg; exact MN).
  rewrite (Z.abs_eq (st_amount s - amt)) in F by lia.
  set (s' := {| st_amount := st_amount s - amt; st_when := no |}) in *.
  set (d1 := set_stakes (al_set N.eqb who s' (d_stakes d)) d) in *.
  assert (M1 : MidInv d1 who []).
  { split.
    - exact VI.
    - intros k v Hin Hk. unfold d1 in *. cbn [d_votes set_stakes] in Hin. rewrite get_stake_stake_of. cbn [d_stakes set_stakes].
      rewrite stake_of_set. replace (N.eqb (snd k) who) with false by (symmetry; apply N.eqb_neq; exact Hk).
      apply (BI k v Hin).
    - intros k v _ _ []. }
  assert (Hs1 : st_amount (get_stake d1 who) = st_amount s - amt).
  { unfold d1. rewrite get_stake_stake_of. cbn [d_stakes set_stakes]. rewrite stake_of_set, N.eqb_refl. reflexivity. }
  destruct (refresh_fold_ok c who (st_amount s - amt) catalog [] d1 m d2 m2 (fun i Hi => Hi) M1 Hs1 ltac:(lia) F) as [[VI2 BO2 BD2] (S1 & S2 & S3 & S4)].
  unfold d1 in S1, S2, S3, S4. cbn [d_stakes d_total d_bal d_sysbal set_stakes] in S1, S2, S3, S4.
  assert (TN : st_amount s <= d_total d).
  { rewrite MT. apply stake_le_sum. exact MN. }
  split; [split| |]; cbn [d_total d_sysbal d_stakes d_bal d_votes d_results d_vtotals set_total set_sysbal set_stakes set_bal].
  - unfold sum_stakes in *. cbn [d_stakes set_total set_sysbal set_bal]. rewrite S1, S2, sum_stakes_set. cbn [st_amount].
    change (stake_of (d_stakes d) who) with s. unfold s'. cbn [st_amount]. rewrite Z.abs_eq by lia. lia.
  - rewrite S2, S4. rewrite Z.abs_eq by lia. lia.
  - rewrite S1. apply forall_al_set; auto. unfold s'. cbn [snd st_amount]. lia.
  - intros a. unfold bal_of. cbn [d_bal set_total set_sysbal set_bal]. rewrite getZ_set.
    destruct (N.eqb a who).
    + rewrite S3. specialize (MB who). unfold bal_of in MB. lia.
    + rewrite S3. apply MB.
  - exact VI2.
  - intros k v Hin. cbn [d_votes set_total set_sysbal set_bal] in Hin.
    rewrite get_stake_stake_of. cbn [d_stakes set_total set_sysbal set_bal].
    destruct (N.eq_dec (snd k) who) as [E|E].
    + rewrite E. apply (BD2 k v Hin E). rewrite app_nil_r. apply -> in_rev. apply (vi_vote_issue _ _ _ VI2 k v Hin).
    + apply (BO2 k v Hin E).
Qed.

(** unstake pays back exactly the requested amount *)
Theorem unstake_returns_exactly c no d m who amt d' m' donated :
  GovInv donated d -> 0 <= amt ->
  exec_unstake c no d m who amt = (EOk, d', m') ->
  bal_of d' who = bal_of d who + amt /\
  d_sysbal d' = d_sysbal d - amt /\
  d_total d' = d_total d - amt /\
  st_amount (get_stake d' who) = st_amount (get_stake d who) - amt /\
  (forall a, a <> who -> bal_of d' a = bal_of d a /\ get_stake d' a = get_stake d a).
Proof.
  intros [[MT MS MN MB] VI BI] Hamt H.
  apply exec_unstake_shape in H.
  set (s := get_stake d who) in *.
  destruct H as (Hnz & Hle & _ & _ & d2 & m2 & F & Hsys & _ & ->).
  assert (SN : 0 <= st_amount s) by (apply stake_of_nonneg; exact MN).
  rewrite (Z.abs_eq (st_amount s - amt)) in F by lia.
  set (s' := {| st_amount := st_amount s - amt; st_when := no |}) in *.
  set (d1 := set_stakes (al_set N.eqb who s' (d_stakes d)) d) in *.
  assert (M1 : MidInv d1 who []).
  { split.
    - exact VI.
    - intros k v Hin Hk. unfold d1 in *. cbn [d_votes set_stakes] in Hin. rewrite get_stake_stake_of. cbn [d_stakes set_stakes].
      rewrite stake_of_set. replace (N.eqb (snd k) who) with false by (symmetry; apply N.eqb_neq; exact Hk).
      apply (BI k v Hin).
    - intros k v _ _ []. }
  assert (Hs1 : st_amount (get_stake d1 who) = st_amount s - amt).
  { unfold d1. rewrite get_stake_stake_of. cbn [d_stakes set_stakes]. rewrite stake_of_set, N.eqb_refl. reflexivity. }
  destruct (refresh_fold_ok c who (st_amount s - amt) catalog [] d1 m d2 m2 (fun i Hi => Hi) M1 Hs1 ltac:(lia) F) as [_ (S1 & S2 & S3 & S4)].
  unfold d1 in S1, S2, S3, S4. cbn [d_stakes d_total d_bal d_sysbal set_stakes] in S1, S2, S3, S4.
  assert (TN : st_amount s <= d_total d) by (rewrite MT; apply stake_le_sum; exact MN).
  unfold bal_of. rewrite !get_stake_stake_of. prj. rewrite S1, S2, S3, S4.
  rewrite getZ_set, N.eqb_refl, stake_of_set, N.eqb_refl. unfold s'. cbn [st_amount].
  change (stake_of (d_stakes d) who) with s.
  split; [reflexivity|]. split; [reflexivity|]. split; [rewrite Z.abs_eq; lia|]. split; [reflexivity|].
  intros a Ha. split.
  - rewrite getZ_set. replace (N.eqb a who) with false by (symmetry; apply N.eqb_neq; auto). reflexivity.
  - rewrite !get_stake_stake_of. prj. rewrite S1, stake_of_set. replace (N.eqb a who) with false by (symmetry; apply N.eqb_neq; auto). reflexivity.
Qed.

(* ------------------------------------------------------------------ plain transfers (F19) *)
Lemma donate_inv d from amt donated :
  GovInv donated d -> 0 <= amt -> amt <= bal_of d from ->
  GovInv (donated + amt) (donate d from amt).
Proof.
  intros [[MT MS MN MB] VI BI] Hamt Hb. unfold donate.
  replace (bal_of d from <? amt) with false by (symmetry; apply Z.ltb_ge; lia).
  split; [split| |]; cbn [d_total d_sysbal d_stakes d_bal d_votes d_results d_vtotals set_sysbal set_bal]; auto.
  - lia.
  - intros a. specialize (MB a). unfold bal_of in *. cbn [d_bal set_sysbal set_bal]. rewrite getZ_set. destruct (N.eqb a from); [lia | apply MB].
Qed.

(* ------------------------------------------------------------------ every transaction *)
Definition tx_wf (t : tx) : Prop :=
  match t with
  | TStake _ amt | TUnstake _ amt => 0 <= amt
  | TVoteBP _ _ => True
  | TVoteDAO _ (Some i) _ => In i [1; 2; 3; 4]%N
  | TVoteDAO _ None _ => True
  end.

Theorem apply_tx_preserves_GovInv c no d m t e d' m' donated :
  GovInv donated d -> tx_wf t -> apply_tx c no d m t = (e, d', m') -> GovInv donated d'.
Proof.
  intros GI WF. unfold apply_tx.
  destruct (exec_tx c no d m t) as [[e1 d1] m1] eqn:X. cbv beta iota.
  destruct e1; intros H; inversion H; subst; auto.
  destruct t as [who amt|who amt|who cands|who oi vals]; simpl in X, WF.
  - eapply exec_stake_inv; eauto.
  - eapply exec_unstake_inv; eauto.
  - eapply exec_vote_inv; eauto. simpl. auto.
  - destruct (c_ver c <? 2); [discriminate|]. destruct (match vals with [] => true | _ :: _ => false end); [discriminate|]. destruct oi as [i|]; [|discriminate].
    destruct (1 <? Z.of_nat (length vals)); [discriminate|].
    destruct (all_valid_cands i vals) as [e0|]; [inversion X; subst; exact GI|].
    eapply exec_vote_inv; eauto. simpl in *. intuition.
Qed.

(** a rejected transaction leaves the durable state unchanged *)
Theorem rejected_tx_unchanged c no d m t e d' m' :
  apply_tx c no d m t = (e, d', m') -> e <> EOk -> d' = d.
Proof.
  unfold apply_tx. destruct (exec_tx c no d m t) as [[e1 d1] m1]. cbv beta iota.
  destruct e1; intros H Ne; inversion H; subst; congruence.
Qed.

(* ------------------------------------------------------------------ histories *)
Inductive hop :=
| HTx (t : tx) | HGhost (t : tx) | HBlock (n : Z) | HReload | HTransfer (from : N) (amt : Z).

Definition hop_wf (h : hop) : Prop :=
  match h with HTx t | HGhost t => tx_wf t | HTransfer _ amt => 0 <= amt | _ => True end.

(** one step of a node's history; returns the new state and what it received as a plain
    transfer to aergo.system *)
Definition hstep (c : cfg) (g : gstate) (h : hop) : gstate * Z :=
  match h with
  | HTx t => (snd (step c g (OTx t)), 0)
  | HGhost t => (snd (step c g (OGhost t)), 0)
  | HBlock n => (snd (step c g (OBlock n)), 0)
  | HReload => (snd (step c g OReload), 0)
  | HTransfer from amt =>
    if bal_of (g_d g) from <? amt then (g, 0)
    else ({| g_no := g_no g; g_d := donate (g_d g) from amt; g_m := g_m g |}, amt)
  end.

(** every step carries the hardfork version of its block: histories may cross fork heights *)
Fixpoint hrun (c : cfg) (g : gstate) (hs : list (Z * hop)) : gstate * Z :=
  match hs with
  | [] => (g, 0)
  | vh :: r => let '(g1, x) := hstep (set_ver (fst vh) c) g (snd vh) in let '(g2, y) := hrun c g1 r in (g2, x + y)
  end.

Theorem GovInv_all_histories c0 : forall hs g donated g' received,
  GovInv donated (g_d g) -> Forall (fun vh => hop_wf (snd vh)) hs -> hrun c0 g hs = (g', received) ->
  GovInv (donated + received) (g_d g').
Proof.
  induction hs as [|[v h] hs IH]; intros g donated g' received GI WF; cbn [hrun fst snd].
  - intros [= <- <-]. now rewrite Z.add_0_r.
  - inversion WF as [|? ? Wh WF']; subst. cbn [snd] in Wh.
    set (c := set_ver v c0).
    destruct (hstep c g h) as [g1 x] eqn:Hs. destruct (hrun c0 g1 hs) as [g2 y] eqn:Hr.
    intros [= <- <-].
    assert (G1 : GovInv (donated + x) (g_d g1)).
    { destruct h as [t|t|n| |from amt]; simpl in Hs, Wh.
      - unfold step in Hs. destruct (apply_tx c (g_no g) (g_d g) (g_m g) t) as [[e d1] m1] eqn:A.
        injection Hs as <- <-. simpl. rewrite Z.add_0_r. eapply apply_tx_preserves_GovInv; eauto.
      - destruct (apply_tx c (g_no g) (g_d g) (g_m g) t) as [[e d1] m1] eqn:A.
        injection Hs as <- <-. simpl. now rewrite Z.add_0_r.
      - injection Hs as <- <-. simpl. now rewrite Z.add_0_r.
      - injection Hs as <- <-. simpl. now rewrite Z.add_0_r.
      - destruct (bal_of (g_d g) from <? amt) eqn:E.
        + injection Hs as <- <-. now rewrite Z.add_0_r.
        + injection Hs as <- <-. simpl. apply Z.ltb_ge in E. apply donate_inv; auto. }
    rewrite Z.add_assoc. eapply IH; eauto.
Qed.

(* ------------------------------------------------------------------ refusals *)
Theorem stake_refused_in_lock_period c no d m who amt :
  stake_present d who = true -> no < st_when (get_stake d who) + StakingDelay -> amt <= bal_of d who ->
  fst (fst (exec_stake c no d m who amt)) = ELessTime.
Proof.
  intros P L B. unfold exec_stake.
  replace (bal_of d who <? amt) with false by (symmetry; apply Z.ltb_ge; lia).
  rewrite P. replace (no <? st_when (get_stake d who) + StakingDelay) with true by (symmetry; apply Z.ltb_lt; lia).
  reflexivity.
Qed.

Theorem stake_refused_below_minimum c no d m who amt :
  st_amount (get_stake d who) + amt < staking_min c m ->
  fst (fst (exec_stake c no d m who amt)) <> EOk.
Proof.
  intros L. unfold exec_stake.
  destruct (bal_of d who <? amt); [discriminate|].
  destruct (_ && _); [discriminate|].
  replace (st_amount (get_stake d who) + amt <? staking_min c m) with true by (symmetry; apply Z.ltb_lt; lia).
  discriminate.
Qed.

Theorem unstake_refused c no d m who amt d' m' :
  exec_unstake c no d m who amt = (EOk, d', m') ->
  st_when (get_stake d who) + StakingDelay <= no /\ amt <= st_amount (get_stake d who) /\
  (st_amount (get_stake d who) - amt = 0 \/ staking_min c m <= st_amount (get_stake d who) - amt).
Proof. intros H. apply exec_unstake_shape in H. tauto. Qed.

Theorem vote_refused c no d m who issue cands d' m' :
  exec_vote c no d m who issue cands = (EOk, d', m') ->
  st_amount (get_stake d who) <> 0 /\
  (get_vote d issue who <> None -> st_when (get_stake d who) + VotingDelay <= no).
Proof.
  unfold exec_vote.
  destruct (st_amount (get_stake d who) =? 0) eqn:E0; [discriminate|]. apply Z.eqb_neq in E0.
  destruct (get_vote d issue who) eqn:G; simpl.
  - destruct (no <? st_when (get_stake d who) + VotingDelay) eqn:E1; [discriminate|]. apply Z.ltb_ge in E1.
    intros _. split; auto.
  - intros _. split; auto. congruence.
Qed.

(* ------------------------------------------------------------------ F19 *)
Definition ex_state : durable :=
  {| d_bal := [(0%N, 50000)]; d_sysbal := 0; d_stakes := []; d_total := 0; d_votes := []; d_results := [];
     d_vtotals := []; d_params := []; d_vpr := [] |}.

Lemma ex_state_inv : GovInv 0 ex_state.
Proof.
  split.
  - split; simpl; auto. intros a. unfold bal_of, getZ. simpl. destruct (N.eqb a 0); lia.
  - split; simpl.
    all: try (intros; contradiction).
    all: intros; unfold result_of; simpl; try reflexivity; try constructor.
  - intros k v [].
Qed.

(** the literal clause "balance(aergo.system) = staking total" is false after one plain
    transfer to the system account, which the block executor accepts *)
Theorem sysbal_equals_total_refuted :
  exists d from amt, GovInv 0 d /\ 0 <= amt <= bal_of d from /\
    d_sysbal (donate d from amt) <> d_total (donate d from amt).
Proof.
  exists ex_state, 0%N, 12345. split; [exact ex_state_inv|]. split; [vm_compute; split; discriminate|].
  vm_compute. discriminate.
Qed.

Definition ex_cfg : cfg := {| c_ver := 2; c_fixed := true; c_ids := [77%N]; c_defaults := [(0%N, 3); (1%N, 10000); (2%N, 50); (3%N, 1)] |}.
Definition ex_mem : memory := {| m_pcur := []; m_pnext := []; m_vpr := vpr_empty |}.

(** the hypotheses of the preservation theorems are satisfiable by a non-trivial history *)
Example history_example :
  let hs := [(1, HTx (TStake 0%N 20000)); (1, HBlock 2); (1, HTx (TVoteBP 0%N [[1;2;3]%N; [4;5;6]%N])); (1, HTransfer 0%N 7);
             (2, HBlock 100000); (2, HTx (TUnstake 0%N 5000)); (3, HTx (TVoteDAO 0%N (Some 1%N) [[49;51]%N]))] in
  let '(g, r) := hrun ex_cfg {| g_no := 1; g_d := ex_state; g_m := ex_mem |} hs in
  (r, d_total (g_d g), d_sysbal (g_d g), bal_of (g_d g) 0%N, get_result (g_d g) 0%N)
  = (7, 15000, 15007, 34993, [([1;2;3]%N, 15000); ([4;5;6]%N, 15000)]).
Proof. vm_compute. reflexivity. Qed.

(* ------------------------------------------------------------------ the clauses, spelled out *)
Theorem GovInv_clauses donated d :
  GovInv donated d ->
  d_total d = sum_stakes d /\
  d_sysbal d = d_total d + donated /\
  (forall issue c, tally_get (get_result d issue) c = tally_spec d issue c) /\
  (forall issue a v, get_vote d issue a = Some v -> 0 <= vt_amount v <= st_amount (get_stake d a)) /\
  (forall issue, NoDup (map fst (get_result d issue))) /\
  (forall issue, is_ex issue = true -> getZ issue (d_vtotals d) = vsum_v (d_votes d) issue).
Proof.
  intros [[MT MS MN MB] VI BI]. repeat split; auto; try apply VI.
  - apply (al_get_in vkey_eqb vkey_eqb_eq) in H. eapply (vi_vote_nonneg _ _ _ VI); eauto.
  - apply (al_get_in vkey_eqb vkey_eqb_eq) in H. apply (BI _ _ H).
Qed.

(** Gov/Model.v — executable model of the governance accounting of aergo.system
    (contract/system/{staking,vote,voteresult,vprt,validation,param,execute}.go,
    types/vote.go VoteList.Less).  No proofs here.

    Conventions
    - accounts are indices (N) into the scenario's account table; [c_ids] gives the 32-byte
      AccountID of every index as a big-endian integer (bytes.Compare on equal-length
      strings = integer comparison); candidates are byte strings ([list N]);
    - amounts are [Z]; every place where Go stores [big.Int.Bytes()] (which drops the sign)
      is a [Z.abs] here;
    - a staking / vote record distinguishes "absent" (no key in storage) from "present with
      amount 0" because getStaking / getVote do ([Amount == nil] tests);
    - the durable part of the state (what StageContractState / PutState write) and the
      process-wide Go globals ([votingPowerRank], [systemParams]) are separate records: a
      failed or discarded execution keeps the globals it mutated (F12);
    - Go map iteration: [vpr.apply] ranges over [changes] — the model applies them in the
      order of the association list (insertion order); Gov/VprProofs.v shows the result does
      not depend on it.  [buildVoteList] ranges over [rmap] and sorts: the model sorts the
      association list by insertion sort with [vote_less]; Determ/Sorting.v shows that every
      sorted permutation is that list when [vote_less] is total.
    - not modelled: the red-black tree [topVoters.members] and [vpr.lowest] (not read by
      block execution; see notes: the tree is corrupted by ordinary histories), event
      strings, the two hard-coded mainnet account exceptions in addVpr/subVpr. *)
From Coq Require Import ZArith NArith List Bool Lia.
Import ListNotations.
Open Scope Z_scope.

(* ------------------------------------------------------------------ association lists *)
Section AL.
  Context {K V : Type} (eqb : K -> K -> bool).
  Fixpoint al_get (k : K) (m : list (K * V)) : option V :=
    match m with
    | [] => None
    | (k', v) :: r => if eqb k k' then Some v else al_get k r
    end.
  Fixpoint al_set (k : K) (v : V) (m : list (K * V)) : list (K * V) :=
    match m with
    | [] => [(k, v)]
    | (k', v') :: r => if eqb k k' then (k, v) :: r else (k', v') :: al_set k v r
    end.
  Fixpoint al_del (k : K) (m : list (K * V)) : list (K * V) :=
    match m with
    | [] => []
    | (k', v') :: r => if eqb k k' then r else (k', v') :: al_del k r
    end.
End AL.

Definition cand := list N.
Fixpoint cand_eqb (a b : cand) : bool :=
  match a, b with
  | [], [] => true
  | x :: a', y :: b' => N.eqb x y && cand_eqb a' b'
  | _, _ => false
  end.

(** big-endian value of a byte string (big.Int.SetBytes) *)
Definition be (c : cand) : Z := fold_left (fun acc b => acc * 256 + Z.of_N b) c 0.

(** bytes.Compare a b > 0 *)
Fixpoint bytes_gt (a b : cand) : bool :=
  match a, b with
  | [], _ => false
  | _ :: _, [] => true
  | x :: a', y :: b' => if N.ltb y x then true else if N.ltb x y then false else bytes_gt a' b'
  end.

(* ------------------------------------------------------------------ VoteList.Less *)
Definition PeerIDLength : nat := 39.

(** types/vote.go at HEAD: ties on [Candidate[7:]] (39-byte candidates) or on the whole
    candidate as an integer.  ([Candidate[7:]] of a shorter right operand panics in Go;
    here it is the empty string.) *)
Definition vote_less_legacy (x y : cand * Z) : bool :=
  let '(ca, aa) := x in let '(cb, ab) := y in
  if aa <? ab then true
  else if aa =? ab then
    if Nat.eqb (length ca) PeerIDLength then be (skipn 7 cb) <? be (skipn 7 ca)
    else be cb <? be ca
  else false.

(** repaired comparator (fixes/F10_votelist_total_order.diff): the legacy key per candidate,
    then the full candidate bytes. *)
Definition cand_key (c : cand) : Z :=
  if Nat.eqb (length c) PeerIDLength then be (skipn 7 c) else be c.

Definition vote_less_fixed (x y : cand * Z) : bool :=
  let '(ca, aa) := x in let '(cb, ab) := y in
  if aa <? ab then true
  else if aa =? ab then
    if cand_key cb <? cand_key ca then true
    else if cand_key ca =? cand_key cb then bytes_gt ca cb
    else false
  else false.

Definition vote_less (fixed : bool) := if fixed then vote_less_fixed else vote_less_legacy.

(** sort.Sort(sort.Reverse(voteList)): descending, i.e. [x] before [y] when [less y x]. *)
Section Sort.
  Context {A : Type} (before : A -> A -> bool).
  Fixpoint insert_sorted (x : A) (l : list A) : list A :=
    match l with
    | [] => [x]
    | y :: r => if before y x then y :: insert_sorted x r else x :: y :: r
    end.
  Definition isort (l : list A) : list A := fold_right insert_sorted [] l.
  Fixpoint sortedb (l : list A) : bool :=
    match l with
    | [] => true
    | x :: r => match r with [] => true | y :: _ => before x y && sortedb r end
    end.
End Sort.

Definition rank_before (fixed : bool) (x y : cand * Z) : bool := vote_less fixed y x.
Definition build_vote_list (fixed : bool) (rmap : list (cand * Z)) : list (cand * Z) :=
  isort (rank_before fixed) (map (fun '(c, a) => (c, Z.abs a)) rmap).

(* ------------------------------------------------------------------ state *)
Record stake := { st_amount : Z; st_when : Z }.
Record vote := { vt_cands : list cand; vt_amount : Z }.

Definition vkey := (N * N)%type.                  (* (issue, voter) *)
Definition vkey_eqb (a b : vkey) : bool := N.eqb (fst a) (fst b) && N.eqb (snd a) (snd b).

(** voting power entry: (account id, (account index, power)) *)
Definition vp := (N * (N * Z))%type.

Record durable := {
  d_bal : list (N * Z);                     (* ordinary accounts *)
  d_sysbal : Z;                             (* balance of aergo.system *)
  d_stakes : list (N * stake);
  d_total : Z;                              (* SystemStakingTotal *)
  d_votes : list (vkey * vote);
  d_results : list (N * list (cand * Z));   (* SystemVoteSort per issue *)
  d_vtotals : list (N * Z);                 (* SystemVoteTotal per issue (proposal issues) *)
  d_params : list (N * Z);                  (* SystemParam per parameter *)
  d_vpr : list (N * list vp);               (* SystemVpr per bucket *)
}.

Record vprt := {
  v_powers : list (N * (N * Z));            (* topVoters.powers : id -> (addr, power) *)
  v_buckets : list (N * list vp);           (* vprStore.buckets *)
  v_total : Z;                              (* totalPower *)
  v_changes : list (N * (N * Z));           (* changes : id -> (addr, delta) *)
}.

Record memory := {
  m_pcur : list (N * Z);                    (* systemParams.params[id] *)
  m_pnext : list (N * Z);                   (* systemParams.params[id+"next"] *)
  m_vpr : vprt;
}.

Record cfg := {
  c_ver : Z;                                (* BlockInfo.ForkVersion *)
  c_fixed : bool;                           (* VoteList.Less repaired (F10) *)
  c_ids : list N;                           (* account index -> AccountID *)
  c_defaults : list (N * Z);                (* DefaultParams *)
}.

(** the hardfork version is an input of every block (BlockHeaderInfo.ForkVersion): histories may
    cross fork heights *)
Definition set_ver (v : Z) (c : cfg) : cfg :=
  {| c_ver := v; c_fixed := c_fixed c; c_ids := c_ids c; c_defaults := c_defaults c |}.

Definition StakingDelay : Z := 86400.
Definition VotingDelay : Z := 86400.
Definition MaxAER : Z := 500000000 * 10 ^ 18.

(** issues in catalog order: 0 = voteBP, 1..4 = BPCOUNT, STAKINGMIN, GASPRICE, NAMEPRICE;
    parameter index = issue - 1 *)
Definition catalog : list N := [0; 1; 2; 3; 4]%N.
Definition is_ex (issue : N) : bool := negb (N.eqb issue 0).

Inductive err :=
| EOk | EInsufficient | ELessTime | ETooSmall | EMustStakeVote | EMustStakeUnstake
| EExceed | EPayload | ETooMany | EInvalidCand | ENotSupported | EInvalidId | ETooFew | EPanic.

Definition err_eqb (a b : err) : bool :=
  match a, b with
  | EOk, EOk | EInsufficient, EInsufficient | ELessTime, ELessTime | ETooSmall, ETooSmall
  | EMustStakeVote, EMustStakeVote | EMustStakeUnstake, EMustStakeUnstake | EExceed, EExceed
  | EPayload, EPayload | ETooMany, ETooMany | EInvalidCand, EInvalidCand
  | ENotSupported, ENotSupported | EInvalidId, EInvalidId | ETooFew, ETooFew | EPanic, EPanic => true
  | _, _ => false
  end.

(* setters *)
Definition set_bal b d := {| d_bal := b; d_sysbal := d_sysbal d; d_stakes := d_stakes d; d_total := d_total d;
  d_votes := d_votes d; d_results := d_results d; d_vtotals := d_vtotals d; d_params := d_params d; d_vpr := d_vpr d |}.
Definition set_sysbal b d := {| d_bal := d_bal d; d_sysbal := b; d_stakes := d_stakes d; d_total := d_total d;
  d_votes := d_votes d; d_results := d_results d; d_vtotals := d_vtotals d; d_params := d_params d; d_vpr := d_vpr d |}.
Definition set_stakes s d := {| d_bal := d_bal d; d_sysbal := d_sysbal d; d_stakes := s; d_total := d_total d;
  d_votes := d_votes d; d_results := d_results d; d_vtotals := d_vtotals d; d_params := d_params d; d_vpr := d_vpr d |}.
Definition set_total t d := {| d_bal := d_bal d; d_sysbal := d_sysbal d; d_stakes := d_stakes d; d_total := t;
  d_votes := d_votes d; d_results := d_results d; d_vtotals := d_vtotals d; d_params := d_params d; d_vpr := d_vpr d |}.
Definition set_votes v d := {| d_bal := d_bal d; d_sysbal := d_sysbal d; d_stakes := d_stakes d; d_total := d_total d;
  d_votes := v; d_results := d_results d; d_vtotals := d_vtotals d; d_params := d_params d; d_vpr := d_vpr d |}.
Definition set_results r d := {| d_bal := d_bal d; d_sysbal := d_sysbal d; d_stakes := d_stakes d; d_total := d_total d;
  d_votes := d_votes d; d_results := r; d_vtotals := d_vtotals d; d_params := d_params d; d_vpr := d_vpr d |}.
Definition set_vtotals r d := {| d_bal := d_bal d; d_sysbal := d_sysbal d; d_stakes := d_stakes d; d_total := d_total d;
  d_votes := d_votes d; d_results := d_results d; d_vtotals := r; d_params := d_params d; d_vpr := d_vpr d |}.
Definition set_params p d := {| d_bal := d_bal d; d_sysbal := d_sysbal d; d_stakes := d_stakes d; d_total := d_total d;
  d_votes := d_votes d; d_results := d_results d; d_vtotals := d_vtotals d; d_params := p; d_vpr := d_vpr d |}.
Definition set_dvpr p d := {| d_bal := d_bal d; d_sysbal := d_sysbal d; d_stakes := d_stakes d; d_total := d_total d;
  d_votes := d_votes d; d_results := d_results d; d_vtotals := d_vtotals d; d_params := d_params d; d_vpr := p |}.

Definition set_mvpr v m := {| m_pcur := m_pcur m; m_pnext := m_pnext m; m_vpr := v |}.
Definition set_pnext p m := {| m_pcur := m_pcur m; m_pnext := p; m_vpr := m_vpr m |}.
Definition set_pcur p m := {| m_pcur := p; m_pnext := m_pnext m; m_vpr := m_vpr m |}.

Definition getZ (k : N) (m : list (N * Z)) : Z := match al_get N.eqb k m with Some v => v | None => 0 end.
Definition bal_of (d : durable) (a : N) : Z := getZ a (d_bal d).

(** getStaking: absent -> zero record *)
Definition get_stake (d : durable) (a : N) : stake :=
  match al_get N.eqb a (d_stakes d) with Some s => s | None => {| st_amount := 0; st_when := 0 |} end.
Definition stake_present (d : durable) (a : N) : bool :=
  match al_get N.eqb a (d_stakes d) with Some _ => true | None => false end.
Definition get_vote (d : durable) (issue a : N) : option vote := al_get vkey_eqb (issue, a) (d_votes d).
Definition get_result (d : durable) (issue : N) : list (cand * Z) :=
  match al_get N.eqb issue (d_results d) with Some l => l | None => [] end.

(** GetParam: memory value, else DefaultParams *)
Definition get_param (c : cfg) (m : memory) (p : N) : Z :=
  match al_get N.eqb p (m_pcur m) with Some v => v | None => getZ p (c_defaults c) end.
Definition staking_min (c : cfg) (m : memory) : Z := get_param c m 1%N.

(* ------------------------------------------------------------------ voting power rank *)
Definition bucket_of (id : N) : N := ((id / 2 ^ 248) mod 71)%N.

Definition vp_id_eqb (id : N) (e : vp) : bool := N.eqb id (fst e).

(** remove(bu, id) *)
Fixpoint bucket_remove (id : N) (l : list vp) : list vp :=
  match l with
  | [] => []
  | e :: r => if N.eqb id (fst e) then r else e :: bucket_remove id r
  end.

(** orderedListAdd: insert before the first element whose id is <= the new id *)
Fixpoint bucket_insert (e : vp) (l : list vp) : list vp :=
  match l with
  | [] => [e]
  | x :: r => if N.leb (fst x) (fst e) then e :: x :: r else x :: bucket_insert e r
  end.

Definition get_bucket (i : N) (b : list (N * list vp)) : list vp :=
  match al_get N.eqb i b with Some l => l | None => [] end.

(** vprStore.update *)
Definition store_update (e : vp) (b : list (N * list vp)) : list (N * list vp) :=
  let i := bucket_of (fst e) in
  let l := bucket_remove (fst e) (get_bucket i b) in
  if snd (snd e) =? 0 then al_set N.eqb i l b
  else al_set N.eqb i (bucket_insert e l) b.

(** vpr.sub / vpr.add (prepare) *)
Definition vpr_sub (id addr : N) (amount : Z) (v : vprt) : vprt :=
  match al_get N.eqb id (v_powers v) with
  | None => v
  | Some _ =>
    let cur := match al_get N.eqb id (v_changes v) with Some (a, x) => (a, x) | None => (addr, 0) end in
    {| v_powers := v_powers v; v_buckets := v_buckets v; v_total := v_total v;
       v_changes := al_set N.eqb id (fst cur, snd cur - amount) (v_changes v) |}
  end.
Definition vpr_add (id addr : N) (amount : Z) (v : vprt) : vprt :=
  if amount =? 0 then v else
    let cur := match al_get N.eqb id (v_changes v) with Some (a, x) => (a, x) | None => (addr, 0) end in
    {| v_powers := v_powers v; v_buckets := v_buckets v; v_total := v_total v;
       v_changes := al_set N.eqb id (fst cur, snd cur + amount) (v_changes v) |}.

(** one iteration of the loop in vpr.apply for the entry (id, (addr, delta)), delta <> 0;
    returns the new table and the bucket index that has to be written *)
Definition vpr_apply_one (ch : N * (N * Z)) (v : vprt) : vprt * N :=
  let '(id, (addr, delta)) := ch in
  let e : vp :=
    match al_get N.eqb id (v_powers v) with
    | Some (a, p) => (id, (a, p + delta))
    | None => (id, (addr, delta))
    end in
  let powers' :=
    match al_get N.eqb id (v_powers v) with
    | Some _ => if snd (snd e) =? 0 then al_del N.eqb id (v_powers v) else al_set N.eqb id (snd e) (v_powers v)
    | None => al_set N.eqb id (snd e) (v_powers v)
    end in
  ({| v_powers := powers'; v_buckets := store_update e (v_buckets v);
      v_total := v_total v + delta; v_changes := al_del N.eqb id (v_changes v) |}, bucket_of id).

Fixpoint vpr_apply_list (chs : list (N * (N * Z))) (v : vprt) (rows : list N) : vprt * list N :=
  match chs with
  | [] => (v, rows)
  | ch :: r =>
    if snd (snd ch) =? 0 then vpr_apply_list r v rows
    else let '(v', i) := vpr_apply_one ch v in vpr_apply_list r v' (i :: rows)
  end.

(** vprStore.write: the power is stored as big.Int.Bytes() *)
Definition bucket_disk (l : list vp) : list vp := map (fun e => (fst e, (fst (snd e), Z.abs (snd (snd e))))) l.

Definition write_rows (rows : list N) (b : list (N * list vp)) (disk : list (N * list vp)) : list (N * list vp) :=
  fold_left (fun dk i => al_set N.eqb i (bucket_disk (get_bucket i b)) dk) rows disk.

(** vpr.apply(s): iterate [changes] in the given order *)
Definition vpr_apply (order : list (N * (N * Z))) (v : vprt) (disk : list (N * list vp)) : vprt * list (N * list vp) :=
  let '(v', rows) := vpr_apply_list order v [] in
  (v', write_rows rows (v_buckets v') disk).

(** loadVpr *)
Definition vpr_empty : vprt := {| v_powers := []; v_buckets := []; v_total := 0; v_changes := [] |}.
Definition load_bucket (v : vprt) (ib : N * list vp) : vprt :=
  fold_left (fun v e =>
    {| v_powers := (match al_get N.eqb (fst e) (v_powers v) with
                    | Some _ => v_powers v   (* duplicate id in storage: kept as first seen *)
                    | None => al_set N.eqb (fst e) (snd e) (v_powers v) end);
       v_buckets := al_set N.eqb (fst ib) (get_bucket (fst ib) (v_buckets v) ++ [e]) (v_buckets v);
       v_total := v_total v + snd (snd e); v_changes := [] |}) (snd ib) v.
Definition bucket_indices : list N := map N.of_nat (seq 0 71).
Definition load_vpr (disk : list (N * list vp)) : vprt :=
  fold_left (fun v i => load_bucket v (i, get_bucket i disk)) bucket_indices vpr_empty.

(** canonical view used to compare memory with a reload: non-empty buckets in index order,
    powers sorted by id, total *)
Definition buckets_view (b : list (N * list vp)) : list (N * list vp) :=
  filter (fun ib => negb (match snd ib with [] => true | _ => false end))
         (map (fun i => (i, get_bucket i b)) bucket_indices).

(** pickVotingRewardWinner for the random draw r (0 <= r < total): buckets 0..70 in order *)
Fixpoint pick_in (r : Z) (l : list vp) : Z + N :=
  match l with
  | [] => inl r
  | e :: rest => let r' := r - snd (snd e) in if r' <? 0 then inr (fst (snd e)) else pick_in r' rest
  end.
Fixpoint pick_buckets (r : Z) (bs : list (list vp)) : option N :=
  match bs with
  | [] => None
  | l :: rest => match pick_in r l with inr a => Some a | inl r' => pick_buckets r' rest end
  end.
Definition pick_winner (r : Z) (v : vprt) : option N :=
  if v_total v =? 0 then None else pick_buckets r (map (fun i => get_bucket i (v_buckets v)) bucket_indices).

(* ------------------------------------------------------------------ vote result *)
(** SubVote / AddVote on the rmap (association list keyed by candidate).
    Sub of a candidate that is not in the map dereferences a nil *big.Int: panic. *)
Fixpoint rmap_sub (cs : list cand) (a : Z) (m : list (cand * Z)) : option (list (cand * Z)) :=
  match cs with
  | [] => Some m
  | c :: r =>
    match al_get cand_eqb c m with
    | None => None
    | Some x => rmap_sub r a (al_set cand_eqb c (x - a) m)
    end
  end.
Fixpoint rmap_add (cs : list cand) (a : Z) (m : list (cand * Z)) : list (cand * Z) :=
  match cs with
  | [] => m
  | c :: r =>
    let x := match al_get cand_eqb c m with Some x => x | None => 0 end in
    rmap_add r a (al_set cand_eqb c (x + a) m)
  end.

(** strconv of big.Int.SetString(s, 10): optional sign, at least one digit *)
Fixpoint parse_digits (l : list N) (acc : Z) : option Z :=
  match l with
  | [] => Some acc
  | d :: r => if (N.leb 48 d && N.leb d 57)%bool then parse_digits r (acc * 10 + (Z.of_N d - 48)) else None
  end.
Definition parse_dec (s : cand) : option Z :=
  match s with
  | [] => None
  | 43%N :: (_ :: _) as r => parse_digits r 0
  | 45%N :: (_ :: _) as r => option_map Z.opp (parse_digits r 0)
  | _ => parse_digits s 0
  end.

(** validateById *)
Definition validate_by_id (issue : N) (v : Z) : bool :=
  if v <=? 0 then false            (* candidate.Sign() <= 0 *)
  else if N.eqb issue 1 then negb (100 <? v)
  else negb (MaxAER <? v).

(** VoteResult.threshold (a tally below 100 aer has no hundredth: false).  big.Int.Div is
    Euclidean.  The option is kept for the shape of [sync]; it is always [Some]. *)
Definition threshold (total power : Z) : option bool :=
  if power =? 0 then Some false
  else let q := power / 100 in
       if q =? 0 then Some false else Some (total / q <=? 150).

(** [SyncPanic]: Sync does not complete — a Go panic, or the error "abnormal winner" — after
    vpr.apply already changed the process-wide rank: the tx fails (reported as [EPanic] = "failed
    after touching the globals"), the memory keeps the change *)
Inductive sync_res := SyncOk (d : durable) (m : memory) | SyncPanic (m : memory).

(** VoteResult.Sync for the issue whose rmap (and ex total) is given *)
Definition sync (c : cfg) (issue : N) (rmap : list (cand * Z)) (extotal : Z) (d : durable) (m : memory) : sync_res :=
  let '(v', disk') := vpr_apply (v_changes (m_vpr m)) (m_vpr m) (d_vpr d) in
  let m1 := set_mvpr v' m in
  let d1 := set_dvpr disk' d in
  let l := build_vote_list (c_fixed c) rmap in
  let d2 := set_results (al_set N.eqb issue l (d_results d1)) d1 in
  if is_ex issue then
    match l with
    | [] => SyncPanic m1                                 (* resultList.Votes[0] *)
    | (topc, topa) :: _ =>
      match threshold (d_total d2) topa with
      | None => SyncPanic m1
      | Some th =>
        if th then
          (* the winner is parsed again, base 10 (voteresult.go:116); the string was validated by
             ValidateSystemTx when it was cast — if the two parsers disagree Sync returns
             "abnormal winner" AFTER vpr.apply: the tx fails with the rank change left in memory *)
          match parse_dec topc with
          | Some value =>
            let d3 := set_params (al_set N.eqb (issue - 1)%N (Z.abs value) (d_params d2)) d2 in
            let m3 := set_pnext (al_set N.eqb (issue - 1)%N value (m_pnext m1)) m1 in
            SyncOk (set_vtotals (al_set N.eqb issue (Z.abs extotal) (d_vtotals d3)) d3) m3
          | None => SyncPanic m1
          end
        else SyncOk (set_vtotals (al_set N.eqb issue (Z.abs extotal) (d_vtotals d2)) d2) m1
      end
    end
  else SyncOk d2 m1.

(** cmd.sub / cmd.add of vprCmd: vpr first (version >= 2), then the vote result *)
Definition acct_id (c : cfg) (a : N) : N := nth (N.to_nat a) (c_ids c) 0%N.

Definition vcmd_sub (c : cfg) (who : N) (old : option vote) (rmap : list (cand * Z)) (ext : Z) (m : memory)
  : option (list (cand * Z) * Z * memory) :=
  let oa := match old with Some o => vt_amount o | None => 0 end in
  let oc := match old with Some o => vt_cands o | None => [] end in
  let m' := if c_ver c <? 2 then m else set_mvpr (vpr_sub (acct_id c who) who oa (m_vpr m)) m in
  match rmap_sub oc oa rmap with
  | None => None
  | Some r => Some (r, ext - oa, m')
  end.

Definition vcmd_add (c : cfg) (who : N) (nv : vote) (rmap : list (cand * Z)) (ext : Z) (m : memory)
  : list (cand * Z) * Z * memory :=
  let m' := if c_ver c <? 2 then m else set_mvpr (vpr_add (acct_id c who) who (vt_amount nv) (m_vpr m)) m in
  (rmap_add (vt_cands nv) (vt_amount nv) rmap, ext + vt_amount nv, m').

(* ------------------------------------------------------------------ transactions *)
Inductive tx :=
| TStake (who : N) (amt : Z)
| TUnstake (who : N) (amt : Z)
| TVoteBP (who : N) (cands : list cand)
| TVoteDAO (who : N) (issue : option N) (vals : list cand).   (* None = invalid id *)

(** result of running a command: error class, durable state (meaningful only for EOk — the
    caller stages nothing on error), memory (always kept) *)
Definition res := (err * durable * memory)%type.

Definition exec_stake (c : cfg) (no : Z) (d : durable) (m : memory) (who : N) (amt : Z) : res :=
  if bal_of d who <? amt then (EInsufficient, d, m) else
  let s := get_stake d who in
  if stake_present d who && (no <? st_when s + StakingDelay) then (ELessTime, d, m) else
  if st_amount s + amt <? staking_min c m then (ETooSmall, d, m) else
  let s' := {| st_amount := Z.abs (st_amount s + amt); st_when := no |} in
  let d1 := set_stakes (al_set N.eqb who s' (d_stakes d)) d in
  let d2 := set_total (Z.abs (d_total d1 + amt)) d1 in
  (* SendBalance(sender, receiver, amount) *)
  let d3 := set_sysbal (d_sysbal d2 + amt) (set_bal (al_set N.eqb who (Z.abs (bal_of d2 who - amt)) (d_bal d2)) d2) in
  (EOk, d3, m).

(** setVote: a BP ballot is stored as candidates ++ amount bytes; with no candidate and amount 0
    that is the empty string, which getVote reads as "no record" *)
Definition vote_stored_empty (issue : N) (v : vote) : bool :=
  negb (is_ex issue) && (match vt_cands v with [] => true | _ :: _ => false end) && (vt_amount v =? 0).
Definition put_vote (issue who : N) (v : vote) (votes : list (vkey * vote)) : list (vkey * vote) :=
  if vote_stored_empty issue v then al_del vkey_eqb (issue, who) votes else al_set vkey_eqb (issue, who) v votes.

(** one iteration of refreshAllVote *)
Definition refresh_one (c : cfg) (who : N) (staked : Z) (issue : N) (acc : res) : res :=
  let '(e, d, m) := acc in
  match e with
  | EOk =>
    match get_vote d issue who with
    | None => acc
    | Some old =>
      if vt_amount old <=? staked then acc else
      match vcmd_sub c who (Some old) (get_result d issue) (getZ issue (d_vtotals d)) m with
      | None => (EPanic, d, m)
      | Some (r1, t1, m1) =>
        let nv := {| vt_cands := vt_cands old; vt_amount := staked |} in
        let d1 := set_votes (put_vote issue who nv (d_votes d)) d in
        let '(r2, t2, m2) := vcmd_add c who nv r1 t1 m1 in
        match sync c issue r2 t2 d1 m2 with
        | SyncOk d' m' => (EOk, d', m')
        | SyncPanic m' => (EPanic, d, m')
        end
      end
    end
  | _ => acc
  end.

Definition exec_unstake (c : cfg) (no : Z) (d : durable) (m : memory) (who : N) (amt : Z) : res :=
  let s := get_stake d who in
  if st_amount s =? 0 then (EMustStakeUnstake, d, m) else
  if st_amount s <? amt then (EExceed, d, m) else
  if no <? st_when s + StakingDelay then (ELessTime, d, m) else
  let tobe := st_amount s - amt in
  if negb (tobe =? 0) && (tobe <? staking_min c m) then (ETooSmall, d, m) else
  let adj := if st_amount s <? amt then st_amount s else amt in
  let s' := {| st_amount := Z.abs (st_amount s - adj); st_when := no |} in
  let d1 := set_stakes (al_set N.eqb who s' (d_stakes d)) d in
  let '(e, d2, m2) := fold_left (fun acc issue => refresh_one c who (st_amount s') issue acc) catalog (EOk, d1, m) in
  match e with
  | EOk =>
    let d3 := set_total (Z.abs (d_total d2 - adj)) d2 in
    if d_sysbal d3 <? adj then (EInsufficient, d, m2) else
    let d4 := set_sysbal (d_sysbal d3 - adj) (set_bal (al_set N.eqb who (bal_of d3 who + adj) (d_bal d3)) d3) in
    (EOk, d4, m2)
  | _ => (e, d, m2)
  end.

(** voteCmd.run for issue [issue] with the new candidate list *)
Definition exec_vote (c : cfg) (no : Z) (d : durable) (m : memory) (who issue : N) (cands : list cand) : res :=
  let s := get_stake d who in
  if st_amount s =? 0 then (EMustStakeVote, d, m) else
  let old := get_vote d issue who in
  if (match old with Some _ => true | None => false end) && (no <? st_when s + VotingDelay) then (ELessTime, d, m) else
  if is_ex issue && (match cands with [] => true | _ => false end) then (EPanic, d, m) else  (* ctx.Call.Args[1] *)
  let s' := {| st_amount := st_amount s; st_when := no |} in
  let nv := {| vt_cands := cands; vt_amount := st_amount s |} in
  let d1 := set_stakes (al_set N.eqb who s' (d_stakes d)) d in
  let d2 := set_votes (put_vote issue who nv (d_votes d1)) d1 in
  match vcmd_sub c who old (get_result d issue) (getZ issue (d_vtotals d)) m with
  | None => (EPanic, d, m)
  | Some (r1, t1, m1) =>
    let '(r2, t2, m2) := vcmd_add c who nv r1 t1 m1 in
    match sync c issue r2 t2 d2 m2 with
    | SyncOk d' m' => (EOk, d', m')
    | SyncPanic m' => (EPanic, d, m')
    end
  end.

Fixpoint all_valid_cands (issue : N) (vals : list cand) : option err :=
  match vals with
  | [] => None
  | v :: r =>
    match parse_dec v with
    | None => Some EInvalidCand
    | Some z => if validate_by_id issue z then all_valid_cands issue r else Some EInvalidCand
    end
  end.

Definition exec_tx (c : cfg) (no : Z) (d : durable) (m : memory) (t : tx) : res :=
  match t with
  | TStake who amt => exec_stake c no d m who amt
  | TUnstake who amt => exec_unstake c no d m who amt
  | TVoteBP who cands => exec_vote c no d m who 0%N cands
  | TVoteDAO who oi vals =>
    if c_ver c <? 2 then (ENotSupported, d, m) else
    if (match vals with [] => true | _ :: _ => false end) then (ETooFew, d, m) else   (* len(ci.Args) < 2 *)
    match oi with
    | None => (EInvalidId, d, m)
    | Some issue =>
      if (1 <? Z.of_nat (length vals)) then (ETooMany, d, m) else
      match all_valid_cands issue vals with
      | Some e => (e, d, m)
      | None => exec_vote c no d m who issue vals
      end
    end
  end.

(** what chain.executeTx keeps: the durable state only on success *)
Definition apply_tx (c : cfg) (no : Z) (d : durable) (m : memory) (t : tx) : err * durable * memory :=
  let '(e, d', m') := exec_tx c no d m t in
  match e with EOk => (EOk, d', m') | _ => (e, d, m') end.

(** CommitParams(true) when a block is connected *)
Definition commit_params (m : memory) : memory :=
  let step (m : memory) (p : N) :=
    match al_get N.eqb p (m_pnext m) with
    | Some v => set_pnext (al_del N.eqb p (m_pnext m)) (set_pcur (al_set N.eqb p v (m_pcur m)) m)
    | None => m
    end in
  fold_left step [0; 1; 2; 3]%N m.

(** InitSystemParams + InitVotingPowerRank from the committed state (node restart) *)
Definition load_params (c : cfg) (d : durable) : list (N * Z) :=
  map (fun p => (p, match al_get N.eqb p (d_params d) with Some v => v | None => getZ p (c_defaults c) end)) [0; 1; 2; 3]%N.
Definition reload (c : cfg) (d : durable) : memory :=
  {| m_pcur := load_params c d; m_pnext := []; m_vpr := load_vpr (d_vpr d) |}.

(** a plain TRANSFER credited to aergo.system by the block executor (F19) *)
Definition donate (d : durable) (from : N) (amt : Z) : durable :=
  if bal_of d from <? amt then d
  else set_sysbal (d_sysbal d + amt) (set_bal (al_set N.eqb from (bal_of d from - amt) (d_bal d)) d).

(* ------------------------------------------------------------------ scenario runner *)
Inductive op :=
| OTx (t : tx)
| OGhost (t : tx)          (* executed on a throw-away block state: only memory survives *)
| OBlock (next_no : Z)     (* block connected; next transactions run at [next_no] *)
| OReload.

Record gstate := { g_no : Z; g_d : durable; g_m : memory }.

Definition step (c : cfg) (g : gstate) (o : op) : err * gstate :=
  match o with
  | OTx t => let '(e, d, m) := apply_tx c (g_no g) (g_d g) (g_m g) t in (e, {| g_no := g_no g; g_d := d; g_m := m |})
  | OGhost t => let '(e, _, m) := apply_tx c (g_no g) (g_d g) (g_m g) t in (e, {| g_no := g_no g; g_d := g_d g; g_m := m |})
  | OBlock n => (EOk, {| g_no := n; g_d := g_d g; g_m := commit_params (g_m g) |})
  | OReload => (EOk, {| g_no := g_no g; g_d := g_d g; g_m := reload c (g_d g) |})
  end.

(** Gov/Names.v — executable model of the name registry (contract/name/{name,execute}.go):
    create for the price when free, update by the owner (or by a transaction whose account
    field is the name itself), payment to the aergo.name account.  No proofs here.

    Names are indices of their lower-cased spelling (dbkey.Name lower-cases); accounts are
    indices.  [n_init] is the registry as of the last block boundary: UpdateName tests the
    existence of the name with GetInitialData, i.e. against the committed state, while
    ValidateNameTx reads the staged state.  v1setOwner (F18, property C01) is not modelled:
    the receiver of the payment is always the aergo.name account.  Destinations are plain
    accounts (no contract creator metadata). *)
From Coq Require Import ZArith NArith List Bool.
From Verif Require Import Gov.Model.
Import ListNotations.
Open Scope Z_scope.

Record nstate := {
  n_bal : list (N * Z);
  n_namebal : Z;                          (* balance of aergo.name *)
  n_cur : list (N * (N * N));             (* name -> (owner, destination), staged *)
  n_init : list (N * (N * N));            (* as of the last block boundary *)
}.

Inductive nacct := AAddr (a : N) | AName (k : N).     (* TxBody.Account: an address or a name *)

Inductive nop :=
| NCreate (sender : N) (name : N) (amt : Z)
| NUpdate (sender : N) (acct : nacct) (name : N) (dest : N) (amt : Z)
| NBlock.

Inductive nerr := NOk | NInsufficient | NTooSmall | NOccupied | NNotOwner | NNotCreated.

Definition nerr_eqb (a b : nerr) : bool :=
  match a, b with
  | NOk, NOk | NInsufficient, NInsufficient | NTooSmall, NTooSmall | NOccupied, NOccupied
  | NNotOwner, NNotOwner | NNotCreated, NNotCreated => true
  | _, _ => false
  end.

Definition nbal (s : nstate) (a : N) : Z := getZ a (n_bal s).

Definition pay (s : nstate) (from : N) (amt : Z) : nstate :=
  {| n_bal := al_set N.eqb from (Z.abs (nbal s from - amt)) (n_bal s); n_namebal := n_namebal s + amt;
     n_cur := n_cur s; n_init := n_init s |}.

Definition set_name (s : nstate) (k owner dest : N) : nstate :=
  {| n_bal := n_bal s; n_namebal := n_namebal s; n_cur := al_set N.eqb k (owner, dest) (n_cur s); n_init := n_init s |}.

Definition acct_is (a : nacct) (name : N) (owner : option N) : bool :=
  match a with
  | AName k => N.eqb k name
  | AAddr x => match owner with Some o => N.eqb x o | None => false end
  end.

Definition nstep (price : Z) (s : nstate) (o : nop) : nerr * nstate :=
  match o with
  | NCreate sender name amt =>
    if nbal s sender <? amt then (NInsufficient, s)
    else if amt <? price then (NTooSmall, s)
    else match al_get N.eqb name (n_cur s) with
         | Some _ => (NOccupied, s)
         | None => (NOk, set_name (pay s sender amt) name sender sender)
         end
  | NUpdate sender acct name dest amt =>
    if nbal s sender <? amt then (NInsufficient, s)
    else if amt <? price then (NTooSmall, s)
    else if negb (acct_is acct name (option_map fst (al_get N.eqb name (n_cur s)))) then (NNotOwner, s)
    else match al_get N.eqb name (n_init s) with
         | None => (NNotCreated, s)
         | Some _ => (NOk, set_name (pay s sender amt) name dest dest)
         end
  | NBlock => (NOk, {| n_bal := n_bal s; n_namebal := n_namebal s; n_cur := n_cur s; n_init := n_cur s |})
  end.

(** observation: (error, balances, aergo.name balance, (owner,destination) of every name) *)
Definition nobs := (nerr * list Z * Z * list (option (N * N)))%type.

Definition opt_nn_eqb (a b : option (N * N)) : bool :=
  match a, b with
  | Some (x, y), Some (u, v) => N.eqb x u && N.eqb y v
  | None, None => true
  | _, _ => false
  end.

Fixpoint zlist_eqb (a b : list Z) : bool :=
  match a, b with
  | [], [] => true
  | x :: a', y :: b' => (x =? y) && zlist_eqb a' b'
  | _, _ => false
  end.
Fixpoint olist_eqb (a b : list (option (N * N))) : bool :=
  match a, b with
  | [], [] => true
  | x :: a', y :: b' => opt_nn_eqb x y && olist_eqb a' b'
  | _, _ => false
  end.

Definition nobs_ok (nacc nnames : nat) (e : nerr) (s : nstate) (o : nobs) : bool :=
  let '(oe, obal, onb, onames) := o in
  nerr_eqb e oe
  && zlist_eqb (map (fun i => nbal s (N.of_nat i)) (seq 0 nacc)) obal
  && (n_namebal s =? onb)
  && olist_eqb (map (fun k => al_get N.eqb (N.of_nat k) (n_cur s)) (seq 0 nnames)) onames.

Fixpoint nrun_check (price : Z) (nacc nnames : nat) (s : nstate) (ops : list (nop * nobs)) (i : nat) : list nat :=
  match ops with
  | [] => []
  | (o, ob) :: r =>
    let '(e, s') := nstep price s o in
    if nobs_ok nacc nnames e s' ob then nrun_check price nacc nnames s' r (S i) else [i]
  end.

Definition nscenario := (Z * (nat * nat) * nstate * list (nop * nobs))%type.
Fixpoint nscenarios_bad (l : list nscenario) (i : nat) : list (nat * nat) :=
  match l with
  | [] => []
  | (price, (nacc, nnames), s, ops) :: r =>
    match nrun_check price nacc nnames s ops 0 with
    | [] => nscenarios_bad r (S i)
    | k :: _ => (i, k) :: nscenarios_bad r (S i)
    end
  end.

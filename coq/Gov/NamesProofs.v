(** Gov/NamesProofs.v — name registry: one owner per name, created only for the price when
    free, changed only by the owner, rejected transactions change nothing, money conserved. *)
From Coq Require Import ZArith NArith List Bool Lia.
From Verif Require Import Gov.Model Gov.AList Gov.Names.
Import ListNotations.
Open Scope Z_scope.

Definition owner_of (s : nstate) (k : N) : option N := option_map fst (al_get N.eqb k (n_cur s)).

(** a name is bound to at most one (owner, destination): the registry is a function *)
Theorem name_one_owner s k o1 d1 o2 d2 :
  al_get N.eqb k (n_cur s) = Some (o1, d1) -> al_get N.eqb k (n_cur s) = Some (o2, d2) -> o1 = o2 /\ d1 = d2.
Proof. intros H1 H2. rewrite H1 in H2. injection H2 as -> ->. auto. Qed.

(** and the stored registry never holds two entries for one name *)
Theorem registry_nodup price s o e s' :
  NoDup (map fst (n_cur s)) -> nstep price s o = (e, s') -> NoDup (map fst (n_cur s')).
Proof.
  intros ND. destruct o as [sender name amt|sender acct name dest amt|]; simpl.
  - destruct (nbal s sender <? amt); [now intros [= <- <-]|]. destruct (amt <? price); [now intros [= <- <-]|].
    destruct (al_get N.eqb name (n_cur s)); intros [= <- <-]; auto. simpl. now apply (nodup_al_set N.eqb Neqb_eq).
  - destruct (nbal s sender <? amt); [now intros [= <- <-]|]. destruct (amt <? price); [now intros [= <- <-]|].
    destruct (negb _); [now intros [= <- <-]|].
    destruct (al_get N.eqb name (n_init s)); intros [= <- <-]; auto. simpl. now apply (nodup_al_set N.eqb Neqb_eq).
  - intros [= <- <-]. exact ND.
Qed.

Theorem create_only_for_price_when_free price s sender name amt s' :
  nstep price s (NCreate sender name amt) = (NOk, s') ->
  price <= amt /\ amt <= nbal s sender /\ al_get N.eqb name (n_cur s) = None /\
  al_get N.eqb name (n_cur s') = Some (sender, sender) /\
  (forall k, k <> name -> al_get N.eqb k (n_cur s') = al_get N.eqb k (n_cur s)) /\
  n_namebal s' = n_namebal s + amt.
Proof.
  simpl. destruct (nbal s sender <? amt) eqn:E1; [discriminate|]. destruct (amt <? price) eqn:E2; [discriminate|].
  destruct (al_get N.eqb name (n_cur s)) eqn:G; [discriminate|]. intros [= <-].
  apply Z.ltb_ge in E1, E2. repeat split; auto; simpl.
  - apply (al_get_set_same N.eqb Neqb_eq).
  - intros k Hk. apply (al_get_set_other N.eqb Neqb_eq). auto.
Qed.

Theorem update_only_by_owner price s sender acct name dest amt s' :
  nstep price s (NUpdate sender acct name dest amt) = (NOk, s') ->
  price <= amt /\
  (acct = AName name \/ exists o, owner_of s name = Some o /\ acct = AAddr o) /\
  al_get N.eqb name (n_init s) <> None /\
  al_get N.eqb name (n_cur s') = Some (dest, dest) /\
  (forall k, k <> name -> al_get N.eqb k (n_cur s') = al_get N.eqb k (n_cur s)).
Proof.
  simpl. destruct (nbal s sender <? amt) eqn:E1; [discriminate|]. destruct (amt <? price) eqn:E2; [discriminate|].
  destruct (acct_is acct name _) eqn:A; [|discriminate]. simpl.
  destruct (al_get N.eqb name (n_init s)) eqn:G; [|discriminate]. intros [= <-].
  apply Z.ltb_ge in E2. repeat split; auto; simpl.
  - unfold acct_is in A. destruct acct as [x|k].
    + right. unfold owner_of. destruct (option_map fst (al_get N.eqb name (n_cur s))) as [o|]; [|discriminate].
      apply N.eqb_eq in A. subst. eauto.
    + left. apply N.eqb_eq in A. now subst.
  - discriminate.
  - apply (al_get_set_same N.eqb Neqb_eq).
  - intros k Hk. apply (al_get_set_other N.eqb Neqb_eq). auto.
Qed.

Theorem rejected_name_tx_unchanged price s o e s' : nstep price s o = (e, s') -> e <> NOk -> s' = s.
Proof.
  destruct o as [sender name amt|sender acct name dest amt|]; simpl.
  - destruct (nbal s sender <? amt); [now intros [= <- <-]|]. destruct (amt <? price); [now intros [= <- <-]|].
    destruct (al_get N.eqb name (n_cur s)); intros [= <- <-]; congruence.
  - destruct (nbal s sender <? amt); [now intros [= <- <-]|]. destruct (amt <? price); [now intros [= <- <-]|].
    destruct (negb _); [now intros [= <- <-]|].
    destruct (al_get N.eqb name (n_init s)); intros [= <- <-]; congruence.
  - intros [= <- <-]. congruence.
Qed.

Definition nsum (s : nstate) : Z := al_sumk (fun (_ : N) b => b) (n_bal s) + n_namebal s.

Theorem name_tx_conserves price s o e s' :
  (forall a, 0 <= nbal s a) -> nstep price s o = (e, s') -> nsum s' = nsum s /\ (forall a, 0 <= nbal s' a).
Proof.
  intros NN.
  assert (P : forall sender amt, amt <= nbal s sender -> forall k ow de,
             nsum (set_name (pay s sender amt) k ow de) = nsum s /\ (forall a, 0 <= nbal (set_name (pay s sender amt) k ow de) a)).
  { intros sender amt Hle k ow de. unfold nsum, nbal, set_name, pay. simpl. split.
    - rewrite (al_sumk_set N.eqb Neqb_eq). specialize (NN sender). unfold nbal, getZ in *.
      destruct (al_get N.eqb sender (n_bal s)); rewrite Z.abs_eq; lia.
    - intros a. unfold getZ. destruct (N.eq_dec a sender) as [->|Ne].
      + rewrite (al_get_set_same N.eqb Neqb_eq). lia.
      + rewrite (al_get_set_other N.eqb Neqb_eq) by auto. apply NN. }
  destruct o as [sender name amt|sender acct name dest amt|]; simpl.
  - destruct (nbal s sender <? amt) eqn:E1; [intros [= <- <-]; auto|]. destruct (amt <? price); [intros [= <- <-]; auto|].
    destruct (al_get N.eqb name (n_cur s)); intros [= <- <-]; auto. apply P. now apply Z.ltb_ge.
  - destruct (nbal s sender <? amt) eqn:E1; [intros [= <- <-]; auto|]. destruct (amt <? price); [intros [= <- <-]; auto|].
    destruct (negb _); [intros [= <- <-]; auto|].
    destruct (al_get N.eqb name (n_init s)); intros [= <- <-]; auto. apply P. now apply Z.ltb_ge.
  - intros [= <- <-]. auto.
Qed.

Example names_example :
  let s0 := {| n_bal := [(0%N, 30); (1%N, 30)]; n_namebal := 0; n_cur := []; n_init := [] |} in
  let run := fold_left (fun s o => snd (nstep 10 s o)) [NCreate 0%N 7%N 10; NBlock; NUpdate 1%N (AAddr 1%N) 7%N 1%N 10; NUpdate 0%N (AAddr 0%N) 7%N 1%N 12] s0 in
  (n_cur run, n_namebal run, nbal run 0%N, nbal run 1%N) = ([(7%N, (1%N, 1%N))], 22, 8, 30).
Proof. reflexivity. Qed.

(** Gov/ParamProofs.v — system parameters: the in-memory value versus the stored one.
    [updateParam] stores [value.Bytes()] (sign dropped) but keeps [value] itself for the next
    block, and [validateById] accepts negative decimals: after a parameter vote for a negative
    number reaches the threshold, a node that keeps running and a node that (re)loads the
    parameter from state disagree on it. *)
From Coq Require Import ZArith NArith List Bool Lia.
From Verif Require Import Gov.Model.
Import ListNotations.
Open Scope Z_scope.

Definition pp_cfg : cfg := {| c_ver := 2; c_fixed := true; c_ids := [77%N; 99%N]; c_defaults := [(0%N, 3); (1%N, 10000); (2%N, 50); (3%N, 1)] |}.
Definition pp_g0 : gstate :=
  {| g_no := 1;
     g_d := {| d_bal := [(0%N, 90000); (1%N, 90000)]; d_sysbal := 0; d_stakes := []; d_total := 0; d_votes := []; d_results := [];
               d_vtotals := []; d_params := []; d_vpr := [] |};
     g_m := {| m_pcur := []; m_pnext := []; m_vpr := vpr_empty |} |}.

Definition pp_run (ops : list op) : gstate := fold_left (fun g o => snd (step pp_cfg g o)) ops pp_g0.

(** "-5" as the bytes of the decimal string *)
Definition minus5 : cand := [45; 53]%N.

Definition pp_history : list op :=
  [OTx (TStake 0%N 50000); OBlock 2; OTx (TVoteDAO 0%N (Some 2%N) [minus5]); OBlock 3].

(** params_mem = load_params(state) fails at a block boundary of an ordinary history *)
Theorem params_mem_equals_reload_refuted :
  exists c (g : gstate),
    get_param c (g_m g) 1%N <> get_param c (reload c (g_d g)) 1%N.
Proof. exists pp_cfg, (pp_run pp_history). vm_compute. discriminate. Qed.

(** and the two nodes then decide the same transaction differently *)
Theorem restart_changes_validation_refuted :
  exists c (g : gstate) t,
    fst (fst (apply_tx c (g_no g) (g_d g) (g_m g) t)) = EOk /\
    fst (fst (apply_tx c (g_no g) (g_d g) (reload c (g_d g)) t)) = ETooSmall.
Proof. exists pp_cfg, (pp_run pp_history), (TStake 1%N 3). vm_compute. split; reflexivity. Qed.

(** for candidates that are positive the stored and the in-memory value agree *)
Theorem positive_param_no_sign_loss v : 0 < v -> Z.abs v = v.
Proof. intros. apply Z.abs_eq. lia. Qed.

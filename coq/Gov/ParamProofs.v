(** Gov/ParamProofs.v — system parameters: the in-memory value versus the stored one.
    [updateParam] stores [value.Bytes()] (sign dropped) and keeps [value] itself for the next
    block; since 0d636195 [validateById] only accepts positive values, so the two agree.
    (Before that commit a parameter vote for "-5" that reached the threshold left -5 in the
    memory of the running nodes and 5 in the state: witness in notes/g8-gov.md.) *)
From Coq Require Import ZArith NArith List Bool Lia.
From Verif Require Import Gov.Model.
Import ListNotations.
Open Scope Z_scope.

Theorem accepted_param_candidate_positive issue v : validate_by_id issue v = true -> 0 < v.
Proof. unfold validate_by_id. destruct (Z.leb_spec v 0); [discriminate | auto]. Qed.

(** every candidate of an accepted parameter ballot is a positive number: what updateParam
    stores ([Z.abs]) is what it keeps in memory *)
Theorem param_vote_no_sign_loss issue : forall vals,
  all_valid_cands issue vals = None ->
  forall s, In s vals -> exists z, parse_dec s = Some z /\ 0 < z /\ Z.abs z = z.
Proof.
  induction vals as [|v r IH]; simpl; intros H s Hs; [tauto|].
  destruct (parse_dec v) as [z|] eqn:P; [|discriminate].
  destruct (validate_by_id issue z) eqn:V; [|discriminate].
  destruct Hs as [<-|Hs].
  - exists z. pose proof (accepted_param_candidate_positive _ _ V). repeat split; auto. apply Z.abs_eq. lia.
  - now apply IH.
Qed.

(** threshold never fails *)
Theorem threshold_total total power : threshold total power <> None.
Proof. unfold threshold. destruct (power =? 0); [discriminate|]. destruct (power / 100 =? 0); discriminate. Qed.

Example param_example : all_valid_cands 2%N [[49; 51]%N] = None /\ all_valid_cands 2%N [[45; 53]%N] = Some EInvalidCand.
Proof. split; reflexivity. Qed.

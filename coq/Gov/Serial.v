(** Gov/Serial.v — the stored form of the BP vote list (contract/system/vote.go
    serializeVoteList / deserializeVoteList / serializeVote / deserializeVote, non-"ex" form):
    every entry is an 8-byte little-endian length followed by candidate ++ amount bytes, and an
    entry is split again at [len - len mod 39].  Round trip for 39-byte candidates and amounts
    shorter than 39 bytes (an amount is at most 500 000 000 aergo < 2^96: 12 bytes). *)
From Coq Require Import NArith List Bool Lia Arith.
Import ListNotations.

Definition byte := N.

(** binary.LittleEndian.PutUint64 / Uint64 *)
Fixpoint enc_le (k : nat) (n : N) : list byte :=
  match k with O => [] | S k' => (n mod 256)%N :: enc_le k' (n / 256)%N end.
Fixpoint dec_le (l : list byte) : N :=
  match l with [] => 0%N | b :: r => (b + 256 * dec_le r)%N end.

Lemma enc_le_length k n : length (enc_le k n) = k.
Proof. revert n. induction k; simpl; auto. Qed.

Lemma dec_enc_le k : forall n, (n < 256 ^ N.of_nat k)%N -> dec_le (enc_le k n) = n.
Proof.
  induction k as [|k IH]; intros n H.
  - simpl in *. lia.
  - cbn [enc_le dec_le]. rewrite IH.
    + pose proof (N.div_mod n 256). lia.
    + rewrite Nat2N.inj_succ, N.pow_succ_r' in H. apply N.div_lt_upper_bound; lia.
Qed.

Definition le64 (n : nat) : list byte := enc_le 8 (N.of_nat n).
Definition un_le64 (l : list byte) : nat := N.to_nat (dec_le (firstn 8 l)).

Lemma un_le64_le64 n rest : (N.of_nat n < 2 ^ 64)%N -> un_le64 (le64 n ++ rest) = n.
Proof.
  intros H. unfold un_le64, le64. rewrite firstn_app, enc_le_length, Nat.sub_diag. simpl firstn at 2.
  rewrite app_nil_r, firstn_all2 by (rewrite enc_le_length; lia).
  rewrite dec_enc_le; [apply Nat2N.id|]. change (256 ^ N.of_nat 8)%N with (2 ^ 64)%N. exact H.
Qed.

Definition entry := (list byte * list byte)%type.     (* candidate bytes, amount bytes *)
Definition PeerIDLength : nat := 39.

Definition ser_vote (e : entry) : list byte := fst e ++ snd e.
Definition deser_vote (data : list byte) : entry :=
  let pos := length data mod PeerIDLength in
  (firstn (length data - pos) data, skipn (length data - pos) data).

Definition ser_list (l : list entry) : list byte :=
  flat_map (fun e => le64 (length (ser_vote e)) ++ ser_vote e) l.

Fixpoint deser_list (fuel : nat) (data : list byte) : list entry :=
  match fuel with
  | O => []
  | S f =>
    match data with
    | [] => []
    | _ =>
      let size := un_le64 data in
      deser_vote (firstn size (skipn 8 data)) :: deser_list f (skipn (8 + size) data)
    end
  end.

Definition entry_wf (e : entry) : Prop := length (fst e) = PeerIDLength /\ length (snd e) < PeerIDLength.

Lemma deser_ser_vote e : entry_wf e -> deser_vote (ser_vote e) = e.
Proof.
  destruct e as [c a]. unfold entry_wf, deser_vote, ser_vote. cbn [fst snd]. intros [Hc Ha].
  rewrite app_length, Hc.
  replace ((PeerIDLength + length a) mod PeerIDLength) with (length a).
  - replace (PeerIDLength + length a - length a) with (length c) by lia.
    rewrite firstn_app, Nat.sub_diag, firstn_all. cbn [firstn]. rewrite app_nil_r.
    rewrite skipn_app, Nat.sub_diag, skipn_all. reflexivity.
  - rewrite Nat.add_comm. rewrite <- (Nat.mul_1_l PeerIDLength) at 1.
    rewrite Nat.mod_add by (unfold PeerIDLength; lia). symmetry. apply Nat.mod_small. exact Ha.
Qed.

Lemma ser_list_cons e l : ser_list (e :: l) = le64 (length (ser_vote e)) ++ ser_vote e ++ ser_list l.
Proof. unfold ser_list. cbn [flat_map]. now rewrite <- app_assoc. Qed.

Lemma le64_length n : length (le64 n) = 8.
Proof. apply enc_le_length. Qed.

(** deserializeVoteList (serializeVoteList l) = l *)
Theorem vote_list_round_trip l :
  Forall entry_wf l -> forall fuel, length (ser_list l) <= fuel -> deser_list fuel (ser_list l) = l.
Proof.
  induction l as [|e l IH]; intros F fuel Hf.
  - destruct fuel; reflexivity.
  - inversion F as [|? ? We F']; subst.
    assert (Hlen : length (ser_vote e) < 78).
    { destruct e as [c a]. unfold ser_vote, entry_wf, PeerIDLength in *. cbn [fst snd] in *. rewrite app_length. lia. }
    rewrite ser_list_cons in *.
    rewrite !app_length, le64_length in Hf.
    destruct fuel as [|fuel]; [lia|].
    cbn [deser_list].
    destruct (le64 (length (ser_vote e)) ++ ser_vote e ++ ser_list l) as [|b rest] eqn:E.
    { exfalso. apply (f_equal (@length _)) in E. rewrite !app_length, le64_length in E. simpl in E. lia. }
    rewrite <- E.
    rewrite un_le64_le64 by (apply N.lt_trans with (m := 78%N); [lia | reflexivity]).
    rewrite skipn_app, le64_length, Nat.sub_diag, skipn_all2 by (rewrite le64_length; lia).
    cbn [skipn app].
    rewrite firstn_app, Nat.sub_diag, firstn_all. cbn [firstn]. rewrite app_nil_r.
    rewrite deser_ser_vote by exact We. f_equal.
    replace (8 + length (ser_vote e)) with (length (le64 (length (ser_vote e)) ++ ser_vote e)) by (rewrite app_length, le64_length; lia).
    rewrite app_assoc, skipn_app, Nat.sub_diag, skipn_all. cbn [skipn app].
    apply IH; auto. lia.
Qed.

Example round_trip_example :
  let c1 := repeat 7%N 39 in let c2 := repeat 9%N 39 in
  let l := [(c1, [1; 2; 3]%N); (c2, []); (c1, [255]%N)] in
  deser_list (length (ser_list l)) (ser_list l) = l.
Proof. vm_compute. reflexivity. Qed.

(** Gov/Tally.v — the vote-result map: AddVote/SubVote arithmetic and what the stored
    (sorted, sign-dropped) list says about every candidate. *)
From Coq Require Import ZArith NArith List Bool Permutation Lia.
From Verif Require Import Gov.Model Gov.AList Determ.Sorting.
Import ListNotations.
Open Scope Z_scope.

Definition tally_get (l : list (cand * Z)) (c : cand) : Z :=
  match al_get cand_eqb c l with Some x => x | None => 0 end.

Fixpoint countZ (c : cand) (cs : list cand) : Z :=
  match cs with
  | [] => 0
  | x :: r => (if cand_eqb c x then 1 else 0) + countZ c r
  end.

Lemma countZ_nonneg c cs : 0 <= countZ c cs.
Proof. induction cs; simpl; [lia|]. destruct (cand_eqb c a); lia. Qed.

Lemma tally_get_set c x m c' :
  tally_get (al_set cand_eqb c x m) c' = if cand_eqb c' c then x else tally_get m c'.
Proof.
  unfold tally_get. destruct (cand_eqb c' c) eqn:E.
  - apply cand_eqb_eq in E; subst. now rewrite (al_get_set_same cand_eqb cand_eqb_eq).
  - rewrite (al_get_set_other cand_eqb cand_eqb_eq); auto.
    intros ->. rewrite (eqb_refl cand_eqb cand_eqb_eq) in E. discriminate.
Qed.

Lemma rmap_add_get cs a : forall m c,
  tally_get (rmap_add cs a m) c = tally_get m c + countZ c cs * a.
Proof.
  induction cs as [|x cs IH]; intros m c; simpl; [lia|].
  rewrite IH, tally_get_set.
  destruct (cand_eqb c x) eqn:E.
  - apply cand_eqb_eq in E; subst. unfold tally_get. destruct (al_get cand_eqb x m); lia.
  - lia.
Qed.

Lemma rmap_sub_get cs a : forall m m' c,
  rmap_sub cs a m = Some m' -> tally_get m' c = tally_get m c - countZ c cs * a.
Proof.
  induction cs as [|x cs IH]; intros m m' c; simpl.
  - intros [= <-]. lia.
  - destruct (al_get cand_eqb x m) as [y|] eqn:G; [|discriminate].
    intros H. rewrite (IH _ _ c H), tally_get_set.
    destruct (cand_eqb c x) eqn:E.
    + apply cand_eqb_eq in E; subst. unfold tally_get. rewrite G. lia.
    + lia.
Qed.

Lemma rmap_add_nodup cs a : forall m, NoDup (map fst m) -> NoDup (map fst (rmap_add cs a m)).
Proof.
  induction cs as [|x cs IH]; intros m ND; simpl; auto.
  apply IH. now apply (nodup_al_set cand_eqb cand_eqb_eq).
Qed.

Lemma rmap_sub_nodup cs a : forall m m', NoDup (map fst m) -> rmap_sub cs a m = Some m' -> NoDup (map fst m').
Proof.
  induction cs as [|x cs IH]; intros m m' ND; simpl.
  - now intros [= <-].
  - destruct (al_get cand_eqb x m); [|discriminate]. intros H. eapply IH; [|exact H].
    now apply (nodup_al_set cand_eqb cand_eqb_eq).
Qed.

(** lookup is invariant under permutation when the keys are distinct *)
Lemma tally_get_perm l l' c : NoDup (map fst l) -> Permutation l l' -> tally_get l c = tally_get l' c.
Proof.
  intros ND P. unfold tally_get.
  assert (ND' : NoDup (map fst l')) by (eapply Permutation_NoDup; [apply Permutation_map; exact P | exact ND]).
  destruct (al_get cand_eqb c l) as [x|] eqn:G.
  - apply (al_get_in cand_eqb cand_eqb_eq) in G.
    rewrite (in_al_get cand_eqb cand_eqb_eq c x l' ND'); auto. eapply Permutation_in; eauto.
  - apply (al_get_none cand_eqb cand_eqb_eq) in G.
    assert (G' : ~ In c (map fst l')).
    { intros H. apply G. eapply Permutation_in; [symmetry; apply Permutation_map; exact P | exact H]. }
    apply (al_get_none cand_eqb cand_eqb_eq) in G'. now rewrite G'.
Qed.

Definition abs_entry (e : cand * Z) : cand * Z := let '(c, a) := e in (c, Z.abs a).

Lemma map_fst_abs l : map fst (map abs_entry l) = map fst l.
Proof. induction l as [|[c a] l IH]; simpl; congruence. Qed.

Lemma tally_get_abs l c : tally_get (map abs_entry l) c = Z.abs (tally_get l c).
Proof.
  unfold tally_get. induction l as [|[c' a] l IH]; simpl; auto.
  destruct (cand_eqb c c'); auto.
Qed.

Lemma build_vote_list_perm fx rmap : Permutation (map abs_entry rmap) (build_vote_list fx rmap).
Proof. unfold build_vote_list. apply isort_perm. Qed.

Lemma build_vote_list_nodup fx rmap : NoDup (map fst rmap) -> NoDup (map fst (build_vote_list fx rmap)).
Proof.
  intros ND. eapply Permutation_NoDup; [apply Permutation_map; apply build_vote_list_perm|].
  now rewrite map_fst_abs.
Qed.

(** every candidate's stored tally is the absolute value of its map entry *)
Lemma build_vote_list_get fx rmap c :
  NoDup (map fst rmap) -> tally_get (build_vote_list fx rmap) c = Z.abs (tally_get rmap c).
Proof.
  intros ND. rewrite <- tally_get_abs. symmetry. apply tally_get_perm.
  - now rewrite map_fst_abs.
  - apply build_vote_list_perm.
Qed.

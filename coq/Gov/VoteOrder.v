(** Gov/VoteOrder.v — VoteList.Less as an order.
    - the comparator at HEAD ([vote_less_legacy]) is not total: parity twins with equal
      votes are unordered ([vote_less_not_total_refuted], F10); it is total on candidate
      sets whose keys (Candidate[7:]) are distinct ([vote_less_legacy_total_on]);
    - the repaired comparator ([vote_less_fixed]) is a strict total order on entries with
      distinct candidates ([vote_less_total]) and the ranking is the unique sorted
      permutation of the tallies ([ranking_unique]). *)
From Coq Require Import ZArith NArith List Bool Permutation Sorted Lia.
From Verif Require Import Gov.Model Determ.Sorting.
Import ListNotations.
Open Scope Z_scope.

(* ------------------------------------------------------------------ bytes.Compare *)
Lemma bytes_gt_irrefl a : bytes_gt a a = false.
Proof. induction a as [|x a IH]; simpl; auto. rewrite N.ltb_irrefl. exact IH. Qed.

Lemma bytes_gt_trans a : forall b c, bytes_gt a b = true -> bytes_gt b c = true -> bytes_gt a c = true.
Proof.
  induction a as [|x a IH]; intros b c H1 H2; simpl in *; [discriminate|].
  destruct b as [|y b]; [simpl in H2; discriminate|].
  destruct c as [|z c]; [reflexivity|].
  simpl in H2.
  destruct (N.ltb y x) eqn:E1; destruct (N.ltb z y) eqn:E2;
    try apply N.ltb_lt in E1; try apply N.ltb_lt in E2; try apply N.ltb_ge in E1; try apply N.ltb_ge in E2.
  - replace (N.ltb z x) with true by (symmetry; apply N.ltb_lt; lia). reflexivity.
  - destruct (N.ltb y z) eqn:E3; [discriminate|]. apply N.ltb_ge in E3.
    assert (y = z) by lia; subst. replace (N.ltb z x) with true by (symmetry; apply N.ltb_lt; lia). reflexivity.
  - destruct (N.ltb x y) eqn:E3; [discriminate|]. apply N.ltb_ge in E3.
    assert (x = y) by lia; subst. replace (N.ltb z y) with true by (symmetry; apply N.ltb_lt; lia). reflexivity.
  - destruct (N.ltb x y) eqn:E3; [discriminate|]. destruct (N.ltb y z) eqn:E4; [discriminate|].
    apply N.ltb_ge in E3, E4. assert (x = y) by lia; assert (y = z) by lia; subst.
    rewrite N.ltb_irrefl. eapply IH; eauto.
Qed.

Lemma bytes_gt_total a : forall b, a <> b -> bytes_gt a b = true \/ bytes_gt b a = true.
Proof.
  induction a as [|x a IH]; intros [|y b] H; simpl; auto.
  destruct (N.ltb y x) eqn:E1; auto. destruct (N.ltb x y) eqn:E2; auto.
  apply N.ltb_ge in E1, E2. assert (x = y) by lia; subst.
  apply IH. congruence.
Qed.

(* ------------------------------------------------------------------ repaired comparator *)
Lemma vote_less_fixed_irrefl : irreflexive vote_less_fixed.
Proof.
  intros [c a]. unfold vote_less_fixed.
  rewrite Z.ltb_irrefl, Z.eqb_refl, Z.ltb_irrefl, Z.eqb_refl. apply bytes_gt_irrefl.
Qed.

Lemma vote_less_fixed_spec ca aa cb ab :
  vote_less_fixed (ca, aa) (cb, ab) = true <->
  aa < ab \/ (aa = ab /\ (cand_key cb < cand_key ca \/ (cand_key ca = cand_key cb /\ bytes_gt ca cb = true))).
Proof.
  unfold vote_less_fixed.
  destruct (Z.ltb_spec aa ab); [split; auto|].
  destruct (Z.eqb_spec aa ab).
  - destruct (Z.ltb_spec (cand_key cb) (cand_key ca)); [split; auto|].
    destruct (Z.eqb_spec (cand_key ca) (cand_key cb)).
    + split; [auto|]. intros [?|[_ [?|[_ ?]]]]; auto; lia.
    + split; [discriminate|]. intros [?|[_ [?|[? _]]]]; lia.
  - split; [discriminate|]. intros [?|[? _]]; lia.
Qed.

Lemma vote_less_fixed_trans : transitive vote_less_fixed.
Proof.
  intros [c1 a1] [c2 a2] [c3 a3] H1 H2.
  apply vote_less_fixed_spec in H1, H2. apply vote_less_fixed_spec.
  destruct H1 as [H1|[E1 H1]]; destruct H2 as [H2|[E2 H2]]; try (left; lia).
  right. split; [lia|].
  destruct H1 as [H1|[K1 H1]]; destruct H2 as [H2|[K2 H2]]; try (left; lia).
  right. split; [lia|]. eapply bytes_gt_trans; eauto.
Qed.

(** totality on entries with distinct candidates — in particular on the entries of a
    vote-result map, whose keys are distinct *)
Lemma vote_less_fixed_total x y :
  fst x <> fst y -> vote_less_fixed x y = true \/ vote_less_fixed y x = true.
Proof.
  destruct x as [c1 a1], y as [c2 a2]. cbn [fst]. intros D.
  rewrite !vote_less_fixed_spec.
  destruct (Z.lt_trichotomy a1 a2) as [?|[?|?]]; [left; left; lia| |right; left; lia].
  destruct (Z.lt_trichotomy (cand_key c1) (cand_key c2)) as [?|[?|?]].
  - right. right. split; [lia|]. left. lia.
  - destruct (bytes_gt_total c1 c2 D).
    + left. right. split; [lia|]. right. split; [lia|auto].
    + right. right. split; [lia|]. right. split; [lia|auto].
  - left. right. split; [lia|]. left. lia.
Qed.

Theorem vote_less_total :
  irreflexive vote_less_fixed /\ transitive vote_less_fixed /\
  forall x y, x <> y -> vote_less_fixed x y = true \/ vote_less_fixed y x = true.
Proof.
  split; [exact vote_less_fixed_irrefl|]. split; [exact vote_less_fixed_trans|].
  intros [c1 a1] [c2 a2] D.
  rewrite !vote_less_fixed_spec.
  destruct (Z.lt_trichotomy a1 a2) as [?|[?|?]]; [left; left; lia| |right; left; lia].
  subst. assert (c1 <> c2) by congruence.
  apply (vote_less_fixed_total (c1, a2) (c2, a2)) in H. now rewrite !vote_less_fixed_spec in H.
Qed.

(** the order used by sort.Sort(sort.Reverse(list)) *)
Lemma rank_before_irrefl : irreflexive (rank_before true).
Proof. intros x. apply vote_less_fixed_irrefl. Qed.
Lemma rank_before_trans : transitive (rank_before true).
Proof. intros x y z H1 H2. unfold rank_before in *. simpl in *. eapply vote_less_fixed_trans; eauto. Qed.
Lemma rank_before_total : total_on (rank_before true) (fun _ => True).
Proof.
  intros x y _ _ D. unfold rank_before; simpl.
  destruct vote_less_total as (_ & _ & T). destruct (T x y D); auto.
Qed.

(** Ranking uniqueness: whatever order the Go map [rmap] is iterated in ([listing]) and
    whatever sort.Sort does with ties, the stored ranking is the model's list. *)
Theorem ranking_unique :
  forall (entries listing out : list (cand * Z)),
    NoDup entries ->
    Permutation entries listing ->            (* iteration order of the map *)
    Permutation listing out ->                (* sort.Sort permutes ... *)
    go_sorted (rank_before true) out ->       (* ... into a list with no inversion *)
    out = isort (rank_before true) entries.
Proof.
  intros entries listing out ND P1 P2 S.
  apply (go_sort_is_isort (rank_before true) (fun _ => True)); auto using rank_before_irrefl, rank_before_trans, rank_before_total.
  - apply Forall_forall. auto.
  - etransitivity; eauto.
Qed.

Theorem ranking_order_independent :
  forall l1 l2 : list (cand * Z), NoDup l1 -> Permutation l1 l2 ->
    isort (rank_before true) l1 = isort (rank_before true) l2.
Proof.
  intros. apply (sort_order_independent (rank_before true) (fun _ => True));
    auto using rank_before_irrefl, rank_before_trans, rank_before_total.
  apply Forall_forall; auto.
Qed.

(* ------------------------------------------------------------------ comparator at HEAD *)
(** two peer ids of the same x-coordinate with opposite y-parity (they differ in byte 6) *)
Definition twin (par : N) : cand :=
  [0; 37; 8; 2; 18; 33; par; 1; 2; 3; 4; 5; 6; 7; 8; 9; 10; 11; 12; 13; 14; 15; 16; 17; 18; 19;
   20; 21; 22; 23; 24; 25; 26; 27; 28; 29; 30; 31; 32]%N.

Theorem vote_less_not_total_refuted :
  exists x y : cand * Z, x <> y /\ fst x <> fst y /\
    vote_less_legacy x y = false /\ vote_less_legacy y x = false.
Proof.
  exists (twin 2, 1000), (twin 3, 1000). repeat split; try (vm_compute; reflexivity); intros H; discriminate H.
Qed.

(** consequence: both orders of the twins are Go-sorted, the stored ranking depends on the
    map iteration order *)
Theorem ranking_depends_on_map_order_refuted :
  exists l1 l2 : list (cand * Z), Permutation l1 l2 /\ NoDup l1 /\
    isort (rank_before false) l1 <> isort (rank_before false) l2.
Proof.
  exists [(twin 2, 1000); (twin 3, 1000)], [(twin 3, 1000); (twin 2, 1000)].
  split; [apply perm_swap|]. split.
  - repeat constructor; simpl; intuition discriminate.
  - vm_compute. intros H; discriminate H.
Qed.

(** the legacy comparator is total where the keys differ (and the lengths agree) *)
Lemma be_app_step acc c : fold_left (fun a b => a * 256 + Z.of_N b) c acc = acc * 256 ^ Z.of_nat (length c) + be c.
Proof.
  unfold be. revert acc. induction c as [|b c IH]; intros acc.
  - simpl. lia.
  - cbn [fold_left length]. rewrite IH. rewrite (IH (0 * 256 + Z.of_N b)).
    rewrite Nat2Z.inj_succ, Z.pow_succ_r by lia. lia.
Qed.

Theorem vote_less_legacy_total_on :
  forall x y : cand * Z,
    length (fst x) = length (fst y) ->
    cand_key (fst x) <> cand_key (fst y) ->
    vote_less_legacy x y = true \/ vote_less_legacy y x = true.
Proof.
  intros [c1 a1] [c2 a2]; cbn [fst]. intros L K. unfold vote_less_legacy.
  destruct (Z.ltb_spec a1 a2); auto. destruct (Z.ltb_spec a2 a1); auto.
  assert (a1 = a2) by lia. subst. rewrite Z.eqb_refl.
  unfold cand_key in K. rewrite <- L in K. rewrite <- ?L.
  destruct (Nat.eqb (length c1) PeerIDLength).
  - destruct (Z.ltb_spec (be (skipn 7 c2)) (be (skipn 7 c1))); auto.
    destruct (Z.ltb_spec (be (skipn 7 c1)) (be (skipn 7 c2))); auto. lia.
  - destruct (Z.ltb_spec (be c2) (be c1)); auto. destruct (Z.ltb_spec (be c1) (be c2)); auto. lia.
Qed.

(** on 39-byte candidates with distinct keys the two comparators agree, i.e. the repair
    only changes outcomes that are undefined at HEAD *)
Theorem fixed_agrees_with_legacy :
  forall x y : cand * Z,
    length (fst x) = length (fst y) ->
    cand_key (fst x) <> cand_key (fst y) ->
    vote_less_fixed x y = vote_less_legacy x y.
Proof.
  intros [c1 a1] [c2 a2]; cbn [fst]. intros L K. unfold vote_less_fixed, vote_less_legacy.
  destruct (Z.ltb_spec a1 a2); auto. destruct (Z.eqb_spec a1 a2); auto.
  unfold cand_key in *. rewrite <- L in K. rewrite <- ?L.
  destruct (Nat.eqb (length c1) PeerIDLength).
  - destruct (Z.ltb_spec (be (skipn 7 c2)) (be (skipn 7 c1))); auto.
    destruct (Z.eqb_spec (be (skipn 7 c1)) (be (skipn 7 c2))); auto. congruence.
  - destruct (Z.ltb_spec (be c2) (be c1)); auto.
    destruct (Z.eqb_spec (be c1) (be c2)); auto. congruence.
Qed.

Example ranking_example :
  isort (rank_before true) [(twin 2, 1000); (twin 3, 1000); ([1;2;3]%N, 5000)]
  = isort (rank_before true) [([1;2;3]%N, 5000); (twin 3, 1000); (twin 2, 1000)].
Proof. reflexivity. Qed.

(** Gov/VprLoad.v — loadVpr rebuilds exactly the stored buckets; together with
    [mirror_connected_histories]: at the block boundaries of connected histories the buckets
    of loadVpr(state) are the in-memory buckets (with the sign of every power dropped, which is
    the identity on the non-negative powers of reachable states). *)
From Coq Require Import ZArith NArith List Bool Lia.
From Verif Require Import Gov.Model Gov.AList Gov.VprProofs.
Import ListNotations.
Open Scope Z_scope.

Lemma load_bucket_get (i : N) (l : list vp) : forall v j,
  get_bucket j (v_buckets (load_bucket v (i, l))) = if N.eqb j i then get_bucket i (v_buckets v) ++ l else get_bucket j (v_buckets v).
Proof.
  unfold load_bucket. cbn [fst snd].
  induction l as [|e l IH]; intros v j; cbn [fold_left].
  - destruct (N.eqb j i) eqn:E; [apply N.eqb_eq in E; subst; now rewrite app_nil_r | reflexivity].
  - rewrite IH. cbn [v_buckets]. rewrite !get_bucket_set, N.eqb_refl.
    destruct (N.eqb j i); [now rewrite <- app_assoc | reflexivity].
Qed.

Lemma load_fold_get disk : forall (is : list N) v j, NoDup is ->
  get_bucket j (v_buckets (fold_left (fun v i => load_bucket v (i, get_bucket i disk)) is v))
  = if existsb (N.eqb j) is then get_bucket j (v_buckets v) ++ get_bucket j disk else get_bucket j (v_buckets v).
Proof.
  induction is as [|i is IH]; intros v j ND; cbn [fold_left existsb]; auto.
  inversion ND as [|? ? Ni ND']; subst.
  rewrite IH by exact ND'. rewrite load_bucket_get.
  destruct (N.eqb j i) eqn:E.
  - apply N.eqb_eq in E; subst j.
    assert (X : existsb (N.eqb i) is = false).
    { destruct (existsb (N.eqb i) is) eqn:X; auto. apply existsb_exists in X. destruct X as (x & Hx & Ex). apply N.eqb_eq in Ex. subst. contradiction. }
    rewrite X. reflexivity.
  - cbn [orb]. reflexivity.
Qed.

Lemma bucket_indices_nodup : NoDup bucket_indices.
Proof. unfold bucket_indices. apply FinFun.Injective_map_NoDup; [intros a b H; now apply Nat2N.inj | apply seq_NoDup]. Qed.

Lemma in_bucket_indices i : (i < 71)%N -> existsb (N.eqb i) bucket_indices = true.
Proof.
  intros H. apply existsb_exists. exists i. split; [|apply N.eqb_refl].
  unfold bucket_indices. apply in_map_iff. exists (N.to_nat i). split; [apply N2Nat.id|]. apply in_seq. lia.
Qed.

Lemma bucket_of_lt id : (bucket_of id < 71)%N.
Proof. unfold bucket_of. apply N.mod_lt. discriminate. Qed.

(** loadVpr: bucket i of the rebuilt table is the stored bucket i *)
Theorem load_vpr_rebuilds_buckets disk i : (i < 71)%N -> get_bucket i (v_buckets (load_vpr disk)) = get_bucket i disk.
Proof.
  intros H. unfold load_vpr. rewrite load_fold_get by exact bucket_indices_nodup.
  rewrite in_bucket_indices by exact H. reflexivity.
Qed.

(** vpr_mem_equals_reload, bucket part, as an equation between loadVpr(state) and memory *)
Theorem reload_buckets_equal_memory c g ops g' :
  Connected c g ops g' -> gmirror (g_d g) (g_m g) ->
  forall i, (i < 71)%N ->
    get_bucket i (v_buckets (load_vpr (d_vpr (g_d g')))) = bucket_disk (get_bucket i (v_buckets (m_vpr (g_m g')))).
Proof.
  intros C M i Hi. rewrite load_vpr_rebuilds_buckets by exact Hi.
  apply (mirror_connected_histories c g ops g' C M).
Qed.

Example load_example :
  let disk := [(3%N, [(5%N, (0%N, 7))]); (70%N, [(9%N, (1%N, 2)); (8%N, (2%N, 1))])] in
  buckets_view (v_buckets (load_vpr disk)) = disk /\ v_total (load_vpr disk) = 10.
Proof. vm_compute. split; reflexivity. Qed.

(** Gov/VprOrder.v — the loop body of vpr.apply for two different voters commutes
    ([apply_one_swap]): every bucket, the total and the pending changes are
    the same whichever of the two entries of [changes] the Go map iteration yields first.
    _partial with respect to "vpr.apply is independent of the iteration order": the step
    from adjacent transpositions to arbitrary permutations (congruence of the loop body for
    the observational equality below) is not proved; the correspondence check compares the
    buckets written by the real code (random map order) with the model on every run. *)
From Coq Require Import ZArith NArith List Bool Permutation Sorted Lia.
From Verif Require Import Gov.Model Gov.AList Determ.Sorting Gov.VprProofs.
Import ListNotations.
Open Scope Z_scope.

Lemma al_get_del_same {V} k (m : list (N * V)) : NoDup (map fst m) -> al_get N.eqb k (al_del N.eqb k m) = None.
Proof.
  induction m as [|[k' v] m IH]; simpl; auto. intros ND. inversion ND as [|? ? N0 ND']; subst.
  destruct (N.eqb k k') eqn:E.
  - apply N.eqb_eq in E; subst. now apply (al_get_none N.eqb Neqb_eq).
  - simpl. rewrite E. auto.
Qed.

Lemma al_get_del_other {V} k k' (m : list (N * V)) : k <> k' -> al_get N.eqb k' (al_del N.eqb k m) = al_get N.eqb k' m.
Proof.
  intros Ne. induction m as [|[k2 v] m IH]; simpl; auto.
  destruct (N.eqb k k2) eqn:E.
  - apply N.eqb_eq in E; subst. replace (N.eqb k' k2) with false by (symmetry; apply N.eqb_neq; auto). reflexivity.
  - simpl. destruct (N.eqb k' k2); auto.
Qed.

(** vprStore.update on one bucket *)
Definition upd_bucket (e : vp) (l : list vp) : list vp :=
  if snd (snd e) =? 0 then bucket_remove (fst e) l else bucket_insert e (bucket_remove (fst e) l).

Lemma store_update_get e b i :
  get_bucket i (store_update e b) = if N.eqb i (bucket_of (fst e)) then upd_bucket e (get_bucket i b) else get_bucket i b.
Proof.
  unfold store_update, upd_bucket. destruct (N.eqb i (bucket_of (fst e))) eqn:E.
  - apply N.eqb_eq in E; subst. destruct (snd (snd e) =? 0); now rewrite get_bucket_set, N.eqb_refl.
  - destruct (snd (snd e) =? 0); now rewrite get_bucket_set, E.
Qed.

Lemma sorted_ids_nodup l : bucket_sorted l -> NoDup (map fst l).
Proof.
  induction l as [|x l IH]; simpl; intros S; [constructor|].
  inversion S as [|? ? S' F]; subst. constructor; auto.
  intros H. apply in_map_iff in H. destruct H as (y & Ey & Hy). rewrite Forall_forall in F.
  specialize (F y Hy). unfold id_gtb in F. apply N.ltb_lt in F. lia.
Qed.

Lemma bucket_remove_in_iff id l x : bucket_sorted l -> In x (bucket_remove id l) <-> In x l /\ fst x <> id.
Proof.
  induction l as [|y l IH]; simpl; intros S; [tauto|].
  inversion S as [|? ? S' F]; subst.
  destruct (N.eqb id (fst y)) eqn:E.
  - apply N.eqb_eq in E; subst. split.
    + intros H. split; [now right|]. rewrite Forall_forall in F. specialize (F x H). unfold id_gtb in F. apply N.ltb_lt in F. lia.
    + intros [[->|H] Ne]; [congruence | exact H].
  - apply N.eqb_neq in E. simpl. rewrite (IH S'). split.
    + intros [->|[H Ne]]; [split; [now left | congruence] | split; [now right | exact Ne]].
    + intros [[->|H] Ne]; [now left | right; auto].
Qed.

Lemma upd_bucket_sorted e l : bucket_sorted l -> bucket_sorted (upd_bucket e l).
Proof.
  intros S. unfold upd_bucket. destruct (snd (snd e) =? 0).
  - now apply bucket_remove_sorted.
  - apply bucket_insert_sorted; [now apply bucket_remove_sorted | now apply bucket_remove_absent].
Qed.

Lemma upd_bucket_in e l x : bucket_sorted l ->
  In x (upd_bucket e l) <-> (snd (snd e) <> 0 /\ x = e) \/ (In x l /\ fst x <> fst e).
Proof.
  intros S. unfold upd_bucket. destruct (snd (snd e) =? 0) eqn:E.
  - apply Z.eqb_eq in E. rewrite (bucket_remove_in_iff _ _ _ S). split; [tauto|]. intros [[H _]|H]; [contradiction | exact H].
  - apply Z.eqb_neq in E. rewrite bucket_insert_in, (bucket_remove_in_iff _ _ _ S). tauto.
Qed.

Lemma upd_bucket_swap e1 e2 l :
  bucket_sorted l -> fst e1 <> fst e2 -> upd_bucket e1 (upd_bucket e2 l) = upd_bucket e2 (upd_bucket e1 l).
Proof.
  intros S Ne.
  assert (S1 : bucket_sorted (upd_bucket e1 l)) by now apply upd_bucket_sorted.
  assert (S2 : bucket_sorted (upd_bucket e2 l)) by now apply upd_bucket_sorted.
  apply bucket_canonical; try (now apply upd_bucket_sorted).
  apply NoDup_Permutation.
  - eapply NoDup_map_inv. apply sorted_ids_nodup. now apply upd_bucket_sorted.
  - eapply NoDup_map_inv. apply sorted_ids_nodup. now apply upd_bucket_sorted.
  - intros x. rewrite (upd_bucket_in e1 _ x S2), (upd_bucket_in e2 _ x S1), (upd_bucket_in e2 l x S), (upd_bucket_in e1 l x S).
    split; intros H.
    + destruct H as [[P ->]|[[[P ->]|[H N2]] N1]].
      * right. split; [left; auto | auto].
      * left. auto.
      * right. split; [right; auto | auto].
    + destruct H as [[P ->]|[[[P ->]|[H N1]] N2]].
      * right. split; [left; auto | auto].
      * left. auto.
      * right. split; [right; auto | auto].
Qed.

(** observational equality of what vpr.apply writes to storage and of the total power (the
    powers map is not compared: see the header) *)
Definition veq (v v' : vprt) : Prop :=
  (forall i, get_bucket i (v_buckets v) = get_bucket i (v_buckets v')) /\
  v_total v = v_total v' /\
  (forall id, al_get N.eqb id (v_changes v) = al_get N.eqb id (v_changes v')).

Definition entry_of (ch : N * (N * Z)) (v : vprt) : vp :=
  let '(id, (addr, delta)) := ch in
  match al_get N.eqb id (v_powers v) with
  | Some (a, p) => (id, (a, p + delta))
  | None => (id, (addr, delta))
  end.

Lemma entry_of_id ch v : fst (entry_of ch v) = fst ch.
Proof. destruct ch as [id [a d]]. unfold entry_of. destruct (al_get N.eqb id (v_powers v)) as [[? ?]|]; reflexivity. Qed.

Lemma apply_one_powers ch v id' :
  al_get N.eqb id' (v_powers (fst (vpr_apply_one ch v))) =
  if N.eqb id' (fst ch) then
    (match al_get N.eqb (fst ch) (v_powers v) with
     | Some _ => if snd (snd (entry_of ch v)) =? 0 then al_get N.eqb id' (al_del N.eqb (fst ch) (v_powers v)) else Some (snd (entry_of ch v))
     | None => Some (snd (entry_of ch v))
     end)
  else al_get N.eqb id' (v_powers v).
Proof.
  destruct ch as [id [addr delta]]. unfold vpr_apply_one, entry_of. cbn [fst snd v_powers].
  destruct (N.eqb id' id) eqn:E.
  - apply N.eqb_eq in E; subst.
    destruct (al_get N.eqb id (v_powers v)) as [[a p]|]; cbn [fst snd v_powers].
    + destruct (p + delta =? 0); cbn [v_powers]; [reflexivity | apply (al_get_set_same N.eqb Neqb_eq)].
    + apply (al_get_set_same N.eqb Neqb_eq).
  - assert (Ne : id <> id') by (intros ->; rewrite N.eqb_refl in E; discriminate).
    destruct (al_get N.eqb id (v_powers v)) as [[a p]|]; cbn [fst snd v_powers].
    + destruct (p + delta =? 0); cbn [v_powers]; [now apply al_get_del_other | now apply (al_get_set_other N.eqb Neqb_eq)].
    + now apply (al_get_set_other N.eqb Neqb_eq).
Qed.

Lemma apply_one_buckets ch v : v_buckets (fst (vpr_apply_one ch v)) = store_update (entry_of ch v) (v_buckets v).
Proof.
  destruct ch as [id [addr delta]]. unfold vpr_apply_one, entry_of. cbn [fst snd].
  destruct (al_get N.eqb id (v_powers v)) as [[a p]|]; reflexivity.
Qed.

Lemma apply_one_total ch v : v_total (fst (vpr_apply_one ch v)) = v_total v + snd (snd ch).
Proof. destruct ch as [id [addr delta]]. reflexivity. Qed.

Lemma apply_one_changes ch v : v_changes (fst (vpr_apply_one ch v)) = al_del N.eqb (fst ch) (v_changes v).
Proof. destruct ch as [id [addr delta]]. reflexivity. Qed.

Lemma entry_of_other ch1 ch2 v : fst ch1 <> fst ch2 -> entry_of ch1 (fst (vpr_apply_one ch2 v)) = entry_of ch1 v.
Proof.
  intros Ne. destruct ch1 as [id1 [a1 d1]]. unfold entry_of.
  rewrite (apply_one_powers ch2 v id1). cbn [fst] in Ne.
  replace (N.eqb id1 (fst ch2)) with false by (symmetry; apply N.eqb_neq; auto). reflexivity.
Qed.

Lemma al_del_comm {V} (k1 k2 : N) (m : list (N * V)) :
  al_del N.eqb k1 (al_del N.eqb k2 m) = al_del N.eqb k2 (al_del N.eqb k1 m).
Proof.
  induction m as [|[k' v] m IH]; simpl; auto.
  destruct (N.eqb k2 k') eqn:E2; destruct (N.eqb k1 k') eqn:E1; simpl; rewrite ?E1, ?E2; auto.
  - apply N.eqb_eq in E1, E2. subst. reflexivity.
  - now rewrite IH.
Qed.

(** the two iterations of the loop in vpr.apply for different voters commute *)
Theorem apply_one_swap ch1 ch2 v :
  buckets_sorted (v_buckets v) -> fst ch1 <> fst ch2 ->
  veq (fst (vpr_apply_one ch2 (fst (vpr_apply_one ch1 v)))) (fst (vpr_apply_one ch1 (fst (vpr_apply_one ch2 v)))).
Proof.
  intros S Ne.
  assert (Ne' : fst ch2 <> fst ch1) by congruence.
  repeat split.
  - intros i. rewrite !apply_one_buckets, (entry_of_other ch2 ch1 v Ne'), (entry_of_other ch1 ch2 v Ne).
    rewrite !store_update_get, !entry_of_id.
    destruct (N.eqb i (bucket_of (fst ch2))) eqn:E2; destruct (N.eqb i (bucket_of (fst ch1))) eqn:E1; auto.
    apply upd_bucket_swap; [apply S | now rewrite !entry_of_id].
  - rewrite !apply_one_total. lia.
  - intros id. rewrite !apply_one_changes. now rewrite al_del_comm.
Qed.

(** Gov/VprProofs.v — the voting power rank (contract/system/vprt.go).
    - buckets stay strictly ordered by account id under [store_update], so a bucket's stored
      bytes are a function of its set of entries ([vpr_bucket_sorted], [bucket_canonical]);
    - after every [vpr.apply] the stored buckets mirror the in-memory ones
      ([vpr_apply_mirror]); this is preserved by every accepted governance transaction
      ([apply_tx_preserves_mirror]) and rejected ones do not touch memory
      ([rejected_tx_memory_unchanged]), so memory = storage at block boundaries of histories
      in which every executed block state is connected ([mirror_connected_histories]);
    - an execution on a discarded block state breaks it ([vpr_mem_equals_reload_refuted])
      and then the next execution's durable result depends on that residue
      ([exec_depends_on_memory_refuted]) — F12. *)
From Coq Require Import ZArith NArith List Bool Permutation Sorted Lia.
From Verif Require Import Gov.Model Gov.AList Determ.Sorting.
Import ListNotations.
Open Scope Z_scope.

(* ------------------------------------------------------------------ bucket order *)
Definition id_gtb (x y : vp) : bool := N.ltb (fst y) (fst x).     (* x before y: descending ids *)
Definition bucket_sorted (l : list vp) : Prop := strictly_sorted id_gtb l.

Lemma bucket_remove_in id l e : In e (bucket_remove id l) -> In e l.
Proof.
  induction l as [|x l IH]; simpl; auto.
  destruct (N.eqb id (fst x)); [now right|]. intros [->|H]; [now left | right; auto].
Qed.

Lemma bucket_remove_sorted id l : bucket_sorted l -> bucket_sorted (bucket_remove id l).
Proof.
  induction l as [|x l IH]; simpl; intros S; [constructor|].
  inversion S as [|? ? S' F]; subst.
  destruct (N.eqb id (fst x)); [exact S'|].
  constructor; [apply IH; exact S'|]. rewrite Forall_forall in *. intros e He. apply F. eapply bucket_remove_in; eauto.
Qed.

Lemma bucket_remove_absent id l : bucket_sorted l -> ~ In id (map fst (bucket_remove id l)).
Proof.
  induction l as [|x l IH]; simpl; intros S; [tauto|].
  inversion S as [|? ? S' F]; subst.
  destruct (N.eqb id (fst x)) eqn:E.
  - apply N.eqb_eq in E; subst. intros H. apply in_map_iff in H. destruct H as (e & He & Hin).
    rewrite Forall_forall in F. specialize (F e Hin). unfold id_gtb in F. apply N.ltb_lt in F. lia.
  - simpl. intros [H|H]; [apply N.eqb_neq in E; congruence | now apply IH].
Qed.

Lemma bucket_insert_in e l x : In x (bucket_insert e l) <-> x = e \/ In x l.
Proof.
  induction l as [|y l IH]; simpl; [intuition|].
  destruct (N.leb (fst y) (fst e)); simpl; [intuition|]. rewrite IH. intuition.
Qed.

Lemma bucket_insert_sorted e l :
  bucket_sorted l -> ~ In (fst e) (map fst l) -> bucket_sorted (bucket_insert e l).
Proof.
  induction l as [|y l IH]; simpl; intros S N.
  - repeat constructor.
  - inversion S as [|? ? S' F]; subst.
    destruct (N.leb (fst y) (fst e)) eqn:E.
    + apply N.leb_le in E. assert (fst y <> fst e) by (intros Heq; apply N; left; auto).
      constructor; [exact S|]. constructor.
      * unfold id_gtb. apply N.ltb_lt. lia.
      * rewrite Forall_forall in *. intros z Hz. specialize (F z Hz). unfold id_gtb in *. apply N.ltb_lt in F. apply N.ltb_lt. lia.
    + apply N.leb_gt in E. constructor.
      * apply IH; auto.
      * rewrite Forall_forall in *. intros z Hz. apply bucket_insert_in in Hz. destruct Hz as [->|Hz]; [|auto].
        unfold id_gtb. apply N.ltb_lt. exact E.
Qed.

Definition buckets_sorted (b : list (N * list vp)) : Prop := forall i, bucket_sorted (get_bucket i b).

Lemma get_bucket_set i l b j : get_bucket j (al_set N.eqb i l b) = if N.eqb j i then l else get_bucket j b.
Proof.
  unfold get_bucket. destruct (N.eqb j i) eqn:E.
  - apply N.eqb_eq in E; subst. now rewrite (al_get_set_same N.eqb Neqb_eq).
  - rewrite (al_get_set_other N.eqb Neqb_eq); auto. intros ->. rewrite N.eqb_refl in E. discriminate.
Qed.

(** (d) buckets stay ordered by account id under vprStore.update *)
Theorem vpr_bucket_sorted e b : buckets_sorted b -> buckets_sorted (store_update e b).
Proof.
  intros S j. unfold store_update.
  destruct (snd (snd e) =? 0); rewrite get_bucket_set; destruct (N.eqb j (bucket_of (fst e))); auto.
  - now apply bucket_remove_sorted.
  - apply bucket_insert_sorted; [now apply bucket_remove_sorted | now apply bucket_remove_absent].
Qed.

Lemma id_gtb_irrefl : irreflexive id_gtb.
Proof. intros x. unfold id_gtb. apply N.ltb_irrefl. Qed.
Lemma id_gtb_trans : transitive id_gtb.
Proof. intros x y z. unfold id_gtb. rewrite !N.ltb_lt. lia. Qed.

(** hence the stored bytes of a bucket are a function of its set of entries *)
Theorem bucket_canonical l1 l2 : bucket_sorted l1 -> bucket_sorted l2 -> Permutation l1 l2 -> l1 = l2.
Proof. apply strictly_sorted_perm_unique; [exact id_gtb_irrefl | exact id_gtb_trans]. Qed.

(* ------------------------------------------------------------------ storage mirrors memory *)
Definition mirror (v : vprt) (disk : list (N * list vp)) : Prop :=
  forall i, get_bucket i disk = bucket_disk (get_bucket i (v_buckets v)).

Lemma store_update_other e b i : i <> bucket_of (fst e) -> get_bucket i (store_update e b) = get_bucket i b.
Proof.
  intros N. unfold store_update. destruct (snd (snd e) =? 0); rewrite get_bucket_set;
    (replace (N.eqb i (bucket_of (fst e))) with false by (symmetry; now apply N.eqb_neq)); reflexivity.
Qed.

Lemma apply_one_other ch v i :
  i <> bucket_of (fst ch) -> get_bucket i (v_buckets (fst (vpr_apply_one ch v))) = get_bucket i (v_buckets v).
Proof.
  destruct ch as [id [addr delta]]. unfold vpr_apply_one. cbn [fst snd v_buckets].
  intros N. destruct (al_get N.eqb id (v_powers v)) as [[a p]|]; cbn [v_buckets]; now rewrite store_update_other.
Qed.

Lemma apply_one_row ch v : snd (vpr_apply_one ch v) = bucket_of (fst ch).
Proof. destruct ch as [id [addr delta]]. reflexivity. Qed.

Lemma apply_list_spec : forall chs v rows0 v' rows,
  vpr_apply_list chs v rows0 = (v', rows) ->
  (forall i, In i rows0 -> In i rows) /\
  (forall i, ~ In i rows -> get_bucket i (v_buckets v') = get_bucket i (v_buckets v)).
Proof.
  induction chs as [|ch chs IH]; intros v rows0 v' rows; simpl.
  - intros [= <- <-]. auto.
  - destruct (snd (snd ch) =? 0); [apply IH|].
    destruct (vpr_apply_one ch v) as [v1 i1] eqn:A. intros H.
    destruct (IH _ _ _ _ H) as [H1 H2]. split.
    + intros i Hi. apply H1. now right.
    + intros i Hi. rewrite H2 by exact Hi.
      pose proof (apply_one_other ch v i) as O. rewrite A in O. cbn [fst] in O. apply O.
      intros ->. apply Hi. apply H1. left.
      pose proof (apply_one_row ch v) as R. rewrite A in R. exact R.
Qed.

Lemma write_rows_get b : forall rows disk i,
  get_bucket i (write_rows rows b disk) = if existsb (N.eqb i) rows then bucket_disk (get_bucket i b) else get_bucket i disk.
Proof.
  unfold write_rows. induction rows as [|r rows IH]; intros disk i; simpl; auto.
  rewrite IH. destruct (existsb (N.eqb i) rows) eqn:E.
  - now rewrite orb_true_r.
  - rewrite orb_false_r, get_bucket_set. destruct (N.eqb i r) eqn:E2; auto.
    apply N.eqb_eq in E2. now subst.
Qed.

(** after vpr.apply every stored bucket equals the in-memory one *)
Theorem vpr_apply_mirror order v disk v' disk' :
  mirror v disk -> vpr_apply order v disk = (v', disk') -> mirror v' disk'.
Proof.
  intros M. unfold vpr_apply. destruct (vpr_apply_list order v []) as [v1 rows] eqn:A.
  intros [= <- <-]. intros i. rewrite write_rows_get.
  destruct (existsb (N.eqb i) rows) eqn:E; auto.
  rewrite M. f_equal. symmetry. apply (apply_list_spec _ _ _ _ _ A).
  intros Hin. assert (existsb (N.eqb i) rows = true); [|congruence].
  apply existsb_exists. exists i. split; auto. apply N.eqb_refl.
Qed.

Lemma vpr_sub_buckets id a x v : v_buckets (vpr_sub id a x v) = v_buckets v.
Proof. unfold vpr_sub. destruct (al_get N.eqb id (v_powers v)); reflexivity. Qed.
Lemma vpr_add_buckets id a x v : v_buckets (vpr_add id a x v) = v_buckets v.
Proof. unfold vpr_add. destruct (x =? 0); reflexivity. Qed.

Definition gmirror (d : durable) (m : memory) : Prop := mirror (m_vpr m) (d_vpr d).

Lemma mirror_buckets v v' disk : v_buckets v' = v_buckets v -> mirror v disk -> mirror v' disk.
Proof. intros E M i. rewrite E. apply M. Qed.

Lemma sync_mirror c issue rmap ext d m d' m' :
  gmirror d m -> sync c issue rmap ext d m = SyncOk d' m' -> gmirror d' m'.
Proof.
  unfold gmirror, sync. intros M.
  destruct (vpr_apply (v_changes (m_vpr m)) (m_vpr m) (d_vpr d)) as [v' disk'] eqn:A.
  pose proof (vpr_apply_mirror _ _ _ _ _ M A) as M'.
  destruct (is_ex issue).
  - destruct (build_vote_list (c_fixed c) rmap) as [|[topc topa] l]; [discriminate|].
    destruct (threshold _ topa) as [th|]; [|discriminate].
    destruct th; [destruct (parse_dec topc); [|discriminate]|]; intros [= <- <-]; exact M'.
  - intros [= <- <-]. exact M'.
Qed.

Lemma vcmd_sub_mirror c who old rmap ext m r t m' d :
  vcmd_sub c who old rmap ext m = Some (r, t, m') -> gmirror d m -> gmirror d m'.
Proof.
  unfold vcmd_sub. destruct (rmap_sub _ _ rmap); [|discriminate]. intros [= _ _ <-] M.
  destruct (c_ver c <? 2); auto. unfold gmirror in *. cbn [m_vpr set_mvpr].
  eapply mirror_buckets; [apply vpr_sub_buckets | exact M].
Qed.

Lemma vcmd_add_mirror c who nv rmap ext m d :
  gmirror d m -> gmirror d (snd (vcmd_add c who nv rmap ext m)).
Proof.
  unfold vcmd_add. cbn [snd]. intros M. destruct (c_ver c <? 2); auto. unfold gmirror in *. cbn [m_vpr set_mvpr].
  eapply mirror_buckets; [apply vpr_add_buckets | exact M].
Qed.

Lemma exec_vote_mirror c no d m who issue cands d' m' :
  gmirror d m -> exec_vote c no d m who issue cands = (EOk, d', m') -> gmirror d' m'.
Proof.
  intros M. unfold exec_vote.
  destruct (st_amount (get_stake d who) =? 0); [discriminate|].
  destruct (_ && _); [discriminate|]. destruct (_ && _); [discriminate|].
  destruct (vcmd_sub c who (get_vote d issue who) (get_result d issue) (getZ issue (d_vtotals d)) m) as [[[r1 t1] m1]|] eqn:Sb; [|discriminate].
  pose proof (vcmd_sub_mirror _ _ _ _ _ _ _ _ _ d Sb M) as M1.
  match goal with |- context [vcmd_add c who ?nv r1 t1 m1] =>
    pose proof (vcmd_add_mirror c who nv r1 t1 m1 d M1) as M2; destruct (vcmd_add c who nv r1 t1 m1) as [[r2 t2] m2] end.
  cbn [snd] in M2.
  match goal with |- context [sync c issue r2 t2 ?D m2] => destruct (sync c issue r2 t2 D m2) as [dd mm|mm] eqn:S end; [|discriminate].
  intros [= <- <-]. eapply sync_mirror; [|exact S]. exact M2.
Qed.

Lemma refresh_one_mirror c who staked issue d m d' m' :
  gmirror d m -> refresh_one c who staked issue (EOk, d, m) = (EOk, d', m') -> gmirror d' m'.
Proof.
  intros M. unfold refresh_one.
  destruct (get_vote d issue who) as [old|]; [|now intros [= <- <-]].
  destruct (vt_amount old <=? staked); [now intros [= <- <-]|].
  destruct (vcmd_sub c who (Some old) (get_result d issue) (getZ issue (d_vtotals d)) m) as [[[r1 t1] m1]|] eqn:Sb; [|discriminate].
  pose proof (vcmd_sub_mirror _ _ _ _ _ _ _ _ _ d Sb M) as M1.
  match goal with |- context [vcmd_add c who ?nv r1 t1 m1] =>
    pose proof (vcmd_add_mirror c who nv r1 t1 m1 d M1) as M2; destruct (vcmd_add c who nv r1 t1 m1) as [[r2 t2] m2] end.
  cbn [snd] in M2.
  match goal with |- context [sync c issue r2 t2 ?D m2] => destruct (sync c issue r2 t2 D m2) as [dd mm|mm] eqn:S end; [|discriminate].
  intros [= <- <-]. eapply sync_mirror; [|exact S]. exact M2.
Qed.

Lemma refresh_one_err_kind c who staked issue acc :
  let e := fst (fst acc) in let e' := fst (fst (refresh_one c who staked issue acc)) in
  (e = EOk \/ e = EPanic) -> (e' = EOk \/ e' = EPanic).
Proof.
  destruct acc as [[e d] m]. cbn [fst]. intros [->| ->]; [|right; reflexivity].
  unfold refresh_one. destruct (get_vote d issue who) as [old|]; [|now left].
  destruct (vt_amount old <=? staked); [now left|].
  destruct (vcmd_sub _ _ _ _ _ _) as [[[r1 t1] m1]|]; [|now right].
  destruct (vcmd_add _ _ _ _ _ _) as [[r2 t2] m2].
  destruct (sync _ _ _ _ _ _); [now left | now right].
Qed.

Lemma refresh_fold_gen c who staked : forall issues d m e' d' m',
  gmirror d m ->
  fold_left (fun acc issue => refresh_one c who staked issue acc) issues (EOk, d, m) = (e', d', m') ->
  (e' = EOk /\ gmirror d' m') \/ e' = EPanic.
Proof.
  induction issues as [|i is IH]; intros d m e' d' m' M; cbn [fold_left].
  - intros [= <- <- <-]. now left.
  - destruct (refresh_one c who staked i (EOk, d, m)) as [[e1 d1] m1] eqn:R.
    pose proof (refresh_one_err_kind c who staked i (EOk, d, m)) as K. cbv zeta in K. rewrite R in K. cbn [fst] in K.
    destruct (K (or_introl eq_refl)) as [->| ->].
    + apply IH. eapply refresh_one_mirror; eauto.
    + intros F. right.
      assert (G : forall l, fold_left (fun acc issue => refresh_one c who staked issue acc) l (EPanic, d1, m1) = (EPanic, d1, m1))
        by (induction l; cbn [fold_left]; auto).
      rewrite G in F. now injection F as <- _ _.
Qed.

Lemma exec_unstake_mirror c no d m who amt d' m' :
  gmirror d m -> exec_unstake c no d m who amt = (EOk, d', m') -> gmirror d' m'.
Proof.
  intros M. unfold exec_unstake.
  destruct (st_amount (get_stake d who) =? 0); [discriminate|].
  destruct (st_amount (get_stake d who) <? amt); [discriminate|].
  destruct (no <? _); [discriminate|]. destruct (_ && _); [discriminate|].
  match goal with |- context [fold_left ?f catalog (EOk, ?D1, m)] =>
    destruct (fold_left f catalog (EOk, D1, m)) as [[e2 d2] m2] eqn:F;
    assert (M1 : gmirror D1 m) by exact M;
    destruct (refresh_fold_gen c who _ catalog D1 m e2 d2 m2 M1 F) as [[-> M2]| ->] end; [|discriminate].
  cbn [d_sysbal set_total]. destruct (d_sysbal d2 <? _); [discriminate|].
  intros [= <- <-]. exact M2.
Qed.

(** every accepted governance transaction leaves storage = memory for the buckets *)
Theorem apply_tx_preserves_mirror c no d m t d' m' :
  gmirror d m -> apply_tx c no d m t = (EOk, d', m') -> gmirror d' m'.
Proof.
  intros M. unfold apply_tx. destruct (exec_tx c no d m t) as [[e1 d1] m1] eqn:X. cbv beta iota.
  destruct e1; intros H; inversion H; subst.
  destruct t as [who amt|who amt|who cands|who oi vals]; simpl in X.
  - unfold exec_stake in X.
    destruct (bal_of d who <? amt); [discriminate|]. destruct (_ && _); [discriminate|].
    destruct (_ <? staking_min c m); [discriminate|]. injection X as <- <-. exact M.
  - eapply exec_unstake_mirror; eauto.
  - eapply exec_vote_mirror; eauto.
  - destruct (c_ver c <? 2); [discriminate|]. destruct (match vals with [] => true | _ :: _ => false end); [discriminate|]. destruct oi as [i|]; [|discriminate].
    destruct (1 <? Z.of_nat (length vals)); [discriminate|].
    destruct (all_valid_cands i vals) as [e0|]; [inversion X; subst; exact M|].
    eapply exec_vote_mirror; eauto.
Qed.

Lemma refresh_fold_kind c who staked : forall l acc,
  (fst (fst acc) = EOk \/ fst (fst acc) = EPanic) ->
  let r := fold_left (fun acc issue => refresh_one c who staked issue acc) l acc in
  fst (fst r) = EOk \/ fst (fst r) = EPanic.
Proof.
  induction l as [|i l IHl]; intros a Ha; cbn [fold_left]; auto.
  apply IHl. now apply refresh_one_err_kind.
Qed.

(** a transaction refused by validation does not touch the process-wide state *)
Theorem rejected_tx_memory_unchanged c no d m t e d' m' :
  apply_tx c no d m t = (e, d', m') -> e <> EOk -> e <> EPanic ->
  (forall who amt, t = TUnstake who amt -> e <> EInsufficient) -> m' = m.
Proof.
  unfold apply_tx. destruct (exec_tx c no d m t) as [[e1 d1] m1] eqn:X. cbv beta iota.
  intros H Ne Np Hu.
  assert (e1 = e /\ m1 = m') as [-> ->] by (destruct e1; inversion H; auto). clear H.
  destruct t as [who amt|who amt|who cands|who oi vals]; simpl in X.
  - unfold exec_stake in X.
    destruct (bal_of d who <? amt); [now inversion X|]. destruct (_ && _); [now inversion X|].
    destruct (_ <? staking_min c m); now inversion X.
  - specialize (Hu who amt eq_refl). unfold exec_unstake in X.
    destruct (st_amount (get_stake d who) =? 0); [now inversion X|].
    destruct (st_amount (get_stake d who) <? amt); [now inversion X|].
    destruct (no <? _); [now inversion X|]. destruct (_ && _); [now inversion X|].
    match type of X with context [fold_left (fun acc issue => refresh_one c who ?st issue acc) catalog ?a] =>
      pose proof (refresh_fold_kind c who st catalog a (or_introl eq_refl)) as K; cbv zeta in K;
      destruct (fold_left (fun acc issue => refresh_one c who st issue acc) catalog a) as [[e2 d2] m2] end.
    cbn [fst] in K. destruct K as [-> | ->].
    + cbn [d_sysbal set_total] in X. destruct (d_sysbal d2 <? _); inversion X; subst; congruence.
    + inversion X; subst; congruence.
  - unfold exec_vote in X.
    destruct (st_amount (get_stake d who) =? 0); [now inversion X|].
    destruct (_ && _); [now inversion X|]. destruct (_ && _); [inversion X; subst; congruence|].
    destruct (vcmd_sub _ _ _ _ _ _) as [[[r1 t1] m2]|]; [|inversion X; subst; congruence].
    destruct (vcmd_add _ _ _ _ _ _) as [[r2 t2] m3].
    destruct (sync _ _ _ _ _ _); inversion X; subst; congruence.
  - destruct (c_ver c <? 2); [now inversion X|]. destruct (match vals with [] => true | _ :: _ => false end); [now inversion X|]. destruct oi as [i|]; [|now inversion X].
    destruct (1 <? Z.of_nat (length vals)); [now inversion X|].
    destruct (all_valid_cands i vals) as [e0|]; [now inversion X|].
    unfold exec_vote in X.
    destruct (st_amount (get_stake d who) =? 0); [now inversion X|].
    destruct (_ && _); [now inversion X|]. destruct (_ && _); [inversion X; subst; congruence|].
    destruct (vcmd_sub _ _ _ _ _ _) as [[[r1 t1] m2]|]; [|inversion X; subst; congruence].
    destruct (vcmd_add _ _ _ _ _ _) as [[r2 t2] m3].
    destruct (sync _ _ _ _ _ _); inversion X; subst; congruence.
Qed.

(** histories in which every executed block state is connected: only real transactions
    (accepted, or refused by validation) and block boundaries *)
Inductive Connected (c0 : cfg) : gstate -> list (Z * op) -> gstate -> Prop :=
| conn_nil g : Connected c0 g [] g
| conn_tx v g t e g1 ops g' :      (* [v]: hardfork version of the block the transaction is in *)
    step (set_ver v c0) g (OTx t) = (e, g1) -> e <> EPanic ->
    (forall who amt, t = TUnstake who amt -> e <> EInsufficient) ->
    Connected c0 g1 ops g' -> Connected c0 g ((v, OTx t) :: ops) g'
| conn_block v g n ops g' :
    Connected c0 (snd (step (set_ver v c0) g (OBlock n))) ops g' -> Connected c0 g ((v, OBlock n) :: ops) g'.

Theorem mirror_connected_histories c0 g ops g' :
  Connected c0 g ops g' -> gmirror (g_d g) (g_m g) -> gmirror (g_d g') (g_m g').
Proof.
  induction 1 as [g|v g t e g1 ops g' S Np Hu C IH|v g n ops g' C IH]; intros M; auto.
  - apply IH. set (c := set_ver v c0) in *. unfold step in S.
    destruct (apply_tx c (g_no g) (g_d g) (g_m g) t) as [[e0 d1] m1] eqn:A. injection S as <- <-. cbn [g_d g_m].
    destruct (err_eqb e0 EOk) eqn:E.
    + assert (e0 = EOk) by (destruct e0; simpl in E; congruence). subst. eapply apply_tx_preserves_mirror; eauto.
    + assert (Ne : e0 <> EOk) by (intros ->; discriminate).
      pose proof (rejected_tx_memory_unchanged _ _ _ _ _ _ _ _ A Ne Np Hu) as ->.
      unfold apply_tx in A. destruct (exec_tx c (g_no g) (g_d g) (g_m g) t) as [[e1 d2] m2]. cbv beta iota in A.
      destruct e1; inversion A; subst; try exact M. congruence.
  - apply IH. cbn [step snd g_d g_m]. unfold gmirror, commit_params.
    assert (P : forall l m, m_vpr (fold_left (fun (m : memory) (p : N) =>
        match al_get N.eqb p (m_pnext m) with
        | Some v => set_pnext (al_del N.eqb p (m_pnext m)) (set_pcur (al_set N.eqb p v (m_pcur m)) m)
        | None => m end) l m) = m_vpr m).
    { induction l as [|p l IHl]; intros m; cbn [fold_left]; auto. rewrite IHl. destruct (al_get N.eqb p (m_pnext m)); reflexivity. }
    rewrite P. exact M.
Qed.

(* ------------------------------------------------------------------ F12 *)
Definition f12_cfg : cfg := {| c_ver := 2; c_fixed := true; c_ids := [77%N]; c_defaults := [(0%N, 3); (1%N, 10000); (2%N, 50); (3%N, 1)] |}.
Definition f12_d0 : durable :=
  {| d_bal := [(0%N, 50000)]; d_sysbal := 0; d_stakes := []; d_total := 0; d_votes := []; d_results := [];
     d_vtotals := []; d_params := []; d_vpr := [] |}.
Definition f12_m0 : memory := reload f12_cfg f12_d0.
Definition f12_vote : tx := TVoteBP 0%N [[1; 2; 3]%N].
(** the staker has staked in block 1; block 2 is about to be executed *)
Definition f12_g1 : gstate :=
  snd (step f12_cfg (snd (step f12_cfg {| g_no := 1; g_d := f12_d0; g_m := f12_m0 |} (OTx (TStake 0%N 10000)))) (OBlock 2)).

Definition disk_total (disk : list (N * list vp)) : Z :=
  fold_right (fun ib acc => fold_right (fun e a => snd (snd e) + a) 0 (snd ib) + acc) 0 disk.

(** memory = reload holds for the clean node ... *)
Example f12_clean_boundary : g_m f12_g1 = reload f12_cfg (g_d f12_g1).
Proof. vm_compute. reflexivity. Qed.

(** ... a producer executes the vote on a block state that is never connected: at the next
    block boundary the in-memory rank differs from the one rebuilt from the state *)
Theorem vpr_mem_equals_reload_refuted :
  exists c g t, g_m g = reload c (g_d g) /\
    let g' := snd (step c (snd (step c g (OGhost t))) (OBlock (g_no g + 1))) in
    v_total (m_vpr (g_m g')) <> v_total (load_vpr (d_vpr (g_d g'))).
Proof.
  exists f12_cfg, f12_g1, f12_vote. split; [exact f12_clean_boundary|].
  vm_compute. discriminate.
Qed.

(** ... and the same transaction executed afterwards writes a different durable state than
    on a node that starts from the same durable state with memory = reload *)
Theorem exec_depends_on_memory_refuted :
  exists c no d m1 m2 t,
    m1 = reload c d /\
    (exists t0, m2 = snd (apply_tx c no d m1 t0)) /\          (* residue of a discarded execution *)
    disk_total (d_vpr (snd (fst (apply_tx c no d m1 t)))) <> disk_total (d_vpr (snd (fst (apply_tx c no d m2 t)))).
Proof.
  exists f12_cfg, 2, (g_d f12_g1), (g_m f12_g1), (snd (apply_tx f12_cfg 2 (g_d f12_g1) (g_m f12_g1) f12_vote)), f12_vote.
  split; [exact f12_clean_boundary|]. split; [exists f12_vote; reflexivity|].
  vm_compute. discriminate.
Qed.

(** (d') with memory determined by the durable state, execution is a function of the durable
    state alone.  The content is the precondition: it holds at the block boundaries of
    histories without discarded executions (below) and fails otherwise (above). *)
Theorem exec_depends_on_durable_only c no d m1 m2 t :
  m1 = reload c d -> m2 = reload c d -> apply_tx c no d m1 t = apply_tx c no d m2 t.
Proof. intros -> ->. reflexivity. Qed.


From stdpp Require Import gmap.
From Coq Require Import ZArith List Bool Lia.
From Verif Require Import Ledger.Model Ledger.Supply Ledger.Frame.
Import ListNotations.
Open Scope Z_scope.

Lemma send_balance_ids a b x a' b' : send_balance a b x = Some (a', b') ->
  a_id a' = a_id a /\ a_id b' = a_id b /\ a_old a' = a_old a /\ a_old b' = a_old b.
Proof. unfold send_balance. destruct (_ =? _)%N; [intros [= <- <-]; auto|]. destruct (_ <? _); [discriminate|]. intros [= <- <-]. auto. Qed.

Lemma contract_execute_runtime vm cfg s t sd rc fd s' sd' rc' fee :
  contract_execute vm cfg s t sd rc fd = (CRuntime, s', sd', rc', fee) ->
  s' = s /\ a_id sd' = a_id sd /\ a_id rc' = a_id rc /\ a_old sd' = a_old sd /\ a_old rc' = a_old rc.
Proof.
  unfold contract_execute. intros H.
  destruct (send_balance sd rc (t_amount t)) as [[a b]|] eqn:S; [|inversion H].
  destruct (send_balance_ids _ _ _ _ _ S) as (I1&I2&O1&O2).
  destruct (check_execution _ _ _ _ _ _) as [dx e]. destruct dx; cbn [negb] in H; [|inversion H; subst; auto].
  destruct (gas_limit _ _ _ _ _ _ _ _ _); [|inversion H; subst; auto].
  destruct (negb _ && negb _); [inversion H; subst; auto|].
  destruct (vm t a b s) as [trs ws cfee|cfee|cfee].
  - destruct (cfee <? 0); [inversion H|].
    destruct (fold_left vm_transfer trs (s, a, b)) as [[s1 a1] b1].
    match type of H with (if ?c then _ else _) = _ => destruct c end; inversion H; subst; auto.
  - destruct (cfee <? 0); inversion H; subst; auto.
  - inversion H.
Qed.

Section Atom.
  Variable is_name : N -> bool.
  Variable cid_of : N -> N -> N.
  Variable tx_hash : tx -> N.
  Variable vm : tx -> astate -> astate -> lstate -> vm_result.
  Variable sig_ok : N -> tx -> bool.
  Variable cfg : config.
  Notation xtx := (exec_tx is_name cid_of tx_hash vm cfg).

  (** C03 Rejected: the executor's snapshot/rollback wrapper returns the state it started from *)
  Theorem exec_tx_rejected_unchanged bno s t s' : xtx bno s t = (Rejected, s') -> s' = s.
  Proof. unfold exec_tx. destruct (exec_tx_core _ _ _ _ _ _ _ _); intros [= ?]; auto; discriminate. Qed.

  (** everything except the account map, BpReward and the receipts *)
  Definition rest_eq (s s' : lstate) : Prop :=
    stk s' = stk s /\ stk_total s' = stk_total s /\ names s' = names s /\ names0 s' = names0 s /\ cstor s' = cstor s.

  Lemma reset_account_shape s a fee n s' :
    reset_account s a fee n = Some s' ->
    rest_eq s s' /\ bp_reward s' = bp_reward s /\ receipts s' = receipts s /\
    (forall id, id <> a_id a -> accts s' !! id = accts s !! id) /\
    exists x, accts s' !! a_id a = Some x /\ code x = code (a_old a) /\
      nonce x = match n with Some k => k | None => nonce (a_old a) end /\
      bal x = match fee with Some f => bal (a_old a) - f | None => bal (a_old a) end /\
      match fee with Some f => f <= bal (a_old a) | None => True end.
  Proof.
    unfold reset_account. intros H.
    destruct fee as [f|].
    - destruct (Z.ltb_spec (a_bal (a_reset a)) f) as [L|L]; [discriminate|]. injection H as <-.
      unfold rest_eq, put_state. simpl. repeat split; auto.
      + intros id Hid. destruct n; simpl; rewrite lookup_insert_ne by congruence; reflexivity.
      + unfold a_bal in L. simpl in L.
        destruct n; simpl; rewrite lookup_insert; eexists; (split; [reflexivity|]); simpl; repeat split; auto; unfold a_bal; simpl; lia.
    - injection H as <-. unfold rest_eq, put_state. simpl. repeat split; auto.
      + intros id Hid. destruct n; simpl; rewrite lookup_insert_ne by congruence; reflexivity.
      + destruct n; simpl; rewrite lookup_insert; eexists; (split; [reflexivity|]); simpl; repeat split; auto.
  Qed.

  (** C03 FeeNonceOnly (partial: the exact new balance / nonce of the sender and payer entries
      are given by exec_tx_supply and exec_tx_authorised, not restated here): a transaction
      that fails at run time touches only the sender's and the payer's account entries,
      BpReward (+fee) and the receipt list (one ERROR receipt); every other account, all
      staking records, names and contract storages are untouched *)
  Theorem exec_tx_fee_nonce_only_partial bno s t s' :
    xtx bno s t = (FeeNonceOnly, s') ->
    rest_eq s s' /\
    exists fee payer,
      bp_reward s' = bp_reward s + fee /\ receipts s' = receipts s ++ [mk_receipt cfg t 2%N fee] /\
      fee <= bal (acct_of s payer) /\
      (forall id, id <> resolve is_name s (t_from t) -> id <> payer -> accts s' !! id = accts s !! id).
  Proof.
    intros H. set (sid := resolve is_name s (t_from t)). unfold exec_tx, exec_tx_core in H.
    destruct (validate tx_hash cfg t); cbn [negb] in H; [|discriminate].
    destruct (validate_with_sender_state cfg t _); cbn [negb] in H; [|discriminate].
    fold sid in H.
    assert (Body : forall receiver status, a_old receiver = acct_of s (a_id receiver) ->
      match exec_tx_body is_name vm cfg bno s t (get_astate s sid) receiver status with
      | RFeeNonce x => x = s' | _ => False end ->
      rest_eq s s' /\
      exists fee payer,
        bp_reward s' = bp_reward s + fee /\ receipts s' = receipts s ++ [mk_receipt cfg t 2%N fee] /\
        fee <= bal (acct_of s payer) /\
        (forall id, id <> sid -> id <> payer -> accts s' !! id = accts s !! id)).
    { intros receiver status Rold B. unfold exec_tx_body in B.
      destruct (is_gov (t_kind t)).
      { destruct (exec_governance _ _ _ _ _ _ _) as [[[? ?] ?]|]; contradiction. }
      destruct (match t_kind t with KFeeDeleg => true | _ => false end) eqn:FD.
      - destruct (validate_max_fee _ _ _ _ _ _); cbn [negb] in B; [|contradiction].
        destruct (_ || _); [contradiction|].
        destruct (contract_execute vm cfg s t (get_astate s sid) receiver true) as [[[[c x] sd'] rc'] fee] eqn:CE.
        destruct c; try contradiction.
        destruct (contract_execute_runtime _ _ _ _ _ _ _ _ _ _ _ CE) as (->&I1&I2&O1&O2).
        cbn [negb orb] in B. rewrite a_id_sub in B.
        destruct (N.eqb_spec (a_id sd') (a_id rc')) as [E|E].
        + destruct (reset_account s sd' (Some fee) (Some (t_nonce t))) as [s2|] eqn:R1; [|contradiction].
          destruct (reset_account_shape _ _ _ _ _ R1) as (RE&Fb&Fr&Oth&x&Lk&Cx&Nx&Bx&Le).
          rewrite I1 in Oth. rewrite O1 in Le. simpl in Oth, Le.
          subst s'. split; [exact RE|]. exists fee, sid. simpl. rewrite Fb, Fr.
          repeat split; auto.
        + destruct (reset_account s sd' None (Some (t_nonce t))) as [s2|] eqn:R1; [|contradiction].
          destruct (reset_account_shape _ _ _ _ _ R1) as (RE&Fb&Fr&Oth&x&Lk&Cx&Nx&Bx&_).
          destruct (reset_account s2 (sub_bal rc' fee) (Some fee) None) as [s3|] eqn:R2; [|contradiction].
          destruct (reset_account_shape _ _ _ _ _ R2) as (RE2&Fb2&Fr2&Oth2&y&Lk2&Cy&Ny&By&Le).
          rewrite a_id_sub in Oth2. rewrite a_old_sub in Le. rewrite I1 in Oth. rewrite I2 in Oth2. rewrite O2, Rold in Le.
          simpl in Oth.
          subst s'. split.
          { destruct RE as (?&?&?&?&?), RE2 as (?&?&?&?&?). unfold rest_eq. simpl. repeat split; congruence. }
          exists fee, (a_id receiver). simpl. rewrite Fb2, Fr2, Fb, Fr.
          repeat split; auto.
          intros id H1 H2. rewrite Oth2, Oth by congruence. reflexivity.
      - destruct (contract_execute vm cfg s t (get_astate s sid) receiver false) as [[[[c x] sd'] rc'] fee] eqn:CE.
        destruct c; try contradiction.
        destruct (contract_execute_runtime _ _ _ _ _ _ _ _ _ _ _ CE) as (->&I1&I2&O1&O2).
        cbn [negb orb] in B.
        destruct (reset_account s (sub_bal sd' fee) (Some fee) (Some (t_nonce t))) as [s2|] eqn:R1; [|contradiction].
        destruct (reset_account_shape _ _ _ _ _ R1) as (RE&Fb&Fr&Oth&x&Lk&Cx&Nx&Bx&Le).
        rewrite a_id_sub, I1 in Oth. rewrite a_old_sub, O1 in Le. simpl in Oth, Le.
        subst s'. split; [exact RE|]. exists fee, sid. simpl. rewrite Fb, Fr.
        repeat split; auto. }
    destruct (resolve is_name s (recipient_of t) =? 0)%N.
    - destruct (a_isnew _); cbn [negb] in H; [|discriminate].
      match type of H with match exec_tx_body _ _ _ _ _ _ _ ?r ?st with _ => _ end = _ => apply (Body r st); [reflexivity|] end.
      destruct (exec_tx_body _ _ _ _ _ _ _ _ _); inversion H; reflexivity.
    - match type of H with match exec_tx_body _ _ _ _ _ _ _ ?r ?st with _ => _ end = _ => apply (Body r st); [reflexivity|] end.
      destruct (exec_tx_body _ _ _ _ _ _ _ _ _); inversion H; reflexivity.
  Qed.

  (** C04: a transaction that is not rejected is bound to this chain, carries the hash of its
      body, and its nonce is exactly the sender account's current nonce + 1 *)
  Theorem exec_tx_authorised bno s t o s' :
    xtx bno s t = (o, s') -> o <> Rejected ->
    t_chain t = c_chain cfg /\ t_hash t = tx_hash t /\ t_from t <> 0%N /\
    t_nonce t = (nonce (acct_of s (resolve is_name s (t_from t))) + 1)%N.
  Proof.
    unfold exec_tx, exec_tx_core. intros H Ho.
    destruct (validate tx_hash cfg t) eqn:V; cbn [negb] in H; [|inversion H; congruence].
    destruct (validate_with_sender_state cfg t _) eqn:W; cbn [negb] in H; [|inversion H; congruence].
    unfold validate in V. repeat (apply andb_true_iff in V as [V ?]).
    unfold validate_with_sender_state in W. apply andb_true_iff in W as [W W3]. apply andb_true_iff in W as [W1 _].
    apply negb_true_iff in W1, W3. apply N.leb_gt in W1. apply N.ltb_ge in W3. simpl in W1, W3.
    repeat split.
    - apply N.eqb_eq. assumption.
    - apply N.eqb_eq. assumption.
    - match goal with X : negb (t_from t =? 0)%N = true |- _ => apply negb_true_iff in X; apply N.eqb_neq in X; exact X end.
    - lia.
  Qed.

  (** C04: a block is accepted only if every transaction in it carries a signature valid for
      its account (or for the registered owner of its account name in the pre-block state) *)
  Theorem exec_block_signatures bno cb vr s txs s' :
    exec_block is_name cid_of tx_hash vm sig_ok cfg bno cb vr s txs = Some s' ->
    forall t, In t txs -> verify_tx is_name sig_ok s t = true.
  Proof.
    unfold exec_block. destruct (exec_txs _ _ _ _ _ _ _ _); [|discriminate].
    destruct (forallb _ txs) eqn:F; [|discriminate]. intros _ t Ht.
    rewrite forallb_forall in F. auto.
  Qed.

  (** every transaction of an accepted block was executed (not rejected) *)
  Lemma exec_txs_all_executed bno txs : forall s s',
    exec_txs is_name cid_of tx_hash vm cfg bno s txs = Some s' ->
    Forall (fun t => t_chain t = c_chain cfg /\ t_hash t = tx_hash t) txs.
  Proof.
    induction txs as [|t tl IH]; intros s s' H; [constructor|]. simpl in H.
    destruct (xtx bno s t) as [o s1] eqn:X. destruct o; try discriminate.
    - constructor; [|eauto]. destruct (exec_tx_authorised bno s t _ _ X) as (A&B&_); [discriminate|auto].
    - constructor; [|eauto]. destruct (exec_tx_authorised bno s t _ _ X) as (A&B&_); [discriminate|auto].
  Qed.

  (** the node-level step: a block that fails (bad transaction, bad signature) leaves the
      ledger state exactly as it was (state part of C03's block clause) *)
  Definition apply_block bno cb vr (s : lstate) (txs : list tx) : lstate :=
    match exec_block is_name cid_of tx_hash vm sig_ok cfg bno cb vr s txs with Some s' => s' | None => s end.
  Theorem exec_block_fail_unchanged bno cb vr s txs :
    exec_block is_name cid_of tx_hash vm sig_ok cfg bno cb vr s txs = None -> apply_block bno cb vr s txs = s.
  Proof. unfold apply_block. intros ->. reflexivity. Qed.
End Atom.

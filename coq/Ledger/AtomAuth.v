From stdpp Require Import gmap.
From Coq Require Import ZArith List Bool Lia.
From Verif Require Import Ledger.Model Ledger.Supply Ledger.Frame.
Import ListNotations.
Open Scope Z_scope.

Lemma send_balance_ids a b x a' b' : send_balance a b x = Some (a', b') ->
  a_id a' = a_id a /\ a_id b' = a_id b /\ a_old a' = a_old a /\ a_old b' = a_old b.
Proof. unfold send_balance. destruct (_ =? _)%N; [intros [= <- <-]; auto|]. destruct (_ <? _); [discriminate|]. intros [= <- <-]. auto. Qed.

Lemma contract_execute_runtime vm cfg s t sd rc fd s' sd' rc' fee :
  contract_execute vm cfg s t sd rc fd = (CRuntime, s', sd', rc', fee) ->
  s' = s /\ a_id sd' = a_id sd /\ a_id rc' = a_id rc /\ a_old sd' = a_old sd /\ a_old rc' = a_old rc.
Proof.
  unfold contract_execute. intros H.
  destruct (send_balance sd rc (t_amount t)) as [[a b]|] eqn:S; [|inversion H].
  destruct (send_balance_ids _ _ _ _ _ S) as (I1&I2&O1&O2).
  destruct (check_execution _ _ _ _ _ _) as [dx e]. destruct dx; cbn [negb] in H; [|inversion H; subst; auto].
  destruct (gas_limit _ _ _ _ _ _ _ _ _); [|inversion H; subst; auto].
  destruct (negb _ && negb _); [inversion H; subst; auto|].
  destruct (vm t a b s) as [trs ws cfee|cfee|cfee].
  - destruct (cfee <? 0); [inversion H|].
    destruct (fold_left vm_transfer trs (s, a, b)) as [[s1 a1] b1].
    match type of H with (if ?c then _ else _) = _ => destruct c end; [|inversion H; subst; auto].
    match type of H with (if ?c then _ else _) = _ => destruct c end; [inversion H|].
    destruct trs; inversion H; subst; auto.
  - destruct (cfee <? 0); inversion H; subst; auto.
  - inversion H.
Qed.

Section Atom.
  Variable is_name : N -> bool.
  Variable cid_of : N -> N -> N.
  Variable tx_hash : tx -> N.
  Variable vm : tx -> astate -> astate -> lstate -> vm_result.
  Variable sig_ok : N -> tx -> bool.
  Variable cfg : config.
  Notation xtx := (exec_tx is_name cid_of tx_hash vm cfg).

  (** C03 Rejected: the executor's snapshot/rollback wrapper returns the state it started from *)
  Theorem exec_tx_rejected_unchanged bno s t s' : xtx bno s t = (Rejected, s') -> s' = s.
  Proof. unfold exec_tx. destruct (exec_tx_core _ _ _ _ _ _ _ _); intros [= ?]; auto; discriminate. Qed.

  (** everything except the account map, BpReward and the receipts *)
  Definition rest_eq (s s' : lstate) : Prop :=
    stk s' = stk s /\ stk_total s' = stk_total s /\ names s' = names s /\ names0 s' = names0 s /\ cstor s' = cstor s.

  (** the account entry written by resetAccount *)
  Definition reset_entry (a0 : acct) (fee : option Z) (n : option N) : acct :=
    {| bal := match fee with Some f => bal a0 - f | None => bal a0 end;
       nonce := match n with Some k => k | None => nonce a0 end; code := code a0 |}.

  Lemma reset_account_exact s a fee n s' :
    reset_account s a fee n = Some s' ->
    s' = with_accts s (<[a_id a := reset_entry (a_old a) fee n]> (accts s)) /\
    match fee with Some f => f <= bal (a_old a) | None => True end.
  Proof.
    unfold reset_account. intros H. destruct fee as [f|].
    - destruct (Z.ltb_spec (a_bal (a_reset a)) f) as [L|L]; [discriminate|]. injection H as <-.
      unfold a_bal in L. simpl in L. split; [|exact L].
      unfold put_state, reset_entry. destruct n; simpl; f_equal; f_equal; unfold set_nonce, set_bal, a_bal; simpl;
        destruct (a_old a); simpl in *; f_equal; apply Z.abs_eq; lia.
    - injection H as <-. split; [|exact I].
      unfold put_state, reset_entry. destruct n; simpl; f_equal; f_equal; unfold set_nonce; simpl;
        destruct (a_old a); reflexivity.
  Qed.

  (** the receiver account of the transaction as executeTx determines it *)
  Definition receiver_id (s : lstate) (t : tx) : N :=
    let r := resolve is_name s (recipient_of t) in
    if (r =? 0)%N then cid_of (t_from t) (t_nonce t) else r.

  (** C03 FeeNonceOnly, exact: the post-state is the pre-state with
      (a) payer = sender: the sender entry := (balance - fee, nonce := tx nonce), or
      (b) fee delegation to a different account: sender entry := (nonce := tx nonce) and the
          contract entry := (balance - fee);
      BpReward += fee and one ERROR receipt appended.  Nothing else changes. *)
  Theorem exec_tx_fee_nonce_only bno s t s' :
    xtx bno s t = (FeeNonceOnly, s') ->
    let sid := resolve is_name s (t_from t) in
    let rid := receiver_id s t in
    exists fee,
      (fee <= bal (acct_of s sid) /\
       s' = finish cfg (with_accts s (<[sid := reset_entry (acct_of s sid) (Some fee) (Some (t_nonce t))]> (accts s))) t 2%N fee)
      \/
      (t_kind t = KFeeDeleg /\ rid <> sid /\ fee <= bal (acct_of s rid) /\
       s' = finish cfg (with_accts s (<[rid := reset_entry (acct_of s rid) (Some fee) None]>
                                       (<[sid := reset_entry (acct_of s sid) None (Some (t_nonce t))]> (accts s)))) t 2%N fee).
  Proof.
    intros H. cbv zeta. set (sid := resolve is_name s (t_from t)). unfold exec_tx, exec_tx_core in H.
    destruct (validate tx_hash cfg t); cbn [negb] in H; [|discriminate].
    destruct (validate_with_sender_state cfg t _); cbn [negb] in H; [|discriminate].
    fold sid in H.
    assert (Body : forall receiver status, a_old receiver = acct_of s (a_id receiver) ->
      match exec_tx_body is_name vm cfg bno s t (get_astate s sid) receiver status with
      | RFeeNonce x => x = s' | _ => False end ->
      exists fee,
      (fee <= bal (acct_of s sid) /\
       s' = finish cfg (with_accts s (<[sid := reset_entry (acct_of s sid) (Some fee) (Some (t_nonce t))]> (accts s))) t 2%N fee)
      \/
      (t_kind t = KFeeDeleg /\ a_id receiver <> sid /\ fee <= bal (acct_of s (a_id receiver)) /\
       s' = finish cfg (with_accts s (<[a_id receiver := reset_entry (acct_of s (a_id receiver)) (Some fee) None]>
                                       (<[sid := reset_entry (acct_of s sid) None (Some (t_nonce t))]> (accts s)))) t 2%N fee)).
    { intros receiver status Rold B. unfold exec_tx_body in B.
      assert (Single : forall sdx fee, a_id sdx = sid -> a_old sdx = acct_of s sid ->
                match reset_account s sdx (Some fee) (Some (t_nonce t)) with
                | Some s'' => RFeeNonce (finish cfg s'' t 2%N fee) | None => RRejected end = RFeeNonce s' ->
                exists fee0, (fee0 <= bal (acct_of s sid) /\
                  s' = finish cfg (with_accts s (<[sid := reset_entry (acct_of s sid) (Some fee0) (Some (t_nonce t))]> (accts s))) t 2%N fee0) \/
                  (t_kind t = KFeeDeleg /\ a_id receiver <> sid /\ fee0 <= bal (acct_of s (a_id receiver)) /\
                   s' = finish cfg (with_accts s (<[a_id receiver := reset_entry (acct_of s (a_id receiver)) (Some fee0) None]>
                                       (<[sid := reset_entry (acct_of s sid) None (Some (t_nonce t))]> (accts s)))) t 2%N fee0)).
      { intros sdx fee I O R. destruct (reset_account s sdx (Some fee) (Some (t_nonce t))) as [s2|] eqn:R1; [|discriminate].
        destruct (reset_account_exact _ _ _ _ _ R1) as [E L]. rewrite I, O in E. rewrite O in L.
        exists fee. left. split; [exact L|]. injection R as <-. rewrite E. reflexivity. }
      destruct (is_ent (t_kind t)) eqn:EN.
      { destruct (t_kind t) eqn:K; try discriminate EN. cbn [is_gov] in B.
        destruct (t_fddeny t); [|contradiction]. cbn [negb orb] in B.
        apply (Single (get_astate s sid) 0); [reflexivity|reflexivity|].
        destruct (reset_account s (get_astate s sid) _ _); [f_equal; exact B|contradiction]. }
      destruct (is_gov (t_kind t)).
      { destruct (exec_governance _ _ _ _ _ _ _) as [[[? ?] ?]|]; contradiction. }
      destruct (match t_kind t with KFeeDeleg => true | _ => false end) eqn:FD.
      - assert (K : t_kind t = KFeeDeleg) by (destruct (t_kind t); try discriminate; reflexivity).
        destruct (validate_max_fee _ _ _ _ _ _); cbn [negb] in B; [|contradiction].
        destruct (_ || _); [contradiction|].
        destruct (contract_execute vm cfg s t (get_astate s sid) receiver true) as [[[[c x] sd'] rc'] fee] eqn:CE.
        destruct (c_fix_f24 cfg && (a_id sd' =? a_id rc')%N) eqn:F24.
        + destruct c; try contradiction.
          destruct (contract_execute_runtime _ _ _ _ _ _ _ _ _ _ _ CE) as (->&I1&I2&O1&O2).
          apply andb_true_iff in F24 as [_ F24]. cbn [negb orb] in B. rewrite a_id_sub, F24 in B.
          apply (Single (sub_bal sd' fee) fee); [rewrite a_id_sub; exact I1|rewrite a_old_sub; exact O1|].
          destruct (reset_account s (sub_bal sd' fee) _ _); [f_equal; exact B|contradiction].
        + destruct c; try contradiction.
          destruct (contract_execute_runtime _ _ _ _ _ _ _ _ _ _ _ CE) as (->&I1&I2&O1&O2).
          cbn [negb orb] in B. rewrite a_id_sub in B.
          destruct (N.eqb_spec (a_id sd') (a_id rc')) as [E|E].
          * apply (Single sd' fee); [exact I1|exact O1|].
            destruct (reset_account s sd' _ _); [f_equal; exact B|contradiction].
          * destruct (reset_account s sd' None (Some (t_nonce t))) as [s2|] eqn:R1; [|contradiction].
            destruct (reset_account_exact _ _ _ _ _ R1) as [E1 _].
            destruct (reset_account s2 (sub_bal rc' fee) (Some fee) None) as [s3|] eqn:R2; [|contradiction].
            destruct (reset_account_exact _ _ _ _ _ R2) as [E2 L2].
            rewrite a_id_sub, a_old_sub, I2, O2, Rold in E2. rewrite a_old_sub, O2, Rold in L2.
            rewrite I1, O1 in E1. simpl in E1.
            exists fee. right. rewrite I1, I2 in E. simpl in E.
            split; [exact K|]. split; [congruence|]. split; [exact L2|].
            subst s'. rewrite E2, E1. reflexivity.
      - destruct (contract_execute vm cfg s t (get_astate s sid) receiver false) as [[[[c x] sd'] rc'] fee] eqn:CE.
        destruct c; try contradiction.
        destruct (contract_execute_runtime _ _ _ _ _ _ _ _ _ _ _ CE) as (->&I1&I2&O1&O2).
        cbn [negb orb] in B.
        apply (Single (sub_bal sd' fee) fee); [rewrite a_id_sub; exact I1|rewrite a_old_sub; exact O1|].
        destruct (reset_account s (sub_bal sd' fee) _ _); [f_equal; exact B|contradiction]. }
    unfold receiver_id.
    destruct (resolve is_name s (recipient_of t) =? 0)%N.
    - destruct (a_isnew _); cbn [negb] in H; [|discriminate].
      match type of H with match exec_tx_body _ _ _ _ _ _ _ ?r ?st with _ => _ end = _ => apply (Body r st); [reflexivity|] end.
      destruct (exec_tx_body _ _ _ _ _ _ _ _ _); inversion H; reflexivity.
    - match type of H with match exec_tx_body _ _ _ _ _ _ _ ?r ?st with _ => _ end = _ => apply (Body r st); [reflexivity|] end.
      destruct (exec_tx_body _ _ _ _ _ _ _ _ _); inversion H; reflexivity.
  Qed.

  (** C04: a transaction that is not rejected is bound to this chain, carries the hash of its
      body, and its nonce is exactly the sender account's current nonce + 1 *)
  Theorem exec_tx_authorised bno s t o s' :
    xtx bno s t = (o, s') -> o <> Rejected ->
    t_chain t = c_chain cfg /\ t_hash t = tx_hash t /\ t_from t <> 0%N /\
    t_nonce t = (nonce (acct_of s (resolve is_name s (t_from t))) + 1)%N.
  Proof.
    unfold exec_tx, exec_tx_core. intros H Ho.
    destruct (validate tx_hash cfg t) eqn:V; cbn [negb] in H; [|inversion H; congruence].
    destruct (validate_with_sender_state cfg t _) eqn:W; cbn [negb] in H; [|inversion H; congruence].
    unfold validate in V. repeat (apply andb_true_iff in V as [V ?]).
    unfold validate_with_sender_state in W. apply andb_true_iff in W as [W W3]. apply andb_true_iff in W as [W1 _].
    apply negb_true_iff in W1, W3. apply N.leb_gt in W1. apply N.ltb_ge in W3. simpl in W1, W3.
    repeat split.
    - apply N.eqb_eq. assumption.
    - apply N.eqb_eq. assumption.
    - match goal with X : negb (t_from t =? 0)%N = true |- _ => apply negb_true_iff in X; apply N.eqb_neq in X; exact X end.
    - lia.
  Qed.

  (** C04: a block is accepted only if every transaction in it carries a signature valid for
      its account (or for the registered owner of its account name in the pre-block state) *)
  Theorem exec_block_signatures bno cb vr s txs s' :
    exec_block is_name cid_of tx_hash vm sig_ok cfg bno cb vr s txs = Some s' ->
    forall t, In t txs -> verify_tx is_name sig_ok s t = true.
  Proof.
    unfold exec_block. destruct (exec_txs _ _ _ _ _ _ _ _); [|discriminate].
    destruct (forallb _ txs) eqn:F; [|discriminate]. intros _ t Ht.
    rewrite forallb_forall in F. auto.
  Qed.

  (** every transaction of an accepted block was executed (not rejected) *)
  Lemma exec_txs_all_executed bno txs : forall s s',
    exec_txs is_name cid_of tx_hash vm cfg bno s txs = Some s' ->
    Forall (fun t => t_chain t = c_chain cfg /\ t_hash t = tx_hash t) txs.
  Proof.
    induction txs as [|t tl IH]; intros s s' H; [constructor|]. simpl in H.
    destruct (xtx bno s t) as [o s1] eqn:X. destruct o; try discriminate.
    - constructor; [|eauto]. destruct (exec_tx_authorised bno s t _ _ X) as (A&B&_); [discriminate|auto].
    - constructor; [|eauto]. destruct (exec_tx_authorised bno s t _ _ X) as (A&B&_); [discriminate|auto].
  Qed.

  (** the node-level step: a block that fails (bad transaction, bad signature) leaves the
      ledger state exactly as it was (state part of C03's block clause) *)
  Definition apply_block bno cb vr (s : lstate) (txs : list tx) : lstate :=
    match exec_block is_name cid_of tx_hash vm sig_ok cfg bno cb vr s txs with Some s' => s' | None => s end.
  Theorem exec_block_fail_unchanged bno cb vr s txs :
    exec_block is_name cid_of tx_hash vm sig_ok cfg bno cb vr s txs = None -> apply_block bno cb vr s txs = s.
  Proof. unfold apply_block. intros ->. reflexivity. Qed.
  (** C04, producer path: a pooled transaction executes only as the account its signature was verified for *)
  Theorem exec_tx_pooled_as_verified a bno s t o s' :
    exec_tx_pooled is_name cid_of tx_hash vm cfg (Some a) bno s t = (o, s') -> o <> Rejected ->
    resolve is_name s (t_from t) = a.
  Proof.
    unfold exec_tx_pooled. destruct (N.eqb_spec a (resolve is_name s (t_from t))) as [E|E]; [auto|].
    intros [= <- _] H. congruence.
  Qed.
  Theorem exec_tx_pooled_rejected_unchanged va bno s t s' :
    exec_tx_pooled is_name cid_of tx_hash vm cfg va bno s t = (Rejected, s') -> s' = s.
  Proof.
    unfold exec_tx_pooled. destruct va as [a|]; [destruct (_ =? _)%N|]; try (intros [= <-]; reflexivity);
      apply exec_tx_rejected_unchanged.
  Qed.

  (** F52 (current code): no offer -- refused, executed in a discarded attempt, or anything else -- removes the binding *)
  Lemma offers_keep_binding a t ss : va_after is_name 2 (Some a) t ss = Some a.
  Proof. induction ss as [|s tl IH]; [reflexivity|]. simpl. exact IH. Qed.
  (** ... so a pooled tx is never executed against an account other than the one verified at admission, after
      ANY sequence of earlier offers *)
  Theorem pooled_tx_never_executes_as_other a bno t ss s o s' :
    exec_tx_pooled is_name cid_of tx_hash vm cfg (va_after is_name 2 (Some a) t ss) bno s t = (o, s') ->
    o <> Rejected -> resolve is_name s (t_from t) = a.
  Proof. rewrite (offers_keep_binding a t ss). apply exec_tx_pooled_as_verified. Qed.
  (** the original code lost the binding at the first offer, whatever its outcome (F51) *)
  Lemma old_code_loses_binding_refuted a t s : va_after is_name 0 (Some a) t [s] = None.
  Proof. reflexivity. Qed.
  (** after F51 alone an offer whose comparison succeeded (e.g. executed in a discarded attempt) still lost it (F52) *)
  Lemma f51_code_loses_binding_after_success_refuted a t s :
    resolve is_name s (t_from t) = a -> va_after is_name 1 (Some a) t [s] = None.
  Proof. intros E. simpl. rewrite E, N.eqb_refl. reflexivity. Qed.
  (** ... while refused offers kept it *)
  Lemma f51_refused_offers_keep_binding a t ss :
    Forall (fun s => resolve is_name s (t_from t) <> a) ss -> va_after is_name 1 (Some a) t ss = Some a.
  Proof.
    induction ss as [|s tl IH]; intros H; [reflexivity|]. inversion H; subst. simpl.
    destruct (N.eqb_spec a (resolve is_name s (t_from t))) as [E|E]; [congruence|]. simpl. auto.
  Qed.

  (** C03, commit-only path: a supplied block state that is not the one the header commits to leaves the node state *)
  Theorem commit_only_fail_unchanged (root_of : lstate -> N) hdr supplied s :
    root_of supplied <> hdr -> commit_only root_of hdr supplied s = s.
  Proof. unfold commit_only. intros H. destruct (N.eqb_spec (root_of supplied) hdr); [contradiction|reflexivity]. Qed.
End Atom.

From stdpp Require Import gmap.
From Coq Require Import ZArith List Bool Lia.
From Verif Require Import Ledger.Model.
From Verif Require Import Ledger.Supply Ledger.Frame Ledger.TxProofs.
Import ListNotations.
Open Scope Z_scope.

Section Block.
  Variable is_name : N -> bool.
  Variable cid_of : N -> N -> N.
  Variable tx_hash : tx -> N.
  Variable vm : tx -> astate -> astate -> lstate -> vm_result.
  Variable sig_ok : N -> tx -> bool.
  Variable cfg : config.
  Hypothesis Hgp : 0 <= c_gas_price cfg.
  Hypothesis Hfix : c_fix_f18 cfg = true.

  Notation xtx := (exec_tx is_name cid_of tx_hash vm cfg).
  Notation plain := (plain_sender is_name cid_of).

  Theorem exec_tx_core_effect bno s t :
    nonneg s -> 0 <= t_amount t -> plain s t ->
    match exec_tx_core is_name cid_of tx_hash vm cfg bno s t with
    | RApplied s' => tx_effect cfg s s' t false
    | RFeeNonce s' => tx_effect cfg s s' t true
    | RRejected => True
    end.
  Proof.
    intros Hn Ha (Hcode&Hcid&Hso). unfold exec_tx_core.
    destruct (validate tx_hash cfg t); cbn [negb]; [|exact I].
    destruct (validate_with_sender_state cfg t _) eqn:V; cbn [negb]; [|exact I].
    destruct (N.eqb_spec (resolve is_name s (recipient_of t)) 0) as [E|E].
    - destruct (a_isnew (get_astate s (cid_of (t_from t) (t_nonce t)))); cbn [negb]; [|exact I].
      apply (exec_tx_body_effect is_name vm cfg Hgp Hfix); auto; simpl.
      all: try (intros X; congruence).
      all: try (intros K X; congruence).
    - apply (exec_tx_body_effect is_name vm cfg Hgp Hfix); auto; simpl.
      all: try (intros X; rewrite <- X; auto; fail).
      intros K. specialize (Hso K).
        assert (recipient_of t = 2%N) as R by (unfold recipient_of; rewrite K; reflexivity).
        rewrite R. exact Hso.
  Qed.

  (** C01, per transaction and per outcome: value moves only between accounts and BpReward *)
  Theorem exec_tx_supply bno s t o s' :
    nonneg s -> 0 <= t_amount t -> plain s t -> xtx bno s t = (o, s') ->
    nonneg s' /\ supply s' + bp_reward s' = supply s + bp_reward s /\
    match o with
    | Rejected => s' = s
    | _ => exists status fee, 0 <= fee /\ (o = FeeNonceOnly -> status = 2%N) /\ supply s' = supply s - fee /\
                 bp_reward s' = bp_reward s + fee /\ receipts s' = receipts s ++ [mk_receipt cfg t status fee]
    end.
  Proof.
    intros Hn Ha Hp H. pose proof (exec_tx_core_effect bno s t Hn Ha Hp) as E. unfold exec_tx in H.
    destruct (exec_tx_core is_name cid_of tx_hash vm cfg bno s t) as [x|x|]; inversion H; subst; clear H.
    - destruct E as (N1&st&fee&F0&Fe&S1&B1&R1). repeat split; auto; [lia|]. exists st, fee. repeat split; auto. discriminate.
    - destruct E as (N1&st&fee&F0&Fe&S1&B1&R1). repeat split; auto; [lia|]. exists st, fee. repeat split; auto.
    - auto.
  Qed.

  (** every transaction of the list is sent from a plain account with a non-negative amount
      at the state in which it executes *)
  Fixpoint txs_plain (bno : N) (s : lstate) (txs : list tx) : Prop :=
    match txs with
    | [] => True
    | t :: tl => 0 <= t_amount t /\ plain s t /\ txs_plain bno (snd (xtx bno s t)) tl
    end.

  Definition fee_sum (l : list receipt) : Z := fold_right (fun r a => r_fee r + a) 0 l.
  Lemma fee_sum_app l1 l2 : fee_sum (l1 ++ l2) = fee_sum l1 + fee_sum l2.
  Proof. induction l1; simpl; lia. Qed.

  Lemma exec_txs_supply bno txs : forall s s',
    nonneg s -> txs_plain bno s txs ->
    exec_txs is_name cid_of tx_hash vm cfg bno s txs = Some s' ->
    nonneg s' /\ supply s' + bp_reward s' = supply s + bp_reward s /\
    bp_reward s' - bp_reward s = fee_sum (receipts s') - fee_sum (receipts s) /\ 0 <= bp_reward s' - bp_reward s.
  Proof.
    induction txs as [|t tl IH]; intros s s' Hn Hp H; simpl in H.
    - inversion H; subst. repeat split; auto; lia.
    - destruct Hp as (Ha&Hp&Hrest).
      destruct (xtx bno s t) as [o s1] eqn:X.
      destruct (exec_tx_supply bno s t o s1 Hn Ha Hp X) as (N1&S1&O1). simpl in Hrest.
      destruct o.
      + destruct O1 as (st&fee&F0&_&_&B1&R1). destruct (IH s1 s' N1 Hrest H) as (N2&S2&B2&P2).
        assert (fee_sum (receipts s1) = fee_sum (receipts s) + fee) by (rewrite R1, fee_sum_app; simpl; lia).
        repeat split; auto; lia.
      + destruct O1 as (st&fee&F0&_&_&B1&R1). destruct (IH s1 s' N1 Hrest H) as (N2&S2&B2&P2).
        assert (fee_sum (receipts s1) = fee_sum (receipts s) + fee) by (rewrite R1, fee_sum_app; simpl; lia).
        repeat split; auto; lia.
      + discriminate.
  Qed.

  Lemma gather_supply bno txs : forall s l s',
    nonneg s -> txs_plain bno s txs ->
    gather is_name cid_of tx_hash vm cfg bno s txs = (l, s') ->
    nonneg s' /\ supply s' + bp_reward s' = supply s + bp_reward s /\
    bp_reward s' - bp_reward s = fee_sum (receipts s') - fee_sum (receipts s) /\ 0 <= bp_reward s' - bp_reward s.
  Proof.
    induction txs as [|t tl IH]; intros s l s' Hn Hp H; simpl in H.
    - inversion H; subst. repeat split; auto; lia.
    - destruct Hp as (Ha&Hp&Hrest).
      destruct (xtx bno s t) as [o s1] eqn:X.
      destruct (exec_tx_supply bno s t o s1 Hn Ha Hp X) as (N1&S1&O1). simpl in Hrest.
      destruct o.
      + destruct (gather _ _ _ _ _ bno s1 tl) as [l1 s2] eqn:G. inversion H; subst.
        destruct O1 as (st&fee&F0&_&_&B1&R1). destruct (IH s1 l1 s' N1 Hrest G) as (N2&S2&B2&P2).
        assert (fee_sum (receipts s1) = fee_sum (receipts s) + fee) by (rewrite R1, fee_sum_app; simpl; lia).
        repeat split; auto; lia.
      + destruct (gather _ _ _ _ _ bno s1 tl) as [l1 s2] eqn:G. inversion H; subst.
        destruct O1 as (st&fee&F0&_&_&B1&R1). destruct (IH s1 l1 s' N1 Hrest G) as (N2&S2&B2&P2).
        assert (fee_sum (receipts s1) = fee_sum (receipts s) + fee) by (rewrite R1, fee_sum_app; simpl; lia).
        repeat split; auto; lia.
      + subst s1. eapply IH; eauto.
  Qed.

  (** sendRewardCoinbase *)
  Lemma coinbase_supply s cb :
    nonneg s -> 0 <= bp_reward s ->
    nonneg (send_reward_coinbase s cb) /\
    supply (send_reward_coinbase s cb) = supply s + (match cb with Some _ => bp_reward s | None => 0 end) /\
    receipts (send_reward_coinbase s cb) = receipts s.
  Proof.
    intros Hn Hb. unfold send_reward_coinbase. destruct cb as [c|]; [|repeat split; auto; lia].
    destruct (Z.leb_spec (bp_reward s) 0); [repeat split; auto; lia|].
    rewrite supply_put, a_bal_add, a_id_add, get_astate_id, get_astate_bal.
    pose proof (nonneg_stored s c Hn). repeat split; auto; [|lia].
    apply nonneg_put; auto. rewrite a_bal_add. lia.
  Qed.

  (** dpos.sendVotingReward conserves (winner = vault and reward > vault balance included) *)
  Theorem voting_reward_conserves reward winner s :
    nonneg s -> 0 <= reward ->
    nonneg (send_voting_reward reward winner s) /\ supply (send_voting_reward reward winner s) = supply s /\
    bp_reward (send_voting_reward reward winner s) = bp_reward s /\ receipts (send_voting_reward reward winner s) = receipts s.
  Proof.
    intros Hn Hr. unfold send_voting_reward.
    destruct (a_bal (get_astate s 3%N) =? 0); [auto|].
    destruct winner as [w|]; [|auto].
    set (rw := if a_bal (get_astate s 3%N) <? reward then a_bal (get_astate s 3%N) else reward).
    pose proof (nonneg_stored s 3%N Hn) as H3. pose proof (nonneg_stored s w Hn) as Hw.
    assert (0 <= rw) by (unfold rw; destruct (Z.ltb_spec (a_bal (get_astate s 3%N)) reward); rewrite ?get_astate_bal; lia).
    destruct (send_balance (get_astate s 3%N) (get_astate s w) rw) as [[va wa]|] eqn:S; [|auto].
    destruct (send_balance_spec _ _ _ _ _ S H H3 Hw) as (I1&I2&_&_&_&_&_&_&_&_&P1&P2&Hc).
    split; [apply nonneg_put; auto; apply nonneg_put; auto|]. split; [|auto].
    rewrite !supply_put. simpl in I1, I2. rewrite I1, I2.
    destruct Hc as [(E&->&->)|(E&L&B1&B2)].
    - simpl in E. subst w. rewrite stored_put_same. rewrite !get_astate_bal. simpl. lia.
    - simpl in E. rewrite stored_put_other by (rewrite I2; congruence). rewrite B1, B2, !get_astate_bal. lia.
  Qed.

  (** the block reward as a DPoS node composes it (chain.DecorateBlockRewardFn): the voting reward first, then the
      coinbase account is loaded (a FRESH copy, after the hook) and credited with BpReward *)
  Theorem block_reward_composition_conserves reward winner cb s :
    nonneg s -> 0 <= reward -> 0 <= bp_reward s ->
    nonneg (send_reward_coinbase (send_voting_reward reward winner s) cb) /\
    supply (send_reward_coinbase (send_voting_reward reward winner s) cb)
      = supply s + (match cb with Some _ => bp_reward s | None => 0 end).
  Proof.
    intros Hn Hr Hb. destruct (voting_reward_conserves reward winner s Hn Hr) as (N1&S1&B1&_).
    destruct (coinbase_supply (send_voting_reward reward winner s) cb N1) as (N2&S2&_); [lia|].
    split; [exact N2|]. rewrite S2, S1, B1. reflexivity.
  Qed.

  Definition vreward_ok (vr : lstate -> lstate) : Prop :=
    forall s, nonneg s -> nonneg (vr s) /\ supply (vr s) = supply s /\ bp_reward (vr s) = bp_reward s /\ receipts (vr s) = receipts s.

  (** C01: a validated block with a coinbase conserves the supply; without a coinbase the
      supply shrinks by exactly the sum of the fees recorded in the block's receipts *)
  Theorem exec_block_supply bno cb vr s txs s' :
    nonneg s -> vreward_ok vr -> txs_plain bno (begin_block s) txs ->
    exec_block is_name cid_of tx_hash vm sig_ok cfg bno cb vr s txs = Some s' ->
    nonneg s' /\
    match cb with
    | Some _ => supply s' = supply s
    | None => supply s - supply s' = fee_sum (receipts s')
    end.
  Proof.
    intros Hn Hvr Hp H. unfold exec_block in H.
    destruct (exec_txs _ _ _ _ _ bno (begin_block s) txs) as [s1|] eqn:X; [|discriminate].
    destruct (forallb _ txs); [|discriminate]. inversion H; subst; clear H.
    destruct (exec_txs_supply bno txs (begin_block s) s1 Hn Hp X) as (N1&S1&B1&P1).
    change (supply (begin_block s)) with (supply s) in S1. simpl in S1, B1, P1.
    destruct (Hvr s1 N1) as (N2&S2&B2&R2).
    destruct (coinbase_supply (vr s1) cb N2) as (N3&S3&R3); [lia|].
    split; [exact N3|]. destruct cb; rewrite S3, ?R3, S2, ?B2, ?R2; lia.
  Qed.

  Theorem produce_block_supply bno cb vr s cands l s' :
    nonneg s -> vreward_ok vr -> txs_plain bno (begin_block s) cands ->
    produce_block is_name cid_of tx_hash vm cfg bno cb vr s cands = (l, s') ->
    nonneg s' /\
    match cb with
    | Some _ => supply s' = supply s
    | None => supply s - supply s' = fee_sum (receipts s')
    end.
  Proof.
    intros Hn Hvr Hp H. unfold produce_block in H.
    destruct (gather _ _ _ _ _ bno (begin_block s) cands) as [l1 s1] eqn:X. inversion H; subst; clear H.
    destruct (gather_supply bno cands (begin_block s) l s1 Hn Hp X) as (N1&S1&B1&P1).
    change (supply (begin_block s)) with (supply s) in S1. simpl in S1, B1, P1.
    destruct (Hvr s1 N1) as (N2&S2&B2&R2).
    destruct (coinbase_supply (vr s1) cb N2) as (N3&S3&R3); [lia|].
    split; [exact N3|]. destruct cb; rewrite S3, ?R3, S2, ?B2, ?R2; lia.
  Qed.

  (** a chain = any list of blocks (number, coinbase, transactions) executed from a state;
      a fork branch is just another list: the state at a tip is the fold along its branch *)
  Fixpoint exec_chain (vr : lstate -> lstate) (s : lstate) (bl : list (N * N * list tx)) : option lstate :=
    match bl with
    | [] => Some s
    | (bno, cb, txs) :: tl =>
        match exec_block is_name cid_of tx_hash vm sig_ok cfg bno (Some cb) vr s txs with
        | Some s' => exec_chain vr s' tl
        | None => None
        end
    end.
  Fixpoint chain_plain (vr : lstate -> lstate) (s : lstate) (bl : list (N * N * list tx)) : Prop :=
    match bl with
    | [] => True
    | (bno, cb, txs) :: tl =>
        txs_plain bno (begin_block s) txs /\
        match exec_block is_name cid_of tx_hash vm sig_ok cfg bno (Some cb) vr s txs with
        | Some s' => chain_plain vr s' tl
        | None => True
        end
    end.

  Theorem chain_conserves vr bl : forall s s',
    nonneg s -> vreward_ok vr -> chain_plain vr s bl -> exec_chain vr s bl = Some s' ->
    nonneg s' /\ supply s' = supply s.
  Proof.
    induction bl as [|[[bno cb] txs] tl IH]; intros s s' Hn Hvr Hp H; simpl in *.
    - inversion H; subst. auto.
    - destruct Hp as [Hp Hrest].
      destruct (exec_block _ _ _ _ _ _ bno (Some cb) vr s txs) as [s1|] eqn:X; [|discriminate].
      destruct (exec_block_supply bno (Some cb) vr s txs s1 Hn Hvr Hp X) as [N1 S1].
      destruct (IH s1 s' N1 Hvr Hrest H) as [N2 S2]. split; auto. lia.
  Qed.
End Block.

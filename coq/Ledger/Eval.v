(** Evaluation harness for the correspondence check: instantiates the Section variables of
    Ledger.Model with finite tables and turns a case (the same one the Go engine ran) into
    the flat observation vectors the engine produces.  No proofs. *)
From stdpp Require Import gmap.
From Coq Require Import ZArith List Bool.
From Verif Require Import Ledger.Model.
Import ListNotations.
Open Scope Z_scope.

Definition is_name_std (a : N) : bool := ((200 <=? a) && (a <? 300))%N.
Definition sig_ok_std (a : N) (t : tx) : bool := negb (a =? 0)%N && (t_signer t =? a)%N.
Definition tx_hash_std (t : tx) : N := t_hash t.

Fixpoint lookup3 (tbl : list (N * N * N)) (a n : N) : N :=
  match tbl with
  | [] => 999%N
  | (a', n', c) :: tl => if ((a =? a') && (n =? n'))%N then c else lookup3 tl a n
  end.
Fixpoint lookup_vm (tbl : list (N * vm_result)) (h : N) : vm_result :=
  match tbl with
  | [] => VmRuntimeErr 0
  | (h', r) :: tl => if (h =? h')%N then r else lookup_vm tl h
  end.

Record block := { b_no : N; b_validator : bool; b_txs : list (tx * bool) (* tx, force *);
                  b_deliver : N (* chain mode: 0 from the network; 1 with the block state it was produced from
                                   (commit-only path); 2 with a block state that disagrees with the header *) }.
Record case := {
  k_cfg : config;
  k_chain_mode : bool;
  k_coinbase : option N;
  k_init : lstate;
  k_cids : list (N * N * N);
  k_vm : list (N * vm_result);
  k_ids : list N; k_names : list N; k_ckeys : list (N * N);
  k_blocks : list block }.

Definition b2z (b : bool) : Z := if b then 1 else 0.
Definition dump (ids names_ : list N) (ckeys : list (N * N)) (s : lstate) : list Z :=
  flat_map (fun id => match accts s !! id with
                      | Some a => [bal a; Z.of_N (nonce a); b2z (code a); 1]
                      | None => [0; 0; 0; 0] end) ids
  ++ flat_map (fun id => if ((10 <=? id) && (id <? 100))%N then
                           match stk s !! id with
                           | Some (a, w) => [a; Z.of_N w; 1]
                           | None => [0; 0; 0] end else []) ids
  ++ flat_map (fun id => if ((10 <=? id) && (id <? 100))%N then
                           [match voted s !! id with Some _ => 1 | None => 0 end] else []) ids
  ++ [stk_total s]
  ++ flat_map (fun n => match names s !! n with
                        | Some (o, d) => [Z.of_N o; Z.of_N d]
                        | None => [0; 0] end) names_
  ++ map (fun ck => default 0 (default ∅ (cstor s !! fst ck) !! snd ck)) ckeys.

Section Run.
  Variable c : case.
  Definition xvm (t : tx) (_ _ : astate) (_ : lstate) : vm_result := lookup_vm (k_vm c) (t_hash t).
  Definition xexec := exec_tx is_name_std (lookup3 (k_cids c)) tx_hash_std xvm (k_cfg c).
  Definition xdump := dump (k_ids c) (k_names c) (k_ckeys c).
  Definition oc2z (o : outcome) : Z := match o with Applied => 0 | FeeNonceOnly => 1 | Rejected => 2 end.

  Definition tx_obs (o : outcome) (s : lstate) : list Z :=
    let r := match o with Rejected => None | _ => last (map Some (receipts s)) None end in
    [oc2z o; match r with Some r => r_fee r | None => 0 end;
     match r with Some r => r_gas r | None => 0 end;
     match r with Some r => Z.of_N (r_status r) | None => 0 end; bp_reward s] ++ xdump s.

  (** executes the candidate txs in order; returns observations, included txs, final state,
      aborted flag *)
  Fixpoint run_txs (bno : N) (validator : bool) (s : lstate) (txs : list (tx * bool))
    : list (list Z) * list tx * lstate * bool :=
    match txs with
    | [] => ([], [], s, false)
    | (t, force) :: tl =>
      let '(o, s') := xexec bno s t in
      let ob := tx_obs o s' in
      match o with
      | Rejected =>
          if validator then ([ob], [], s', true)
          else let '(obs, inc, s'', ab) := run_txs bno validator s' tl in
               (ob :: obs, (if force then t :: inc else inc), s'', ab)
      | _ => let '(obs, inc, s'', ab) := run_txs bno validator s' tl in (ob :: obs, t :: inc, s'', ab)
      end
    end.

  Fixpoint run_blocks (s : lstate) (prev_no : N) (bl : list block) : list (list Z) :=
    match bl with
    | [] => []
    | b :: tl =>
      let bno := if k_chain_mode c then (prev_no + 1)%N else if (b_no b =? 0)%N then (prev_no + 1)%N else b_no b in
      let validator := b_validator b && negb (k_chain_mode c) in
      let '(obs, inc, s', ab) := run_txs bno validator (begin_block s) (b_txs b) in
      if ab then obs ++ [[0; 0]] ++ run_blocks s prev_no tl
      else
        let s_end := send_reward_coinbase s' (k_coinbase c) in
        if k_chain_mode c && (b_deliver b =? 1)%N then
          (* commit-only path: not re-executed, no signature stage; header roots = the supplied state's roots *)
          obs ++ [[1; bp_reward s_end] ++ xdump s_end] ++ run_blocks s_end bno tl
        else if k_chain_mode c && (b_deliver b =? 2)%N then
          (* validatePost refuses: the supplied block state is not the one the header commits to *)
          obs ++ [[0; bp_reward s_end] ++ xdump s] ++ run_blocks s prev_no tl
        else if k_chain_mode c then
          match exec_block is_name_std (lookup3 (k_cids c)) tx_hash_std xvm sig_ok_std (k_cfg c) bno (k_coinbase c) (fun x => x) s inc with
          | Some s2 => obs ++ [[1; bp_reward s_end] ++ xdump s2] ++ run_blocks s2 bno tl
          | None => obs ++ [[0; bp_reward s_end] ++ xdump s] ++ run_blocks s prev_no tl
          end
        else obs ++ [[1; bp_reward s_end] ++ xdump s_end] ++ run_blocks s_end bno tl
    end.

  Definition run_case (first_no : N) : list (list Z) := run_blocks (k_init c) first_no (k_blocks c).
End Run.

Definition mk_state (accs : list (N * acct)) (stks : list (N * (Z * N))) (total : Z) (nms : list (N * (N * N))) : lstate :=
  {| accts := list_to_map accs; stk := list_to_map stks; stk_total := total; voted := ∅; names := list_to_map nms;
     names0 := list_to_map nms; cstor := ∅; bp_reward := 0; receipts := [] |}.

(** checksum of an observation vector (the check script compares checksums and re-evaluates
    only differing cases with full vectors) *)
Definition chk (l : list Z) : Z := fold_left (fun acc x => (acc * 1000003 + x) mod 2305843009213693951) l 7.
Definition run_case_chk (c : case) (first_no : N) : list Z := map chk (run_case c first_no).

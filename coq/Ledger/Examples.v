From stdpp Require Import gmap.
From Coq Require Import ZArith List Bool Lia.
From Verif Require Import Ledger.Model Ledger.Supply Ledger.TxProofs Ledger.BlockProofs Ledger.NonceChain Ledger.Eval Ledger.Refuted.
Import ListNotations.
Open Scope Z_scope.

(** The hypotheses of the chain theorems are satisfiable by a non-trivial chain: two blocks with a
    coinbase, fee regime (version 2, gas price 50 gaer), transfers, a stake, a name purchase and a
    transaction that fails at run time (CALL to an account without code). *)
Definition e_cfg : config :=
  {| c_version := 3; c_zerofee := false; c_gas_price := 50000000000; c_chain := 7%N; c_name_price := 1000000000000000000;
     c_stake_min := 10000000000000000000000; c_stake_delay := 86400%N; c_vote_delay := 86400%N; c_fix_f24 := true; c_fix_f18 := true |}.
Definition e_tx k f t n a pl nm : tx :=
  {| t_kind := k; t_from := f; t_to := t; t_nonce := n; t_amount := a; t_plen := pl; t_gaslimit := 0; t_chain := 7%N;
     t_hash := 5%N; t_signer := f; t_name := nm; t_dest := 0%N; t_fddeny := false |}.
Definition e_state : lstate :=
  mk_state [(10%N, {| bal := 30000000000000000000000; nonce := 0%N; code := false |});
            (11%N, {| bal := 5000000000000000000; nonce := 0%N; code := false |})] [] 0 [].
Definition e_vm (_ : tx) (_ _ : astate) (_ : lstate) : vm_result := VmRuntimeErr 0.
Definition e_chain : list (N * N * list tx) :=
  [(5%N, 30%N, [e_tx KTransfer 10%N 11%N 1%N 1000 0 0%N; e_tx KStake 10%N 0%N 2%N 10000000000000000000000 20 0%N;
                e_tx KNameCreate 11%N 0%N 1%N 1000000000000000000 20 200%N]);
   (6%N, 30%N, [e_tx KCall 11%N 10%N 2%N 0 10 0%N; e_tx KTransfer 10%N 200%N 3%N 77 0 0%N])].

Lemma e_state_nonneg : nonneg e_state.
Proof.
  intros id a H. unfold e_state, mk_state in H. simpl in H.
  apply lookup_insert_Some in H as [[_ <-]|[_ H]]; [simpl; lia|].
  apply lookup_insert_Some in H as [[_ <-]|[_ H]]; [simpl; lia|].
  rewrite lookup_empty in H. discriminate.
Qed.

Example chain_hypotheses_satisfiable :
  exists s', exec_chain is_name_std w_cid w_hash e_vm sig_ok_std e_cfg (fun x => x) e_state e_chain = Some s' /\
             chain_plain is_name_std w_cid w_hash e_vm sig_ok_std e_cfg (fun x => x) e_state e_chain /\
             supply s' = supply e_state /\
             nonce (acct_of s' 10%N) = 3%N /\ nonce (acct_of s' 11%N) = 2%N /\
             length (receipts s') = 2%nat.
Proof.
  eexists. split; [vm_compute; reflexivity|]. split.
  - vm_compute. repeat split; try discriminate; try congruence.
  - vm_compute. repeat split; reflexivity.
Qed.

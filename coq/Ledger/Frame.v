From stdpp Require Import gmap.
From Coq Require Import ZArith List Bool Lia.
From Verif Require Import Ledger.Model.
From Verif Require Import Ledger.Supply.
Import ListNotations.
Open Scope Z_scope.

Ltac crush_frame H :=
  repeat first [ discriminate
               | match type of H with
                 | context [if ?c then _ else _] => destruct c
                 | context [match ?x with _ => _ end] => destruct x
                 end ].

Lemma exec_governance_frame is_name cfg bno s t sd rc s' sd' rc' :
  exec_governance is_name cfg bno s t sd rc = Some (s', sd', rc') ->
  bp_reward s' = bp_reward s /\ receipts s' = receipts s.
Proof.
  unfold exec_governance, exec_stake, exec_unstake, exec_vote, exec_name, name_commit. intros H.
  crush_frame H; inversion H; subst; auto.
Qed.

Lemma vm_fold_frame trs : forall s sd rc s' sd' rc',
  fold_left vm_transfer trs (s, sd, rc) = (s', sd', rc') ->
  bp_reward s' = bp_reward s /\ receipts s' = receipts s.
Proof.
  induction trs as [|[to amt] tl IH]; intros s sd rc s' sd' rc' H; simpl in H.
  - inversion H; auto.
  - destruct (to =? a_id rc)%N; [eauto|]. destruct (to =? a_id sd)%N; [eauto|].
    apply IH in H. exact H.
Qed.

Lemma contract_execute_frame vm cfg s t sd rc fd c s' sd' rc' fee :
  contract_execute vm cfg s t sd rc fd = (c, s', sd', rc', fee) ->
  bp_reward s' = bp_reward s /\ receipts s' = receipts s.
Proof.
  unfold contract_execute. intros H.
  destruct (send_balance sd rc (t_amount t)) as [[a b]|]; [|inversion H; auto].
  destruct (check_execution _ _ _ _ _ _) as [dx e]. destruct dx; cbn [negb] in H; [|inversion H; auto].
  destruct (gas_limit _ _ _ _ _ _ _ _ _); [|inversion H; auto].
  destruct (negb _ && negb _); [inversion H; auto|].
  destruct (vm t a b s) as [trs ws cfee|cfee|cfee].
  - destruct (cfee <? 0); [inversion H; auto|].
    destruct (fold_left vm_transfer trs (s, a, b)) as [[s1 a1] b1] eqn:F.
    destruct (vm_fold_frame _ _ _ _ _ _ _ F).
    match type of H with (if ?c then _ else _) = _ => destruct c end; [|inversion H; subst; auto].
    match type of H with (if ?c then _ else _) = _ => destruct c end; [inversion H; subst; auto|].
    destruct trs; inversion H; subst; auto.
  - destruct (cfee <? 0); inversion H; auto.
  - inversion H; auto.
Qed.

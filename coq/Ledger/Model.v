(** Ledger model (C01 conservation, C03 atomicity, C04 authorisation / replay).

    Mirrors, in the order of the Go code:
      state/account.go        AccountState = COPY of an account record (old/new) written back
                              only by PutState; Add/SubBalance store big.Int.Bytes(), i.e. the
                              absolute value; SendBalance
      fee/{fee,gas,payload}.go  TxBaseFee, TxMaxFee, TxGas, GasLimit, MaxGasLimit, ReceiptGasUsed
      types/transaction.go    Validate (chain id hash, hash, amount, per-type recipient rules),
                              ValidateWithSenderState, ValidateMaxFee
      contract/contract.go    Execute, checkExecution (VM = oracle, see [vm_result])
      chain/governance.go + contract/system/{execute,staking,validation}.go (stake / unstake)
                            + contract/name/{execute,name}.go (create / update / setOwner)
      chain/chainhandle.go    executeTx (resetAccount, fee-delegation branch, receipts),
                              NewTxExecutor (snapshot / rollback), sendRewardCoinbase,
                              blockExecutor.execute (validator), GatherTXs (producer)
      chain/blockvalidator.go + signVerifier.go  signature stage of the validator
      consensus/impl/dpos/dpos.go  sendVotingReward (winner = oracle)

    Not modelled (stated in notes/g7-ledger.md): MULTICALL / REDEPLOY, votes and enterprise
    transactions (Gov model of C15), contract creator metadata (the VM stub never writes it),
    uint64 wrap-around of nonces, the undo-log implementation of Snapshot/Rollback (C12: here a
    snapshot is the saved state and rollback restores it).

    Addresses, names, hashes and chain-id hashes are abstract identifiers in N:
      0 = nil / empty, 1 = aergo.system, 2 = aergo.name, 3 = aergo.vault.
    No proofs in this file. *)
From stdpp Require Import gmap.
From Coq Require Import ZArith List Bool.
Import ListNotations.
Open Scope Z_scope.

(* ------------------------------------------------------------------ accounts *)
Record acct := { bal : Z; nonce : N; code : bool }.
Definition acct0 : acct := {| bal := 0; nonce := 0%N; code := false |}.

(** state.AccountState: a copy.  [a_isnew] = newOne, [a_deploy] = deployFlag. *)
Record astate := { a_id : N; a_old : acct; a_new : acct; a_isnew : bool; a_deploy : bool }.

Definition set_bal (a : acct) (b : Z) : acct := {| bal := b; nonce := nonce a; code := code a |}.
Definition set_nonce (a : acct) (n : N) : acct := {| bal := bal a; nonce := n; code := code a |}.
Definition set_code (a : acct) : acct := {| bal := bal a; nonce := nonce a; code := true |}.
Definition upd_new (a : astate) (x : acct) : astate :=
  {| a_id := a_id a; a_old := a_old a; a_new := x; a_isnew := a_isnew a; a_deploy := a_deploy a |}.
Definition a_bal (a : astate) : Z := bal (a_new a).
(** AddBalance / SubBalance: new(big.Int).Add/Sub(...).Bytes() drops the sign. *)
Definition add_bal (a : astate) (x : Z) : astate := upd_new a (set_bal (a_new a) (Z.abs (a_bal a + x))).
Definition sub_bal (a : astate) (x : Z) : astate := upd_new a (set_bal (a_new a) (Z.abs (a_bal a - x))).
Definition a_set_nonce (a : astate) (n : N) : astate := upd_new a (set_nonce (a_new a) n).
Definition a_reset (a : astate) : astate := upd_new a (a_old a).

Record receipt := { r_status : N (* 0 SUCCESS 1 CREATED 2 ERROR *); r_fee : Z; r_gas : Z; r_hash : N; r_feedeleg : bool }.

Record lstate := {
  accts : gmap N acct;             (* account records (absent = never written)             *)
  stk : gmap N (Z * N);            (* aergo.system: staking record per account (amount, when) *)
  stk_total : Z;                   (* aergo.system: staking total                          *)
  voted : gmap N bool;             (* aergo.system: the account has a BP vote record       *)
  names : gmap N (N * N);          (* aergo.name: name -> (owner, destination), buffered view *)
  names0 : gmap N (N * N);         (* aergo.name as committed at block start (GetInitialData) *)
  cstor : gmap N (gmap N Z);       (* user contract storages                               *)
  bp_reward : Z;                   (* BlockState.BpReward                                  *)
  receipts : list receipt }.

Definition with_accts (s : lstate) (m : gmap N acct) : lstate :=
  {| accts := m; stk := stk s; stk_total := stk_total s; voted := voted s; names := names s; names0 := names0 s;
     cstor := cstor s; bp_reward := bp_reward s; receipts := receipts s |}.
Definition with_stk (s : lstate) (m : gmap N (Z * N)) (t : Z) : lstate :=
  {| accts := accts s; stk := m; stk_total := t; voted := voted s; names := names s; names0 := names0 s;
     cstor := cstor s; bp_reward := bp_reward s; receipts := receipts s |}.
Definition with_voted (s : lstate) (m : gmap N bool) : lstate :=
  {| accts := accts s; stk := stk s; stk_total := stk_total s; voted := m; names := names s; names0 := names0 s;
     cstor := cstor s; bp_reward := bp_reward s; receipts := receipts s |}.
Definition with_names (s : lstate) (m : gmap N (N * N)) : lstate :=
  {| accts := accts s; stk := stk s; stk_total := stk_total s; voted := voted s; names := m; names0 := names0 s;
     cstor := cstor s; bp_reward := bp_reward s; receipts := receipts s |}.
Definition with_cstor (s : lstate) (m : gmap N (gmap N Z)) : lstate :=
  {| accts := accts s; stk := stk s; stk_total := stk_total s; voted := voted s; names := names s; names0 := names0 s;
     cstor := m; bp_reward := bp_reward s; receipts := receipts s |}.
Definition with_block (s : lstate) (r : Z) (rc : list receipt) : lstate :=
  {| accts := accts s; stk := stk s; stk_total := stk_total s; voted := voted s; names := names s; names0 := names0 s;
     cstor := cstor s; bp_reward := r; receipts := rc |}.
(** new block state on a committed state: initial view of aergo.name := current *)
Definition begin_block (s : lstate) : lstate :=
  {| accts := accts s; stk := stk s; stk_total := stk_total s; voted := voted s; names := names s; names0 := names s;
     cstor := cstor s; bp_reward := 0; receipts := [] |}.

Definition acct_of (s : lstate) (id : N) : acct := default acct0 (accts s !! id).
(** state.GetAccountState *)
Definition get_astate (s : lstate) (id : N) : astate :=
  {| a_id := id; a_old := acct_of s id; a_new := acct_of s id;
     a_isnew := match accts s !! id with None => true | Some _ => false end; a_deploy := false |}.
(** AccountState.PutState *)
Definition put_state (s : lstate) (a : astate) : lstate := with_accts s (<[a_id a := a_new a]> (accts s)).

Definition supply (s : lstate) : Z := map_fold (fun _ a acc => bal a + acc) 0 (accts s).

(** state.SendBalance on two copies *)
Definition send_balance (sender receiver : astate) (amt : Z) : option (astate * astate) :=
  if (a_id sender =? a_id receiver)%N then Some (sender, receiver)
  else if a_bal sender <? amt then None
  else Some (sub_bal sender amt, add_bal receiver amt).

(* ------------------------------------------------------------------ fees *)
Definition base_tx_aergo : Z := 2000000000000000.
Definition aer_per_byte : Z := 5000000000000.
Definition payload_max_size : Z := 204800.
Definition state_db_max_fee : Z := aer_per_byte * (payload_max_size - 200).
Definition max_u64 : Z := 18446744073709551615.
Definition max_aer : Z := 500000000000000000000000000.

Definition payment_size (n : Z) : Z := Z.min (Z.max 0 (n - 200)) payload_max_size.
Definition payload_fee (zf : bool) (n : Z) : Z := if zf then 0 else base_tx_aergo + aer_per_byte * payment_size n.
Definition max_payload_fee (zf : bool) (n : Z) : Z :=
  if zf then 0 else if n =? 0 then base_tx_aergo else payload_fee zf n + state_db_max_fee.
Definition tx_gas (zf : bool) (n : Z) : Z := if zf then 0 else 100000 + 5 * payment_size n.
Definition tx_base_fee (v : Z) (zf : bool) (gp n : Z) : Z := if v <? 2 then payload_fee zf n else gp * tx_gas zf n.
Definition max_gas_limit (b gp : Z) : Z := let n := b / gp in if (0 <=? n) && (n <=? max_u64) then n else max_u64.
Definition tx_max_fee (v : Z) (zf : bool) (n gl b gp : Z) : option Z :=
  if zf then Some 0 else if v <? 2 then Some (max_payload_fee zf n)
  else let gl' := if gl =? 0 then max_gas_limit b gp else gl in
       if gl' <? tx_gas zf n then None else Some (gp * gl').
Definition validate_max_fee (v : Z) (zf : bool) (n gl b gp : Z) : bool :=
  match tx_max_fee v zf n gl b gp with None => false | Some m => m <=? b end.
Definition gas_enabled (v : Z) (zf : bool) : bool := negb zf && (2 <=? v).
(** fee.GasLimit; None = "not enough gas" *)
Definition gas_limit (v : Z) (zf feedeleg : bool) (gl n gp used sbal rbal : Z) : option Z :=
  if negb (gas_enabled v zf) then Some 0
  else if feedeleg then let g := max_gas_limit (rbal - used) gp in if g =? 0 then None else Some g
  else if gl =? 0 then let g := max_gas_limit (sbal - used) gp in if g =? 0 then None else Some g
  else if gl <=? tx_gas zf n then None else Some (gl - tx_gas zf n).
Definition receipt_gas (v : Z) (zf isgov : bool) (fee gp : Z) : Z :=
  if gas_enabled v zf && negb isgov then (fee / gp) mod (max_u64 + 1) else 0.

(* ------------------------------------------------------------------ transactions *)
Inductive tx_kind := KTransfer | KNormal | KCall | KDeploy | KFeeDeleg
                   | KStake | KUnstake | KNameCreate | KNameUpdate | KSetOwner
                   | KVoteBP        (* aergo.system v1voteBP: no balance effect, refreshes the staking timestamp *)
                   | KEnterprise.   (* aergo.enterprise: the contract logic is an oracle (t_fddeny = it fails) *)
Definition is_gov (k : tx_kind) : bool :=
  match k with KStake | KUnstake | KNameCreate | KNameUpdate | KSetOwner | KVoteBP | KEnterprise => true | _ => false end.
Definition is_ent (k : tx_kind) : bool := match k with KEnterprise => true | _ => false end.

Record tx := {
  t_kind : tx_kind;
  t_from : N;        (* Body.Account: an address or a name                              *)
  t_to : N;          (* Body.Recipient (0 = nil); implicit for governance kinds         *)
  t_nonce : N;
  t_amount : Z;
  t_plen : Z;        (* len(Body.Payload)                                               *)
  t_gaslimit : Z;
  t_chain : N;       (* Body.ChainIdHash                                                *)
  t_hash : N;        (* Tx.Hash as carried by the transaction                           *)
  t_signer : N;      (* whose key produced Body.Sign (0 = nobody); used only by sig_ok instances *)
  t_name : N;        (* name argument of aergo.name transactions                        *)
  t_dest : N;        (* updateName destination / setOwner new owner                     *)
  t_fddeny : bool    (* CheckFeeDelegation oracle: contract refuses to pay              *)
}.

Definition recipient_of (t : tx) : N :=
  match t_kind t with
  | KStake | KUnstake | KVoteBP => 1%N | KNameCreate | KNameUpdate | KSetOwner => 2%N | KEnterprise => 4%N
  | _ => t_to t end.

Record config := {
  c_version : Z; c_zerofee : bool; c_gas_price : Z; c_chain : N;
  c_name_price : Z; c_stake_min : Z; c_stake_delay : N; c_vote_delay : N;
  c_fix_f24 : bool;  (* true = FEEDELEGATION debits the fee on the sender object when sender and
                        receiver are the same account (fixes/F24_*.diff)                     *)
  c_fix_f18 : bool   (* true = contract/name uses the sender's / receiver's own AccountState
                        object when the name owner is that account (fixes/F18_*.diff)     *)
}.

(** VM oracle.  Effects of a successful run: transfers out of the called contract and writes
    to the called contract's storage; [fee] is the execution fee. *)
Inductive vm_result :=
| VmOk (transfers : list (N * Z)) (writes : list (N * Z)) (fee : Z)
| VmRuntimeErr (fee : Z)
| VmSysErr (fee : Z).

Inductive exec_result :=
| RApplied (s : lstate)
| RFeeNonce (s : lstate)
| RRejected.
Inductive outcome := Applied | FeeNonceOnly | Rejected.

Section Ledger.
  Variable is_name : N -> bool.               (* not predefined: resolved through aergo.name *)
  Variable cid_of : N -> N -> N.              (* contract.CreateContractID(account, nonce)    *)
  Variable tx_hash : tx -> N.                 (* Tx.CalculateTxHash                           *)
  Variable vm : tx -> astate -> astate -> lstate -> vm_result.
  Variable sig_ok : N -> tx -> bool.          (* key.VerifyTxWithAddress(tx, address)         *)
  Variable cfg : config.

  Definition v := c_version cfg.
  Definition zf := c_zerofee cfg.
  Definition gp := c_gas_price cfg.

  (** name.Resolve: predefined names map to themselves, others through the committed name map *)
  Definition resolve (s : lstate) (a : N) : N :=
    if is_name a then match names0 s !! a with Some (_, d) => d | None => 0%N end else a.
  (** name.GetAddress used by UpdateName on the decoded destination *)
  Definition get_address := resolve.
  Definition owner_of (m : gmap N (N * N)) (a : N) : N := match m !! a with Some (o, _) => o | None => 0%N end.

  (** types.Validate (the JSON payload of governance transactions is assumed well-formed) *)
  Definition validate (t : tx) : bool :=
    (t_chain t =? c_chain cfg)%N && negb (t_from t =? 0)%N && (t_hash t =? tx_hash t)%N
    && (t_amount t <=? max_aer)
    && match t_kind t with
       | KNormal => negb ((t_to t =? 0)%N && (t_plen t =? 0))
       | KTransfer | KCall => negb (t_to t =? 0)%N
       | KFeeDeleg => negb (t_to t =? 0)%N && (0 <? t_plen t)
       | KDeploy => (t_to t =? 0)%N && (0 <? t_plen t)
       | _ => 0 <? t_plen t
       end.

  (** types.ValidateWithSenderState *)
  Definition validate_with_sender_state (t : tx) (st : acct) : bool :=
    negb (t_nonce t <=? nonce st)%N
    && match t_kind t with
       | KTransfer | KNormal | KCall | KDeploy =>
           let b := bal st - t_amount t in
           (0 <=? b) && validate_max_fee v zf (t_plen t) (t_gaslimit t) b gp
       | KStake => t_amount t <=? bal st
       | KFeeDeleg => t_amount t <=? bal st
       | _ => true
       end
    && negb (nonce st + 1 <? t_nonce t)%N.

  Inductive cres := COk | CRuntime | CNonRuntime.

  (** contract.checkExecution: (do_execute, error) *)
  Definition check_execution (k : tx_kind) (amount plen : Z) (is_deploy is_contract : bool) : bool * cres :=
    if (4 <=? v) && is_contract
       && (match k with KNormal => true | KTransfer => (0 <? plen) || (amount =? 0) | _ => false end)
    then (false, CRuntime)
    else if negb is_deploy && negb is_contract
    then (if (3 <=? v) && (match k with KCall => true | _ => false end) then (true, COk) else (false, COk))
    else (true, COk).

  (** one VM transfer: contract (receiver copy) -> [to] *)
  Definition vm_transfer (acc : lstate * astate * astate) (tr : N * Z) : lstate * astate * astate :=
    let '(s, sender, receiver) := acc in let '(to, amt) := tr in
    if (to =? a_id receiver)%N then acc
    else if (to =? a_id sender)%N then (s, add_bal sender amt, sub_bal receiver amt)
    else (put_state s (add_bal (get_astate s to) amt), sender, sub_bal receiver amt).
  Definition transfers_out (rid : N) (trs : list (N * Z)) : Z :=
    fold_right (fun tr acc => if (fst tr =? rid)%N then acc else snd tr + acc) 0 trs.
  Definition write_storage (s : lstate) (cid : N) (ws : list (N * Z)) : lstate :=
    with_cstor s (<[cid := fold_left (fun m w => <[fst w := snd w]> m) ws (default ∅ (cstor s !! cid))]> (cstor s)).

  (** contract.Execute: result class, state (third-party credits of the VM are PutState'd
      immediately, storage staged on success), the two copies, the fee *)
  Definition contract_execute (s : lstate) (t : tx) (sender receiver : astate) (feedeleg : bool)
    : cres * lstate * astate * astate * Z :=
    let base := tx_base_fee v zf gp (t_plen t) in
    match send_balance sender receiver (t_amount t) with
    | None => (CNonRuntime, s, sender, receiver, base)
    | Some (sender, receiver) =>
      let '(do_exec, e) := check_execution (t_kind t) (t_amount t) (t_plen t) (a_deploy receiver) (code (a_new receiver)) in
      if negb do_exec then (e, s, sender, receiver, base)
      else match gas_limit v zf feedeleg (t_gaslimit t) (t_plen t) gp base (a_bal sender) (a_bal receiver) with
      | None => (CRuntime, s, sender, receiver, base)
      | Some _ =>
        (* the real VM (and the stub) fail with "not found contract" when the callee has no code *)
        if negb (a_deploy receiver) && negb (code (a_new receiver)) then (CRuntime, s, sender, receiver, base) else
        match vm t sender receiver s with
        | VmSysErr cfee => (CNonRuntime, s, sender, receiver, if cfee <? 0 then base else base + cfee)
        | VmRuntimeErr cfee =>
            if cfee <? 0 then (CNonRuntime, s, sender, receiver, base)
            else (CRuntime, s, sender, receiver, base + cfee)
        | VmOk trs ws cfee =>
            if cfee <? 0 then (CNonRuntime, s, sender, receiver, base)
            else
            (* discipline enforced by the scripted VM: non-negative amounts, the contract can
               pay all its transfers, the payer can pay the fee afterwards; otherwise the run
               is a runtime error without effects and without execution fee *)
            let '(s', sender', receiver') := fold_left vm_transfer trs (s, sender, receiver) in
            let receiver' := if a_deploy receiver' then upd_new receiver' (set_code (a_new receiver')) else receiver' in
            if forallb (fun tr => 0 <=? snd tr) trs
               && (transfers_out (a_id receiver) trs <=? a_bal receiver)
            then
              if base + cfee <=? a_bal (if feedeleg then receiver' else sender')
              then (COk, write_storage s' (a_id receiver)
                           (* Create records the deployer under the creator-metadata key (key 0) *)
                           (if a_deploy receiver then (0%N, Z.of_N (a_id sender)) :: ws else ws),
                    sender', receiver', base + cfee)
              else match trs with
                   | [] => (* the run completed without touching accounts: Execute's own "sufficient balance
                              for fee" check fails: runtime error charging base + execution fee, storage not staged *)
                           (CRuntime, s, sender, receiver, base + cfee)
                   | _ => (CRuntime, s, sender, receiver, base)   (* the scripted VM refuses: out of gas *)
                   end
            else (CRuntime, s, sender, receiver, base)
        end
      end
    end.

  (** aergo.system stake / unstake (system.ValidateSystemTx + stakeCmd/unstakeCmd.run).
      None = error (all are non-runtime errors). *)
  Definition exec_stake (bno : N) (s : lstate) (t : tx) (sender receiver : astate) : option (lstate * astate * astate) :=
    let amount := t_amount t in
    if a_bal sender <? amount then None else
    let rec_ := stk s !! a_id sender in
    let staked := match rec_ with Some (a, _) => a | None => 0 end in
    if match rec_ with Some (_, w) => (bno <? w + c_stake_delay cfg)%N | None => false end then None else
    if staked + amount <? c_stake_min cfg then None else
    let s1 := with_stk s (<[a_id sender := (staked + amount, bno)]> (stk s)) (stk_total s + amount) in
    match send_balance sender receiver amount with
    | None => None
    | Some (sender, receiver) => Some (s1, sender, receiver)
    end.

  Definition exec_unstake (bno : N) (s : lstate) (t : tx) (sender receiver : astate) : option (lstate * astate * astate) :=
    let amount := t_amount t in
    match stk s !! a_id sender with
    | None => None
    | Some (staked, w) =>
      if staked =? 0 then None else
      if staked <? amount then None else
      if (bno <? w + c_stake_delay cfg)%N then None else
      let tobe := staked - amount in
      if negb (tobe =? 0) && (tobe <? c_stake_min cfg) then None else
      let adj := if staked <? amount then staked else amount in
      let s1 := with_stk s (<[a_id sender := (Z.abs (staked - adj), bno)]> (stk s)) (Z.abs (stk_total s - adj)) in
      match send_balance receiver sender adj with
      | None => None
      | Some (receiver, sender) => Some (s1, sender, receiver)
      end
    end.

  (** aergo.name (name.ExecuteNameTx).  The AccountState credited with the price is the
      sender object when the contract owner is the sender, otherwise a FRESH copy of the
      owner (or the receiver object when no owner is set).  With [c_fix_f18] the receiver /
      sender objects are reused whenever they denote the same account. *)
  Definition name_state (s : lstate) (sender receiver : astate) : N (* 0 sender, 1 receiver, 2 fresh *) * astate :=
    let owner := owner_of (names s) 2%N in
    if negb (match names s !! 2%N with Some _ => true | None => false end) then (1%N, receiver)
    else if (a_id sender =? owner)%N then (0%N, sender)
    else if c_fix_f18 cfg && (a_id receiver =? owner)%N then (1%N, receiver)
    else (2%N, get_astate s owner).

  (** put back the name-state object: returns updated (sender, receiver) objects and the state
      after nameState.PutState() *)
  Definition name_commit (s : lstate) (which : N) (ns sender receiver : astate) : lstate * astate * astate :=
    if (which =? 0)%N then (put_state s ns, ns, receiver)
    else if (which =? 1)%N then (put_state s ns, sender, ns)
    else (put_state s ns, sender, receiver).

  Definition exec_name (s : lstate) (t : tx) (sender receiver : astate) : option (lstate * astate * astate) :=
    let amount := t_amount t in
    if a_bal sender <? amount then None else
    match t_kind t with
    | KNameCreate =>
        if amount <? c_name_price cfg then None else
        if match names s !! t_name t with Some _ => true | None => false end then None else
        let '(which, ns) := name_state s sender receiver in
        (* CreateName: SendBalance(sender, nameState, amount) *)
        if (which =? 0)%N then
          let s1 := with_names s (<[t_name t := (a_id sender, a_id sender)]> (names s)) in
          Some (name_commit s1 which sender sender receiver)
        else match send_balance sender ns amount with
        | None => None
        | Some (sender, ns) =>
          let s1 := with_names s (<[t_name t := (a_id sender, a_id sender)]> (names s)) in
          Some (name_commit s1 which ns sender receiver)
        end
    | KNameUpdate =>
        if amount <? c_name_price cfg then None else
        if negb (t_from t =? t_name t)%N && negb (t_from t =? owner_of (names s) (t_name t))%N then None else
        (* UpdateName: the name must resolve (committed view) to a full address *)
        let cur := match names0 s !! t_name t with Some (_, d) => d | None => 0%N end in
        if (cur =? 0)%N || is_name cur then None else
        let dest := get_address s (t_dest t) in
        (* owner := the creator recorded in the destination's storage, else the destination *)
        let owner := match default ∅ (cstor s !! dest) !! 0%N with Some z => Z.to_N z | None => dest end in
        let '(which, ns) := name_state s sender receiver in
        if (which =? 0)%N then
          let s1 := with_names s (<[t_name t := (owner, dest)]> (names s)) in
          Some (name_commit s1 which sender sender receiver)
        else match send_balance sender ns amount with
        | None => None
        | Some (sender, ns) =>
          let s1 := with_names s (<[t_name t := (owner, dest)]> (names s)) in
          Some (name_commit s1 which ns sender receiver)
        end
    | KSetOwner =>
        if match names s !! 2%N with Some _ => true | None => false end then None else
        (* nameState = receiver (no owner yet); ownerState = fresh copy of the new owner *)
        let raw := t_dest t in
        if c_fix_f18 cfg && (raw =? a_id sender)%N then
          (* repaired: credit the sender object itself *)
          match send_balance receiver sender (a_bal receiver) with
          | None => None
          | Some (receiver, sender) =>
            let s1 := with_names s (<[2%N := (raw, 2%N)]> (names s)) in
            Some (put_state (put_state s1 sender) receiver, sender, receiver)
          end
        else
          let os := get_astate s raw in
          match send_balance receiver os (a_bal receiver) with
          | None => None
          | Some (receiver, os) =>
            let s1 := with_names s (<[2%N := (raw, 2%N)]> (names s)) in
            Some (put_state (put_state s1 os) receiver, sender, receiver)
          end
    | _ => None
    end.

  (** aergo.system v1voteBP (validateForVote + newVoteCmd/voteCmd.run): needs a non-zero stake; a second vote
      must wait VotingDelay after the last staking action; the staking timestamp is refreshed.  Vote tallies
      and the voting-power rank are not part of this model (Gov, C15). *)
  Definition exec_vote (bno : N) (s : lstate) (t : tx) (sender receiver : astate) : option (lstate * astate * astate) :=
    match stk s !! a_id sender with
    | None => None
    | Some (staked, w) =>
      if staked =? 0 then None else
      if (match voted s !! a_id sender with Some _ => true | None => false end) && (bno <? w + c_vote_delay cfg)%N then None else
      Some (with_voted (with_stk s (<[a_id sender := (staked, bno)]> (stk s)) (stk_total s))
                       (<[a_id sender := true]> (voted s)), sender, receiver)
    end.

  Definition exec_governance (bno : N) (s : lstate) (t : tx) (sender receiver : astate) : option (lstate * astate * astate) :=
    match t_kind t with
    | KStake => exec_stake bno s t sender receiver
    | KUnstake => exec_unstake bno s t sender receiver
    | KVoteBP => exec_vote bno s t sender receiver
    | KEnterprise => None
    | _ => exec_name s t sender receiver
    end.

  (** chainhandle.go: resetAccount; None = InternalError "fee is greater than balance" *)
  Definition reset_account (s : lstate) (a : astate) (fee : option Z) (n : option N) : option lstate :=
    let a := a_reset a in
    match (match fee with
           | Some f => if a_bal a <? f then None else Some (sub_bal a f)
           | None => Some a end) with
    | None => None
    | Some a => Some (put_state s (match n with Some n => a_set_nonce a n | None => a end))
    end.

  Definition mk_receipt (t : tx) (status : N) (fee : Z) : receipt :=
    {| r_status := status; r_fee := fee; r_gas := receipt_gas v zf (is_gov (t_kind t)) fee gp;
       r_hash := t_hash t; r_feedeleg := match t_kind t with KFeeDeleg => true | _ => false end |}.
  Definition finish (s : lstate) (t : tx) (status : N) (fee : Z) : lstate :=
    with_block s (bp_reward s + fee) (receipts s ++ [mk_receipt t status fee]).

  (** chain.executeTx after the sender and receiver objects have been obtained: the switch on
      the transaction type, the error classes, the final PutStates and the receipt. *)
  Definition exec_tx_body (bno : N) (s : lstate) (t : tx) (sender receiver : astate) (status : N) : exec_result :=
    let feedeleg := match t_kind t with KFeeDeleg => true | _ => false end in
    (* the switch on the type *)
    let r : option (cres * lstate * astate * astate * Z) :=
      if is_ent (t_kind t) then
        (* executeGovernanceTx wraps every enterprise error into GovEntErr (runtime class); fee 0 *)
        Some ((if t_fddeny t then CRuntime else COk), s, sender, receiver, 0)
      else if is_gov (t_kind t) then
        match exec_governance bno s t sender receiver with
        | Some (s', sender', receiver') => Some (COk, s', sender', receiver', 0)
        | None => Some (CNonRuntime, s, sender, receiver, 0)
        end
      else if feedeleg then
        if negb (validate_max_fee v zf (t_plen t) (t_gaslimit t) (a_bal receiver) gp) then None
        else if t_fddeny t || negb (code (a_new receiver)) then None
        else let '(c, s', sender', receiver', fee) := contract_execute s t sender receiver true in
             if c_fix_f24 cfg && (a_id sender' =? a_id receiver')%N
             then Some (c, s', sub_bal sender' fee, receiver', fee)
             else Some (c, s', sender', sub_bal receiver' fee, fee)
      else let '(c, s', sender', receiver', fee) := contract_execute s t sender receiver false in
           Some (c, s', sub_bal sender' fee, receiver', fee) in
    match r with
    | None => RRejected
    | Some (CNonRuntime, _, _, _, _) => RRejected
    | Some (CRuntime, s', sender', receiver', fee) =>
        if negb feedeleg || (a_id sender' =? a_id receiver')%N then
          match reset_account s' sender' (Some fee) (Some (t_nonce t)) with
          | None => RRejected
          | Some s'' => RFeeNonce (finish s'' t 2%N fee)
          end
        else
          match reset_account s' sender' None (Some (t_nonce t)) with
          | None => RRejected
          | Some s'' => match reset_account s'' receiver' (Some fee) None with
                        | None => RRejected
                        | Some s3 => RFeeNonce (finish s3 t 2%N fee)
                        end
          end
    | Some (COk, s', sender', receiver', fee) =>
        let sender' := a_set_nonce sender' (t_nonce t) in
        let s1 := put_state s' sender' in
        let s2 := if (a_id sender' =? a_id receiver')%N then s1 else put_state s1 receiver' in
        RApplied (finish s2 t status fee)
    end.


  (** chain.executeTx.  [RRejected] = an error is returned (the caller rolls back). *)
  Definition exec_tx_core (bno : N) (s : lstate) (t : tx) : exec_result :=
    let account := resolve s (t_from t) in
    if negb (validate t) then RRejected else
    let sender := get_astate s account in
    if negb (validate_with_sender_state t (a_new sender)) then RRejected else
    let recipient := resolve s (recipient_of t) in
    if (recipient =? 0)%N then
      (* state.CreateAccountState(contract.CreateContractID(txBody.Account, txBody.Nonce)) *)
      let rid := cid_of (t_from t) (t_nonce t) in
      let r0 := get_astate s rid in
      if negb (a_isnew r0) then RRejected else
      exec_tx_body bno s t sender
        {| a_id := rid; a_old := a_old r0; a_new := a_new r0; a_isnew := true; a_deploy := true |} 1%N
    else exec_tx_body bno s t sender (get_astate s recipient) 0%N.

  (** NewTxExecutor: snapshot; executeTx; rollback on error *)
  Definition exec_tx (bno : N) (s : lstate) (t : tx) : outcome * lstate :=
    match exec_tx_core bno s t with
    | RApplied s' => (Applied, s')
    | RFeeNonce s' => (FeeNonceOnly, s')
    | RRejected => (Rejected, s)
    end.

  (** executeTx on a transaction handed over by the mempool (block producer path): the pool verified the
      signature against the account the sender resolved to AT ADMISSION and attached it (VerifiedAccount);
      executeTx refuses the tx (ErrSignNotMatch) when the sender resolves to another account now. *)
  Definition exec_tx_pooled (va : option N) (bno : N) (s : lstate) (t : tx) : outcome * lstate :=
    match va with
    | Some a => if (a =? resolve s (t_from t))%N then exec_tx bno s t else (Rejected, s)
    | None => exec_tx bno s t
    end.

  (** what one offer does to the verified account of the POOLED object.  [mode] 2 = current code (F52): executeTx
      never removes it, it is compared at every offer; 1 = after F51 only: removed once the comparison succeeded;
      0 = original code: removed before comparing *)
  Definition va_after_offer (mode : N) (va : option N) (s : lstate) (t : tx) : option N :=
    match va with
    | Some a => if (mode =? 2)%N then va
                else if (mode =? 1)%N && negb (a =? resolve s (t_from t))%N then va else None
    | None => None
    end.
  (** the verified account left after the tx has been offered at each state of [ss] in turn *)
  Fixpoint va_after (mode : N) (va : option N) (t : tx) (ss : list lstate) : option N :=
    match ss with [] => va | s :: tl => va_after mode (va_after_offer mode va s t) t tl end.

  (** blockExecutor.execute on the commit-only path (block delivered WITH a block state: block factory, raft):
      no re-execution; validatePost compares the header's state root with the supplied state's root *)
  Definition commit_only (root_of : lstate -> N) (hdr_root : N) (supplied s : lstate) : lstate :=
    if (root_of supplied =? hdr_root)%N then supplied else s.

  (** sendRewardCoinbase *)
  Definition send_reward_coinbase (s : lstate) (coinbase : option N) : lstate :=
    match coinbase with
    | Some cb => if bp_reward s <=? 0 then s else put_state s (add_bal (get_astate s cb) (bp_reward s))
    | None => s
    end.

  (** dpos.sendVotingReward: vault -> winner; [winner] = None when PickVotingRewardWinner fails *)
  Definition send_voting_reward (reward : Z) (winner : option N) (s : lstate) : lstate :=
    let vault := get_astate s 3%N in
    if a_bal vault =? 0 then s else
    let reward := if a_bal vault <? reward then a_bal vault else reward in
    match winner with
    | None => s
    | Some w =>
      let ws := get_astate s w in
      match send_balance vault ws reward with
      | None => s
      | Some (vault, ws) => put_state (put_state s ws) vault
      end
    end.

  (** signature stage of the validator (BlockValidator.ValidateBody / WaitVerifyDone,
      SignVerifier.verifyTx): against the account field, or for a name against its owner in
      the state committed before the block *)
  Definition need_name_verify (a : N) : bool := is_name a || ((1 <=? a) && (a <=? 4))%N.
  Definition verify_tx (s0 : lstate) (t : tx) : bool :=
    negb (t_from t =? 0)%N &&
    (if need_name_verify (t_from t) then sig_ok (owner_of (names s0) (t_from t)) t else sig_ok (t_from t) t).

  Fixpoint exec_txs (bno : N) (s : lstate) (txs : list tx) : option lstate :=
    match txs with
    | [] => Some s
    | t :: tl => match exec_tx bno s t with
                 | (Rejected, _) => None
                 | (_, s') => exec_txs bno s' tl
                 end
    end.

  (** validator: blockExecutor.execute (any failing tx or signature aborts the block) *)
  Definition exec_block (bno : N) (coinbase : option N) (vreward : lstate -> lstate) (s : lstate) (txs : list tx)
    : option lstate :=
    match exec_txs bno (begin_block s) txs with
    | None => None
    | Some s' => if forallb (verify_tx s) txs then Some (send_reward_coinbase (vreward s') coinbase) else None
    end.

  (** producer: GatherTXs (a failing tx is skipped) *)
  Fixpoint gather (bno : N) (s : lstate) (txs : list tx) : list tx * lstate :=
    match txs with
    | [] => ([], s)
    | t :: tl => match exec_tx bno s t with
                 | (Rejected, _) => gather bno s tl
                 | (_, s') => let '(l, s'') := gather bno s' tl in (t :: l, s'')
                 end
    end.
  Definition produce_block (bno : N) (coinbase : option N) (vreward : lstate -> lstate) (s : lstate) (cands : list tx)
    : list tx * lstate :=
    let '(l, s') := gather bno (begin_block s) cands in (l, send_reward_coinbase (vreward s') coinbase).
End Ledger.

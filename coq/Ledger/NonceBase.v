From stdpp Require Import gmap.
From Coq Require Import ZArith List Bool Lia.
From Verif Require Import Ledger.Model Ledger.Supply Ledger.Frame Ledger.AtomAuth.
Import ListNotations.
Open Scope Z_scope.

(** Nonces: every PutState of the executor writes back a copy whose nonce is the account's
    nonce, except the final sender write (nonce := tx nonce). *)
Section NN.
  Variable n0 : N -> N.
  Definition NN (s : lstate) : Prop := forall id, nonce (acct_of s id) = n0 id.
  Definition NCL (a : astate) : Prop := nonce (a_new a) = n0 (a_id a).

  Lemma NN_put s a : NN s -> NCL a -> NN (put_state s a).
  Proof.
    intros H Ha id. unfold acct_of, put_state. simpl. destruct (N.eq_dec id (a_id a)) as [->|E].
    - rewrite lookup_insert. exact Ha.
    - rewrite lookup_insert_ne by congruence. apply H.
  Qed.
  Lemma NCL_get s id : NN s -> NCL (get_astate s id). Proof. intros H. apply H. Qed.
  Lemma NCL_sub a x : NCL a -> NCL (sub_bal a x). Proof. exact (fun H => H). Qed.
  Lemma NCL_add a x : NCL a -> NCL (add_bal a x). Proof. exact (fun H => H). Qed.
  Lemma NN_with_stk s m t : NN s -> NN (with_stk s m t). Proof. exact (fun H => H). Qed.
  Lemma NN_with_names s m : NN s -> NN (with_names s m). Proof. exact (fun H => H). Qed.
  Lemma NN_with_cstor s m : NN s -> NN (with_cstor s m). Proof. exact (fun H => H). Qed.

  Lemma send_balance_NCL a b x a' b' :
    send_balance a b x = Some (a', b') -> NCL a -> NCL b ->
    NCL a' /\ NCL b' /\ a_id a' = a_id a /\ a_id b' = a_id b.
  Proof.
    unfold send_balance. destruct (_ =? _)%N; [intros [= <- <-]; auto|].
    destruct (_ <? _); [discriminate|]. intros [= <- <-]. auto.
  Qed.

  Definition nn3 (sd rc : astate) (r : lstate * astate * astate) : Prop :=
    let '(s', sd', rc') := r in NN s' /\ NCL sd' /\ NCL rc' /\ a_id sd' = a_id sd /\ a_id rc' = a_id rc.

  Section G.
    Variable is_name : N -> bool.
    Variable cfg : config.

    Lemma exec_stake_nn bno s t sd rc r :
      exec_stake cfg bno s t sd rc = Some r -> NN s -> NCL sd -> NCL rc -> nn3 sd rc r.
    Proof.
      unfold exec_stake. intros H Hs Ha Hb.
      repeat (match type of H with (if ?c then _ else _) = _ => destruct c end; try discriminate).
      destruct (send_balance sd rc (t_amount t)) as [[a b]|] eqn:S; [|discriminate].
      destruct (send_balance_NCL _ _ _ _ _ S Ha Hb) as (?&?&?&?). injection H as <-. simpl. auto.
    Qed.

    Lemma exec_unstake_nn bno s t sd rc r :
      exec_unstake cfg bno s t sd rc = Some r -> NN s -> NCL sd -> NCL rc -> nn3 sd rc r.
    Proof.
      unfold exec_unstake. intros H Hs Ha Hb.
      destruct (stk s !! a_id sd) as [[? ?]|]; [|discriminate].
      repeat (match type of H with (if ?c then _ else _) = _ => destruct c end; try discriminate).
      destruct (send_balance rc sd _) as [[b a]|] eqn:S; [|discriminate].
      destruct (send_balance_NCL _ _ _ _ _ S Hb Ha) as (?&?&?&?). injection H as <-. simpl. auto.
    Qed.

    Lemma name_state_NCL s sd rc w ns :
      name_state cfg s sd rc = (w, ns) -> NN s -> NCL sd -> NCL rc ->
      NCL ns /\ ((w = 0%N /\ ns = sd) \/ (w = 1%N /\ ns = rc) \/ (w = 2%N)).
    Proof.
      unfold name_state. intros H Hs Ha Hb.
      repeat (match type of H with (if ?c then _ else _) = _ => destruct c end); injection H as <- <-; auto.
      split; [apply NCL_get; auto|auto].
    Qed.

    Lemma name_pay_nn s m (mf : astate -> gmap N (N * N)) sd rc w ns x r :
      name_state cfg s sd rc = (w, ns) -> NN s -> NCL sd -> NCL rc ->
      (if (w =? 0)%N then Some (name_commit (with_names s m) w sd sd rc)
       else match send_balance sd ns x with
            | None => None
            | Some (sd1, ns1) => Some (name_commit (with_names s (mf sd1)) w ns1 sd1 rc)
            end) = Some r -> nn3 sd rc r.
    Proof.
      intros NS Hs Ha Hb H.
      destruct (name_state_NCL _ _ _ _ _ NS Hs Ha Hb) as [Hn [(->&->)|[(->&->)| -> ]]]; simpl in H.
      - injection H as <-. simpl. repeat split; auto. apply NN_put; auto.
      - destruct (send_balance sd rc x) as [[a b]|] eqn:S; [|discriminate].
        destruct (send_balance_NCL _ _ _ _ _ S Ha Hb) as (?&?&?&?). injection H as <-. simpl.
        repeat split; auto. apply NN_put; auto.
      - destruct (send_balance sd ns x) as [[a b]|] eqn:S; [|discriminate].
        destruct (send_balance_NCL _ _ _ _ _ S Ha Hn) as (?&?&?&?). injection H as <-. simpl.
        repeat split; auto. apply NN_put; auto.
    Qed.

    Lemma exec_name_nn s t sd rc r :
      exec_name is_name cfg s t sd rc = Some r -> NN s -> NCL sd -> NCL rc -> nn3 sd rc r.
    Proof.
      unfold exec_name. intros H Hs Ha Hb.
      destruct (a_bal sd <? t_amount t); [discriminate|].
      destruct (t_kind t); try discriminate.
      - destruct (_ <? _); [discriminate|]. destruct (names s !! t_name t); [discriminate|].
        destruct (name_state cfg s sd rc) as [w ns] eqn:NS.
        eapply (name_pay_nn s _ (fun sender => <[t_name t:=(a_id sender, a_id sender)]> (names s))); eauto.
      - destruct (_ <? _); [discriminate|]. destruct (negb _ && negb _); [discriminate|].
        destruct (_ || _); [discriminate|].
        destruct (name_state cfg s sd rc) as [w ns] eqn:NS.
        eapply (name_pay_nn s _ (fun _ => _)); eauto.
      - destruct (names s !! 2%N); [discriminate|].
        destruct (c_fix_f18 cfg && _).
        + destruct (send_balance rc sd _) as [[b a]|] eqn:S; [|discriminate].
          destruct (send_balance_NCL _ _ _ _ _ S Hb Ha) as (?&?&?&?). injection H as <-. simpl.
          repeat split; auto. apply NN_put; auto. apply NN_put; auto.
        + destruct (send_balance rc (get_astate s (t_dest t)) _) as [[b o]|] eqn:S; [|discriminate].
          destruct (send_balance_NCL _ _ _ _ _ S Hb (NCL_get s _ Hs)) as (?&?&?&?). injection H as <-. simpl.
          repeat split; auto. apply NN_put; auto. apply NN_put; auto.
    Qed.

    Lemma exec_vote_nn bno s t sd rc r :
      exec_vote cfg bno s t sd rc = Some r -> NN s -> NCL sd -> NCL rc -> nn3 sd rc r.
    Proof.
      unfold exec_vote. intros H Hs Ha Hb.
      destruct (stk s !! a_id sd) as [[? ?]|]; [|discriminate].
      repeat (match type of H with (if ?c then _ else _) = _ => destruct c end; try discriminate).
      injection H as <-. simpl. auto.
    Qed.

    Lemma exec_governance_nn bno s t sd rc r :
      exec_governance is_name cfg bno s t sd rc = Some r -> NN s -> NCL sd -> NCL rc -> nn3 sd rc r.
    Proof.
      unfold exec_governance. destruct (t_kind t); eauto using exec_stake_nn, exec_unstake_nn, exec_name_nn, exec_vote_nn; discriminate.
    Qed.
  End G.

  Lemma vm_fold_nn trs : forall s sd rc s' sd' rc',
    fold_left vm_transfer trs (s, sd, rc) = (s', sd', rc') -> NN s -> NCL sd -> NCL rc ->
    nn3 sd rc (s', sd', rc').
  Proof.
    induction trs as [|[to amt] tl IH]; intros s sd rc s' sd' rc' H Hs Ha Hb; simpl in H.
    - injection H as <- <- <-. simpl. auto.
    - destruct (to =? a_id rc)%N; [eauto|]. destruct (to =? a_id sd)%N.
      + apply IH in H; auto. 
      + apply IH in H; auto. apply NN_put; auto. apply NCL_add. apply NCL_get. auto.
  Qed.

  Lemma contract_execute_nn vm cfg s t sd rc fd c s' sd' rc' fee :
    contract_execute vm cfg s t sd rc fd = (c, s', sd', rc', fee) -> NN s -> NCL sd -> NCL rc ->
    nn3 sd rc (s', sd', rc').
  Proof.
    unfold contract_execute. intros H Hs Ha Hb.
    destruct (send_balance sd rc (t_amount t)) as [[a b]|] eqn:S.
    2:{ injection H as _ <- <- <- _. simpl. auto. }
    destruct (send_balance_NCL _ _ _ _ _ S Ha Hb) as (Na&Nb&I1&I2).
    assert (Base : nn3 sd rc (s, a, b)) by (simpl; auto).
    destruct (check_execution _ _ _ _ _ _) as [dx e]. destruct dx; cbn [negb] in H.
    2:{ injection H as _ <- <- <- _. exact Base. }
    destruct (gas_limit _ _ _ _ _ _ _ _ _).
    2:{ injection H as _ <- <- <- _. exact Base. }
    destruct (negb _ && negb _).
    { injection H as _ <- <- <- _. exact Base. }
    destruct (vm t a b s) as [trs ws cfee|cfee|cfee].
    - destruct (cfee <? 0). { injection H as _ <- <- <- _. exact Base. }
      destruct (fold_left vm_transfer trs (s, a, b)) as [[s1 a1] b1] eqn:F.
      destruct (vm_fold_nn _ _ _ _ _ _ _ F Hs Na Nb) as (N1&N2&N3&J1&J2).
      match type of H with (if ?c then _ else _) = _ => destruct c end.
      2:{ injection H as _ <- <- <- _. exact Base. }
      match type of H with (if ?c then _ else _) = _ => destruct c end.
      + injection H as _ <- <- <- _. simpl. repeat split; auto; try congruence.
        destruct (a_deploy b1); auto.
        destruct (a_deploy b1); simpl; congruence.
      + destruct trs; injection H as _ <- <- <- _; exact Base.
    - destruct (cfee <? 0); injection H as _ <- <- <- _; exact Base.
    - injection H as _ <- <- <- _. exact Base.
  Qed.
End NN.

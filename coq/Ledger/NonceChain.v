From stdpp Require Import gmap.
From Coq Require Import ZArith List Bool Lia.
From Verif Require Import Ledger.Model Ledger.Supply Ledger.Frame Ledger.TxProofs Ledger.BlockProofs Ledger.AtomAuth.
From Verif Require Import Ledger.NonceBase Ledger.NonceTx.
Import ListNotations.
Open Scope Z_scope.

Definition collision {A} (f : A -> N) : Prop := exists x y, x <> y /\ f x = f y.

Section Chain.
  Variable is_name : N -> bool.
  Variable cid_of : N -> N -> N.
  Variable tx_hash : tx -> N.
  Variable vm : tx -> astate -> astate -> lstate -> vm_result.
  Variable sig_ok : N -> tx -> bool.
  Variable cfg : config.
  Notation xtx := (exec_tx is_name cid_of tx_hash vm cfg).
  Notation xblock := (exec_block is_name cid_of tx_hash vm sig_ok cfg).
  Notation xchain := (exec_chain is_name cid_of tx_hash vm sig_ok cfg).
  Notation nc s a := (nonce (acct_of s a)).

  (** (account, nonce) of every transaction of a list, each resolved in the state in which it executes *)
  Fixpoint trace_txs (bno : N) (s : lstate) (txs : list tx) : list (N * N) :=
    match txs with
    | [] => []
    | t :: tl => (resolve is_name s (t_from t), t_nonce t) :: trace_txs bno (snd (xtx bno s t)) tl
    end.

  Definition seq_ok (s s' : lstate) (tr : list (N * N)) : Prop :=
    forall a, nonces_of a tr = nseq (nc s a + 1) (length (nonces_of a tr)) /\
              nc s' a = (nc s a + N.of_nat (length (nonces_of a tr)))%N.

  Lemma seq_ok_trans s1 s2 s3 tr1 tr2 : seq_ok s1 s2 tr1 -> seq_ok s2 s3 tr2 -> seq_ok s1 s3 (tr1 ++ tr2).
  Proof.
    intros H1 H2 a. destruct (H1 a) as [A1 B1]. destruct (H2 a) as [A2 B2].
    rewrite nonces_of_app, app_length, nseq_app. rewrite <- A1. rewrite B1 in A2.
    split.
    - f_equal. rewrite A2 at 1. f_equal. lia.
    - rewrite B2, B1. lia.
  Qed.

  Lemma exec_txs_seq bno txs : forall s s',
    exec_txs is_name cid_of tx_hash vm cfg bno s txs = Some s' -> seq_ok s s' (trace_txs bno s txs).
  Proof.
    induction txs as [|t tl IH]; intros s s' H; simpl in H.
    - injection H as <-. intros a. simpl. split; [reflexivity|lia].
    - destruct (xtx bno s t) as [o s1] eqn:X.
      assert (Ho : o <> Rejected) by (destruct o; [discriminate|discriminate|discriminate H]).
      assert (H' : exec_txs is_name cid_of tx_hash vm cfg bno s1 tl = Some s') by (destruct o; [exact H|exact H|discriminate]).
      destruct (exec_tx_authorised is_name cid_of tx_hash vm cfg bno s t o s1 X Ho) as (_&_&_&Hn).
      destruct (exec_tx_nonces is_name cid_of tx_hash vm cfg bno s t o s1 X Ho) as (N1&N2).
      specialize (IH s1 s' H'). simpl. rewrite X. simpl.
      set (sid := resolve is_name s (t_from t)) in *.
      change (trace_txs bno s1 tl) with (trace_txs bno s1 tl).
      apply (seq_ok_trans s s1 s' [(sid, t_nonce t)] _); [|exact IH].
      intros a. unfold nonces_of. simpl. destruct (N.eqb_spec sid a) as [<-|E]; simpl.
      + split; [rewrite Hn; reflexivity|rewrite N1, Hn; lia].
      + split; [reflexivity|]. rewrite N2 by congruence. lia.
  Qed.

  (** the voting-reward hook must not touch nonces (sendVotingReward does not) *)
  Definition vreward_nn (vr : lstate -> lstate) : Prop := forall s id, nc (vr s) id = nc s id.

  Lemma coinbase_nn s cb id : nc (send_reward_coinbase s cb) id = nc s id.
  Proof.
    unfold send_reward_coinbase. destruct cb as [c|]; [|reflexivity]. destruct (_ <=? _); [reflexivity|].
    apply (NN_put (fun i => nc s i)); [intros i; reflexivity|]. apply NCL_add. reflexivity.
  Qed.

  Lemma voting_reward_nn reward winner : vreward_nn (send_voting_reward reward winner).
  Proof.
    intros s id. unfold send_voting_reward.
    destruct (_ =? 0); [reflexivity|]. destruct winner as [w|]; [|reflexivity].
    destruct (send_balance _ _ _) as [[va wa]|] eqn:S; [|reflexivity].
    destruct (send_balance_NCL (fun i => nc s i) _ _ _ _ _ S) as (A&B&_&_); [reflexivity|reflexivity|].
    apply (NN_put (fun i => nc s i)); [|exact A]. apply NN_put; [intros i; reflexivity|exact B].
  Qed.

  Lemma exec_block_seq bno cb vr s txs s' :
    vreward_nn vr -> xblock bno cb vr s txs = Some s' ->
    seq_ok s s' (trace_txs bno (begin_block s) txs).
  Proof.
    intros Hvr H. unfold exec_block in H.
    destruct (exec_txs _ _ _ _ _ bno (begin_block s) txs) as [s1|] eqn:X; [|discriminate].
    destruct (forallb _ txs); [|discriminate]. injection H as <-.
    pose proof (exec_txs_seq bno txs _ _ X) as Q. intros a. destruct (Q a) as [A B].
    split; [exact A|]. rewrite coinbase_nn, Hvr. exact B.
  Qed.

  (** chain = list of (block number, coinbase, transactions); trace along the chain *)
  Fixpoint trace_chain (vr : lstate -> lstate) (s : lstate) (bl : list (N * N * list tx)) : list (N * N) :=
    match bl with
    | [] => []
    | (bno, cb, txs) :: tl =>
        trace_txs bno (begin_block s) txs ++
        match xblock bno (Some cb) vr s txs with Some s' => trace_chain vr s' tl | None => [] end
    end.

  (** C04 main_chain_nonces: along any chain of accepted blocks, the nonces executed for each
      account, in order, are exactly n0+1, n0+2, ... and the account's nonce ends at n0 + count *)
  Theorem main_chain_nonces vr bl : forall s s',
    vreward_nn vr -> xchain vr s bl = Some s' -> seq_ok s s' (trace_chain vr s bl).
  Proof.
    induction bl as [|[[bno cb] txs] tl IH]; intros s s' Hvr H; simpl in *.
    - injection H as <-. intros a. simpl. split; [reflexivity|lia].
    - destruct (xblock bno (Some cb) vr s txs) as [s1|] eqn:X; [|discriminate].
      eapply seq_ok_trans; [eapply exec_block_seq; eauto|eauto].
  Qed.

  (** no (account, nonce) pair is executed twice *)
  Corollary chain_trace_NoDup vr bl s s' :
    vreward_nn vr -> xchain vr s bl = Some s' -> NoDup (trace_chain vr s bl).
  Proof.
    intros Hvr H. apply NoDup_trace. intros a. destruct (main_chain_nonces vr bl s s' Hvr H a) as [A _].
    rewrite A. apply nseq_NoDup.
  Qed.

  (** fork branches: the state at a tip is the fold along its branch, so both branches of a fork
      (common prefix [pre], then [b1] or [b2]) satisfy the nonce discipline from the same origin *)
  Corollary fork_branches_nonces vr pre b1 b2 s s1 s2 :
    vreward_nn vr -> xchain vr s (pre ++ b1) = Some s1 -> xchain vr s (pre ++ b2) = Some s2 ->
    seq_ok s s1 (trace_chain vr s (pre ++ b1)) /\ seq_ok s s2 (trace_chain vr s (pre ++ b2)).
  Proof. intros Hvr H1 H2. split; eapply main_chain_nonces; eauto. Qed.

  (** all transactions of a chain, in execution order *)
  Definition chain_txs (bl : list (N * N * list tx)) : list tx := flat_map (fun b => snd b) bl.

  Lemma trace_txs_plain bno txs : forall s,
    Forall (fun t => is_name (t_from t) = false) txs ->
    trace_txs bno s txs = map (fun t => (t_from t, t_nonce t)) txs.
  Proof.
    induction txs as [|t tl IH]; intros s H; [reflexivity|]. inversion H; subst. simpl.
    unfold resolve at 1. rewrite H2. f_equal. apply IH. assumption.
  Qed.

  Lemma trace_chain_plain vr bl : forall s s',
    Forall (fun t => is_name (t_from t) = false) (chain_txs bl) -> xchain vr s bl = Some s' ->
    trace_chain vr s bl = map (fun t => (t_from t, t_nonce t)) (chain_txs bl).
  Proof.
    induction bl as [|[[bno cb] txs] tl IH]; intros s s' Hp H; [reflexivity|]. simpl in *.
    apply Forall_app in Hp as [P1 P2].
    destruct (xblock bno (Some cb) vr s txs) as [s1|] eqn:X; [|discriminate].
    rewrite map_app, trace_txs_plain by assumption. f_equal. eapply IH; eauto.
  Qed.

  (** C04 no_tx_twice: along a chain whose senders are addresses (not account names), no
      transaction hash is executed twice -- or the hash function has a collision *)
  Theorem no_tx_twice vr bl s s' :
    vreward_nn vr -> Forall (fun t => is_name (t_from t) = false) (chain_txs bl) ->
    xchain vr s bl = Some s' ->
    NoDup (map tx_hash (chain_txs bl)) \/ collision tx_hash.
  Proof.
    intros Hvr Hp H. apply NoDup_map_or_collision.
    pose proof (chain_trace_NoDup vr bl s s' Hvr H) as ND.
    rewrite (trace_chain_plain vr bl s s' Hp H) in ND. eapply NoDup_map_inv; eauto.
  Qed.
End Chain.

From stdpp Require Import gmap.
From Coq Require Import ZArith List Bool Lia.
From Verif Require Import Ledger.Model Ledger.Supply Ledger.Frame Ledger.AtomAuth.
From Verif Require Import Ledger.NonceBase.
Import ListNotations.
Open Scope Z_scope.

Fixpoint nseq (start : N) (len : nat) : list N :=
  match len with O => [] | S k => start :: nseq (start + 1) k end.
Lemma nseq_app a k1 k2 : nseq a (k1 + k2) = nseq a k1 ++ nseq (a + N.of_nat k1) k2.
Proof.
  revert a. induction k1 as [|k IH]; intros a; simpl.
  - f_equal. lia.
  - f_equal. rewrite IH. f_equal. f_equal. lia.
Qed.
Lemma nseq_ge a k x : In x (nseq a k) -> (a <= x)%N.
Proof. revert a. induction k as [|k IH]; intros a; simpl; [tauto|]. intros [<-|H]; [lia|]. apply IH in H. lia. Qed.
Lemma nseq_NoDup a k : NoDup (nseq a k).
Proof.
  revert a. induction k as [|k IH]; intros a; simpl; constructor; [|apply IH].
  intros H. apply nseq_ge in H. lia.
Qed.

Definition nonces_of (a : N) (tr : list (N * N)) : list N :=
  map snd (filter (fun p => (fst p =? a)%N) tr).
Lemma nonces_of_app a l1 l2 : nonces_of a (l1 ++ l2) = nonces_of a l1 ++ nonces_of a l2.
Proof. unfold nonces_of. rewrite filter_app, map_app. reflexivity. Qed.

Lemma NoDup_trace tr : (forall a, NoDup (nonces_of a tr)) -> NoDup tr.
Proof.
  induction tr as [|[a n] tl IH]; intros H; constructor.
  - intros Hin. specialize (H a). unfold nonces_of in H. simpl in H. rewrite N.eqb_refl in H. simpl in H.
    inversion H as [|? ? Hn _]; subst. apply Hn.
    change n with (snd (a, n)). apply in_map. apply filter_In. split; [exact Hin|simpl; apply N.eqb_refl].
  - apply IH. intros b. specialize (H b). unfold nonces_of in *. simpl in H.
    destruct (a =? b)%N; simpl in H; [inversion H; assumption|assumption].
Qed.

Lemma NoDup_map_or_collision {A} (f : A -> N) (l : list A) :
  NoDup l -> NoDup (map f l) \/ exists x y, x <> y /\ f x = f y.
Proof.
  induction l as [|x l IH]; intros H; [left; constructor|].
  inversion H as [|? ? Hx Hl]; subst. destruct (IH Hl) as [ND|C]; [|right; exact C].
  destruct (in_dec N.eq_dec (f x) (map f l)) as [I|I].
  - right. apply in_map_iff in I as (y&E&Hy). exists x, y. split; [|auto]. intros ->. contradiction.
  - left. simpl. constructor; assumption.
Qed.

Section Chain.
  Variable is_name : N -> bool.
  Variable cid_of : N -> N -> N.
  Variable tx_hash : tx -> N.
  Variable vm : tx -> astate -> astate -> lstate -> vm_result.
  Variable sig_ok : N -> tx -> bool.
  Variable cfg : config.
  Notation xtx := (exec_tx is_name cid_of tx_hash vm cfg).
  Notation nc s a := (nonce (acct_of s a)).

  Lemma acct_of_finish s t st fee id : acct_of (finish cfg s t st fee) id = acct_of s id.
  Proof. reflexivity. Qed.

  Lemma body_applied_nonces bno s t sender receiver status s' :
    exec_tx_body is_name vm cfg bno s t sender receiver status = RApplied s' ->
    NCL (fun id => nc s id) sender -> NCL (fun id => nc s id) receiver ->
    nc s' (a_id sender) = t_nonce t /\ forall id, id <> a_id sender -> nc s' id = nc s id.
  Proof.
    set (n0 := fun id => nc s id). intros H Ha Hb.
    assert (Hs : NN n0 s) by (intros id; reflexivity).
    assert (Fin : forall s1 sd rc fee,
              NN n0 s1 -> NCL n0 sd -> NCL n0 rc -> a_id sd = a_id sender ->
              RApplied (finish cfg (let sd' := a_set_nonce sd (t_nonce t) in let s2 := put_state s1 sd' in
                           if (a_id sd' =? a_id rc)%N then s2 else put_state s2 rc) t status fee) = RApplied s' ->
              nc s' (a_id sender) = t_nonce t /\ forall id, id <> a_id sender -> nc s' id = nc s id).
    { intros s1 sd rc fee N1 A1 B1 I [= <-]. cbv zeta. simpl a_id.
      assert (P1 : forall id, nc (put_state s1 (a_set_nonce sd (t_nonce t))) id = if (id =? a_id sd)%N then t_nonce t else n0 id).
      { intros id. unfold acct_of, put_state. simpl. destruct (N.eqb_spec id (a_id sd)) as [->|E].
        - rewrite lookup_insert. reflexivity.
        - rewrite lookup_insert_ne by congruence. apply N1. }
      destruct (N.eqb_spec (a_id sd) (a_id rc)) as [E|E].
      - split; [rewrite acct_of_finish, P1, I, N.eqb_refl; reflexivity|].
        intros id Hid. rewrite acct_of_finish, P1. destruct (N.eqb_spec id (a_id sd)); [congruence|reflexivity].
      - assert (P2 : forall id, nc (put_state (put_state s1 (a_set_nonce sd (t_nonce t))) rc) id = if (id =? a_id sd)%N then t_nonce t else n0 id).
        { intros id. unfold acct_of at 1. unfold put_state at 1. simpl. destruct (N.eq_dec id (a_id rc)) as [->|F].
          - rewrite lookup_insert. simpl. destruct (N.eqb_spec (a_id rc) (a_id sd)); [congruence|]. exact B1.
          - rewrite lookup_insert_ne by congruence. apply P1. }
        split; [rewrite acct_of_finish, P2, I, N.eqb_refl; reflexivity|].
        intros id Hid. rewrite acct_of_finish, P2. destruct (N.eqb_spec id (a_id sd)); [congruence|reflexivity]. }
    unfold exec_tx_body in H.
    destruct (is_ent (t_kind t)) eqn:EN.
    { destruct (t_kind t) eqn:K; try discriminate EN. cbn [is_gov] in H.
      destruct (t_fddeny t).
      - cbn [negb orb] in H. destruct (reset_account _ _ _ _); discriminate.
      - exact (Fin s sender receiver 0 Hs Ha Hb eq_refl H). }
    destruct (is_gov (t_kind t)).
    - destruct (exec_governance is_name cfg bno s t sender receiver) as [[[s1 sd'] rc']|] eqn:EG; [|discriminate].
      destruct (exec_governance_nn n0 _ _ _ _ _ _ _ _ EG Hs Ha Hb) as (N1&A1&B1&I1&I2).
      exact (Fin s1 sd' rc' 0 N1 A1 B1 I1 H).
    - destruct (match t_kind t with KFeeDeleg => true | _ => false end).
      + destruct (validate_max_fee _ _ _ _ _ _); cbn [negb] in H; [|discriminate].
        destruct (_ || _); [discriminate|].
        destruct (contract_execute vm cfg s t sender receiver true) as [[[[c s1] sd'] rc'] fee] eqn:CE.
        destruct (contract_execute_nn n0 _ _ _ _ _ _ _ _ _ _ _ _ CE Hs Ha Hb) as (N1&A1&B1&I1&I2).
        destruct (c_fix_f24 cfg && _); destruct c; try discriminate.
        * exact (Fin s1 (sub_bal sd' fee) rc' fee N1 A1 B1 I1 H).
        * repeat (match type of H with context [match ?x with _ => _ end] => destruct x end; try discriminate).
        * exact (Fin s1 sd' (sub_bal rc' fee) fee N1 A1 B1 I1 H).
        * repeat (match type of H with context [match ?x with _ => _ end] => destruct x end; try discriminate).
      + destruct (contract_execute vm cfg s t sender receiver false) as [[[[c s1] sd'] rc'] fee] eqn:CE.
        destruct (contract_execute_nn n0 _ _ _ _ _ _ _ _ _ _ _ _ CE Hs Ha Hb) as (N1&A1&B1&I1&I2).
        destruct c; try discriminate.
        * exact (Fin s1 (sub_bal sd' fee) rc' fee N1 A1 B1 I1 H).
        * repeat (match type of H with context [match ?x with _ => _ end] => destruct x end; try discriminate).
  Qed.

  (** C04: an executed transaction sets its sender's nonce to the transaction nonce and leaves
      every other account's nonce unchanged *)
  Theorem exec_tx_nonces bno s t o s' :
    xtx bno s t = (o, s') -> o <> Rejected ->
    nc s' (resolve is_name s (t_from t)) = t_nonce t /\
    forall id, id <> resolve is_name s (t_from t) -> nc s' id = nc s id.
  Proof.
    intros H Ho. set (sid := resolve is_name s (t_from t)).
    destruct o; [|clear Ho|congruence].
    - (* applied *)
      unfold exec_tx, exec_tx_core in H.
      destruct (validate tx_hash cfg t); cbn [negb] in H; [|discriminate].
      destruct (validate_with_sender_state cfg t _); cbn [negb] in H; [|discriminate].
      fold sid in H.
      destruct (resolve is_name s (recipient_of t) =? 0)%N.
      + destruct (a_isnew _); cbn [negb] in H; [|discriminate].
        match type of H with match exec_tx_body _ _ _ _ _ _ ?sd ?r ?st with _ => _ end = _ =>
          destruct (exec_tx_body is_name vm cfg bno s t sd r st) as [x|x|] eqn:B; try discriminate;
          injection H as <-; apply (body_applied_nonces _ _ _ _ _ _ _ B); reflexivity end.
      + match type of H with match exec_tx_body _ _ _ _ _ _ ?sd ?r ?st with _ => _ end = _ =>
          destruct (exec_tx_body is_name vm cfg bno s t sd r st) as [x|x|] eqn:B; try discriminate;
          injection H as <-; apply (body_applied_nonces _ _ _ _ _ _ _ B); reflexivity end.
    - (* fee + nonce only *)
      destruct (exec_tx_fee_nonce_only is_name cid_of tx_hash vm cfg bno s t s' H) as (fee&[(L&->)|(K&Hne&L&->)]); fold sid.
      + split.
        * unfold acct_of at 1. simpl. rewrite lookup_insert. reflexivity.
        * intros id Hid. unfold acct_of at 1. simpl. rewrite lookup_insert_ne by congruence. reflexivity.
      + fold sid in Hne. split.
        * unfold acct_of at 1. simpl. rewrite lookup_insert_ne by congruence. rewrite lookup_insert. reflexivity.
        * intros id Hid. unfold acct_of at 1. simpl.
          destruct (N.eq_dec id (receiver_id is_name cid_of s t)) as [->|F].
          -- rewrite lookup_insert. reflexivity.
          -- rewrite !lookup_insert_ne by congruence. reflexivity.
  Qed.
End Chain.

From stdpp Require Import gmap.
From Coq Require Import ZArith List Bool Lia.
From Verif Require Import Ledger.Model Ledger.Supply Ledger.BlockProofs Ledger.NonceChain Ledger.Eval.
Import ListNotations.
Open Scope Z_scope.

(** Concrete witnesses (evaluated by vm_compute) showing that two hypotheses of the C01 / C04
    theorems cannot be dropped on the code as it is. *)

Definition w_cfg (f24 : bool) : config :=
  {| c_version := 0; c_zerofee := false; c_gas_price := 1; c_chain := 7%N; c_name_price := 0; c_stake_min := 0;
     c_stake_delay := 0%N; c_vote_delay := 0%N; c_fix_f24 := f24; c_fix_f18 := true |}.
Definition w_tx k f t n a pl sg nm d : tx :=
  {| t_kind := k; t_from := f; t_to := t; t_nonce := n; t_amount := a; t_plen := pl; t_gaslimit := 0; t_chain := 7%N;
     t_hash := 5%N; t_signer := sg; t_name := nm; t_dest := d; t_fddeny := false |}.
Definition w_hash (_ : tx) : N := 5%N.
Definition w_cid (_ _ : N) : N := 999%N.
Definition w_vm (_ : tx) (_ _ : astate) (_ : lstate) : vm_result := VmOk [] [] 0.

(** state: account 10 (the owner), contract 100 created by 10, name 200 -> (owner 10, destination 100) *)
Definition w_state (dest : N) : lstate :=
  {| accts := list_to_map [(10%N, {| bal := 5000000000000000000; nonce := 0%N; code := false |});
                           (100%N, {| bal := 2000000000000000000; nonce := 0%N; code := true |})];
     stk := ∅; stk_total := 0; voted := ∅; names := list_to_map [(200%N, (10%N, dest))]; names0 := list_to_map [(200%N, (10%N, dest))];
     cstor := list_to_map [(100%N, list_to_map [(0%N, 10)])]; bp_reward := 0; receipts := [] |}.

(** F24: fee delegation whose sender (the name 200) resolves to the called contract itself.  On the
    unrepaired executor the fee goes to BpReward and is debited nowhere. *)
Definition w_fd : tx := w_tx KFeeDeleg 200%N 100%N 1%N 0 5 10%N 0%N 0%N.
Theorem exec_tx_supply_self_feedeleg_refuted :
  exists is_name cid_of tx_hash vm cfg bno s t o s',
    c_fix_f24 cfg = false /\ nonneg s /\ 0 <= t_amount t /\ 0 <= c_gas_price cfg /\ c_fix_f18 cfg = true /\
    exec_tx is_name cid_of tx_hash vm cfg bno s t = (o, s') /\ o = Applied /\
    supply s' + bp_reward s' = supply s + bp_reward s + 2000000000000000.
Proof.
  exists is_name_std, w_cid, w_hash, w_vm, (w_cfg false), 7%N, (w_state 100%N), w_fd.
  eexists. eexists. repeat split; try reflexivity; try (simpl; lia).
  - intros id a H. unfold w_state in H. simpl in H.
    apply lookup_insert_Some in H as [[_ <-]|[_ H]]; [simpl; lia|].
    apply lookup_insert_Some in H as [[_ <-]|[_ H]]; [simpl; lia|].
    rewrite lookup_empty in H. discriminate.
Qed.
(** ... and with the repair the same transaction conserves (instance of exec_tx_supply's conclusion) *)
Example self_feedeleg_fixed_conserves :
  let r := exec_tx is_name_std w_cid w_hash w_vm (w_cfg true) 7%N (w_state 100%N) w_fd in
  fst r = Applied /\ supply (snd r) + bp_reward (snd r) = supply (w_state 100%N) + bp_reward (w_state 100%N).
Proof. vm_compute. split; reflexivity. Qed.

(** F25: the same signed transaction (Account = name 200, nonce 1) executes twice along a chain: once
    while the name points at account 10, once after the owner re-pointed it to contract 100 *)
Definition w_t : tx := w_tx KTransfer 200%N 11%N 1%N 1 0 10%N 0%N 0%N.
Definition w_upd : tx := w_tx KNameUpdate 10%N 0%N 2%N 0 20 10%N 200%N 100%N.
Definition w_cfg0 : config :=
  {| c_version := 0; c_zerofee := true; c_gas_price := 1; c_chain := 7%N; c_name_price := 0; c_stake_min := 0;
     c_stake_delay := 0%N; c_vote_delay := 0%N; c_fix_f24 := true; c_fix_f18 := true |}.
Definition w_chain : list (N * N * list tx) := [(1%N, 30%N, [w_t; w_upd]); (2%N, 30%N, [w_t])].
Theorem no_tx_twice_names_refuted :
  exists is_name cid_of tx_hash vm sig_ok cfg vr bl s s',
    vreward_nn vr /\ exec_chain is_name cid_of tx_hash vm sig_ok cfg vr s bl = Some s' /\
    ~ NoDup (chain_txs bl).
Proof.
  exists is_name_std, w_cid, w_hash, w_vm, sig_ok_std, w_cfg0, (fun x => x), w_chain, (w_state 10%N).
  eexists. split; [intros s id; reflexivity|]. split; [vm_compute; reflexivity|].
  unfold w_chain, chain_txs. simpl. intros H. inversion H as [|? ? Hn _]; subst. apply Hn. simpl. auto.
Qed.

(** The order matters (copies + explicit PutState): loading the coinbase account BEFORE the voting-reward hook and
    crediting that stale copy afterwards loses the voting reward when the winner is the coinbase account. *)
Definition block_reward_stale (reward : Z) (winner : option N) (cb : N) (s : lstate) : lstate :=
  if bp_reward s <=? 0 then send_voting_reward reward winner s
  else let cbs := get_astate s cb in                       (* loaded before the hook *)
       put_state (send_voting_reward reward winner s) (add_bal cbs (bp_reward s)).
Definition w_rstate : lstate :=
  {| accts := list_to_map [(3%N, {| bal := 1000; nonce := 0%N; code := false |}); (10%N, {| bal := 50; nonce := 0%N; code := false |})];
     stk := ∅; stk_total := 0; voted := ∅; names := ∅; names0 := ∅; cstor := ∅; bp_reward := 7; receipts := [] |}.
Theorem block_reward_stale_order_refuted :
  supply (block_reward_stale 160 (Some 10%N) 10%N w_rstate) = supply w_rstate + bp_reward w_rstate - 160 /\
  supply (send_reward_coinbase (send_voting_reward 160 (Some 10%N) w_rstate) (Some 10%N)) = supply w_rstate + bp_reward w_rstate.
Proof. vm_compute. split; reflexivity. Qed.

From stdpp Require Import gmap.
From Coq Require Import ZArith List Bool Lia.
From Verif Require Import Ledger.Model Ledger.Supply Ledger.Frame Ledger.AtomAuth.
Import ListNotations.
Open Scope Z_scope.

(** The executor resolves account names through [names0] (the aergo.name storage as committed before
    the block); nothing executed inside a block changes it, so at every position of a block it is the
    very map the signature check of the validator reads ([names] of the pre-block state). *)

Lemma exec_governance_names0 is_name cfg bno s t sd rc s' sd' rc' :
  exec_governance is_name cfg bno s t sd rc = Some (s', sd', rc') -> names0 s' = names0 s.
Proof.
  unfold exec_governance, exec_stake, exec_unstake, exec_vote, exec_name, name_commit. intros H.
  crush_frame H; inversion H; subst; auto.
Qed.

Lemma vm_fold_names0 trs : forall s sd rc s' sd' rc',
  fold_left vm_transfer trs (s, sd, rc) = (s', sd', rc') -> names0 s' = names0 s.
Proof.
  induction trs as [|[to amt] tl IH]; intros s sd rc s' sd' rc' H; simpl in H.
  - inversion H; auto.
  - destruct (to =? a_id rc)%N; [eauto|]. destruct (to =? a_id sd)%N; [eauto|].
    apply IH in H. exact H.
Qed.

Lemma contract_execute_names0 vm cfg s t sd rc fd c s' sd' rc' fee :
  contract_execute vm cfg s t sd rc fd = (c, s', sd', rc', fee) -> names0 s' = names0 s.
Proof.
  unfold contract_execute. intros H.
  destruct (send_balance sd rc (t_amount t)) as [[a b]|]; [|inversion H; auto].
  destruct (check_execution _ _ _ _ _ _) as [dx e]. destruct dx; cbn [negb] in H; [|inversion H; auto].
  destruct (gas_limit _ _ _ _ _ _ _ _ _); [|inversion H; auto].
  destruct (negb _ && negb _); [inversion H; auto|].
  destruct (vm t a b s) as [trs ws cfee|cfee|cfee].
  - destruct (cfee <? 0); [inversion H; auto|].
    destruct (fold_left vm_transfer trs (s, a, b)) as [[s1 a1] b1] eqn:F.
    pose proof (vm_fold_names0 _ _ _ _ _ _ _ F).
    match type of H with (if ?c then _ else _) = _ => destruct c end; [|inversion H; subst; auto].
    match type of H with (if ?c then _ else _) = _ => destruct c end; [inversion H; subst; auto|].
    destruct trs; inversion H; subst; auto.
  - destruct (cfee <? 0); inversion H; auto.
  - inversion H; auto.
Qed.

Section R.
  Variable is_name : N -> bool.
  Variable cid_of : N -> N -> N.
  Variable tx_hash : tx -> N.
  Variable vm : tx -> astate -> astate -> lstate -> vm_result.
  Variable sig_ok : N -> tx -> bool.
  Variable cfg : config.
  Notation xtx := (exec_tx is_name cid_of tx_hash vm cfg).

  Lemma body_applied_names0 bno s t sender receiver status s' :
    exec_tx_body is_name vm cfg bno s t sender receiver status = RApplied s' -> names0 s' = names0 s.
  Proof.
    assert (Fin : forall s1 sd rc fee, names0 s1 = names0 s ->
              RApplied (finish cfg (let sd' := a_set_nonce sd (t_nonce t) in let s2 := put_state s1 sd' in
                           if (a_id sd' =? a_id rc)%N then s2 else put_state s2 rc) t status fee) = RApplied s' ->
              names0 s' = names0 s).
    { intros s1 sd rc fee E [= <-]. cbv zeta. destruct (_ =? _)%N; exact E. }
    unfold exec_tx_body. intros H.
    destruct (is_ent (t_kind t)).
    { destruct (t_fddeny t).
      - cbn [negb orb] in H. repeat (match type of H with context [match ?x with _ => _ end] => destruct x end; try discriminate).
      - exact (Fin s sender receiver 0 eq_refl H). }
    destruct (is_gov (t_kind t)).
    - destruct (exec_governance is_name cfg bno s t sender receiver) as [[[s1 sd'] rc']|] eqn:EG; [|discriminate].
      exact (Fin s1 sd' rc' 0 (exec_governance_names0 _ _ _ _ _ _ _ _ _ _ EG) H).
    - destruct (match t_kind t with KFeeDeleg => true | _ => false end).
      + destruct (validate_max_fee _ _ _ _ _ _); cbn [negb] in H; [|discriminate].
        destruct (_ || _); [discriminate|].
        destruct (contract_execute vm cfg s t sender receiver true) as [[[[c s1] sd'] rc'] fee] eqn:CE.
        pose proof (contract_execute_names0 _ _ _ _ _ _ _ _ _ _ _ _ CE) as E.
        destruct (c_fix_f24 cfg && _); destruct c; try discriminate.
        * exact (Fin s1 (sub_bal sd' fee) rc' fee E H).
        * repeat (match type of H with context [match ?x with _ => _ end] => destruct x end; try discriminate).
        * exact (Fin s1 sd' (sub_bal rc' fee) fee E H).
        * repeat (match type of H with context [match ?x with _ => _ end] => destruct x end; try discriminate).
      + destruct (contract_execute vm cfg s t sender receiver false) as [[[[c s1] sd'] rc'] fee] eqn:CE.
        pose proof (contract_execute_names0 _ _ _ _ _ _ _ _ _ _ _ _ CE) as E.
        destruct c; try discriminate.
        * exact (Fin s1 (sub_bal sd' fee) rc' fee E H).
        * repeat (match type of H with context [match ?x with _ => _ end] => destruct x end; try discriminate).
  Qed.

  Lemma exec_tx_names0 bno s t o s' : xtx bno s t = (o, s') -> names0 s' = names0 s.
  Proof.
    intros H. destruct o.
    - unfold exec_tx, exec_tx_core in H.
      destruct (validate tx_hash cfg t); cbn [negb] in H; [|discriminate].
      destruct (validate_with_sender_state cfg t _); cbn [negb] in H; [|discriminate].
      destruct (resolve is_name s (recipient_of t) =? 0)%N.
      + destruct (a_isnew _); cbn [negb] in H; [|discriminate].
        match type of H with match exec_tx_body _ _ _ _ _ _ ?sd ?r ?st with _ => _ end = _ =>
          destruct (exec_tx_body is_name vm cfg bno s t sd r st) as [x|x|] eqn:B; try discriminate;
          injection H as <-; exact (body_applied_names0 _ _ _ _ _ _ _ B) end.
      + match type of H with match exec_tx_body _ _ _ _ _ _ ?sd ?r ?st with _ => _ end = _ =>
          destruct (exec_tx_body is_name vm cfg bno s t sd r st) as [x|x|] eqn:B; try discriminate;
          injection H as <-; exact (body_applied_names0 _ _ _ _ _ _ _ B) end.
    - destruct (exec_tx_fee_nonce_only is_name cid_of tx_hash vm cfg bno s t s' H) as (fee&[(_&->)|(_&_&_&->)]); reflexivity.
    - rewrite (exec_tx_rejected_unchanged is_name cid_of tx_hash vm cfg bno s t s' H). reflexivity.
  Qed.

  Lemma exec_txs_names0 bno txs : forall s s',
    exec_txs is_name cid_of tx_hash vm cfg bno s txs = Some s' -> names0 s' = names0 s.
  Proof.
    induction txs as [|t tl IH]; intros s s' H; simpl in H; [injection H as <-; reflexivity|].
    destruct (xtx bno s t) as [o s1] eqn:X. pose proof (exec_tx_names0 _ _ _ _ _ X) as E.
    destruct o; try discriminate; rewrite <- E; eauto.
  Qed.

  (** C04: signature check and executor agree on who a name is.  After any prefix [pre] of a block executed
      from the pre-block state [s], the executor resolves every account through the map [names s] -- the map
      [verify_tx s] reads the owner from; a v1updateName / v1createName / v1setOwner executed earlier in the
      SAME block cannot change whom a later transaction of the block is executed as. *)
  Theorem verify_and_exec_resolve_same bno s pre s1 :
    exec_txs is_name cid_of tx_hash vm cfg bno (begin_block s) pre = Some s1 ->
    names0 s1 = names s /\
    forall a, resolve is_name s1 a = (if is_name a then match names s !! a with Some (_, d) => d | None => 0%N end else a).
  Proof.
    intros H. pose proof (exec_txs_names0 _ _ _ _ H) as E. simpl in E.
    split; [exact E|]. intros a. unfold resolve. rewrite E. reflexivity.
  Qed.
End R.

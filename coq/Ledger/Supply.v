From stdpp Require Import gmap.
From Coq Require Import ZArith List Bool Lia.
From Verif Require Import Ledger.Model.
Import ListNotations.
Open Scope Z_scope.

Definition stored (s : lstate) (id : N) : Z := bal (acct_of s id).
Definition nonneg (s : lstate) : Prop := forall id a, accts s !! id = Some a -> 0 <= bal a.

Definition total (m : gmap N acct) : Z := map_fold (fun _ a acc => bal a + acc) 0 m.

Lemma total_insert_fresh m k a : m !! k = None -> total (<[k:=a]> m) = bal a + total m.
Proof.
  intros H. unfold total. rewrite map_fold_insert_L; [reflexivity| |exact H].
  intros. lia.
Qed.
Lemma total_delete m k a : m !! k = Some a -> total m = bal a + total (delete k m).
Proof.
  intros H. rewrite <- (insert_delete m k a H) at 1.
  apply total_insert_fresh. apply lookup_delete.
Qed.
Lemma total_insert m k a : total (<[k:=a]> m) = bal a + total m - bal (default acct0 (m !! k)).
Proof.
  destruct (m !! k) as [w|] eqn:E; simpl.
  - rewrite (total_delete m k w E). rewrite <- insert_delete_insert.
    rewrite total_insert_fresh by apply lookup_delete. lia.
  - rewrite total_insert_fresh by exact E. simpl. lia.
Qed.

Lemma supply_put s a : supply (put_state s a) = supply s - stored s (a_id a) + a_bal a.
Proof. unfold supply, put_state, stored, acct_of, a_bal. simpl. fold (total (<[a_id a:=a_new a]> (accts s))).
  rewrite total_insert. unfold total. lia. Qed.

Lemma stored_put_same s a : stored (put_state s a) (a_id a) = a_bal a.
Proof. unfold stored, acct_of, put_state. simpl. rewrite lookup_insert. reflexivity. Qed.
Lemma stored_put_other s a id : id <> a_id a -> stored (put_state s a) id = stored s id.
Proof. intros. unfold stored, acct_of, put_state. simpl. rewrite lookup_insert_ne by congruence. reflexivity. Qed.
Lemma nonneg_put s a : nonneg s -> 0 <= a_bal a -> nonneg (put_state s a).
Proof. intros Hn Ha id x. unfold put_state. simpl. destruct (decide (id = a_id a)) as [->|Hne].
  - rewrite lookup_insert. intros [= <-]. exact Ha.
  - rewrite lookup_insert_ne by congruence. apply Hn. Qed.
Lemma nonneg_stored s id : nonneg s -> 0 <= stored s id.
Proof. intros Hn. unfold stored, acct_of. destruct (accts s !! id) eqn:E; simpl; [eauto|lia]. Qed.

(* ---------------------------------------------------------------- copies *)
Lemma a_bal_sub a x : a_bal (sub_bal a x) = Z.abs (a_bal a - x). Proof. reflexivity. Qed.
Lemma a_bal_add a x : a_bal (add_bal a x) = Z.abs (a_bal a + x). Proof. reflexivity. Qed.
Lemma a_id_sub a x : a_id (sub_bal a x) = a_id a. Proof. reflexivity. Qed.
Lemma a_id_add a x : a_id (add_bal a x) = a_id a. Proof. reflexivity. Qed.
Lemma a_old_sub a x : a_old (sub_bal a x) = a_old a. Proof. reflexivity. Qed.
Lemma a_old_add a x : a_old (add_bal a x) = a_old a. Proof. reflexivity. Qed.

Lemma get_astate_bal s id : a_bal (get_astate s id) = stored s id. Proof. reflexivity. Qed.
Lemma get_astate_id s id : a_id (get_astate s id) = id. Proof. reflexivity. Qed.

(** state.SendBalance: debits and credits the same amount, or is a no-op (same account), or fails *)
Lemma send_balance_spec a b x a' b' :
  send_balance a b x = Some (a', b') -> 0 <= x -> 0 <= a_bal a -> 0 <= a_bal b ->
  a_id a' = a_id a /\ a_id b' = a_id b /\ a_old a' = a_old a /\ a_old b' = a_old b /\
  a_deploy a' = a_deploy a /\ a_deploy b' = a_deploy b /\
  code (a_new a') = code (a_new a) /\ code (a_new b') = code (a_new b) /\
  nonce (a_new a') = nonce (a_new a) /\ nonce (a_new b') = nonce (a_new b) /\
  0 <= a_bal a' /\ 0 <= a_bal b' /\
  ((a_id a = a_id b /\ a' = a /\ b' = b) \/
   (a_id a <> a_id b /\ x <= a_bal a /\ a_bal a' = a_bal a - x /\ a_bal b' = a_bal b + x)).
Proof.
  unfold send_balance. intros H Hx Ha Hb.
  destruct (N.eqb_spec (a_id a) (a_id b)) as [E|E].
  - inversion H; subst. repeat split; auto.
  - destruct (Z.ltb_spec (a_bal a) x) as [L|L]; [discriminate|].
    inversion H; subst. rewrite a_bal_sub, a_bal_add.
    repeat split; try reflexivity; try lia.
Qed.

Theorem send_balance_conserves a b x a' b' :
  send_balance a b x = Some (a', b') -> 0 <= x -> 0 <= a_bal a -> 0 <= a_bal b ->
  a_bal a' + a_bal b' = a_bal a + a_bal b.
Proof.
  intros H Hx Ha Hb. destruct (send_balance_spec _ _ _ _ _ H Hx Ha Hb) as (_&_&_&_&_&_&_&_&_&_&_&_&[(E&->&->)|(E&L&->&->)]); lia.
Qed.

(* ---------------------------------------------------------------- the potential *)
(** Supply the state would have if the executor wrote its sender (and, when it is a
    different account, receiver) object back now. *)
Definition Phi (s : lstate) (sd rc : astate) : Z :=
  supply s - stored s (a_id sd) + a_bal sd
  + (if (a_id sd =? a_id rc)%N then 0 else a_bal rc - stored s (a_id rc)).

Definition fin (s : lstate) (sd rc : astate) : lstate :=
  let s1 := put_state s sd in if (a_id sd =? a_id rc)%N then s1 else put_state s1 rc.

Lemma supply_fin s sd rc : supply (fin s sd rc) = Phi s sd rc.
Proof.
  unfold fin, Phi. destruct (N.eqb_spec (a_id sd) (a_id rc)) as [E|E].
  - rewrite supply_put. lia.
  - rewrite !supply_put. rewrite stored_put_other by congruence. lia.
Qed.
Lemma nonneg_fin s sd rc : nonneg s -> 0 <= a_bal sd -> 0 <= a_bal rc -> nonneg (fin s sd rc).
Proof. intros. unfold fin. destruct (a_id sd =? a_id rc)%N; auto using nonneg_put. Qed.

Lemma Phi_put_sd s sd rc : Phi (put_state s sd) sd rc = Phi s sd rc.
Proof.
  unfold Phi. rewrite supply_put, stored_put_same.
  destruct (N.eqb_spec (a_id sd) (a_id rc)) as [E|E]; [lia|].
  rewrite stored_put_other by congruence. lia.
Qed.
Lemma Phi_put_rc s sd rc : Phi (put_state s rc) sd rc = Phi s sd rc.
Proof.
  unfold Phi. rewrite supply_put.
  destruct (N.eqb_spec (a_id sd) (a_id rc)) as [E|E].
  - rewrite E, stored_put_same. lia.
  - rewrite stored_put_same. rewrite stored_put_other by congruence. lia.
Qed.
Lemma Phi_put_third s sd rc th :
  a_id th <> a_id sd -> a_id th <> a_id rc ->
  Phi (put_state s th) sd rc = Phi s sd rc + (a_bal th - stored s (a_id th)).
Proof.
  intros H1 H2. unfold Phi. rewrite supply_put. rewrite !stored_put_other by congruence.
  destruct (a_id sd =? a_id rc)%N; lia.
Qed.
Lemma Phi_fresh s sd rc :
  a_bal sd = stored s (a_id sd) -> a_bal rc = stored s (a_id rc) -> Phi s sd rc = supply s.
Proof. intros H1 H2. unfold Phi. rewrite H1, H2. destruct (a_id sd =? a_id rc)%N; lia. Qed.
Lemma Phi_copies s sd rc sd' rc' :
  a_id sd' = a_id sd -> a_id rc' = a_id rc ->
  Phi s sd' rc' = Phi s sd rc + (a_bal sd' - a_bal sd)
                  + (if (a_id sd =? a_id rc)%N then 0 else a_bal rc' - a_bal rc).
Proof. intros H1 H2. unfold Phi. rewrite H1, H2. destruct (a_id sd =? a_id rc)%N; lia. Qed.

(** SendBalance between the two executor objects never changes the potential *)
Lemma Phi_send s a b x a' b' :
  send_balance a b x = Some (a', b') -> 0 <= x -> 0 <= a_bal a -> 0 <= a_bal b ->
  Phi s a' b' = Phi s a b /\ Phi s b' a' = Phi s b a.
Proof.
  intros H Hx Ha Hb.
  destruct (send_balance_spec _ _ _ _ _ H Hx Ha Hb) as (I1&I2&_&_&_&_&_&_&_&_&_&_&[(E&->&->)|(E&L&B1&B2)]); [auto|].
  rewrite (Phi_copies s a b a' b' I1 I2), (Phi_copies s b a b' a' I2 I1).
  destruct (N.eqb_spec (a_id a) (a_id b)); [congruence|].
  destruct (N.eqb_spec (a_id b) (a_id a)); [congruence|]. lia.
Qed.

Lemma Phi_with_stk s m t a b : Phi (with_stk s m t) a b = Phi s a b. Proof. reflexivity. Qed.
Lemma Phi_with_names s m a b : Phi (with_names s m) a b = Phi s a b. Proof. reflexivity. Qed.
Lemma Phi_with_cstor s m a b : Phi (with_cstor s m) a b = Phi s a b. Proof. reflexivity. Qed.
Lemma Phi_with_voted s m a b : Phi (with_voted s m) a b = Phi s a b. Proof. reflexivity. Qed.
Lemma nonneg_with_voted s m : nonneg s -> nonneg (with_voted s m). Proof. exact (fun H => H). Qed.
Lemma nonneg_with_stk s m t : nonneg s -> nonneg (with_stk s m t). Proof. exact (fun H => H). Qed.
Lemma nonneg_with_names s m : nonneg s -> nonneg (with_names s m). Proof. exact (fun H => H). Qed.
Lemma nonneg_with_cstor s m : nonneg s -> nonneg (with_cstor s m). Proof. exact (fun H => H). Qed.
Lemma nonneg_with_block s r rc : nonneg s -> nonneg (with_block s r rc). Proof. exact (fun H => H). Qed.

Definition pre (s : lstate) (sd rc : astate) : Prop := nonneg s /\ 0 <= a_bal sd /\ 0 <= a_bal rc.
Definition post (s : lstate) (sd rc : astate) (s' : lstate) (sd' rc' : astate) : Prop :=
  a_id sd' = a_id sd /\ a_id rc' = a_id rc /\ nonneg s' /\ 0 <= a_bal sd' /\ 0 <= a_bal rc' /\
  Phi s' sd' rc' = Phi s sd rc.

Section Gov.
  Variable is_name : N -> bool.
  Variable cfg : config.

  Lemma exec_stake_post bno s t sd rc s' sd' rc' :
    exec_stake cfg bno s t sd rc = Some (s', sd', rc') -> pre s sd rc -> 0 <= t_amount t ->
    post s sd rc s' sd' rc'.
  Proof.
    unfold exec_stake. intros H (Hn&Hs&Hr) Ha.
    destruct (a_bal sd <? t_amount t); [discriminate|].
    destruct (match stk s !! a_id sd with Some (_, w) => (bno <? w + c_stake_delay cfg)%N | None => false end); [discriminate|].
    destruct (_ <? c_stake_min cfg); [discriminate|].
    destruct (send_balance sd rc (t_amount t)) as [[a b]|] eqn:E; [|discriminate].
    inversion H; subst; clear H.
    destruct (send_balance_spec _ _ _ _ _ E Ha Hs Hr) as (I1&I2&_&_&_&_&_&_&_&_&P1&P2&_).
    destruct (Phi_send s _ _ _ _ _ E Ha Hs Hr) as [Q _].
    unfold post. rewrite Phi_with_stk. repeat split; auto.
  Qed.

  Lemma exec_unstake_post bno s t sd rc s' sd' rc' :
    exec_unstake cfg bno s t sd rc = Some (s', sd', rc') -> pre s sd rc -> 0 <= t_amount t ->
    post s sd rc s' sd' rc'.
  Proof.
    unfold exec_unstake. intros H (Hn&Hs&Hr) Ha.
    destruct (stk s !! a_id sd) as [[staked w]|]; [|discriminate].
    destruct (staked =? 0); [discriminate|].
    destruct (Z.ltb_spec staked (t_amount t)); [discriminate|].
    destruct (bno <? w + c_stake_delay cfg)%N; [discriminate|].
    destruct (negb _ && _); [discriminate|].
    destruct (send_balance rc sd (t_amount t)) as [[b a]|] eqn:E; [|discriminate].
    inversion H; subst; clear H.
    destruct (send_balance_spec _ _ _ _ _ E Ha Hr Hs) as (I1&I2&_&_&_&_&_&_&_&_&P1&P2&_).
    destruct (Phi_send s _ _ _ _ _ E Ha Hr Hs) as [_ Q].
    unfold post. rewrite Phi_with_stk. repeat split; auto.
  Qed.

  Lemma exec_vote_post bno s t sd rc s' sd' rc' :
    exec_vote cfg bno s t sd rc = Some (s', sd', rc') -> pre s sd rc -> post s sd rc s' sd' rc'.
  Proof.
    unfold exec_vote. intros H (Hn&Hs&Hr).
    destruct (stk s !! a_id sd) as [[staked w]|]; [|discriminate].
    destruct (staked =? 0); [discriminate|]. destruct (_ && _); [discriminate|].
    injection H as <- <- <-. unfold post. rewrite Phi_with_voted, Phi_with_stk. repeat split; auto.
  Qed.
End Gov.

Lemma Phi_put_clean s sd rc th :
  a_bal th = stored s (a_id th) -> Phi (put_state s th) sd rc = Phi s sd rc.
Proof.
  intros Hc. unfold Phi. rewrite supply_put.
  destruct (N.eqb_spec (a_id sd) (a_id rc)) as [E|E].
  - destruct (N.eq_dec (a_id th) (a_id sd)) as [F|F].
    + rewrite <- F, stored_put_same. lia.
    + rewrite stored_put_other by congruence. lia.
  - destruct (N.eq_dec (a_id th) (a_id sd)) as [F|F]; destruct (N.eq_dec (a_id th) (a_id rc)) as [G|G]; try congruence.
    + rewrite <- F, stored_put_same. rewrite stored_put_other by congruence. lia.
    + rewrite <- G, stored_put_same. rewrite stored_put_other by congruence. lia.
    + rewrite !stored_put_other by congruence. lia.
Qed.

Section GovName.
  Variable is_name : N -> bool.
  Variable cfg : config.
  Hypothesis Hfix : c_fix_f18 cfg = true.

  Lemma name_state_cases s sd rc w ns :
    name_state cfg s sd rc = (w, ns) ->
    (w = 0%N /\ ns = sd) \/ (w = 1%N /\ ns = rc) \/
    (w = 2%N /\ ns = get_astate s (a_id ns) /\ a_id ns <> a_id sd /\ a_id ns <> a_id rc).
  Proof.
    unfold name_state. rewrite Hfix. simpl.
    destruct (names s !! 2%N); simpl.
    - destruct (N.eqb_spec (a_id sd) (owner_of (names s) 2)) as [E|E].
      + intros [= <- <-]. auto.
      + destruct (N.eqb_spec (a_id rc) (owner_of (names s) 2)) as [F|F].
        * intros [= <- <-]. auto.
        * intros [= <- <-]. right. right. simpl. repeat split; auto.
    - intros [= <- <-]. auto.
  Qed.

  (** price payment shared by create / update *)
  Lemma name_pay_post s m (mf : astate -> gmap N (N * N)) sd rc w ns x s' sd' rc' :
    name_state cfg s sd rc = (w, ns) -> pre s sd rc -> 0 <= x ->
    (if (w =? 0)%N then Some (name_commit (with_names s m) w sd sd rc)
     else match send_balance sd ns x with
          | None => None
          | Some (sd1, ns1) => Some (name_commit (with_names s (mf sd1)) w ns1 sd1 rc)
          end) = Some (s', sd', rc') ->
    post s sd rc s' sd' rc'.
  Proof.
    intros Hns (Hn&Hs&Hr) Hx H.
    destruct (name_state_cases _ _ _ _ _ Hns) as [(->&->)|[(->&->)|(->&Hf&N1&N2)]]; simpl in H.
    - inversion H; subst; clear H. unfold post. rewrite Phi_put_sd, Phi_with_names.
      repeat split; auto. apply nonneg_put; auto.
    - destruct (send_balance sd rc x) as [[a b]|] eqn:E; [|discriminate].
      injection H as E1 E2 E3. subst s' sd' rc'.
      destruct (send_balance_spec _ _ _ _ _ E Hx Hs Hr) as (I1&I2&_&_&_&_&_&_&_&_&P1&P2&_).
      destruct (Phi_send s _ _ _ _ _ E Hx Hs Hr) as [Q _].
      unfold post. rewrite Phi_put_rc, Phi_with_names. repeat split; auto. apply nonneg_put; auto.
    - assert (Hb : 0 <= a_bal ns) by (rewrite Hf, get_astate_bal; apply nonneg_stored; auto).
      destruct (send_balance sd ns x) as [[a b]|] eqn:E; [|discriminate].
      injection H as E1 E2 E3. subst s' sd' rc'.
      destruct (send_balance_spec _ _ _ _ _ E Hx Hs Hb) as (I1&I2&_&_&_&_&_&_&_&_&P1&P2&[(F&_)|(F&L&B1&B2)]); [congruence|].
      unfold post. rewrite Phi_put_third by congruence. rewrite Phi_with_names.
      rewrite (Phi_copies s sd rc a rc I1 eq_refl).
      rewrite I2. assert (a_bal ns = stored s (a_id ns)) as Hst by (rewrite Hf at 1; apply get_astate_bal).
      change (stored (with_names s (mf a)) (a_id ns)) with (stored s (a_id ns)).
      repeat split; auto.
      + apply nonneg_put; auto.
      + destruct (a_id sd =? a_id rc)%N; lia.
  Qed.

  Lemma exec_name_post s t sd rc s' sd' rc' :
    exec_name is_name cfg s t sd rc = Some (s', sd', rc') -> pre s sd rc -> 0 <= t_amount t ->
    (t_kind t = KSetOwner -> a_id sd <> a_id rc) ->
    post s sd rc s' sd' rc'.
  Proof.
    unfold exec_name. intros H Hp Ha Hso. pose proof Hp as (Hn&Hs&Hr).
    destruct (a_bal sd <? t_amount t); [discriminate|].
    destruct (t_kind t) eqn:K; try discriminate.
    - (* create *)
      destruct (t_amount t <? c_name_price cfg); [discriminate|].
      destruct (names s !! t_name t); [discriminate|].
      destruct (name_state cfg s sd rc) as [w ns] eqn:Hns.
      eapply (name_pay_post s _ (fun sender => <[t_name t:=(a_id sender, a_id sender)]> (names s)) sd rc w ns (t_amount t)); eauto.
    - (* update *)
      destruct (t_amount t <? c_name_price cfg); [discriminate|].
      destruct (negb _ && negb _); [discriminate|].
      destruct (_ || _); [discriminate|].
      destruct (name_state cfg s sd rc) as [w ns] eqn:Hns.
      eapply (name_pay_post s _ (fun _ => _) sd rc w ns (t_amount t)); eauto.
    - (* setOwner *)
      specialize (Hso eq_refl).
      destruct (names s !! 2%N); [discriminate|].
      rewrite Hfix in H. simpl in H.
      destruct (N.eqb_spec (t_dest t) (a_id sd)) as [E|E].
      + destruct (send_balance rc sd (a_bal rc)) as [[b a]|] eqn:S; [|discriminate].
        injection H as E1 E2 E3. subst s' sd' rc'.
        destruct (send_balance_spec _ _ _ _ _ S Hr Hr Hs) as (I1&I2&_&_&_&_&_&_&_&_&P1&P2&_).
        destruct (Phi_send s _ _ _ _ _ S Hr Hr Hs) as [_ Q].
        unfold post. rewrite Phi_put_rc, Phi_put_sd, Phi_with_names.
        repeat split; auto. apply nonneg_put; auto. apply nonneg_put; auto.
      + set (os := get_astate s (t_dest t)) in *.
        assert (Hb : 0 <= a_bal os) by (apply nonneg_stored; auto).
        destruct (send_balance rc os (a_bal rc)) as [[b o]|] eqn:S; [|discriminate].
        injection H as E1 E2 E3. subst s' sd' rc'.
        destruct (send_balance_spec _ _ _ _ _ S Hr Hr Hb) as (I1&I2&_&_&_&_&_&_&_&_&P1&P2&[(F&->&->)|(F&L&B1&B2)]).
        * unfold post. rewrite Phi_put_rc.
          rewrite Phi_put_clean by reflexivity. rewrite Phi_with_names.
          repeat split; auto. apply nonneg_put; auto. apply nonneg_put; auto.
        * unfold post. rewrite Phi_put_rc.
          assert (a_id o = t_dest t) as Ho by (rewrite I2; reflexivity).
          assert (a_id o <> a_id sd) as N1 by congruence.
          assert (a_id o <> a_id b) as N2 by (rewrite Ho, I1; simpl in F; congruence).
          rewrite (Phi_put_third _ sd b o N1 N2).
          rewrite Phi_with_names.
          rewrite (Phi_copies s sd rc sd b eq_refl I1).
          change (stored (with_names s _) (a_id o)) with (stored s (a_id o)).
          rewrite Ho. change (stored s (t_dest t)) with (a_bal os).
          repeat split; auto.
          -- apply nonneg_put; auto. apply nonneg_put; auto.
          -- destruct (N.eqb_spec (a_id sd) (a_id rc)); [congruence|]. lia.
  Qed.
End GovName.

(* ---------------------------------------------------------------- fees *)
Lemma payment_size_nonneg n : 0 <= payment_size n.
Proof. unfold payment_size, payload_max_size. lia. Qed.
Lemma tx_gas_nonneg zf n : 0 <= tx_gas zf n.
Proof. unfold tx_gas. pose proof (payment_size_nonneg n). destruct zf; lia. Qed.
Lemma payload_fee_nonneg zf n : 0 <= payload_fee zf n.
Proof. unfold payload_fee, base_tx_aergo, aer_per_byte. pose proof (payment_size_nonneg n). destruct zf; lia. Qed.
Lemma base_fee_nonneg v zf gp n : 0 <= gp -> 0 <= tx_base_fee v zf gp n.
Proof.
  intros. unfold tx_base_fee. destruct (v <? 2); [apply payload_fee_nonneg|].
  pose proof (tx_gas_nonneg zf n). nia.
Qed.
(** the base fee never exceeds the maximum fee ValidateMaxFee compares with the balance *)
Lemma base_le_max v zf n gl b gp m :
  0 <= gp -> tx_max_fee v zf n gl b gp = Some m -> tx_base_fee v zf gp n <= m.
Proof.
  intros Hgp. unfold tx_max_fee, tx_base_fee.
  destruct zf.
  - intros [= <-]. unfold payload_fee, tx_gas. destruct (v <? 2); lia.
  - destruct (v <? 2).
    + intros [= <-]. unfold max_payload_fee, payload_fee, state_db_max_fee, payload_max_size, aer_per_byte, base_tx_aergo.
      destruct (Z.eqb_spec n 0) as [->|]; [reflexivity|]. lia.
    + set (g := if gl =? 0 then max_gas_limit b gp else gl).
      destruct (Z.ltb_spec g (tx_gas false n)); [discriminate|]. intros [= <-]. nia.
Qed.
Lemma validate_max_fee_base v zf n gl b gp :
  0 <= gp -> validate_max_fee v zf n gl b gp = true -> tx_base_fee v zf gp n <= b.
Proof.
  intros Hgp. unfold validate_max_fee. destruct (tx_max_fee v zf n gl b gp) as [m|] eqn:E; [|discriminate].
  intros L. apply Z.leb_le in L. pose proof (base_le_max _ _ _ _ _ _ _ Hgp E). lia.
Qed.

(* ---------------------------------------------------------------- VM effects *)
Lemma transfers_out_cons rid to amt tl :
  transfers_out rid ((to, amt) :: tl) = if (to =? rid)%N then transfers_out rid tl else amt + transfers_out rid tl.
Proof. reflexivity. Qed.

Lemma vm_fold trs : forall s sd rc s' sd' rc',
  fold_left vm_transfer trs (s, sd, rc) = (s', sd', rc') ->
  a_id sd <> a_id rc -> nonneg s -> 0 <= a_bal sd ->
  Forall (fun tr => 0 <= snd tr) trs -> transfers_out (a_id rc) trs <= a_bal rc ->
  a_id sd' = a_id sd /\ a_id rc' = a_id rc /\ a_old sd' = a_old sd /\ a_old rc' = a_old rc /\
  a_deploy rc' = a_deploy rc /\ code (a_new rc') = code (a_new rc) /\
  nonneg s' /\ 0 <= a_bal sd' /\ a_bal rc' = a_bal rc - transfers_out (a_id rc) trs /\
  Phi s' sd' rc' = Phi s sd rc.
Proof.
  induction trs as [|[to amt] tl IH]; intros s sd rc s' sd' rc' H Hne Hn Hs Hall Hout.
  - simpl in H. inversion H; subst. simpl. repeat split; auto; lia.
  - inversion Hall as [|? ? Hamt Htl]; subst. simpl in Hamt.
    assert (Hrest : 0 <= transfers_out (a_id rc) tl).
    { clear -Htl. induction tl as [|[a b] tl IH]; simpl; [lia|]. inversion Htl; subst. simpl in *.
      destruct (a =? a_id rc)%N; auto. specialize (IH H2). lia. }
    simpl in H. rewrite transfers_out_cons in *.
    destruct (N.eqb_spec to (a_id rc)) as [E1|E1].
    + apply IH in H; auto.
    + destruct (N.eqb_spec to (a_id sd)) as [E2|E2].
      * apply IH in H; auto; try (rewrite ?a_id_sub, ?a_id_add, ?a_bal_add, ?a_bal_sub; lia).
        rewrite !a_id_add, !a_id_sub, !a_old_add, !a_old_sub, a_bal_sub in H.
        destruct H as (I1&I2&O1&O2&D&C&N'&B1&B2&P). repeat split; auto.
        -- rewrite B2. lia.
        -- rewrite P. rewrite (Phi_copies s sd rc (add_bal sd amt) (sub_bal rc amt) eq_refl eq_refl).
           rewrite a_bal_add, a_bal_sub. destruct (N.eqb_spec (a_id sd) (a_id rc)); [congruence|]. lia.
      * apply IH in H; auto; try (rewrite ?a_id_sub, ?a_id_add, ?a_bal_add, ?a_bal_sub; lia).
        2:{ apply nonneg_put; auto. rewrite a_bal_add, get_astate_bal. pose proof (nonneg_stored s to Hn). lia. }
        rewrite !a_id_sub, !a_old_sub, a_bal_sub in H.
        destruct H as (I1&I2&O1&O2&D&C&N'&B1&B2&P). repeat split; auto.
        -- rewrite B2. lia.
        -- rewrite P. rewrite Phi_put_third by (rewrite a_id_add, get_astate_id, ?a_id_sub; congruence).
           rewrite (Phi_copies s sd rc sd (sub_bal rc amt) eq_refl eq_refl).
           rewrite a_bal_add, a_bal_sub, a_id_add, get_astate_id, get_astate_bal.
           pose proof (nonneg_stored s to Hn).
           destruct (N.eqb_spec (a_id sd) (a_id rc)); [congruence|]. lia.
Qed.

Section Exec.
  Variable is_name : N -> bool.
  Variable cid_of : N -> N -> N.
  Variable tx_hash : tx -> N.
  Variable vm : tx -> astate -> astate -> lstate -> vm_result.
  Variable cfg : config.
  Hypothesis Hgp : 0 <= c_gas_price cfg.

  Notation base t := (tx_base_fee (c_version cfg) (c_zerofee cfg) (c_gas_price cfg) (t_plen t)).

  (** contract.Execute *)
  Lemma contract_execute_spec s t sd rc fd c s' sd' rc' fee :
    contract_execute vm cfg s t sd rc fd = (c, s', sd', rc', fee) ->
    pre s sd rc -> 0 <= t_amount t ->
    (a_id sd = a_id rc -> code (a_new rc) = false /\ a_deploy rc = false) ->
    a_id sd' = a_id sd /\ a_id rc' = a_id rc /\ a_old sd' = a_old sd /\ a_old rc' = a_old rc /\
    match c with
    | COk => 0 <= fee /\ nonneg s' /\ 0 <= a_bal sd' /\ 0 <= a_bal rc' /\ Phi s' sd' rc' = Phi s sd rc /\
             (fee <= a_bal (if fd then rc' else sd') \/
              (fee = base t /\ code (a_new rc) = false /\ a_bal sd - t_amount t <= a_bal sd'))
    | CRuntime => s' = s /\ 0 <= fee
    | CNonRuntime => True
    end.
  Proof.
    Local Ltac inv5 := match goal with H : _ = (?c, ?s', ?sd', ?rc', ?fee) |- _ => injection H as ?E ?E ?E ?E ?E; subst c s' sd' rc' fee end.
    unfold contract_execute, v, zf, gp. intros H (Hn&Hs&Hr) Ha Hal.
    pose proof (base_fee_nonneg (c_version cfg) (c_zerofee cfg) _ (t_plen t) Hgp) as Hb.
    destruct (send_balance sd rc (t_amount t)) as [[a b]|] eqn:S.
    2:{ inv5. auto. }
    destruct (send_balance_spec _ _ _ _ _ S Ha Hs Hr) as (I1&I2&O1&O2&D1&D2&C1&C2&_&_&P1&P2&Hcase).
    destruct (Phi_send s _ _ _ _ _ S Ha Hs Hr) as [Q _].
    assert (Hlow : a_bal sd - t_amount t <= a_bal a).
    { destruct Hcase as [(_&->&_)|(_&_&->&_)]; lia. }
    destruct (check_execution cfg (t_kind t) (t_amount t) (t_plen t) (a_deploy b) (code (a_new b))) as [dx e] eqn:CE.
    destruct dx; simpl in H.
    2:{ inv5. repeat split; auto.
        unfold check_execution in CE.
        destruct (_ && _ && _) in CE; [inversion CE; subst; auto|].
        destruct (negb (a_deploy b) && negb (code (a_new b))) eqn:NB.
        - destruct (_ && _) in CE; inversion CE; subst.
          apply andb_true_iff in NB as [_ NB]. apply negb_true_iff in NB.
          repeat split; auto. right. repeat split; auto. congruence.
        - inversion CE. }
    destruct (gas_limit _ _ _ _ _ _ _ _ _) as [g|].
    2:{ inv5. repeat split; auto. }
    destruct (negb (a_deploy b) && negb (code (a_new b))) eqn:NB; simpl in H.
    { inv5. repeat split; auto. }
    assert (Hne : a_id a <> a_id b).
    { intros E. rewrite I1, I2 in E. destruct (Hal E) as [X Y]. rewrite D2, C2, X, Y in NB. discriminate. }
    destruct (vm t a b s) as [trs ws cfee|cfee|cfee].
    - destruct (Z.ltb_spec cfee 0); [inv5; auto|].
      destruct (fold_left (vm_transfer) trs (s, a, b)) as [[s1 a1] b1] eqn:F.
      match type of H with (if ?c then _ else _) = _ => destruct c eqn:Cond end.
      2:{ inv5. repeat split; auto. }
      match type of H with (if ?c then _ else _) = _ => destruct c eqn:C3 end.
      2:{ destruct trs; inv5; repeat split; auto; lia. }
      apply andb_true_iff in Cond as [C1' C2'].
      apply Z.leb_le in C2', C3.
      assert (Hall : Forall (fun tr : N * Z => 0 <= snd tr) trs).
      { apply Forall_forall. intros x Hx. rewrite forallb_forall in C1'. apply Z.leb_le. apply C1'. exact Hx. }
      destruct (vm_fold _ _ _ _ _ _ _ F Hne Hn P1 Hall C2') as (J1&J2&K1&K2&DD&CC&N1&B1&B2&PP).
      assert (Hout : 0 <= transfers_out (a_id b) trs).
      { clear -Hall. induction trs as [|[x y] tl IH]; simpl; [lia|]. inversion Hall; subst. simpl in *.
        destruct (x =? a_id b)%N; auto. specialize (IH H2). lia. }
      set (b2 := if a_deploy b1 then upd_new b1 (set_code (a_new b1)) else b1) in *.
      assert (Hb2 : a_id b2 = a_id b1 /\ a_old b2 = a_old b1 /\ a_bal b2 = a_bal b1).
      { unfold b2. destruct (a_deploy b1); auto. }
      destruct Hb2 as (X1&X2&X3).
      inv5.
      repeat split; try congruence; try lia.
      + apply nonneg_with_cstor. auto.
      + unfold write_storage. rewrite Phi_with_cstor.
        rewrite (Phi_copies s1 a1 b1 a1 b2 eq_refl X1), X3. rewrite PP, Q.
        destruct (a_id a1 =? a_id b1)%N; lia.
    - destruct (Z.ltb_spec cfee 0); inv5; auto. repeat split; auto. lia.
    - inv5. auto.
  Qed.

  Lemma reset_account_spec s a fee n s' :
    reset_account s a fee n = Some s' -> a_old a = acct_of s (a_id a) -> nonneg s ->
    match fee with Some f => 0 <= f | None => True end ->
    nonneg s' /\ supply s' = supply s - (match fee with Some f => f | None => 0 end) /\
    (forall id, id <> a_id a -> acct_of s' id = acct_of s id) /\
    bp_reward s' = bp_reward s /\ receipts s' = receipts s.
  Proof.
    unfold reset_account. intros H Ho Hn Hf.
    assert (Hb : a_bal (a_reset a) = stored s (a_id a)) by (unfold a_reset, a_bal; simpl; rewrite Ho; reflexivity).
    pose proof (nonneg_stored s (a_id a) Hn) as Hst.
    assert (Hoth : forall x id, a_id x = a_id a -> id <> a_id a -> acct_of (put_state s x) id = acct_of s id).
    { intros x id Hx Hid. unfold acct_of, put_state. simpl. rewrite lookup_insert_ne by congruence. reflexivity. }
    destruct fee as [f|].
    - destruct (Z.ltb_spec (a_bal (a_reset a)) f) as [L|L]; [discriminate|].
      injection H as <-.
      set (x := match n with Some n0 => a_set_nonce (sub_bal (a_reset a) f) n0 | None => sub_bal (a_reset a) f end).
      assert (Hx : a_id x = a_id a /\ a_bal x = stored s (a_id a) - f).
      { unfold x. destruct n; simpl; unfold a_bal; simpl; split; auto; fold (a_bal (a_reset a)); rewrite Hb; lia. }
      destruct Hx as [X1 X2]. rewrite supply_put, X1, X2.
      repeat split; auto. apply nonneg_put; auto. lia. lia.
    - injection H as <-.
      set (x := match n with Some n0 => a_set_nonce (a_reset a) n0 | None => a_reset a end).
      assert (Hx : a_id x = a_id a /\ a_bal x = stored s (a_id a)).
      { unfold x. destruct n; simpl; unfold a_bal; simpl; split; auto. }
      destruct Hx as [X1 X2]. rewrite supply_put, X1, X2.
      repeat split; auto. apply nonneg_put; auto. lia. lia.
  Qed.
End Exec.

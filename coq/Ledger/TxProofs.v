From stdpp Require Import gmap.
From Coq Require Import ZArith List Bool Lia.
From Verif Require Import Ledger.Model.
From Verif Require Import Ledger.Supply Ledger.Frame.
Import ListNotations.
Open Scope Z_scope.

Section Tx.
  Variable is_name : N -> bool.
  Variable cid_of : N -> N -> N.
  Variable tx_hash : tx -> N.
  Variable vm : tx -> astate -> astate -> lstate -> vm_result.
  Variable cfg : config.
  Hypothesis Hgp : 0 <= c_gas_price cfg.
  Hypothesis Hfix : c_fix_f18 cfg = true.

  (** the sender account is an ordinary (key) account: no code, not the address being
      created, and not the aergo.name account itself for setOwner *)
  Definition plain_sender (s : lstate) (t : tx) : Prop :=
    let sid := resolve is_name s (t_from t) in
    code (acct_of s sid) = false /\ cid_of (t_from t) (t_nonce t) <> sid /\
    (t_kind t = KSetOwner -> sid <> resolve is_name s 2%N).

  Definition tx_effect (s s' : lstate) (t : tx) (status_err : bool) : Prop :=
    nonneg s' /\ exists status fee, 0 <= fee /\ (status_err = true -> status = 2%N) /\
      supply s' = supply s - fee /\ bp_reward s' = bp_reward s + fee /\
      receipts s' = receipts s ++ [mk_receipt cfg t status fee].

  Lemma finish_effect s0 s t status fee e :
    nonneg s -> 0 <= fee -> supply s = supply s0 - fee -> bp_reward s = bp_reward s0 -> receipts s = receipts s0 ->
    (e = true -> status = 2%N) ->
    tx_effect s0 (finish cfg s t status fee) t e.
  Proof.
    intros Hn Hf Hs Hb Hr He. split; [exact Hn|]. exists status, fee. unfold finish. simpl.
    rewrite Hb, Hr. repeat split; auto.
  Qed.

  Lemma exec_tx_body_effect bno s t sender receiver status :
    nonneg s -> 0 <= t_amount t ->
    a_new sender = acct_of s (a_id sender) -> a_old sender = acct_of s (a_id sender) ->
    a_new receiver = acct_of s (a_id receiver) -> a_old receiver = acct_of s (a_id receiver) ->
    (a_id sender = a_id receiver -> code (a_new receiver) = false /\ a_deploy receiver = false) ->
    validate_with_sender_state cfg t (a_new sender) = true ->
    (t_kind t = KSetOwner -> a_id sender <> a_id receiver) ->
    match exec_tx_body is_name vm cfg bno s t sender receiver status with
    | RApplied s' => tx_effect s s' t false
    | RFeeNonce s' => tx_effect s s' t true
    | RRejected => True
    end.
  Proof.
    intros Hn Ha Snew Sold Rnew Rold Hal V Hso.
    assert (Sbal : a_bal sender = stored s (a_id sender)) by (unfold a_bal; rewrite Snew; reflexivity).
    assert (Rbal : a_bal receiver = stored s (a_id receiver)) by (unfold a_bal; rewrite Rnew; reflexivity).
    assert (Hpre : pre s sender receiver).
    { split; [auto|]. split; [rewrite Sbal|rewrite Rbal]; apply nonneg_stored; auto. }
    assert (Hfresh : Phi s sender receiver = supply s) by (apply Phi_fresh; auto).
    assert (Fin : forall s1 sd rc fee, nonneg s1 -> 0 <= a_bal sd -> 0 <= a_bal rc ->
              0 <= fee -> Phi s1 sd rc = supply s - fee -> bp_reward s1 = bp_reward s -> receipts s1 = receipts s ->
              tx_effect s (finish cfg (let sd' := a_set_nonce sd (t_nonce t) in let s2 := put_state s1 sd' in
                           if (a_id sd' =? a_id rc)%N then s2 else put_state s2 rc) t status fee) t false).
    { intros s1 sd rc fee N1 B1 B2 Hf HP Hb Hr.
      change (let sd' := a_set_nonce sd (t_nonce t) in let s2 := put_state s1 sd' in if (a_id sd' =? a_id rc)%N then s2 else put_state s2 rc)
        with (fin s1 (a_set_nonce sd (t_nonce t)) rc).
      apply finish_effect; auto; try discriminate.
      all: try (unfold fin; cbn; destruct (_ =? _)%N; assumption).
      - apply nonneg_fin; auto.
      - rewrite supply_fin. rewrite <- HP. unfold Phi. reflexivity. }
    unfold exec_tx_body.
    destruct (is_ent (t_kind t)) eqn:EN.
    { (* enterprise: oracle verdict, fee 0, no balance effect *)
      destruct Hpre as (_&Hs&Hr).
      destruct (t_kind t) eqn:K; try discriminate EN. cbn [is_ent is_gov].
      destruct (t_fddeny t).
      - cbn [negb orb].
        destruct (reset_account s sender (Some 0) (Some (t_nonce t))) as [s2|] eqn:R1; [|exact I].
        destruct (reset_account_spec _ _ _ _ _ R1) as (N2&S2&Oth&Fb2&Fr2); auto; try lia.
        apply finish_effect; auto; try congruence; lia.
      - apply Fin; auto; lia. }
    destruct (is_gov (t_kind t)) eqn:G.
    - (* governance *)
      destruct (exec_governance is_name cfg bno s t sender receiver) as [[[s' sd'] rc']|] eqn:EG; [|exact I].
      destruct (exec_governance_frame _ _ _ _ _ _ _ _ _ _ EG) as [Fb Fr].
      assert (Hpost : post s sender receiver s' sd' rc').
      { unfold exec_governance in EG. destruct (t_kind t) eqn:K; try discriminate.
        - eapply exec_stake_post; eauto.
        - eapply exec_unstake_post; eauto.
        - eapply exec_name_post; eauto; try (rewrite K; discriminate).
        - eapply exec_name_post; eauto; try (rewrite K; discriminate).
        - eapply exec_name_post; eauto.
        - eapply exec_vote_post; eauto. }
      destruct Hpost as (I1&I2&N1&B1&B2&PP).
      apply Fin; auto; try lia.
    - destruct (match t_kind t with KFeeDeleg => true | _ => false end) eqn:FD.
      + (* fee delegation *)
        destruct (validate_max_fee _ _ _ _ _ _); cbn [negb]; [|exact I].
        destruct (t_fddeny t || negb (code (a_new receiver))) eqn:FC; [exact I|].
        apply orb_false_iff in FC as [_ FC]. apply negb_false_iff in FC.
        destruct (contract_execute vm cfg s t sender receiver true) as [[[[c s'] sd'] rc'] fee] eqn:CE.
        destruct (contract_execute_spec vm cfg Hgp _ _ _ _ _ _ _ _ _ _ CE Hpre Ha Hal) as (I1&I2&O1&O2&Hc).
        destruct (contract_execute_frame _ _ _ _ _ _ _ _ _ _ _ _ CE) as [Fb Fr].
        assert (Hne : a_id sender <> a_id receiver).
        { intros E. destruct (Hal E) as [X _]. congruence. }
        assert (Ef : c_fix_f24 cfg && (a_id sd' =? a_id rc')%N = false).
        { rewrite I1, I2. destruct (N.eqb_spec (a_id sender) (a_id receiver)); [congruence|apply andb_false_r]. }
        rewrite Ef.
        destruct c.
        * destruct Hc as (F0&N1&B1&B2&PP&[Hpay|(_&X&_)]); [|congruence].
          apply Fin; auto.
          -- rewrite a_bal_sub. lia.
          -- rewrite (Phi_copies s' sd' rc' sd' (sub_bal rc' fee) eq_refl eq_refl), a_bal_sub, PP, Hfresh.
             rewrite I1, I2. destruct (N.eqb_spec (a_id sender) (a_id receiver)); [congruence|]. lia.
        * destruct Hc as [-> F0]. cbn [negb orb].
          rewrite a_id_sub, I1, I2. destruct (N.eqb_spec (a_id sender) (a_id receiver)); [congruence|].
          destruct (reset_account s sd' None (Some (t_nonce t))) as [s2|] eqn:R1; [|exact I].
          destruct (reset_account_spec _ _ _ _ _ R1) as (N2&S2&Oth&Fb2&Fr2); auto.
          { rewrite O1, I1. exact Sold. }
          destruct (reset_account s2 (sub_bal rc' fee) (Some fee) None) as [s3|] eqn:R2; [|exact I].
          destruct (reset_account_spec _ _ _ _ _ R2) as (N3&S3&_&Fb3&Fr3); auto.
          { rewrite a_old_sub, a_id_sub, O2, I2, Rold. symmetry. apply Oth. rewrite I1. congruence. }
          apply finish_effect; auto; try congruence; lia.
        * exact I.
      + (* plain / call / deploy *)
        destruct (contract_execute vm cfg s t sender receiver false) as [[[[c s'] sd'] rc'] fee] eqn:CE.
        destruct (contract_execute_spec vm cfg Hgp _ _ _ _ _ _ _ _ _ _ CE Hpre Ha Hal) as (I1&I2&O1&O2&Hc).
        destruct (contract_execute_frame _ _ _ _ _ _ _ _ _ _ _ _ CE) as [Fb Fr].
        destruct c.
        * destruct Hc as (F0&N1&B1&B2&PP&Hpay).
          assert (Hfee : fee <= a_bal sd').
          { destruct Hpay as [Hpay|(->&_&Hlow)]; [exact Hpay|].
            unfold validate_with_sender_state in V.
            apply andb_true_iff in V as [V _]. apply andb_true_iff in V as [_ V].
            destruct (t_kind t); try discriminate;
            apply andb_true_iff in V as [V1 V2]; apply Z.leb_le in V1;
            pose proof (validate_max_fee_base _ _ _ _ _ _ Hgp V2); unfold a_bal in *; unfold v, zf, gp in *; lia. }
          apply Fin; auto.
          -- rewrite a_bal_sub. lia.
          -- rewrite (Phi_copies s' sd' rc' (sub_bal sd' fee) rc' eq_refl eq_refl), a_bal_sub, PP, Hfresh.
             destruct (_ =? _)%N; lia.
        * destruct Hc as [-> F0]. cbn [negb orb].
          destruct (reset_account s (sub_bal sd' fee) (Some fee) (Some (t_nonce t))) as [s2|] eqn:R1; [|exact I].
          destruct (reset_account_spec _ _ _ _ _ R1) as (N2&S2&Oth&Fb2&Fr2); auto.
          { rewrite a_old_sub, a_id_sub, O1, I1. exact Sold. }
          apply finish_effect; auto; try congruence; lia.
        * exact I.
  Qed.
End Tx.

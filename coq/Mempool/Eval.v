(** Evaluation helpers for the C13 correspondence check: a case is a transaction table, an
    initial account state and a list of (operation, observation of the real pool after
    it); [case_bad_step] runs the model of Mempool/Model.v step by step and returns 0 when
    every observation agrees, else 1 + the index of the first differing step. *)
From Coq Require Import ZArith NArith List Bool Arith.
From Verif Require Import Mempool.Model.
Import ListNotations.

Inductive eop :=
| EPut (i : nat) | ERemove (i : nat) | EExist (i : nat)
| EBlock (bid parent cid : N) (st : list (N * Z)) (dirty : list N)
| EEvict (accs : list N) | EUnconf (accs : list N) | EGet
(** a put whose unlocked validation and locked insertion are separated by a block arrival *)
| ERacePut (i : nat) (bid parent cid : N) (st : list (N * Z)) (dirty : list N)
(** two concurrent removals of one hash; a removal racing a block arrival (same final state in either order) *)
| ERmTwice (i : nat)
| ERmBlock (i : nat) (bid parent cid : N) (st : list (N * Z)) (dirty : list N).

(** (result code, length, orphan, lists (account, base nonce, ready, tx ids), cache ids
    ascending, get result per account, getUnconfirmed result) *)
Definition eobs : Type :=
  N * Z * Z * list (N * N * nat * list N) * list N * list (N * list N) * list (list N * list N).

Definition st_of (l : list (N * Z)) : addr -> ast :=
  fun a => match nth_error l (N.to_nat a) with
           | Some (n, b) => mkSt n b
           | None => mkSt 0 0
           end.

Definition perr_code (e : perr) : N :=
  match e with POk => 0 | PTooLow => 1 | PSameNonce => 2 | PAlready => 3 | PBalance => 4 | PNotFound => 5 end%N.

Fixpoint list_N_eqb (a b : list N) : bool :=
  match a, b with
  | [], [] => true
  | x :: r, y :: s => (x =? y)%N && list_N_eqb r s
  | _, _ => false
  end.

Fixpoint ninsert (x : N) (l : list N) : list N :=
  match l with [] => [x] | y :: r => if (x <=? y)%N then x :: l else y :: ninsert x r end.
Definition nsort (l : list N) : list N := fold_right ninsert [] l.

Definition ids (l : list tx) : list N := map t_id l.

Definition list_entry_ok (p : pool) (e : N * N * nat * list N) : bool :=
  let '(a, b, r, is_) := e in
  match lookup a (lists p) with
  | Some l => (s_nonce (base l) =? b)%N && (ready l =? r) && list_N_eqb (ids (txs l)) is_
  | None => false
  end.

Definition get_entry_ok (g : list (addr * list tx)) (e : N * list N) : bool :=
  let '(a, is_) := e in
  existsb (fun al => (fst al =? a)%N && list_N_eqb (ids (snd al)) is_) g.

Definition state_ok (p : pool) (o : eobs) : bool :=
  let '(_, len, orph, ls, ch, _, _) := o in
  (plen p =? len)%Z && (porphan p =? orph)%Z
  && (length (lists p) =? length ls) && forallb (list_entry_ok p) ls
  && list_N_eqb (nsort (ids (cache p))) ch.

Definition get_tx (tbl : list tx) (i : nat) : tx := nth i tbl dummy_tx.

(** one step: new model state and whether the observation agrees *)
Definition estep (tbl : list tx) (m : mstate) (eo : eop * eobs) : mstate * bool :=
  let '(e, o) := eo in
  let '(res, _, _, _, _, og, ou) := o in
  match e with
  | EPut i => let '(r, m') := pool_put m (get_tx tbl i) in
              (m', (perr_code r =? res)%N && state_ok (pl m') o)
  | ERemove i => let '(r, m') := remove_tx m (get_tx tbl i) in
                 (m', (perr_code r =? res)%N && state_ok (pl m') o)
  | EExist i => (m, (if exist (pl m) (t_id (get_tx tbl i)) then (res =? 6)%N else (res =? 7)%N)
                    && state_ok (pl m) o)
  | EBlock bid par cid st dirty =>
      let m' := block_arrival m (mkB bid par cid (st_of st) dirty) in
      (m', state_ok (pl m') o)
  | ERacePut i bid par cid st dirty =>
      let t := get_tx tbl i in
      let r := put_check m t in
      let m1 := block_arrival m (mkB bid par cid (st_of st) dirty) in
      let '(r2, m2) := match r with POk => pool_insert m1 t | e => (e, m1) end in
      (m2, (perr_code r2 =? res)%N && state_ok (pl m2) o)
  | ERmTwice i =>
      let '(r, m1) := remove_tx m (get_tx tbl i) in
      let m2 := snd (remove_tx m1 (get_tx tbl i)) in
      (m2, (perr_code r =? res)%N && state_ok (pl m2) o)
  | ERmBlock i bid par cid st dirty =>
      let m1 := snd (remove_tx m (get_tx tbl i)) in
      let m2 := block_arrival m1 (mkB bid par cid (st_of st) dirty) in
      (m2, state_ok (pl m2) o)
  | EEvict accs => let m' := evict m accs in (m', state_ok (pl m') o)
  | EUnconf accs =>
      let '(r, m') := unconfirmed m accs in
      (m', state_ok (pl m') o
           && (length r =? length ou)
           && forallb (fun x => list_N_eqb (ids (fst (fst x))) (fst (snd x))
                                && list_N_eqb (ids (snd (fst x))) (snd (snd x))) (combine r ou))
  | EGet =>
      let g := filter (fun al => negb (is_nil (snd al))) (pool_get (pl m)) in
      (m, state_ok (pl m) o && (length g =? length og) && forallb (get_entry_ok g) og)
  end.

Fixpoint run_steps (tbl : list tx) (m : mstate) (l : list (eop * eobs)) (i : nat) : nat :=
  match l with
  | [] => O
  | eo :: r => let '(m', ok) := estep tbl m eo in
               if ok then run_steps tbl m' r (S i) else S i
  end.

(** (tx table, initial state, initial best id, initial chain-id hash, steps) *)
Definition ecase : Type := list tx * list (N * Z) * N * N * list (eop * eobs).

Definition case_bad_step (c : ecase) : nat :=
  let '(tbl, init, b0, c0, steps) := c in
  run_steps tbl (mkM empty_pool (st_of init) b0 c0) steps 0.

(** the model's own view of the state after a prefix of the steps (for reporting) *)
Fixpoint model_after (tbl : list tx) (m : mstate) (l : list (eop * eobs)) (k : nat) : pool :=
  match k, l with
  | S k', eo :: r => model_after tbl (fst (estep tbl m eo)) r k'
  | _, _ => pl m
  end.
Definition pool_view (p : pool) :=
  (plen p, porphan p, map (fun al => (fst al, s_nonce (base (snd al)), ready (snd al), ids (txs (snd al)))) (lists p),
   nsort (ids (cache p))).

(** PoolInv as a boolean, evaluated on the model state after every step (a run-time
    cross-check of the proved invariant on the concrete cases). *)
Fixpoint sorted_aboveb (b : N) (l : list tx) : bool :=
  match l with [] => true | x :: r => (b <? t_nonce x)%N && sorted_aboveb (t_nonce x) r end.
Fixpoint nodupb (l : list N) : bool :=
  match l with [] => true | x :: r => negb (existsb (N.eqb x) r) && nodupb r end.
Definition pool_invb (p : pool) : bool :=
  nodupb (map fst (lists p))
  && forallb (fun al => let l := snd al in
                sorted_aboveb (s_nonce (base l)) (txs l)
                && (ready l =? count_ready (s_nonce (base l)) (txs l))
                && forallb (fun t => (t_acc t =? fst al)%N) (txs l)) (lists p)
  && nodupb (ids (all_txs (lists p)))
  && list_N_eqb (nsort (ids (cache p))) (nsort (ids (all_txs (lists p))))
  && (plen p =? Z.of_nat (length (all_txs (lists p))))%Z
  && (porphan p =? sum_orphans (lists p))%Z.

(* ---- list level: a real txList driven directly ---- *)
Inductive lop := LPut (t : tx) | LRemove (h : txid) | LFilter (st : ast) | LGet.
(** (result code, orphan diff, base nonce, ready, ids held, ids removed, ids returned by Get) *)
Definition lobs : Type := N * Z * N * nat * list N * list N * list N.

Definition lstep (l : txlist) (x : lop * lobs) : txlist * bool :=
  let '(o, (res, diff, b, r, held, removed, got)) := x in
  let same (l' : txlist) := (s_nonce (base l') =? b)%N && (ready l' =? r) && list_N_eqb (ids (txs l')) held in
  match o with
  | LPut t => match tl_put l t with
              | inl (d, l') => (l', (res =? 0)%N && (d =? diff)%Z && same l')
              | inr e => (l, (perr_code e =? res)%N && (diff =? 0)%Z && same l)
              end
  | LRemove h => let '(d, rm, l') := tl_remove l h in
                 (l', (d =? diff)%Z && same l'
                      && list_N_eqb (match rm with Some x => [t_id x] | None => [] end) removed)
  | LFilter st => let '(d, rm, l') := tl_filter l st in
                  (l', (d =? diff)%Z && same l' && list_N_eqb (ids rm) removed)
  | LGet => (l, same l && list_N_eqb (ids (tl_pooled l)) got)
  end.

Fixpoint lrun (l : txlist) (xs : list (lop * lobs)) (i : nat) : nat :=
  match xs with
  | [] => O
  | x :: r => let '(l', ok) := lstep l x in if ok then lrun l' r (S i) else S i
  end.
Definition lcase : Type := ast * list (lop * lobs).
Definition lcase_bad_step (c : lcase) : nat := let '(b, xs) := c in lrun (mkTl b [] 0) xs 0.

(** C13 proofs, part 1: the per-account list (txList). *)
From Coq Require Import ZArith NArith List Bool Arith Lia Permutation.
From Verif Require Import Mempool.Model.
Import ListNotations.

(** [count_ready] is the length of the maximal prefix with nonces b+1, b+2, ... *)
Lemma count_ready_prefix : forall l b i,
  (i < count_ready b l)%nat -> nth_nonce l i = (b + 1 + N.of_nat i)%N.
Proof.
  induction l as [|x r IH]; simpl; intros b i Hi; [lia|].
  destruct (N.eqb_spec (t_nonce x) (b + 1)) as [E|E]; [|lia].
  destruct i as [|i]; unfold nth_nonce; simpl.
  - rewrite E. lia.
  - specialize (IH (b + 1)%N i ltac:(lia)). unfold nth_nonce in IH. rewrite IH. lia.
Qed.

Lemma count_ready_le : forall l b, (count_ready b l <= length l)%nat.
Proof.
  induction l as [|x r IH]; simpl; intros b; [lia|].
  destruct (t_nonce x =? b + 1)%N; [specialize (IH (b+1)%N)|]; lia.
Qed.

Lemma count_ready_maximal : forall l b,
  (count_ready b l < length l)%nat ->
  nth_nonce l (count_ready b l) <> (b + 1 + N.of_nat (count_ready b l))%N.
Proof.
  induction l as [|x r IH]; simpl; intros b Hlt; [lia|].
  destruct (N.eqb_spec (t_nonce x) (b + 1)) as [E|E].
  - specialize (IH (b + 1)%N ltac:(lia)). unfold nth_nonce in *. simpl. intro H. apply IH. lia.
  - unfold nth_nonce. simpl. lia.
Qed.

(* ---- binary search, insertion, ready extension ---- *)

Lemma div2_bounds : forall i j, (i < j)%nat -> (i <= Nat.div2 (i + j) < j)%nat.
Proof.
  intros i j H. pose proof (Nat.div2_odd (i + j)) as E.
  destruct (Nat.odd (i + j)); simpl in E; lia.
Qed.

Lemma bsearch_spec : forall f n k,
  (k <= n)%nat -> (forall x, (x < k)%nat -> f x = false) ->
  (forall x, (k <= x < n)%nat -> f x = true) ->
  forall fuel i j, (i <= k <= j)%nat -> (j <= n)%nat -> (j - i < fuel)%nat -> bsearch fuel f i j = k.
Proof.
  intros f n k Hk Hlo Hhi. induction fuel as [|fuel IH]; intros i j Hij Hjn Hf; [lia|].
  simpl. destruct (Nat.ltb_spec i j) as [Lt|Ge]; [|lia].
  pose proof (div2_bounds i j Lt) as Hb.
  destruct (f (Nat.div2 (i + j))) eqn:Fh.
  - apply IH; try lia.
    destruct (Nat.lt_ge_cases (Nat.div2 (i + j)) k) as [C|C]; [rewrite (Hlo _ C) in Fh; discriminate|lia].
  - apply IH; try lia.
    destruct (Nat.lt_ge_cases (Nat.div2 (i + j)) k) as [C|C]; [lia|].
    rewrite Hhi in Fh by lia. discriminate.
Qed.

Lemma sort_search_spec : forall f n k,
  (k <= n)%nat -> (forall x, (x < k)%nat -> f x = false) ->
  (forall x, (k <= x < n)%nat -> f x = true) -> sort_search n f = k.
Proof. intros. unfold sort_search. eapply bsearch_spec; eauto; lia. Qed.

(** number of leading entries with a nonce below [n] *)
Fixpoint lin_search (n : N) (l : list tx) : nat :=
  match l with
  | [] => O
  | x :: r => if (t_nonce x <? n)%N then S (lin_search n r) else O
  end.

Lemma lin_search_le : forall n l, (lin_search n l <= length l)%nat.
Proof. induction l; simpl; [lia|]. destruct (_ <? _)%N; lia. Qed.

Lemma lin_search_lo : forall n l x, (x < lin_search n l)%nat -> (nth_nonce l x < n)%N.
Proof.
  induction l as [|y r IH]; simpl; intros x Hx; [lia|].
  destruct (N.ltb_spec (t_nonce y) n) as [L|L]; [|lia].
  destruct x; unfold nth_nonce; simpl; [lia|]. apply IH. lia.
Qed.

Lemma sorted_above_weaken : forall l b b', (b' <= b)%N -> sorted_above b l -> sorted_above b' l.
Proof. intros l b b' H S. destruct l; simpl in *; auto. destruct S. split; [lia|auto]. Qed.

Lemma sorted_above_nth : forall l b x, sorted_above b l -> (x < length l)%nat -> (b < nth_nonce l x)%N.
Proof.
  induction l as [|y r IH]; simpl; intros b x S Hx; [lia|]. destruct S as [H1 H2].
  destruct x; unfold nth_nonce; simpl; [lia|].
  specialize (IH (t_nonce y) x H2 ltac:(lia)). unfold nth_nonce in IH. lia.
Qed.

Lemma lin_search_hi : forall n l b x, sorted_above b l ->
  (lin_search n l <= x < length l)%nat -> (n <= nth_nonce l x)%N.
Proof.
  induction l as [|y r IH]; simpl; intros b x S Hx; [lia|]. destruct S as [H1 H2].
  destruct (N.ltb_spec (t_nonce y) n) as [L|L].
  - destruct x; [lia|]. unfold nth_nonce; simpl. apply (IH (t_nonce y)); auto. lia.
  - destruct x; unfold nth_nonce; simpl; [lia|].
    pose proof (sorted_above_nth r (t_nonce y) x H2 ltac:(lia)) as Q. unfold nth_nonce in Q. lia.
Qed.

Lemma tl_search_sorted : forall l b n, sorted_above b l ->
  tl_search l n = (lin_search n l,
                   (lin_search n l <? length l) && (nth_nonce l (lin_search n l) =? n)%N).
Proof.
  intros l b n S. unfold tl_search.
  rewrite (sort_search_spec _ (length l) (lin_search n l)); auto using lin_search_le.
  - intros x Hx. apply N.leb_gt. apply lin_search_lo; auto.
  - intros x Hx. apply N.leb_le. eapply lin_search_hi; eauto.
Qed.

(** structural insertion before the first entry whose nonce is not below the new one *)
Fixpoint ins (t : tx) (l : list tx) : list tx :=
  match l with
  | [] => [t]
  | x :: r => if (t_nonce x <? t_nonce t)%N then x :: ins t r else t :: l
  end.

Lemma splice_ins : forall t l,
  firstn (lin_search (t_nonce t) l) l ++ t :: skipn (lin_search (t_nonce t) l) l = ins t l.
Proof.
  induction l as [|x r IH]; simpl; auto.
  destruct (t_nonce x <? t_nonce t)%N; simpl; [rewrite IH|]; auto.
Qed.

Lemma ins_length : forall t l, length (ins t l) = S (length l).
Proof. induction l as [|x r IH]; simpl; auto. destruct (_ <? _)%N; simpl; lia. Qed.

Lemma ins_In : forall t l x, In x (ins t l) <-> x = t \/ In x l.
Proof.
  induction l as [|y r IH]; simpl; intros x; [intuition|].
  destruct (_ <? _)%N; simpl; [rewrite IH|]; intuition.
Qed.

Lemma ins_sorted : forall t l b, sorted_above b l -> (b < t_nonce t)%N ->
  (forall x, In x l -> t_nonce x <> t_nonce t) -> sorted_above b (ins t l).
Proof.
  induction l as [|y r IH]; simpl; intros b S Hb Hn; [split; auto|].
  destruct S as [S1 S2].
  destruct (N.ltb_spec (t_nonce y) (t_nonce t)) as [L|L]; simpl.
  - split; [auto|apply IH; auto].
  - pose proof (Hn y (or_introl eq_refl)). repeat split; auto; lia.
Qed.

Lemma nth_nonce_ins_lt : forall t l x, (x < lin_search (t_nonce t) l)%nat ->
  nth_nonce (ins t l) x = nth_nonce l x.
Proof.
  induction l as [|y r IH]; simpl; intros x Hx; [lia|].
  destruct (t_nonce y <? t_nonce t)%N; [|lia].
  destruct x; unfold nth_nonce; simpl; auto. apply IH. lia.
Qed.

Lemma nth_nonce_ins_eq : forall t l, nth_nonce (ins t l) (lin_search (t_nonce t) l) = t_nonce t.
Proof.
  induction l as [|y r IH]; simpl; auto.
  destruct (t_nonce y <? t_nonce t)%N; unfold nth_nonce; simpl; auto.
Qed.

(** characterisation of the ready count *)
Definition is_ready (b : N) (l : list tx) (r : nat) : Prop :=
  (r <= length l)%nat /\ (forall x, (x < r)%nat -> nth_nonce l x = (b + 1 + N.of_nat x)%N)
  /\ ((r < length l)%nat -> nth_nonce l r <> (b + 1 + N.of_nat r)%N).

Lemma count_ready_is_ready : forall b l, is_ready b l (count_ready b l).
Proof.
  intros. split; [apply count_ready_le|]. split.
  - intros. apply count_ready_prefix; auto.
  - apply count_ready_maximal.
Qed.

Lemma is_ready_unique : forall b l r, is_ready b l r -> r = count_ready b l.
Proof.
  intros b l r (H1 & H2 & H3). destruct (count_ready_is_ready b l) as (C1 & C2 & C3).
  destruct (Nat.lt_trichotomy r (count_ready b l)) as [L|[E|G]]; auto.
  - exfalso. apply H3; [lia|]. apply C2; auto.
  - exfalso. apply C3; [lia|]. apply H2; auto.
Qed.

Lemma continuous_at : forall b l i,
  (forall x, (x < i)%nat -> nth_nonce l x = (b + 1 + N.of_nat x)%N) ->
  continuous b l i i = (nth_nonce l i =? b + 1 + N.of_nat i)%N.
Proof.
  intros b l i H. unfold continuous.
  destruct i as [|i].
  - change (0 <? 0)%nat with false. cbv iota.
    destruct (N.eqb_spec (b + 1) (nth_nonce l 0)), (N.eqb_spec (nth_nonce l 0) (b + 1 + N.of_nat 0)); auto; lia.
  - change (0 <? S i)%nat with true. cbv iota.
    replace (S i - 1)%nat with i by lia. rewrite (H i) by lia.
    destruct (N.eqb_spec (b + 1 + N.of_nat i + 1) (nth_nonce l (S i))),
             (N.eqb_spec (nth_nonce l (S i)) (b + 1 + N.of_nat (S i))); auto; lia.
Qed.

Lemma extend_spec : forall fuel b l i,
  (forall x, (x < i)%nat -> nth_nonce l x = (b + 1 + N.of_nat x)%N) ->
  (i <= length l)%nat -> (length l - i <= fuel)%nat ->
  is_ready b l (extend fuel b l i i).
Proof.
  induction fuel as [|fuel IH]; intros b l i Hp Hi Hf; simpl.
  - split; [lia|]. split; auto. intros; lia.
  - destruct (Nat.ltb_spec i (length l)) as [L|G].
    + rewrite continuous_at by auto.
      destruct (N.eqb_spec (nth_nonce l i) (b + 1 + N.of_nat i)) as [E|E].
      * apply IH; try lia. intros x Hx. destruct (Nat.eq_dec x i) as [->|Ne]; [exact E|apply Hp; lia].
      * split; [lia|]. split; auto.
    + split; [lia|]. split; auto. intros; lia.
Qed.

Lemma update_ready_correct : forall b l, update_ready b l = count_ready b l.
Proof.
  intros. apply is_ready_unique. unfold update_ready. apply extend_spec; try lia.
Qed.

(* ---- txList.Put ---- *)

Lemma sorted_above_nth_ge : forall l b x, sorted_above b l -> (x < length l)%nat ->
  (b + 1 + N.of_nat x <= nth_nonce l x)%N.
Proof.
  induction l as [|y r IH]; simpl; intros b x S Hx; [lia|]. destruct S as [H1 H2].
  destruct x; unfold nth_nonce; simpl; [lia|].
  specialize (IH (t_nonce y) x H2 ltac:(lia)). unfold nth_nonce in IH. lia.
Qed.

Lemma sorted_above_nth_lt : forall l b i j, sorted_above b l -> (i < j < length l)%nat ->
  (nth_nonce l i < nth_nonce l j)%N.
Proof.
  induction l as [|y r IH]; simpl; intros b i j S Hx; [lia|]. destruct S as [H1 H2].
  destruct j; [lia|]. destruct i; unfold nth_nonce; simpl.
  - pose proof (sorted_above_nth r (t_nonce y) j H2 ltac:(lia)) as Q. exact Q.
  - apply (IH (t_nonce y)); auto. lia.
Qed.

Lemma In_nth_nonce : forall l x, In x l -> exists i, (i < length l)%nat /\ nth_nonce l i = t_nonce x.
Proof.
  intros l x H. destruct (In_nth l x dummy_tx H) as (i & Hi & E).
  exists i. split; auto. unfold nth_nonce. rewrite E. auto.
Qed.

Lemma not_found_no_nonce : forall l b n, sorted_above b l ->
  (lin_search n l <? length l) && (nth_nonce l (lin_search n l) =? n)%N = false ->
  forall x, In x l -> t_nonce x <> n.
Proof.
  intros l b n S F x Hx E. destruct (In_nth_nonce l x Hx) as (i & Hi & Ei).
  rewrite E in Ei.
  destruct (Nat.lt_ge_cases i (lin_search n l)) as [C|C].
  - pose proof (lin_search_lo n l i C). lia.
  - destruct (Nat.ltb_spec (lin_search n l) (length l)) as [L|L]; [|lia].
    simpl in F. apply N.eqb_neq in F.
    destruct (Nat.eq_dec i (lin_search n l)) as [->|Ne]; [congruence|].
    pose proof (sorted_above_nth_lt l b (lin_search n l) i S ltac:(lia)).
    pose proof (lin_search_hi n l b (lin_search n l) S ltac:(lia)). lia.
Qed.

Lemma nth_nonce_In : forall l i, (i < length l)%nat -> exists x, In x l /\ t_nonce x = nth_nonce l i.
Proof. intros. exists (nth i l dummy_tx). split; auto. apply nth_In; auto. Qed.

Lemma ready_le_idx : forall l b n, sorted_above b l -> (b < n)%N ->
  (forall x, In x l -> t_nonce x <> n) -> (count_ready b l <= lin_search n l)%nat.
Proof.
  intros l b n S Hb Hn.
  destruct (Nat.le_gt_cases (count_ready b l) (lin_search n l)) as [C|C]; auto. exfalso.
  pose proof (count_ready_le l b) as Hle.
  pose proof (count_ready_prefix l b _ C) as P.
  pose proof (lin_search_hi n l b (lin_search n l) S ltac:(lia)) as Hi.
  destruct (nth_nonce_In l (lin_search n l) ltac:(lia)) as (x & Hx & Ex).
  apply (Hn x Hx). rewrite Ex.
  destruct (lin_search n l) as [|k] eqn:K.
  - lia.
  - pose proof (lin_search_lo n l k ltac:(lia)) as Lo.
    pose proof (count_ready_prefix l b k ltac:(lia)) as Pk. lia.
Qed.

Lemma tl_put_spec : forall a l t, list_inv a l -> t_acc t = a ->
  match tl_put l t with
  | inr PTooLow => (t_nonce t <= s_nonce (base l))%N
  | inr PSameNonce => exists x, In x (txs l) /\ t_nonce x = t_nonce t
  | inr _ => False
  | inl (d, l') => list_inv a l' /\ base l' = base l /\ txs l' = ins t (txs l)
                   /\ d = (orphans l - orphans l')%Z
                   /\ (forall x, In x (txs l) -> t_nonce x <> t_nonce t)
                   /\ (s_nonce (base l) < t_nonce t)%N
  end.
Proof.
  intros a [b l rdy] t (Hs & R & A) Ha. unfold tl_put. cbn [base txs ready] in *.
  destruct (N.leb_spec (t_nonce t) (s_nonce b)) as [Lo|Hb]; auto.
  rewrite (tl_search_sorted l (s_nonce b) (t_nonce t) Hs).
  set (k := lin_search (t_nonce t) l).
  destruct ((k <? length l) && (nth_nonce l k =? t_nonce t)%N) eqn:F.
  - apply andb_prop in F. destruct F as [F1 F2]. apply Nat.ltb_lt in F1. apply N.eqb_eq in F2.
    destruct (nth_nonce_In l k F1) as (x & Hx & Ex). exists x. split; auto. congruence.
  - pose proof (not_found_no_nonce l (s_nonce b) (t_nonce t) Hs F) as Hn.
    unfold k. rewrite splice_ins. fold k.
    repeat split; auto; simpl.
    + apply ins_sorted; auto.
    + apply is_ready_unique.
      pose proof (ready_le_idx l (s_nonce b) (t_nonce t) Hs Hb Hn) as Hle. fold k in Hle.
      pose proof (lin_search_le (t_nonce t) l) as Hk. fold k in Hk.
      pose proof (count_ready_le l (s_nonce b)) as Hrl.
      rewrite ins_length.
      destruct (Nat.eq_dec k rdy) as [E|Ne].
      * rewrite E. apply extend_spec; rewrite ?ins_length; try lia.
        intros x Hx. unfold k in E. rewrite nth_nonce_ins_lt by lia.
        apply count_ready_prefix. lia.
      * assert (G : (rdy < k)%nat) by lia.
        assert (Hgap : (s_nonce b + 1 + N.of_nat rdy + 1 <= nth_nonce l rdy)%N).
        { pose proof (sorted_above_nth_ge l (s_nonce b) rdy Hs ltac:(lia)).
          pose proof (count_ready_maximal l (s_nonce b) ltac:(lia)). rewrite <- R in *. lia. }
        pose proof (lin_search_lo (t_nonce t) l rdy G) as Hlo.
        simpl. rewrite ins_length.
        destruct (Nat.ltb_spec k (S (length l))) as [_|]; [|lia].
        assert (C : continuous (s_nonce b) (ins t l) rdy k = false).
        { unfold continuous. replace (nth_nonce (ins t l) k) with (t_nonce t) by (unfold k; symmetry; apply nth_nonce_ins_eq).
          destruct rdy as [|r'].
          - change (0 <? 0)%nat with false. cbv iota. apply N.eqb_neq. lia.
          - change (0 <? S r')%nat with true. cbv iota. replace (S r' - 1)%nat with r' by lia.
            unfold k in G. rewrite nth_nonce_ins_lt by lia.
            rewrite (count_ready_prefix l (s_nonce b) r') by lia. apply N.eqb_neq. lia. }
        rewrite C. split; [rewrite ins_length; lia|]. split.
        -- intros x Hx. unfold k in G. rewrite nth_nonce_ins_lt by lia. apply count_ready_prefix. lia.
        -- intros _. unfold k in G. rewrite nth_nonce_ins_lt by lia. lia.
    + apply Forall_forall. intros x Hx. apply ins_In in Hx. destruct Hx as [->|Hx]; auto.
      rewrite Forall_forall in A. auto.
Qed.

(* ---- txList.FilterByState, RemoveTx ---- *)

Lemma sorted_above_Forall : forall l b, sorted_above b l -> Forall (fun x => (b < t_nonce x)%N) l.
Proof.
  induction l as [|y r IH]; simpl; intros b Hs; constructor; destruct Hs as [H1 H2]; auto.
  specialize (IH _ H2). eapply Forall_impl; [|exact IH]. simpl. intros; lia.
Qed.

Lemma sorted_above_lift : forall l b c, sorted_above b l ->
  Forall (fun x => (c < t_nonce x)%N) l -> sorted_above c l.
Proof. destruct l; simpl; auto. intros b c [H1 H2] F. inversion F; subst. split; auto. Qed.

Lemma validate_keep : forall st x, validate st x = VOk \/ validate st x = VTooHigh ->
  (s_nonce st < t_nonce x)%N.
Proof.
  intros st x. unfold validate.
  destruct (N.ltb_spec (t_nonce x) (s_nonce st + 1)); [intros [V|V]; discriminate|lia].
Qed.

Lemma validate_toohigh : forall st x, validate st x = VTooHigh -> (s_nonce st + 1 < t_nonce x)%N.
Proof.
  intros st x. unfold validate.
  destruct (N.ltb_spec (t_nonce x) (s_nonce st + 1)); [discriminate|].
  destruct (_ <? 0)%Z; [discriminate|].
  destruct (N.ltb_spec (s_nonce st + 1) (t_nonce x)); [auto|discriminate].
Qed.

Lemma filter_loop_spec : forall st bc l k r, filter_loop st bc l = (k, r) ->
  Permutation l (k ++ r)
  /\ (forall b, sorted_above b l -> sorted_above b k)
  /\ (forall b, sorted_above b l -> Forall (fun x => (s_nonce st < t_nonce x)%N) k).
Proof.
  induction l as [|x l IH]; simpl; intros k r E.
  - inversion E; subst. simpl. repeat split; auto.
  - assert (Keep : forall k' r', filter_loop st bc l = (k', r') ->
              (validate st x = VOk \/ validate st x = VTooHigh) ->
              Permutation (x :: l) ((x :: k') ++ r')
              /\ (forall b, sorted_above b (x :: l) -> sorted_above b (x :: k'))
              /\ (forall b, sorted_above b (x :: l) -> Forall (fun y => (s_nonce st < t_nonce y)%N) (x :: k'))).
    { intros k' r' E' V. destruct (IH _ _ E') as (P & S1 & S2). split; [|split].
      - simpl. constructor; auto.
      - intros b0 [H1 H2]. simpl. split; auto.
      - intros b0 [H1 H2]. constructor; [apply validate_keep; auto|eauto]. }
    assert (Drop : forall k' r', filter_loop st bc l = (k', r') ->
              Permutation (x :: l) (k' ++ x :: r')
              /\ (forall b, sorted_above b (x :: l) -> sorted_above b k')
              /\ (forall b, sorted_above b (x :: l) -> Forall (fun y => (s_nonce st < t_nonce y)%N) k')).
    { intros k' r' E'. destruct (IH _ _ E') as (P & S1 & S2). split; [|split].
      - apply Permutation_cons_app; auto.
      - intros b0 [H1 H2]. apply sorted_above_weaken with (b := t_nonce x); [lia|auto].
      - intros b0 [H1 H2]. eauto. }
    destruct (validate st x) eqn:V.
    + destruct (filter_loop st bc l) as [k' r'] eqn:E'. inversion E; subst. apply Keep; auto.
    + destruct (filter_loop st bc l) as [k' r'] eqn:E'. inversion E; subst. apply Drop; auto.
    + destruct (filter_loop st bc l) as [k' r'] eqn:E'. inversion E; subst. apply Drop; auto.
    + destruct bc.
      * destruct (filter_loop st true l) as [k' r'] eqn:E'. inversion E; subst. apply Keep; auto.
      * inversion E; subst. rewrite app_nil_r. split; [auto|split; [auto|]].
        intros b0 [H1 H2]. pose proof (validate_toohigh _ _ V) as T. constructor; [lia|].
        eapply Forall_impl; [|apply sorted_above_Forall; exact H2]. simpl. intros; lia.
Qed.

Lemma orphans_eq : forall b b' l r, orphans (mkTl b l r) = orphans (mkTl b' l r).
Proof. reflexivity. Qed.

Lemma Forall_perm_app_l : forall (P : tx -> Prop) l k r,
  Permutation l (k ++ r) -> Forall P l -> Forall P k.
Proof.
  intros P l k r Pm F. rewrite Forall_forall in *. intros x Hx. apply F.
  eapply Permutation_in; [apply Permutation_sym; exact Pm|]. apply in_or_app. auto.
Qed.

Lemma tl_filter_spec : forall a l st d removed l', list_inv a l ->
  tl_filter l st = (d, removed, l') ->
  list_inv a l' /\ base l' = st /\ Permutation (txs l) (txs l' ++ removed)
  /\ d = (orphans l - orphans l')%Z.
Proof.
  intros a [b l rdy] st d removed l' (Hs & R & A). unfold tl_filter. cbn [base txs ready] in *.
  destruct (N.eqb_spec (s_nonce b) (s_nonce st)) as [E|E].
  - intros H; inversion H; subst. unfold list_inv. cbn [base txs ready].
    rewrite <- E, app_nil_r. repeat split; auto. unfold orphans; simpl. lia.
  - destruct (filter_loop st (s_bal st <? s_bal b)%Z l) as [k r] eqn:F.
    intros H; inversion H; subst.
    destruct (filter_loop_spec _ _ _ _ _ F) as (P & S1 & S2).
    unfold list_inv. cbn [base txs ready]. repeat split; auto.
    + eapply sorted_above_lift; eauto.
    + apply update_ready_correct.
    + eapply Forall_perm_app_l; eauto.
Qed.

Lemma remove_by_id_spec : forall h l x r, remove_by_id h l = Some (x, r) ->
  t_id x = h /\ Permutation l (x :: r) /\ (forall b, sorted_above b l -> sorted_above b r).
Proof.
  induction l as [|y l IH]; simpl; intros x r E; [discriminate|].
  destruct (N.eqb_spec (t_id y) h) as [Eh|Nh].
  - inversion E; subst. split; [auto|split; [auto|]]. intros b [H1 H2].
    apply sorted_above_weaken with (b := t_nonce x); [lia|auto].
  - destruct (remove_by_id h l) as [[z r']|] eqn:E'; [|discriminate]. inversion E; subst.
    destruct (IH _ _ eq_refl) as (I1 & I2 & I3). split; [auto|split].
    + eapply perm_trans; [apply perm_skip; exact I2|apply perm_swap].
    + intros b [H1 H2]. simpl. split; auto.
Qed.

Lemma remove_by_id_none : forall h l, remove_by_id h l = None -> forall x, In x l -> t_id x <> h.
Proof.
  induction l as [|y l IH]; simpl; intros E x Hx; [contradiction|].
  destruct (N.eqb_spec (t_id y) h) as [Eh|Nh]; [discriminate|].
  destruct (remove_by_id h l) as [[z r']|] eqn:E'; [discriminate|].
  destruct Hx as [->|Hx]; auto.
Qed.

Lemma tl_remove_spec : forall a l h, list_inv a l ->
  match tl_remove l h with
  | (d, None, l') => l' = l /\ d = 0%Z /\ forall x, In x (txs l) -> t_id x <> h
  | (d, Some x, l') => t_id x = h /\ Permutation (txs l) (x :: txs l') /\ list_inv a l'
                       /\ base l' = base l /\ d = (orphans l' - orphans l)%Z
  end.
Proof.
  intros a [b l rdy] h (Hs & R & A). unfold tl_remove. cbn [base txs ready] in *.
  destruct (remove_by_id h l) as [[x r]|] eqn:E.
  - destruct (remove_by_id_spec _ _ _ _ E) as (I1 & I2 & I3).
    unfold list_inv. cbn [base txs ready]. repeat split; auto.
    + apply update_ready_correct.
    + apply (Forall_perm_app_l _ l r [x]); auto.
      eapply perm_trans; [exact I2|]. change (x :: r) with ([x] ++ r). apply Permutation_app_comm.
    + unfold orphans. cbn [base txs ready]. apply Permutation_length in I2. simpl in I2. lia.
  - repeat split; auto. apply remove_by_id_none; auto.
Qed.

(** C13: the atomicity assumption of the thread model, tied to the source by the translator
    gen/gen_locks.go (output: Gen/Locks.v, regenerated from the tree under test on every
    run).  Every write of a pool bookkeeping field must run with the pool lock held
    exclusively.  One write is known to run under the read lock only and is listed here
    explicitly (known finding C13:pool-write-under-read-lock): getUnconfirmed ->
    acquireMemPoolList inserts a fresh empty list into mp.pool while holding mp.RLock.
    The model has that insertion as its own atomic step ([AUnconf]). *)
From Coq Require Import List String Bool.
From Verif Require Import Gen.Locks.
Import ListNotations.
Open Scope string_scope.

Definition lock_ok (w : string * string * lockst) : bool :=
  match w with
  | (_, "mp.cache:=whole-map", _) => false   (* the sync.Map is read without the pool lock *)
  | (_, _, Excl) => true
  | (f, fld, RLockOnly) => (f =? "acquireMemPoolList") && (fld =? "mp.pool")
  | (_, _, NoLock) => false
  end.

(** the functions the model's atomic steps correspond to must have been seen writing *)
Definition expected_writers : list string :=
  ["put"; "removeTx"; "removeOnBlockArrival"; "evictTransactions"; "resetAll";
   "acquireMemPoolList"; "releaseMemPoolList"; "Put"; "FilterByState"; "RemoveTx"; "updateReady"].

Definition writers_present : bool :=
  forallb (fun f => existsb (fun w => fst (fst w) =? f) pool_writes) expected_writers.

(** check-then-act: in a function that mutates pool fields and takes the pool lock itself no read
    of pool state (cache lookup, map index, exist / list lookup) may precede that Lock, so that the
    check and the mutation it decides are one critical section.  The one exception is [put], whose
    unlocked cache probe is its own atomic step of the model ([ACheck]) and whose insertion
    re-validates under the lock. *)
Definition read_ok (r : string * string) : bool := fst r =? "put".
Definition reads_locked : bool := forallb read_ok reads_before_lock.

Lemma pool_writes_locked : forallb lock_ok pool_writes && writers_present && reads_locked = true.
Proof. vm_compute. reflexivity. Qed.

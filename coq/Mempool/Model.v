(** C13 model: the transaction pool of /repo/mempool (txlist.go, mempool.go).

    [txlist] mirrors [txList] (base state, nonce-ordered slice, ready count) with
    [tl_put] (= Put: sort.Search binary search, duplicate nonce rejected, insertion by slice
    surgery, the ready-extension loop starting at the insertion index), [tl_filter]
    (= FilterByState with the [base.Nonce == st.Nonce] shortcut, [balCheck] and the early
    break on the first nonce-too-high entry), [tl_remove] (= RemoveTx) and [update_ready].
    [pool] mirrors the bookkeeping fields of [MemPool] (pool map, hash cache, length,
    orphan); [mstate] adds what [setStateDB] maintains (best block id, chain-id hash,
    account-state view).  Pool operations: [put_check] (the unlocked part of put: cache
    probe + validateTx against the current state view), [pool_insert] (the part of put under
    mp.Lock), [block_arrival] (= removeOnBlockArrival incl. setStateDB's flags and
    resetAll), [remove_tx] (= removeTx after the F11 repair: the list is found through the
    cached transaction's owner address; [remove_tx_body] is the unrepaired lookup by
    tx.Body.Account), [evict] (= evictTransactions on the lists whose lastTime is old),
    [unconfirmed] (= getUnconfirmed, which acquires -- i.e. creates -- a list for every
    requested account), [pool_get] (= get).

    Go maps are association lists here; every loop over [mp.pool] treats the lists
    independently, so the iteration order does not influence the resulting state (only the
    order of [get]'s result, which is compared per account).  No proofs in this file. *)
From Coq Require Import ZArith NArith List Bool Arith.
Import ListNotations.

Definition addr := N.
Definition txid := N.

Record ast := mkSt { s_nonce : N; s_bal : Z }.

(** [t_acc]: the account the pool files the transaction under (verified owner address
    when the sender is a name, else Body.Account); [t_body]: Body.Account itself;
    [t_cost]: amount (+ max fee; fees are zero in the engine's configuration). *)
Record tx := mkTx { t_id : txid; t_acc : addr; t_body : addr; t_nonce : N; t_cost : Z }.

Definition dummy_tx : tx := mkTx 0%N 0%N 0%N 0%N 0%Z.

(** types.transaction.ValidateWithSenderState for TRANSFER-like types. *)
Inductive verr := VOk | VTooLow | VBalance | VTooHigh.
Definition validate (st : ast) (t : tx) : verr :=
  if (t_nonce t <? s_nonce st + 1)%N then VTooLow
  else if (s_bal st - t_cost t <? 0)%Z then VBalance
  else if (s_nonce st + 1 <? t_nonce t)%N then VTooHigh
  else VOk.

(* ------------------------------------------------------------------ txList *)
Record txlist := mkTl { base : ast; txs : list tx; ready : nat }.

Definition nth_nonce (l : list tx) (i : nat) : N := t_nonce (nth i l dummy_tx).

(** sort.Search(n, f): binary search for the smallest index in [0,n) with f true. *)
Fixpoint bsearch (fuel : nat) (f : nat -> bool) (i j : nat) : nat :=
  match fuel with
  | O => i
  | S k => if i <? j then
             let h := Nat.div2 (i + j) in
             if f h then bsearch k f i h else bsearch k f (h + 1) j
           else i
  end.
Definition sort_search (n : nat) (f : nat -> bool) : nat := bsearch (S n) f 0 n.

(** txList.search: position by binary search + exact-nonce test. *)
Definition tl_search (l : list tx) (key : N) : nat * bool :=
  let ind := sort_search (length l) (fun i => (key <=? nth_nonce l i)%N) in
  (ind, (ind <? length l) && (nth_nonce l ind =? key)%N).

(** txList.continuous(index) with the current ready count. *)
Definition continuous (b : N) (l : list tx) (rdy idx : nat) : bool :=
  let lft := if 0 <? rdy then nth_nonce l (rdy - 1) else b in
  (lft + 1 =? nth_nonce l idx)%N.

(** for ; index < len(list); index++ { if !continuous(index) { break }; ready++ } *)
Fixpoint extend (fuel : nat) (b : N) (l : list tx) (rdy idx : nat) : nat :=
  match fuel with
  | O => rdy
  | S k => if idx <? length l then
             if continuous b l rdy idx then extend k b l (S rdy) (S idx) else rdy
           else rdy
  end.

Definition update_ready (b : N) (l : list tx) : nat := extend (length l) b l 0 0.

Definition orphans (l : txlist) : Z := Z.of_nat (length (txs l)) - Z.of_nat (ready l).

Inductive perr := POk | PTooLow | PSameNonce | PAlready | PBalance | PNotFound.

(** txList.Put: result is (oldOrphan - newOrphan, new list) or an error. *)
Definition tl_put (l : txlist) (t : tx) : (Z * txlist) + perr :=
  if (t_nonce t <=? s_nonce (base l))%N then inr PTooLow else
  let '(idx, found) := tl_search (txs l) (t_nonce t) in
  if found then inr PSameNonce else
  let nl := firstn idx (txs l) ++ t :: skipn idx (txs l) in
  let r := extend (length nl) (s_nonce (base l)) nl (ready l) idx in
  let l' := mkTl (base l) nl r in
  inl ((orphans l - orphans l')%Z, l').

(** The validation loop of FilterByState: (left, removed). *)
Fixpoint filter_loop (st : ast) (balCheck : bool) (l : list tx) : list tx * list tx :=
  match l with
  | [] => ([], [])
  | x :: r =>
    match validate st x with
    | VOk => let '(a, b) := filter_loop st balCheck r in (x :: a, b)
    | VTooHigh => if balCheck then let '(a, b) := filter_loop st balCheck r in (x :: a, b)
                  else (x :: r, [])
    | _ => let '(a, b) := filter_loop st balCheck r in (a, x :: b)
    end
  end.

(** txList.FilterByState: (oldOrphan - newOrphan, removed, new list). *)
Definition tl_filter (l : txlist) (st : ast) : Z * list tx * txlist :=
  if (s_nonce (base l) =? s_nonce st)%N then (0%Z, [], mkTl st (txs l) (ready l)) else
  let balCheck := (s_bal st <? s_bal (base l))%Z in
  let '(kept, removed) := filter_loop st balCheck (txs l) in
  let l' := mkTl st kept (update_ready (s_nonce st) kept) in
  ((orphans l - orphans l')%Z, removed, l').

Fixpoint remove_by_id (h : txid) (l : list tx) : option (tx * list tx) :=
  match l with
  | [] => None
  | x :: r => if (t_id x =? h)%N then Some (x, r)
              else match remove_by_id h r with
                   | Some (y, r') => Some (y, x :: r')
                   | None => None
                   end
  end.

(** txList.RemoveTx: (oldReady - newReady - 1, removed, new list). *)
Definition tl_remove (l : txlist) (h : txid) : Z * option tx * txlist :=
  match remove_by_id h (txs l) with
  | None => (0%Z, None, l)
  | Some (x, r) =>
    let rd := update_ready (s_nonce (base l)) r in
    ((Z.of_nat (ready l) - Z.of_nat rd - 1)%Z, Some x, mkTl (base l) r rd)
  end.

Definition tl_pooled (l : txlist) : list tx := firstn (ready l) (txs l).
Definition tl_orphaned (l : txlist) : list tx := skipn (ready l) (txs l).

(* ------------------------------------------------------------------- pool *)
Definition lmap := list (addr * txlist).

Fixpoint lookup (a : addr) (m : lmap) : option txlist :=
  match m with
  | [] => None
  | (b, l) :: r => if (b =? a)%N then Some l else lookup a r
  end.
Fixpoint lset (a : addr) (l : txlist) (m : lmap) : lmap :=
  match m with
  | [] => [(a, l)]
  | (b, l0) :: r => if (b =? a)%N then (a, l) :: r else (b, l0) :: lset a l r
  end.
Fixpoint ldel (a : addr) (m : lmap) : lmap :=
  match m with
  | [] => []
  | (b, l0) :: r => if (b =? a)%N then ldel a r else (b, l0) :: ldel a r
  end.
Definition is_nil {A} (l : list A) : bool := match l with [] => true | _ => false end.
(** store the list back, then releaseMemPoolList (delete it from the map when empty). *)
Definition lrelease (a : addr) (l : txlist) (m : lmap) : lmap :=
  if is_nil (txs l) then ldel a m else lset a l m.

Fixpoint cache_find (h : txid) (c : list tx) : option tx :=
  match c with
  | [] => None
  | x :: r => if (t_id x =? h)%N then Some x else cache_find h r
  end.
Definition cache_del (h : txid) (c : list tx) : list tx :=
  filter (fun x => negb (t_id x =? h)%N) c.
Definition cache_store (t : tx) (c : list tx) : list tx := t :: cache_del (t_id t) c.
Definition cache_del_all (d : list tx) (c : list tx) : list tx :=
  fold_left (fun c x => cache_del (t_id x) c) d c.

Record pool := mkPool { lists : lmap; cache : list tx; plen : Z; porphan : Z }.

Definition empty_pool : pool := mkPool [] [] 0 0.

(** What setStateDB maintains. *)
Record mstate := mkM { pl : pool; cur : addr -> ast; best : N; cidh : N }.

Definition with_pool (m : mstate) (p : pool) : mstate := mkM p (cur m) (best m) (cidh m).

(** acquireMemPoolList: existing list or a fresh one based on the current account state. *)
Definition acquire (m : mstate) (a : addr) : txlist :=
  match lookup a (lists (pl m)) with
  | Some l => l
  | None => mkTl (cur m a) [] 0
  end.

(** put, first part (no pool lock held): cache probe and validateTx. *)
Definition put_check (m : mstate) (t : tx) : perr :=
  match cache_find (t_id t) (cache (pl m)) with
  | Some _ => PAlready
  | None => match validate (cur m (t_acc t)) t with
            | VTooLow => PTooLow
            | VBalance => PBalance
            | _ => POk
            end
  end.

(** put, second part (under mp.Lock). *)
Definition pool_insert (m : mstate) (t : tx) : perr * mstate :=
  let p := pl m in
  let a := t_acc t in
  let l := acquire m a in
  match tl_put l t with
  | inr e => (e, with_pool m (mkPool (lrelease a l (lists p)) (cache p) (plen p) (porphan p)))
  | inl (diff, l') =>
    (POk, with_pool m (mkPool (lrelease a l' (lists p)) (cache_store t (cache p))
                              (plen p + 1) (porphan p - diff)))
  end.

Definition pool_put (m : mstate) (t : tx) : perr * mstate :=
  match put_check m t with
  | POk => pool_insert m t
  | e => (e, m)
  end.

(** removeTx.  [key]: how the list is located from the cached entry [c] and the argument. *)
Definition remove_with (key : tx -> tx -> addr) (m : mstate) (t : tx) : perr * mstate :=
  let p := pl m in
  match cache_find (t_id t) (cache p) with
  | None => (PNotFound, m)
  | Some c =>
    let a := key c t in
    let l := acquire m a in
    let '(d, _, l') := tl_remove l (t_id t) in
    (POk, with_pool m (mkPool (lrelease a l' (lists p)) (cache_del (t_id t) (cache p))
                              (plen p - 1) (porphan p + d)))
  end.
Definition remove_tx := remove_with (fun c _ => t_acc c).        (* after the F11 repair *)
Definition remove_tx_body := remove_with (fun _ t => t_body t).  (* code before the repair *)

(** A block as the pool sees it. *)
Record block := mkB { b_id : N; b_parent : N; b_cid : N; b_state : addr -> ast; b_dirty : list addr }.

(** setStateDB: (reorged, forked, new view).  [reorged] is the code's name for "scan every
    list"; it is true for the best block itself and for a child of the best block. *)
Definition set_state_db (m : mstate) (b : block) : bool * bool * mstate :=
  if (b_id b =? best m)%N then (true, false, m) else
  let reorged := (b_parent b =? best m)%N in
  if (b_cid b =? cidh m)%N then (reorged, false, mkM (pl m) (b_state b) (b_id b) (cidh m))
  else (reorged, true, mkM (pl m) (b_state b) (b_id b) (b_cid b)).

Definition mem (a : addr) (l : list addr) : bool := existsb (fun b => (b =? a)%N) l.

(** The loop of removeOnBlockArrival over mp.pool: (orphan diff, removed, new map). *)
Fixpoint filter_all (sel : addr -> bool) (st : addr -> ast) (ls : lmap) : Z * list tx * lmap :=
  match ls with
  | [] => (0%Z, [], [])
  | (a, l) :: r =>
    let '(d, del, r') := filter_all sel st r in
    if sel a then
      let '(d1, del1, l') := tl_filter l (st a) in
      ((d1 + d)%Z, del1 ++ del, if is_nil (txs l') then r' else (a, l') :: r')
    else (d, del, (a, l) :: r')
  end.

Definition block_arrival (m : mstate) (b : block) : mstate :=
  let '(reorg, fork, m1) := set_state_db m b in
  if fork then with_pool m1 empty_pool else
  let p := pl m1 in
  let sel := fun a => reorg || mem a (b_dirty b) in
  let '(d, del, ls') := filter_all sel (cur m1) (lists p) in
  with_pool m1 (mkPool ls' (cache_del_all del (cache p)) (plen p - Z.of_nat (length del)) (porphan p - d)).

(** evictTransactions restricted to the accounts whose lists are old enough. *)
Fixpoint evict_all (sel : addr -> bool) (ls : lmap) : Z * Z * list tx * lmap :=
  match ls with
  | [] => (0%Z, 0%Z, [], [])
  | (a, l) :: r =>
    let '(n, o, del, r') := evict_all sel r in
    if sel a then ((Z.of_nat (length (txs l)) + n)%Z, (orphans l + o)%Z, txs l ++ del, r')
    else (n, o, del, (a, l) :: r')
  end.
Definition evict (m : mstate) (accs : list addr) : mstate :=
  let p := pl m in
  let '(n, o, del, ls') := evict_all (fun a => mem a accs) (lists p) in
  with_pool m (mkPool ls' (cache_del_all del (cache p)) (plen p - n) (porphan p - o)).

(** getUnconfirmed(accounts, false) for a non-empty account list: acquires every list. *)
Fixpoint unconfirmed (m : mstate) (accs : list addr) : list (list tx * list tx) * mstate :=
  match accs with
  | [] => ([], m)
  | a :: r =>
    let l := acquire m a in
    let p := pl m in
    let m1 := with_pool m (mkPool (lset a l (lists p)) (cache p) (plen p) (porphan p)) in
    let '(res, m2) := unconfirmed m1 r in
    ((tl_pooled l, tl_orphaned l) :: res, m2)
  end.

(** get with an unbounded size budget: the ready prefix of every list. *)
Definition pool_get (p : pool) : list (addr * list tx) :=
  map (fun al => (fst al, tl_pooled (snd al))) (lists p).

(** get as coded: walk the lists in map order [ls], stop at the first transaction that does
    not fit into [budget] ([size] is proto.Size). *)
Fixpoint take_fit (size : tx -> Z) (budget : Z) (l : list tx) : list tx * Z * bool :=
  match l with
  | [] => ([], budget, false)
  | x :: r => let b := (budget - size x)%Z in
              if (b <? 0)%Z then ([], budget, true)
              else let '(a, b', stop) := take_fit size b r in (x :: a, b', stop)
  end.
Fixpoint get_limited (size : tx -> Z) (budget : Z) (ls : lmap) : list (addr * list tx) :=
  match ls with
  | [] => []
  | (a, l) :: r => let '(got, b, stop) := take_fit size budget (tl_pooled l) in
                   if stop then [(a, got)] else (a, got) :: get_limited size b r
  end.

Definition exist (p : pool) (h : txid) : bool :=
  match cache_find h (cache p) with Some _ => true | None => false end.

(* -------------------------------------------------- atomic steps and threads *)
Inductive astep :=
| ACheck (t : tx) | AInsert (t : tx) | ABlock (b : block) | ARemove (t : tx)
| AEvict (accs : list addr) | AUnconf (accs : list addr) | AGet.

Definition astep_run (m : mstate) (s : astep) : mstate :=
  match s with
  | ACheck _ => m
  | AInsert t => snd (pool_insert m t)
  | ABlock b => block_arrival m b
  | ARemove t => snd (remove_tx m t)
  | AEvict accs => evict m accs
  | AUnconf accs => snd (unconfirmed m accs)
  | AGet => m
  end.

Inductive op :=
| OPut (t : tx) | OBlock (b : block) | ORemove (t : tx)
| OEvict (accs : list addr) | OUnconf (accs : list addr) | OGet.

(** A thread: the insert it has been cleared for by [put_check] (if any) and the rest of
    its program. *)
Record thread := mkTh { pending : option tx; todo : list op }.

Definition thread_step (m : mstate) (th : thread) : option (astep * thread) :=
  match pending th with
  | Some t => Some (AInsert t, mkTh None (todo th))
  | None =>
    match todo th with
    | [] => None
    | OPut t :: r => Some (ACheck t, mkTh (match put_check m t with POk => Some t | _ => None end) r)
    | OBlock b :: r => Some (ABlock b, mkTh None r)
    | ORemove t :: r => Some (ARemove t, mkTh None r)
    | OEvict a :: r => Some (AEvict a, mkTh None r)
    | OUnconf a :: r => Some (AUnconf a, mkTh None r)
    | OGet :: r => Some (AGet, mkTh None r)
    end
  end.

Fixpoint set_nth {A} (i : nat) (x : A) (l : list A) : list A :=
  match l, i with
  | [], _ => []
  | _ :: r, O => x :: r
  | y :: r, S k => y :: set_nth k x r
  end.

(** The scheduler: [sched] names the thread that performs the next atomic step. *)
Fixpoint run_sched (sched : list nat) (m : mstate) (ths : list thread) : mstate * list thread :=
  match sched with
  | [] => (m, ths)
  | i :: r =>
    match nth_error ths i with
    | None => run_sched r m ths
    | Some th =>
      match thread_step m th with
      | None => run_sched r m ths
      | Some (s, th') => run_sched r (astep_run m s) (set_nth i th' ths)
      end
    end
  end.

(** Sequential execution of one operation (what the engine does step by step). *)
Definition seq_step (m : mstate) (o : op) : mstate :=
  match o with
  | OPut t => snd (pool_put m t)
  | OBlock b => block_arrival m b
  | ORemove t => snd (remove_tx m t)
  | OEvict a => evict m a
  | OUnconf a => snd (unconfirmed m a)
  | OGet => m
  end.

(* ------------------------------------------------------------- the invariant *)
(** strictly increasing nonces, all above [b] *)
Fixpoint sorted_above (b : N) (l : list tx) : Prop :=
  match l with
  | [] => True
  | x :: r => (b < t_nonce x)%N /\ sorted_above (t_nonce x) r
  end.

(** length of the maximal prefix with nonces b+1, b+2, ... *)
Fixpoint count_ready (b : N) (l : list tx) : nat :=
  match l with
  | [] => O
  | x :: r => if (t_nonce x =? b + 1)%N then S (count_ready (b + 1) r) else O
  end.

Definition list_inv (a : addr) (l : txlist) : Prop :=
  sorted_above (s_nonce (base l)) (txs l)
  /\ ready l = count_ready (s_nonce (base l)) (txs l)
  /\ Forall (fun t => t_acc t = a) (txs l).

Definition all_txs (ls : lmap) : list tx := flat_map (fun al => txs (snd al)) ls.
Fixpoint sum_orphans (ls : lmap) : Z :=
  match ls with [] => 0%Z | (_, l) :: r => (orphans l + sum_orphans r)%Z end.

Record PoolInv (p : pool) : Prop := {
  inv_keys   : NoDup (map fst (lists p));
  inv_lists  : forall a l, In (a, l) (lists p) -> list_inv a l;
  inv_ids    : NoDup (map t_id (all_txs (lists p)));
  inv_cids   : NoDup (map t_id (cache p));
  inv_cache  : forall t, In t (cache p) <-> In t (all_txs (lists p));
  inv_len    : plen p = Z.of_nat (length (all_txs (lists p)));
  inv_orphan : porphan p = sum_orphans (lists p)
}.

(** every list's base is the pool's current view of the account state *)
Definition BaseFresh (m : mstate) : Prop :=
  forall a l, In (a, l) (lists (pl m)) -> base l = cur m a.

(** "the hash determines sender and nonce" on a universe of transactions *)
Definition idfun (U : tx -> Prop) : Prop :=
  forall t t', U t -> U t' -> t_id t = t_id t' -> t_acc t = t_acc t' /\ t_nonce t = t_nonce t'.

Definition step_in (U : tx -> Prop) (s : astep) : Prop :=
  match s with AInsert t => U t | _ => True end.
Definition op_in (U : tx -> Prop) (o : op) : Prop :=
  match o with OPut t => U t | _ => True end.
Definition thread_in (U : tx -> Prop) (th : thread) : Prop :=
  (match pending th with Some t => U t | None => True end) /\ Forall (op_in U) (todo th).
Definition pool_in (U : tx -> Prop) (p : pool) : Prop := Forall U (all_txs (lists p)).

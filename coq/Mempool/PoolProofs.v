(** C13 proofs, part 2: the pool.  Association-list and cache facts, the "rebuild"
    lemma (replace one account's list), preservation of [PoolInv] by every atomic step,
    by every schedule of any number of threads and by sequential execution. *)
From Coq Require Import ZArith NArith List Bool Arith Lia Permutation.
From Verif Require Import Mempool.Model Mempool.ListProofs.
Import ListNotations.


(* ---- association-list facts ---- *)
Lemma ldel_keys : forall a m b, In b (map fst (ldel a m)) <-> b <> a /\ In b (map fst m).
Proof.
  induction m as [|[c l] m IH]; simpl; intros b; [intuition|].
  destruct (N.eqb_spec c a) as [E|E]; simpl; rewrite IH; intuition; subst; intuition.
Qed.

Lemma ldel_In : forall a m b l, In (b, l) (ldel a m) <-> b <> a /\ In (b, l) m.
Proof.
  induction m as [|[c l0] m IH]; simpl; intros b l; [intuition|].
  destruct (N.eqb_spec c a) as [E|E]; simpl; rewrite IH.
  - subst. split; [intuition|]. intros [Ne [Q|Q]]; [inversion Q; congruence|auto].
  - split; [intros [Q|[Ne Q]]; [inversion Q; subst; auto|auto]|intros [Ne [Q|Q]]; auto].
Qed.

Lemma ldel_NoDup : forall a m, NoDup (map fst m) -> NoDup (map fst (ldel a m)).
Proof.
  induction m as [|[c l] m IH]; simpl; intros H; auto. inversion H; subst.
  destruct (N.eqb_spec c a); simpl; auto. constructor; auto. rewrite ldel_keys. intuition.
Qed.

Lemma lookup_In : forall a m l, NoDup (map fst m) -> (lookup a m = Some l <-> In (a, l) m).
Proof.
  induction m as [|[c l0] m IH]; simpl; intros l H; [intuition discriminate|].
  inversion H; subst. destruct (N.eqb_spec c a) as [E|E].
  - subst. split; [intros Q; inversion Q; auto|].
    intros [Q|Q]; [inversion Q; auto|]. exfalso. apply H2. apply (in_map fst) in Q. auto.
  - rewrite IH by auto. split; auto. intros [Q|Q]; auto. inversion Q; congruence.
Qed.

Lemma lookup_None : forall a m, lookup a m = None <-> ~ In a (map fst m).
Proof.
  induction m as [|[c l0] m IH]; simpl; [intuition|].
  destruct (N.eqb_spec c a) as [E|E]; [intuition discriminate|]. rewrite IH. intuition.
Qed.

Lemma ldel_absent : forall a m, ~ In a (map fst m) -> ldel a m = m.
Proof.
  induction m as [|[c l0] m IH]; simpl; intros H; auto.
  destruct (N.eqb_spec c a) as [E|E]; [intuition|]. f_equal. apply IH. intuition.
Qed.

Lemma lset_same : forall a l m, lookup a m = Some l -> lset a l m = m.
Proof.
  induction m as [|[c l0] m IH]; simpl; intros H; [discriminate|].
  destruct (N.eqb_spec c a) as [E|E]; [inversion H; subst; auto|]. f_equal. auto.
Qed.

Lemma lset_keys : forall a l m b, In b (map fst (lset a l m)) <-> b = a \/ In b (map fst m).
Proof.
  induction m as [|[c l0] m IH]; simpl; intros b; [intuition|].
  destruct (N.eqb_spec c a) as [E|E]; simpl; [subst; intuition|]. rewrite IH. intuition.
Qed.

Lemma lset_NoDup : forall a l m, NoDup (map fst m) -> NoDup (map fst (lset a l m)).
Proof.
  induction m as [|[c l0] m IH]; simpl; intros H; [repeat constructor; auto|].
  inversion H; subst. destruct (N.eqb_spec c a) as [E|E]; simpl.
  - subst. constructor; auto.
  - constructor; auto. rewrite lset_keys. intuition.
Qed.

Lemma lset_In : forall a l m b l1, NoDup (map fst m) ->
  (In (b, l1) (lset a l m) <-> (b = a /\ l1 = l) \/ (b <> a /\ In (b, l1) m)).
Proof.
  induction m as [|[c l0] m IH]; simpl; intros b l1 H.
  - split; [intros [Q|[]]; inversion Q; auto|intros [[-> ->]|[_ []]]; auto].
  - inversion H; subst. destruct (N.eqb_spec c a) as [E|E]; simpl.
    + subst. split.
      * intros [Q|Q]; [inversion Q; auto|]. right. split; auto. intros ->.
        apply H2. apply (in_map fst) in Q. auto.
      * intros [[-> ->]|[Ne [Q|Q]]]; auto. inversion Q; congruence.
    + rewrite IH by auto. split.
      * intros [Q|[Q|Q]]; auto. inversion Q; subst. auto. destruct Q; auto.
      * intros [Q|[Ne [Q|Q]]]; auto.
Qed.

(* ---- all_txs / sum_orphans under decomposition ---- *)
Definition lget (a : addr) (m : lmap) : list tx :=
  match lookup a m with Some l => txs l | None => [] end.
Definition lorph (a : addr) (m : lmap) : Z :=
  match lookup a m with Some l => orphans l | None => 0%Z end.

Lemma all_txs_decomp : forall a m, NoDup (map fst m) ->
  Permutation (all_txs m) (lget a m ++ all_txs (ldel a m)).
Proof.
  unfold lget. induction m as [|[c l0] m IH]; simpl; intros H; auto. inversion H; subst.
  destruct (N.eqb_spec c a) as [E|E].
  - subst. rewrite ldel_absent; auto.
  - simpl. specialize (IH H3). destruct (lookup a m); simpl in *.
    + eapply perm_trans; [apply Permutation_app_head; exact IH|].
      rewrite !app_assoc. apply Permutation_app_tail. apply Permutation_app_comm.
    + apply Permutation_app_head; auto.
Qed.

Lemma sum_orphans_decomp : forall a m, NoDup (map fst m) ->
  sum_orphans m = (lorph a m + sum_orphans (ldel a m))%Z.
Proof.
  unfold lorph. induction m as [|[c l0] m IH]; simpl; intros H; auto. inversion H; subst.
  destruct (N.eqb_spec c a) as [E|E].
  - subst. rewrite ldel_absent; auto.
  - simpl. rewrite (IH H3). destruct (lookup a m); lia.
Qed.

Lemma all_txs_lset : forall a l m, NoDup (map fst m) ->
  Permutation (all_txs (lset a l m)) (txs l ++ all_txs (ldel a m)).
Proof.
  induction m as [|[c l0] m IH]; simpl; intros H; auto. inversion H; subst.
  destruct (N.eqb_spec c a) as [E|E]; simpl.
  - subst. rewrite ldel_absent; auto.
  - eapply perm_trans; [apply Permutation_app_head; apply IH; auto|].
    rewrite !app_assoc. apply Permutation_app_tail. apply Permutation_app_comm.
Qed.

Lemma sum_orphans_lset : forall a l m, NoDup (map fst m) ->
  sum_orphans (lset a l m) = (orphans l + sum_orphans (ldel a m))%Z.
Proof.
  induction m as [|[c l0] m IH]; simpl; intros H; [lia|]. inversion H; subst.
  destruct (N.eqb_spec c a) as [E|E]; simpl.
  - subst. rewrite ldel_absent; auto.
  - rewrite IH; auto. lia.
Qed.

Lemma all_txs_In : forall m t, In t (all_txs m) <-> exists a l, In (a, l) m /\ In t (txs l).
Proof.
  intros m t. unfold all_txs. rewrite in_flat_map. split.
  - intros ([a l] & H1 & H2). eauto.
  - intros (a & l & H1 & H2). exists (a, l). auto.
Qed.

(* ---- cache facts ---- *)
Lemma cache_del_In : forall h c t, In t (cache_del h c) <-> In t c /\ t_id t <> h.
Proof.
  intros. unfold cache_del. rewrite filter_In. rewrite negb_true_iff, N.eqb_neq. tauto.
Qed.

Lemma NoDup_map_filter : forall (f : tx -> bool) c, NoDup (map t_id c) -> NoDup (map t_id (filter f c)).
Proof.
  induction c as [|x c IH]; simpl; intros H; auto. inversion H; subst.
  destruct (f x); simpl; auto. constructor; auto.
  intros Q. apply H2. apply in_map_iff in Q. destruct Q as (y & E & Hy).
  apply filter_In in Hy. apply in_map_iff. exists y. tauto.
Qed.

Lemma cache_del_NoDup : forall h c, NoDup (map t_id c) -> NoDup (map t_id (cache_del h c)).
Proof. intros. apply NoDup_map_filter; auto. Qed.

Lemma cache_del_all_In : forall d c t,
  In t (cache_del_all d c) <-> In t c /\ ~ In (t_id t) (map t_id d).
Proof.
  unfold cache_del_all. induction d as [|x d IH]; simpl; intros c t; [tauto|].
  rewrite IH, cache_del_In. intuition.
Qed.

Lemma cache_del_all_NoDup : forall d c, NoDup (map t_id c) -> NoDup (map t_id (cache_del_all d c)).
Proof.
  unfold cache_del_all. induction d as [|x d IH]; simpl; intros c H; auto.
  apply IH. apply cache_del_NoDup; auto.
Qed.

Lemma cache_find_Some : forall h c t, cache_find h c = Some t -> In t c /\ t_id t = h.
Proof.
  induction c as [|x c IH]; simpl; intros t H; [discriminate|].
  destruct (N.eqb_spec (t_id x) h); [inversion H; subst; auto|]. destruct (IH _ H); auto.
Qed.

Lemma cache_find_None : forall h c, cache_find h c = None -> forall t, In t c -> t_id t <> h.
Proof.
  induction c as [|x c IH]; simpl; intros H t Ht; [contradiction|].
  destruct (N.eqb_spec (t_id x) h); [discriminate|]. destruct Ht as [->|Ht]; auto.
Qed.

Lemma NoDup_ids_inj : forall l t t', NoDup (map t_id l) -> In t l -> In t' l -> t_id t = t_id t' -> t = t'.
Proof.
  induction l as [|x l IH]; simpl; intros t t' H H1 H2 E; [contradiction|].
  inversion H as [|? ? Hn Hd]; subst.
  destruct H1 as [->|H1], H2 as [->|H2]; auto.
  - exfalso. apply Hn. rewrite E. apply in_map; auto.
  - exfalso. apply Hn. rewrite <- E. apply in_map; auto.
Qed.

(* ---- replacing one list; put ---- *)

Lemma ins_perm : forall t l, Permutation (ins t l) (t :: l).
Proof.
  induction l as [|x r IH]; simpl; auto.
  destruct (_ <? _)%N; auto.
  eapply perm_trans; [apply perm_skip; exact IH|apply perm_swap].
Qed.

Lemma fresh_list_inv : forall a st, list_inv a (mkTl st [] 0).
Proof. intros. unfold list_inv; simpl. auto. Qed.

Lemma acquire_inv : forall m a, PoolInv (pl m) -> list_inv a (acquire m a).
Proof.
  intros m a I. unfold acquire. destruct (lookup a (lists (pl m))) eqn:E.
  - apply (inv_lists _ I). apply lookup_In; auto. apply (inv_keys _ I).
  - apply fresh_list_inv.
Qed.

Lemma acquire_txs : forall m a, txs (acquire m a) = lget a (lists (pl m)).
Proof. intros. unfold acquire, lget. destruct (lookup a _); auto. Qed.

Lemma acquire_orphans : forall m a, orphans (acquire m a) = lorph a (lists (pl m)).
Proof. intros. unfold acquire, lorph. destruct (lookup a _); auto. Qed.

Lemma acquire_base : forall m a, BaseFresh m -> NoDup (map fst (lists (pl m))) -> base (acquire m a) = cur m a.
Proof.
  intros m a B K. unfold acquire. destruct (lookup a (lists (pl m))) eqn:E; auto.
  apply B. apply lookup_In; auto.
Qed.

Lemma empty_orphans : forall a l, list_inv a l -> txs l = [] -> orphans l = 0%Z.
Proof. intros a [b l r] (S & R & A) E. simpl in *. subst. unfold orphans. simpl in *. subst. lia. Qed.

Lemma lrelease_all_txs : forall a l m, NoDup (map fst m) ->
  Permutation (all_txs (lrelease a l m)) (txs l ++ all_txs (ldel a m)).
Proof.
  intros a l m H. unfold lrelease. destruct (txs l) eqn:E.
  - simpl. auto.
  - cbn [is_nil]. rewrite <- E. apply all_txs_lset; auto.
Qed.

Lemma lrelease_orphans : forall a l m, NoDup (map fst m) -> list_inv a l ->
  sum_orphans (lrelease a l m) = (orphans l + sum_orphans (ldel a m))%Z.
Proof.
  intros a l m H I. unfold lrelease. destruct (txs l) eqn:E.
  - simpl. rewrite (empty_orphans a l I E). lia.
  - cbn [is_nil]. apply sum_orphans_lset; auto.
Qed.

Lemma lrelease_NoDup : forall a l m, NoDup (map fst m) -> NoDup (map fst (lrelease a l m)).
Proof. intros. unfold lrelease. destruct (is_nil _); [apply ldel_NoDup|apply lset_NoDup]; auto. Qed.

Lemma lrelease_In : forall a l m b l1, NoDup (map fst m) -> In (b, l1) (lrelease a l m) ->
  (b = a /\ l1 = l) \/ (b <> a /\ In (b, l1) m).
Proof.
  intros a l m b l1 H. unfold lrelease. destruct (is_nil _).
  - rewrite ldel_In. auto.
  - rewrite lset_In by auto. auto.
Qed.

Lemma rebuild : forall p a l' c' n' o',
  PoolInv p -> list_inv a l' ->
  NoDup (map t_id (txs l' ++ all_txs (ldel a (lists p)))) ->
  NoDup (map t_id c') ->
  (forall t, In t c' <-> In t (txs l' ++ all_txs (ldel a (lists p)))) ->
  n' = Z.of_nat (length (txs l' ++ all_txs (ldel a (lists p)))) ->
  o' = (orphans l' + sum_orphans (ldel a (lists p)))%Z ->
  PoolInv (mkPool (lrelease a l' (lists p)) c' n' o').
Proof.
  intros p a l' c' n' o' I L Hid Hc Hin Hn Ho.
  pose proof (inv_keys _ I) as K.
  pose proof (lrelease_all_txs a l' (lists p) K) as P.
  constructor; simpl.
  - apply lrelease_NoDup; auto.
  - intros b l1 Hb. apply lrelease_In in Hb; auto. destruct Hb as [[-> ->]|[_ Hb]]; auto.
    apply (inv_lists _ I); auto.
  - eapply Permutation_NoDup; [apply Permutation_map; apply Permutation_sym; exact P|auto].
  - auto.
  - intros t. rewrite Hin. split; apply Permutation_in; auto. apply Permutation_sym; auto.
  - subst. rewrite (Permutation_length P). auto.
  - subst. rewrite lrelease_orphans; auto.
Qed.

Lemma decomp_ids : forall p a m, PoolInv (pl m) -> p = pl m ->
  NoDup (map t_id (txs (acquire m a) ++ all_txs (ldel a (lists p)))).
Proof.
  intros p a m I ->. rewrite acquire_txs.
  eapply Permutation_NoDup; [apply Permutation_map; apply all_txs_decomp; apply (inv_keys _ I)|].
  apply (inv_ids _ I).
Qed.

Lemma reacquire_noop : forall m a, PoolInv (pl m) ->
  PoolInv (mkPool (lrelease a (acquire m a) (lists (pl m))) (cache (pl m)) (plen (pl m)) (porphan (pl m))).
Proof.
  intros m a I. pose proof (inv_keys _ I) as K.
  pose proof (all_txs_decomp a _ K) as P.
  apply rebuild; auto.
  - apply acquire_inv; auto.
  - eapply decomp_ids; eauto.
  - apply (inv_cids _ I).
  - intros t. rewrite (inv_cache _ I), acquire_txs.
    split; apply Permutation_in; auto. apply Permutation_sym; auto.
  - rewrite (inv_len _ I), acquire_txs. rewrite (Permutation_length P). auto.
  - rewrite (inv_orphan _ I), acquire_orphans. apply sum_orphans_decomp; auto.
Qed.

Lemma reacquire_all_txs : forall m a, PoolInv (pl m) ->
  Permutation (all_txs (lrelease a (acquire m a) (lists (pl m)))) (all_txs (lists (pl m))).
Proof.
  intros m a I. pose proof (inv_keys _ I) as K.
  eapply perm_trans; [apply lrelease_all_txs; auto|]. rewrite acquire_txs.
  apply Permutation_sym. apply all_txs_decomp; auto.
Qed.

(** a pooled transaction with the id of [t] sits in [t]'s own list with [t]'s nonce *)
Lemma same_id_in_own_list : forall U m t t', idfun U -> PoolInv (pl m) -> pool_in U (pl m) -> U t ->
  In t' (all_txs (lists (pl m))) -> t_id t' = t_id t ->
  In t' (txs (acquire m (t_acc t))) /\ t_nonce t' = t_nonce t.
Proof.
  intros U m t t' HU I PU Ut Hin E.
  assert (Ut' : U t') by (unfold pool_in in PU; rewrite Forall_forall in PU; auto).
  destruct (HU t' t Ut' Ut E) as [Ea En]. split; auto.
  apply all_txs_In in Hin. destruct Hin as (b & l & Hl & Ht).
  destruct (inv_lists _ I _ _ Hl) as (_ & _ & A). rewrite Forall_forall in A.
  specialize (A _ Ht). rewrite Ea in A. subst b.
  unfold acquire. apply lookup_In in Hl; [|apply (inv_keys _ I)]. rewrite Hl. auto.
Qed.

Lemma pool_insert_inv : forall U m t, idfun U -> U t -> PoolInv (pl m) -> pool_in U (pl m) ->
  PoolInv (pl (snd (pool_insert m t))) /\ pool_in U (pl (snd (pool_insert m t))).
Proof.
  intros U m t HU Ut I PU. unfold pool_insert.
  pose proof (inv_keys _ I) as K.
  pose proof (tl_put_spec (t_acc t) (acquire m (t_acc t)) t (acquire_inv m _ I) eq_refl) as Sp.
  destruct (tl_put (acquire m (t_acc t)) t) as [[d l']|e].
  - destruct Sp as (L' & Eb & Et & Ed & Hn & Hb). simpl.
    pose proof (all_txs_decomp (t_acc t) _ K) as P. rewrite <- acquire_txs in P.
    assert (Fresh : ~ In (t_id t) (map t_id (all_txs (lists (pl m))))).
    { intros Q. apply in_map_iff in Q. destruct Q as (t' & E & Hin).
      destruct (same_id_in_own_list U m t t' HU I PU Ut Hin E) as [Q1 Q2]. apply (Hn _ Q1 Q2). }
    assert (P2 : Permutation (txs l' ++ all_txs (ldel (t_acc t) (lists (pl m)))) (t :: all_txs (lists (pl m)))).
    { rewrite Et. eapply perm_trans; [|apply perm_skip; apply Permutation_sym; exact P].
      change (t :: txs (acquire m (t_acc t)) ++ all_txs (ldel (t_acc t) (lists (pl m))))
        with ((t :: txs (acquire m (t_acc t))) ++ all_txs (ldel (t_acc t) (lists (pl m)))).
      apply Permutation_app_tail. apply ins_perm. }
    split.
    + apply rebuild; auto.
      * eapply Permutation_NoDup; [apply Permutation_map; apply Permutation_sym; exact P2|].
        simpl. constructor; auto. apply (inv_ids _ I).
      * unfold cache_store. simpl. constructor.
        -- intros Q. apply in_map_iff in Q. destruct Q as (x & E & Hx). apply cache_del_In in Hx. tauto.
        -- apply cache_del_NoDup. apply (inv_cids _ I).
      * intros x. unfold cache_store. simpl. rewrite cache_del_In, (inv_cache _ I).
        split.
        -- intros [->|[Hx _]]; (eapply Permutation_in; [apply Permutation_sym; exact P2|]); simpl; auto.
        -- intros Hx. apply (Permutation_in _ P2) in Hx. destruct Hx as [->|Hx]; auto.
           right. split; auto. intros E. apply Fresh. rewrite <- E. apply in_map; auto.
      * rewrite (Permutation_length P2). simpl. rewrite (inv_len _ I). lia.
      * rewrite (inv_orphan _ I), (sum_orphans_decomp (t_acc t) _ K), <- acquire_orphans. lia.
    + unfold pool_in in *. simpl.
      eapply Permutation_Forall; [apply Permutation_sym; apply lrelease_all_txs; auto|].
      eapply Permutation_Forall; [apply Permutation_sym; exact P2|]. constructor; auto.
  - simpl. split.
    + apply reacquire_noop; auto.
    + unfold pool_in in *. simpl.
      eapply Permutation_Forall; [apply Permutation_sym; apply reacquire_all_txs; auto|auto].
Qed.

(* ---- removeTx, block arrival, evict, getUnconfirmed, schedules ---- *)

Lemma NoDup_map_app_disjoint : forall (l1 l2 : list tx) t, NoDup (map t_id (l1 ++ l2)) ->
  In t l1 -> ~ In (t_id t) (map t_id l2).
Proof.
  intros l1 l2 t H H1 H2. rewrite map_app in H.
  induction l1 as [|x l1 IH]; simpl in *; [contradiction|]. inversion H; subst.
  destruct H1 as [->|H1]; auto. apply H4. apply in_or_app. auto.
Qed.

Lemma NoDup_app_l : forall (A : Type) (l1 l2 : list A), NoDup (l1 ++ l2) -> NoDup l1.
Proof.
  induction l1 as [|x l1 IH]; simpl; intros l2 H; [constructor|]. inversion H; subst.
  constructor; eauto. intros Q. apply H2. apply in_or_app. auto.
Qed.

Lemma remove_tx_inv : forall U m t, PoolInv (pl m) -> pool_in U (pl m) ->
  PoolInv (pl (snd (remove_tx m t))) /\ pool_in U (pl (snd (remove_tx m t))).
Proof.
  intros U m t I PU. unfold remove_tx, remove_with.
  destruct (cache_find (t_id t) (cache (pl m))) as [c|] eqn:F; [|auto].
  destruct (cache_find_Some _ _ _ F) as [Hc Eh].
  pose proof (inv_keys _ I) as K.
  apply (inv_cache _ I) in Hc.
  assert (Hown : In c (txs (acquire m (t_acc c)))).
  { apply all_txs_In in Hc. destruct Hc as (b & l & Hl & Ht).
    destruct (inv_lists _ I _ _ Hl) as (_ & _ & A). rewrite Forall_forall in A.
    specialize (A _ Ht). subst b. unfold acquire. apply lookup_In in Hl; auto. rewrite Hl. auto. }
  pose proof (tl_remove_spec (t_acc c) (acquire m (t_acc c)) (t_id t) (acquire_inv m _ I)) as Sp.
  destruct (tl_remove (acquire m (t_acc c)) (t_id t)) as [[d [x|]] l'].
  - destruct Sp as (Ex & Px & L' & Eb & Ed). simpl.
    pose proof (all_txs_decomp (t_acc c) _ K) as P. rewrite <- acquire_txs in P.
    assert (P2 : Permutation (all_txs (lists (pl m))) (x :: txs l' ++ all_txs (ldel (t_acc c) (lists (pl m))))).
    { eapply perm_trans; [exact P|].
      change (x :: txs l' ++ all_txs (ldel (t_acc c) (lists (pl m))))
        with ((x :: txs l') ++ all_txs (ldel (t_acc c) (lists (pl m)))).
      apply Permutation_app_tail; auto. }
    assert (ND : NoDup (map t_id (x :: txs l' ++ all_txs (ldel (t_acc c) (lists (pl m)))))).
    { eapply Permutation_NoDup; [apply Permutation_map; exact P2|apply (inv_ids _ I)]. }
    split.
    + apply rebuild; auto.
      * simpl in ND. inversion ND; auto.
      * apply cache_del_NoDup. apply (inv_cids _ I).
      * intros y. rewrite cache_del_In, (inv_cache _ I). split.
        -- intros [Hy Ne]. apply (Permutation_in _ P2) in Hy. destruct Hy as [->|Hy]; [congruence|auto].
        -- intros Hy. split.
           ++ eapply Permutation_in; [apply Permutation_sym; exact P2|]. right; auto.
           ++ simpl in ND. inversion ND; subst. intros E. apply H1. rewrite Ex, <- E. apply in_map; auto.
      * rewrite (inv_len _ I), (Permutation_length P2). simpl length. lia.
      * rewrite (inv_orphan _ I), (sum_orphans_decomp (t_acc c) _ K), <- acquire_orphans. lia.
    + unfold pool_in in *. simpl.
      eapply Permutation_Forall; [apply Permutation_sym; apply lrelease_all_txs; auto|].
      apply (Permutation_Forall P2) in PU. inversion PU; auto.
  - destruct Sp as (_ & _ & Hno). exfalso. apply (Hno c Hown). auto.
Qed.

Lemma filter_all_spec : forall sel st ls d del ls',
  NoDup (map fst ls) -> (forall a l, In (a, l) ls -> list_inv a l) ->
  filter_all sel st ls = (d, del, ls') ->
  NoDup (map fst ls') /\ (forall a, In a (map fst ls') -> In a (map fst ls))
  /\ (forall a l, In (a, l) ls' ->
        list_inv a l /\ ((sel a = true /\ base l = st a) \/ (sel a = false /\ In (a, l) ls)))
  /\ Permutation (all_txs ls) (all_txs ls' ++ del)
  /\ d = (sum_orphans ls - sum_orphans ls')%Z.
Proof.
  induction ls as [|[a l] ls IH]; simpl; intros d del ls' K L E.
  - inversion E; subst. simpl. repeat split; auto; try constructor; try contradiction.
  - inversion K as [|? ? Ka Kr]; subst.
    destruct (filter_all sel st ls) as [[d0 del0] r'] eqn:F.
    destruct (IH _ _ _ Kr (fun a0 l0 H => L a0 l0 (or_intror H)) eq_refl) as (I1 & I2 & I3 & I4 & I5).
    destruct (sel a) eqn:Sa.
    + destruct (tl_filter l (st a)) as [[d1 del1] l'] eqn:T.
      destruct (tl_filter_spec a l (st a) d1 del1 l' (L a l (or_introl eq_refl)) T) as (T1 & T2 & T3 & T4).
      inversion E; subst. clear E.
      assert (PP : Permutation (txs l ++ all_txs ls) ((txs l' ++ all_txs r') ++ del1 ++ del0)).
      { eapply perm_trans; [apply Permutation_app; [exact T3|exact I4]|].
        rewrite <- !app_assoc. apply Permutation_app_head.
        rewrite !app_assoc. apply Permutation_app_tail. apply Permutation_app_comm. }
      destruct (txs l') eqn:El'; cbn [is_nil].
      * split; [auto|]. split; [intros b Hb; right; auto|]. split; [|split].
        -- intros b lb Hb. destruct (I3 b lb Hb) as [Q1 [Q2|[Q2 Q3]]]; split; auto.
        -- simpl in PP. auto.
        -- rewrite (empty_orphans a l' T1 El'). lia.
      * split; [simpl; constructor; auto|]. split; [|split; [|split]].
        -- simpl. intros b [->|Hb]; auto.
        -- intros b lb [Q|Hb].
           ++ inversion Q; subst. split; auto.
           ++ destruct (I3 b lb Hb) as [Q1 [Q2|[Q2 Q3]]]; split; auto.
        -- simpl. rewrite El'. exact PP.
        -- simpl. lia.
    + inversion E; subst. clear E. split; [simpl; constructor; auto|]. split; [|split; [|split]].
      * simpl. intros b [->|Hb]; auto.
      * intros b lb [Q|Hb].
        -- inversion Q; subst. split; auto.
        -- destruct (I3 b lb Hb) as [Q1 [Q2|[Q2 Q3]]]; split; auto.
      * simpl. rewrite <- app_assoc. apply Permutation_app_head; auto.
      * simpl. lia.
Qed.

Lemma set_state_db_pool : forall m b r f m1, set_state_db m b = (r, f, m1) -> pl m1 = pl m.
Proof.
  intros m b r f m1. unfold set_state_db.
  destruct (_ =? _)%N; [intros H; inversion H; auto|].
  destruct (_ =? _)%N; intros H; inversion H; auto.
Qed.

Lemma empty_pool_inv : PoolInv empty_pool.
Proof. constructor; simpl; auto; try constructor; try tauto. Qed.

Lemma scan_result_inv : forall p ls' del d,
  PoolInv p -> NoDup (map fst ls') -> (forall a l, In (a, l) ls' -> list_inv a l) ->
  Permutation (all_txs (lists p)) (all_txs ls' ++ del) ->
  d = (sum_orphans (lists p) - sum_orphans ls')%Z ->
  PoolInv (mkPool ls' (cache_del_all del (cache p)) (plen p - Z.of_nat (length del)) (porphan p - d)).
Proof.
  intros p ls' del d I K L P Ed.
  assert (ND : NoDup (map t_id (all_txs ls' ++ del))).
  { eapply Permutation_NoDup; [apply Permutation_map; exact P|apply (inv_ids _ I)]. }
  constructor; simpl; auto.
  - rewrite map_app in ND. apply NoDup_app_l in ND. auto.
  - apply cache_del_all_NoDup. apply (inv_cids _ I).
  - intros t. rewrite cache_del_all_In, (inv_cache _ I). split.
    + intros [Ht Hn]. apply (Permutation_in _ P) in Ht. apply in_app_or in Ht.
      destruct Ht as [Ht|Ht]; auto. exfalso. apply Hn. apply in_map; auto.
    + intros Ht. split.
      * eapply Permutation_in; [apply Permutation_sym; exact P|]. apply in_or_app; auto.
      * eapply NoDup_map_app_disjoint; eauto.
  - rewrite (inv_len _ I), (Permutation_length P), app_length. lia.
  - rewrite (inv_orphan _ I). lia.
Qed.

Lemma block_arrival_inv : forall U m b, PoolInv (pl m) -> pool_in U (pl m) ->
  PoolInv (pl (block_arrival m b)) /\ pool_in U (pl (block_arrival m b)).
Proof.
  intros U m b I PU. unfold block_arrival.
  destruct (set_state_db m b) as [[reorg fork] m1] eqn:S.
  pose proof (set_state_db_pool _ _ _ _ _ S) as Ep.
  destruct fork; simpl.
  - split; [apply empty_pool_inv|constructor].
  - rewrite Ep.
    destruct (filter_all (fun a => reorg || mem a (b_dirty b)) (cur m1) (lists (pl m))) as [[d del] ls'] eqn:F.
    destruct (filter_all_spec _ _ _ _ _ _ (inv_keys _ I) (inv_lists _ I) F) as (F1 & F2 & F3 & F4 & F5).
    simpl. split.
    + apply scan_result_inv; auto. intros a l H. apply (F3 a l H).
    + unfold pool_in in *. simpl. apply (Permutation_Forall F4) in PU.
      apply Forall_app in PU. tauto.
Qed.

Lemma evict_all_spec : forall sel ls n o del ls',
  NoDup (map fst ls) -> evict_all sel ls = (n, o, del, ls') ->
  NoDup (map fst ls') /\ (forall a, In a (map fst ls') -> In a (map fst ls))
  /\ (forall a l, In (a, l) ls' -> In (a, l) ls)
  /\ Permutation (all_txs ls) (all_txs ls' ++ del)
  /\ n = Z.of_nat (length del) /\ o = (sum_orphans ls - sum_orphans ls')%Z.
Proof.
  induction ls as [|[a l] ls IH]; simpl; intros n o del ls' K E.
  - inversion E; subst. simpl. repeat split; auto; try constructor.
  - inversion K as [|? ? Ka Kr]; subst.
    destruct (evict_all sel ls) as [[[n0 o0] del0] r'] eqn:F.
    destruct (IH _ _ _ _ Kr eq_refl) as (I1 & I0 & I2 & I3 & I4 & I5).
    destruct (sel a); inversion E; subst; clear E.
    + split; auto. split; [intros; right; auto|]. split; [intros; right; auto|]. split; [|split].
      * eapply perm_trans; [apply Permutation_app_head; exact I3|].
        rewrite !app_assoc. apply Permutation_app_tail. apply Permutation_app_comm.
      * rewrite app_length. lia.
      * lia.
    + split; [simpl; constructor; auto|]. split; [|split; [|split; [|split]]].
      * simpl. intros b [->|Hb]; auto.
      * intros b lb [Q|Hb]; [left; auto|right; auto].
      * simpl. rewrite <- app_assoc. apply Permutation_app_head; auto.
      * auto.
      * simpl. lia.
Qed.

Lemma evict_inv : forall U m accs, PoolInv (pl m) -> pool_in U (pl m) ->
  PoolInv (pl (evict m accs)) /\ pool_in U (pl (evict m accs)).
Proof.
  intros U m accs I PU. unfold evict.
  destruct (evict_all (fun a => mem a accs) (lists (pl m))) as [[[n o] del] ls'] eqn:F.
  destruct (evict_all_spec _ _ _ _ _ _ (inv_keys _ I) F) as (F1 & F0 & F2 & F3 & F4 & F5).
  simpl. split.
  - subst n. apply scan_result_inv; auto. intros a l H. apply (inv_lists _ I). auto.
  - unfold pool_in in *. simpl. apply (Permutation_Forall F3) in PU. apply Forall_app in PU. tauto.
Qed.

Lemma add_list_inv : forall m a, PoolInv (pl m) ->
  PoolInv (mkPool (lset a (acquire m a) (lists (pl m))) (cache (pl m)) (plen (pl m)) (porphan (pl m)))
  /\ Permutation (all_txs (lset a (acquire m a) (lists (pl m)))) (all_txs (lists (pl m))).
Proof.
  intros m a I. pose proof (inv_keys _ I) as K.
  assert (P : Permutation (all_txs (lset a (acquire m a) (lists (pl m)))) (all_txs (lists (pl m)))).
  { eapply perm_trans; [apply all_txs_lset; auto|]. rewrite acquire_txs.
    apply Permutation_sym. apply all_txs_decomp; auto. }
  split; auto. constructor; simpl.
  - apply lset_NoDup; auto.
  - intros b l Hb. apply lset_In in Hb; auto. destruct Hb as [[-> ->]|[_ Hb]].
    + apply acquire_inv; auto.
    + apply (inv_lists _ I); auto.
  - eapply Permutation_NoDup; [apply Permutation_map; apply Permutation_sym; exact P|apply (inv_ids _ I)].
  - apply (inv_cids _ I).
  - intros t. rewrite (inv_cache _ I). split; apply Permutation_in; auto. apply Permutation_sym; auto.
  - rewrite (inv_len _ I). rewrite (Permutation_length P). auto.
  - rewrite (inv_orphan _ I), sum_orphans_lset, acquire_orphans; auto.
    apply sum_orphans_decomp; auto.
Qed.

Lemma unconfirmed_inv : forall U accs m, PoolInv (pl m) -> pool_in U (pl m) ->
  PoolInv (pl (snd (unconfirmed m accs))) /\ pool_in U (pl (snd (unconfirmed m accs))).
Proof.
  induction accs as [|a r IH]; simpl; intros m I PU; auto.
  destruct (add_list_inv m a I) as [I1 P1].
  set (m1 := with_pool m (mkPool (lset a (acquire m a) (lists (pl m))) (cache (pl m)) (plen (pl m)) (porphan (pl m)))).
  assert (PU1 : pool_in U (pl m1)).
  { unfold pool_in in *. simpl. eapply Permutation_Forall; [apply Permutation_sym; exact P1|auto]. }
  specialize (IH m1 I1 PU1). destruct (unconfirmed m1 r) as [res m2]. simpl in *. auto.
Qed.

(** Every atomic step preserves the invariant. *)
Theorem step_inv : forall U, idfun U -> forall m s, step_in U s ->
  PoolInv (pl m) -> pool_in U (pl m) ->
  PoolInv (pl (astep_run m s)) /\ pool_in U (pl (astep_run m s)).
Proof.
  intros U HU m s Hs I PU. destruct s; simpl in *; auto.
  - apply pool_insert_inv; auto.
  - apply block_arrival_inv; auto.
  - apply remove_tx_inv; auto.
  - apply evict_inv; auto.
  - apply unconfirmed_inv; auto.
Qed.

Lemma set_nth_Forall : forall (P : thread -> Prop) i x l, P x -> Forall P l -> Forall P (set_nth i x l).
Proof.
  induction i; destruct l; simpl; intros Hx F; auto; inversion F; subst; constructor; auto.
Qed.

Lemma thread_step_in : forall U m th s th', thread_in U th -> thread_step m th = Some (s, th') ->
  step_in U s /\ thread_in U th'.
Proof.
  intros U m [p td] s th' [Hp Ht]. unfold thread_step. simpl in *.
  destruct p as [t|].
  - intros E; inversion E; subst. simpl. split; auto. split; simpl; auto.
  - destruct td as [|o r]; [discriminate|]. inversion Ht; subst.
    destruct o; intros E; inversion E; subst; simpl; split; auto; split; simpl; auto.
    destruct (put_check m t); auto.
Qed.

(** Every interleaving of the atomic steps of any number of threads preserves it. *)
Theorem schedule_inv : forall U, idfun U -> forall sched m ths,
  PoolInv (pl m) -> pool_in U (pl m) -> Forall (thread_in U) ths ->
  PoolInv (pl (fst (run_sched sched m ths))) /\ pool_in U (pl (fst (run_sched sched m ths))).
Proof.
  intros U HU. induction sched as [|i r IH]; simpl; intros m ths I PU T; auto.
  destruct (nth_error ths i) as [th|] eqn:N; [|auto].
  destruct (thread_step m th) as [[s th']|] eqn:S; [|auto].
  assert (Tth : thread_in U th).
  { rewrite Forall_forall in T. apply T. eapply nth_error_In; eauto. }
  destruct (thread_step_in U m th s th' Tth S) as [S1 S2].
  destruct (step_inv U HU m s S1 I PU) as [I' PU'].
  apply IH; auto. apply set_nth_Forall; auto.
Qed.

Lemma pool_put_inv : forall U m t, idfun U -> U t -> PoolInv (pl m) -> pool_in U (pl m) ->
  PoolInv (pl (snd (pool_put m t))) /\ pool_in U (pl (snd (pool_put m t))).
Proof.
  intros U m t HU Ut I PU. unfold pool_put. destruct (put_check m t); simpl; auto.
  apply pool_insert_inv; auto.
Qed.

Theorem sequential_inv : forall U, idfun U -> forall ops m,
  Forall (op_in U) ops -> PoolInv (pl m) -> pool_in U (pl m) ->
  PoolInv (pl (fold_left seq_step ops m)) /\ pool_in U (pl (fold_left seq_step ops m)).
Proof.
  intros U HU. induction ops as [|o r IH]; simpl; intros m F I PU; auto.
  inversion F as [|? ? Ho Fr]; subst.
  assert (H : PoolInv (pl (seq_step m o)) /\ pool_in U (pl (seq_step m o))).
  { destruct o; simpl in *; auto.
    - apply pool_put_inv; auto.
    - apply block_arrival_inv; auto.
    - apply remove_tx_inv; auto.
    - apply evict_inv; auto.
    - apply unconfirmed_inv; auto. }
  destruct H. apply IH; auto.
Qed.

(** C13 proofs, part 3: consequences of [PoolInv] -- no duplicates, exact counters, what a
    producer receives, freshness after a block notification -- the F11 refutation of the
    lookup by Body.Account, and examples showing the hypotheses are satisfiable. *)
From Coq Require Import ZArith NArith List Bool Arith Lia Permutation.
From Verif Require Import Mempool.Model Mempool.ListProofs Mempool.PoolProofs.
Import ListNotations.


(* ---- no duplicates ---- *)
Lemma sorted_same_nonce : forall l b t t', sorted_above b l -> In t l -> In t' l ->
  t_nonce t = t_nonce t' -> t = t'.
Proof.
  induction l as [|x l IH]; simpl; intros b t t' Hs H1 H2 E; [contradiction|].
  destruct Hs as [S1 S2]. pose proof (sorted_above_Forall _ _ S2) as F. rewrite Forall_forall in F.
  destruct H1 as [->|H1], H2 as [->|H2]; auto.
  - specialize (F _ H2). lia.
  - specialize (F _ H1). lia.
  - eapply IH; eauto.
Qed.

Theorem no_duplicates : forall p t t', PoolInv p ->
  In t (all_txs (lists p)) -> In t' (all_txs (lists p)) ->
  t_id t = t_id t' \/ (t_acc t = t_acc t' /\ t_nonce t = t_nonce t') -> t = t'.
Proof.
  intros p t t' I H1 H2 [E|[Ea En]].
  - eapply NoDup_ids_inj; eauto. apply (inv_ids _ I).
  - apply all_txs_In in H1. apply all_txs_In in H2.
    destruct H1 as (a & l & L1 & T1), H2 as (a' & l' & L2 & T2).
    destruct (inv_lists _ I _ _ L1) as (S1 & _ & A1). destruct (inv_lists _ I _ _ L2) as (S2 & _ & A2).
    rewrite Forall_forall in A1, A2. pose proof (A1 _ T1) as Q1. pose proof (A2 _ T2) as Q2.
    assert (Eaa : a' = a) by congruence. rewrite Eaa in *. clear Eaa.
    pose proof (inv_keys _ I) as K.
    apply (lookup_In a _ l K) in L1. apply (lookup_In a _ l' K) in L2. rewrite L1 in L2. inversion L2; subst l'.
    eapply sorted_same_nonce; eauto.
Qed.

(* ---- counters ---- *)
Theorem counters_exact : forall p, PoolInv p ->
  plen p = Z.of_nat (length (cache p))
  /\ plen p = Z.of_nat (length (all_txs (lists p)))
  /\ porphan p = sum_orphans (lists p)
  /\ (forall h, exist p h = true <-> exists t, In t (all_txs (lists p)) /\ t_id t = h).
Proof.
  intros p I. pose proof (inv_len _ I) as L. repeat split; auto.
  - rewrite L. f_equal. apply Permutation_length. apply NoDup_Permutation.
    + eapply NoDup_map_inv. apply (inv_ids _ I).
    + eapply NoDup_map_inv. apply (inv_cids _ I).
    + intros x. symmetry. apply (inv_cache _ I).
  - apply (inv_orphan _ I).
  - unfold exist. destruct (cache_find h (cache p)) eqn:F; [|discriminate].
    intros _. destruct (cache_find_Some _ _ _ F). exists t. split; auto. apply (inv_cache _ I); auto.
  - intros (t & Ht & E). unfold exist. destruct (cache_find h (cache p)) eqn:F; auto.
    exfalso. apply (cache_find_None _ _ F t); auto. apply (inv_cache _ I); auto.
Qed.

(* ---- what a producer receives ---- *)
Lemma firstn_nth_nonce : forall n l i, (i < n)%nat -> nth_nonce (firstn n l) i = nth_nonce l i.
Proof.
  induction n; intros l i H; [lia|]. destruct l; simpl; auto.
  destruct i; unfold nth_nonce; simpl; auto. apply IHn. lia.
Qed.

Lemma In_firstn : forall (A : Type) n (l : list A) x, In x (firstn n l) -> In x l.
Proof.
  induction n; destruct l; simpl; intros x H; auto; try contradiction. destruct H; auto.
Qed.

Theorem get_gap_free : forall p a run, PoolInv p -> In (a, run) (pool_get p) ->
  exists l, In (a, l) (lists p) /\ run = firstn (ready l) (txs l)
    /\ length run = ready l
    /\ (forall i, (i < length run)%nat -> nth_nonce run i = (s_nonce (base l) + 1 + N.of_nat i)%N)
    /\ Forall (fun t => t_acc t = a) run
    /\ ((ready l < length (txs l))%nat ->
        nth_nonce (txs l) (ready l) <> (s_nonce (base l) + 1 + N.of_nat (ready l))%N).
Proof.
  intros p a run I H. unfold pool_get in H. apply in_map_iff in H. destruct H as ([a' l] & E & Hl).
  simpl in E. inversion E; subst. exists l. destruct (inv_lists _ I _ _ Hl) as (S & R & A).
  pose proof (count_ready_le (txs l) (s_nonce (base l))) as Le. rewrite <- R in Le.
  unfold tl_pooled. split; auto. split; auto.
  assert (Len : length (firstn (ready l) (txs l)) = ready l) by (rewrite firstn_length; lia).
  split; auto. split; [|split].
  - intros i Hi. rewrite Len in Hi. rewrite firstn_nth_nonce by auto.
    apply count_ready_prefix. rewrite <- R. auto.
  - rewrite Forall_forall in *. intros t Ht. apply A. eapply In_firstn; eauto.
  - rewrite R. apply count_ready_maximal.
Qed.

(** get as coded (size budget, arbitrary map order [ls] among the pool's lists): every
    account's share is a prefix of its ready run, hence again base+1, base+2, ... *)
Lemma take_fit_prefix : forall size l budget got b stop, take_fit size budget l = (got, b, stop) ->
  exists k, got = firstn k l.
Proof.
  induction l as [|x l IH]; simpl; intros budget got b stop E.
  - inversion E; subst. exists O. auto.
  - destruct (_ <? 0)%Z.
    + inversion E; subst. exists O. auto.
    + destruct (take_fit size (budget - size x) l) as [[g b'] s'] eqn:T. inversion E; subst.
      destruct (IH _ _ _ _ T) as (k & ->). exists (S k). auto.
Qed.

Theorem get_limited_prefix : forall size ls budget a got,
  In (a, got) (get_limited size budget ls) ->
  exists l k, In (a, l) ls /\ got = firstn k (tl_pooled l).
Proof.
  induction ls as [|[a0 l0] ls IH]; simpl; intros budget a got H; [contradiction|].
  destruct (take_fit size budget (tl_pooled l0)) as [[g b] stop] eqn:T.
  destruct (take_fit_prefix _ _ _ _ _ _ T) as (k & Ek).
  destruct stop.
  - destruct H as [H|[]]. inversion H; subst. eauto.
  - destruct H as [H|H]; [inversion H; subst; eauto|].
    destruct (IH _ _ _ H) as (l & k' & Hl & E). eauto.
Qed.

(* ---- after a processed block notification ---- *)
Theorem list_no_stale : forall a l t, list_inv a l -> In t (txs l) -> (s_nonce (base l) < t_nonce t)%N.
Proof.
  intros a l t (S & _ & _) H. pose proof (sorted_above_Forall _ _ S) as F.
  rewrite Forall_forall in F. auto.
Qed.

Definition scanned (m : mstate) (b : block) (a : addr) : bool :=
  let '(reorg, _, _) := set_state_db m b in reorg || mem a (b_dirty b).

Lemma block_arrival_lists : forall m b a l, PoolInv (pl m) ->
  In (a, l) (lists (pl (block_arrival m b))) ->
  list_inv a l
  /\ ((scanned m b a = true /\ base l = cur (block_arrival m b) a)
      \/ (scanned m b a = false /\ In (a, l) (lists (pl m)))).
Proof.
  intros m b a l I. unfold block_arrival, scanned.
  destruct (set_state_db m b) as [[reorg fork] m1] eqn:S.
  pose proof (set_state_db_pool _ _ _ _ _ S) as Ep.
  destruct fork; simpl; [contradiction|]. rewrite Ep.
  destruct (filter_all (fun a => reorg || mem a (b_dirty b)) (cur m1) (lists (pl m))) as [[d del] ls'] eqn:F.
  destruct (filter_all_spec _ _ _ _ _ _ (inv_keys _ I) (inv_lists _ I) F) as (F1 & F2 & F3 & F4 & F5).
  simpl. intros H. apply (F3 a l H).
Qed.

Lemma block_arrival_cur : forall m b, cur (block_arrival m b) = cur (snd (set_state_db m b)).
Proof.
  intros. unfold block_arrival. destruct (set_state_db m b) as [[reorg fork] m1]. simpl.
  destruct fork; simpl; auto.
  destruct (filter_all _ _ _) as [[d del] ls']. auto.
Qed.

(** After the pool has processed a block notification, no pooled transaction of a scanned
    account has a nonce at or below the account's nonce in the pool's new state view --
    whatever the new state is (advance or rewind). *)
Theorem after_notification_no_stale : forall m b a l t, PoolInv (pl m) ->
  In (a, l) (lists (pl (block_arrival m b))) -> In t (txs l) -> scanned m b a = true ->
  (s_nonce (cur (block_arrival m b) a) < t_nonce t)%N.
Proof.
  intros m b a l t I Hl Ht Sc. destruct (block_arrival_lists m b a l I Hl) as [L [[_ E]|[Q _]]].
  - rewrite <- E. eapply list_no_stale; eauto.
  - congruence.
Qed.

(** Accounts the notification does not scan keep their list; it stays free of stale
    entries exactly when the new state's nonce has not passed the list's base nonce. *)
Theorem unscanned_no_stale : forall m b a l t, PoolInv (pl m) ->
  In (a, l) (lists (pl (block_arrival m b))) -> In t (txs l) -> scanned m b a = false ->
  In (a, l) (lists (pl m))
  /\ ((s_nonce (cur (block_arrival m b) a) <= s_nonce (base l))%N ->
      (s_nonce (cur (block_arrival m b) a) < t_nonce t)%N).
Proof.
  intros m b a l t I Hl Ht Sc. destruct (block_arrival_lists m b a l I Hl) as [L [[Q _]|[_ Q]]].
  - congruence.
  - split; auto. intros Le. pose proof (list_no_stale a l t L Ht). lia.
Qed.

(** The best block itself or a child of the best block scans every list (the normal
    case); then every list's base is the new state. *)
Theorem sequential_block_scans_all : forall m b a,
  (b_id b = best m \/ b_parent b = best m) -> scanned m b a = true.
Proof.
  intros m b a H. unfold scanned, set_state_db.
  destruct (N.eqb_spec (b_id b) (best m)) as [E|E]; auto.
  destruct H as [H|H]; [congruence|]. apply N.eqb_eq in H. rewrite H.
  destruct (b_cid b =? cidh m)%N; reflexivity.
Qed.

Theorem full_scan_base_fresh : forall m b, PoolInv (pl m) ->
  (forall a, scanned m b a = true) -> BaseFresh (block_arrival m b).
Proof.
  intros m b I Sc a l Hl. destruct (block_arrival_lists m b a l I Hl) as [L [[_ E]|[Q _]]]; auto.
  rewrite Sc in Q. discriminate.
Qed.

(** With fresh bases the producer's run starts at state nonce + 1. *)
Theorem get_from_state : forall m a run, PoolInv (pl m) -> BaseFresh m ->
  In (a, run) (pool_get (pl m)) ->
  forall i, (i < length run)%nat -> nth_nonce run i = (s_nonce (cur m a) + 1 + N.of_nat i)%N.
Proof.
  intros m a run I B H i Hi. destruct (get_gap_free _ _ _ I H) as (l & Hl & _ & _ & G & _).
  rewrite <- (B _ _ Hl). auto.
Qed.

(** Steps other than block arrival keep the bases fresh. *)
Lemma lrelease_In' : forall a l m b l1, NoDup (map fst m) -> In (b, l1) (lrelease a l m) ->
  (b = a /\ l1 = l) \/ In (b, l1) m.
Proof. intros. apply lrelease_In in H0; auto. tauto. Qed.

Theorem insert_base_fresh : forall m t, PoolInv (pl m) -> BaseFresh m -> BaseFresh (snd (pool_insert m t)).
Proof.
  intros m t I B. pose proof (inv_keys _ I) as K. unfold pool_insert.
  pose proof (tl_put_spec (t_acc t) (acquire m (t_acc t)) t (acquire_inv m _ I) eq_refl) as Sp.
  destruct (tl_put (acquire m (t_acc t)) t) as [[d l']|e]; simpl; intros a l H; simpl in *;
    apply lrelease_In' in H; auto; destruct H as [[-> ->]|H]; auto.
  - destruct Sp as (_ & Eb & _). rewrite Eb. apply acquire_base; auto.
  - apply acquire_base; auto.
Qed.

Theorem remove_base_fresh : forall m t, PoolInv (pl m) -> BaseFresh m -> BaseFresh (snd (remove_tx m t)).
Proof.
  intros m t I B. pose proof (inv_keys _ I) as K. unfold remove_tx, remove_with.
  destruct (cache_find (t_id t) (cache (pl m))) as [c|]; auto.
  pose proof (tl_remove_spec (t_acc c) (acquire m (t_acc c)) (t_id t) (acquire_inv m _ I)) as Sp.
  destruct (tl_remove (acquire m (t_acc c)) (t_id t)) as [[d [x|]] l']; simpl; intros a l H; simpl in *;
    apply lrelease_In' in H; auto; destruct H as [[-> ->]|H]; auto.
  - destruct Sp as (_ & _ & _ & Eb & _). rewrite Eb. apply acquire_base; auto.
  - destruct Sp as (-> & _). apply acquire_base; auto.
Qed.

(* ---- F11: the lookup by Body.Account ---- *)
Definition f11_tx : tx := mkTx 7%N 1%N 100%N 1%N 1%Z.
Definition f11_m0 : mstate := mkM empty_pool (fun _ => mkSt 0%N 100%Z) 1%N 0%N.
Definition f11_m1 : mstate := snd (pool_insert f11_m0 f11_tx).

Lemma f11_m1_inv : PoolInv (pl f11_m1).
Proof.
  apply (pool_insert_inv (fun t => t = f11_tx) f11_m0 f11_tx); auto.
  - intros t t' -> ->. auto.
  - apply empty_pool_inv.
  - constructor.
Qed.

Theorem remove_by_body_account_refuted :
  exists m t, PoolInv (pl m) /\ In t (all_txs (lists (pl m)))
              /\ ~ PoolInv (pl (snd (remove_tx_body m t))).
Proof.
  exists f11_m1, f11_tx. split; [apply f11_m1_inv|]. split; [vm_compute; auto|].
  intros I. pose proof (inv_len _ I) as L. vm_compute in L. discriminate.
Qed.

(** The unrepaired lookup agrees with the repaired one whenever the sender is not a name. *)
Theorem remove_by_body_account_partial : forall m t c,
  cache_find (t_id t) (cache (pl m)) = Some c -> t_body t = t_acc c ->
  remove_tx_body m t = remove_tx m t.
Proof. intros m t c F E. unfold remove_tx_body, remove_tx, remove_with. rewrite F, E. auto. Qed.

(* ---- non-vacuity ---- *)
Definition ex_txs : list tx :=
  [mkTx 1%N 0%N 0%N 1%N 5%Z; mkTx 2%N 0%N 0%N 3%N 5%Z; mkTx 3%N 0%N 0%N 2%N 5%Z; mkTx 4%N 1%N 100%N 1%N 1%Z; mkTx 5%N 0%N 0%N 2%N 7%Z].
Definition ex_m : mstate :=
  fold_left seq_step (map OPut ex_txs) (mkM empty_pool (fun _ => mkSt 0%N 100%Z) 1%N 0%N).

Example ex_pool_view : (plen (pl ex_m), porphan (pl ex_m), length (lists (pl ex_m))) = (4%Z, 0%Z, 2%nat).
Proof. vm_compute. reflexivity. Qed.

Example ex_pool_inv : PoolInv (pl ex_m).
Proof.
  apply (sequential_inv (fun t => In t ex_txs)).
  - intros t t' H H'. simpl in H, H'.
    repeat (destruct H as [<-|H]; [repeat (destruct H' as [<-|H']; [simpl; intros; (discriminate || auto)|]); contradiction|]).
    contradiction.
  - apply Forall_forall. intros o Ho. apply in_map_iff in Ho. destruct Ho as (t & <- & Ht). exact Ht.
  - apply empty_pool_inv.
  - constructor.
Qed.

Example ex_block : let m' := block_arrival ex_m (mkB 2%N 1%N 0%N (fun a => if (a =? 0)%N then mkSt 1%N 95%Z else mkSt 0%N 100%Z) [0%N]) in
  (plen (pl m'), map (fun al => (fst al, s_nonce (base (snd al)), ready (snd al))) (lists (pl m')))
  = (3%Z, [(0%N, 1%N, 2%nat); (1%N, 0%N, 1%nat)]).
Proof. vm_compute. reflexivity. Qed.

Example ex_schedule : PoolInv (pl (fst (run_sched [0;1;0;1;1;0]%nat (mkM empty_pool (fun _ => mkSt 0%N 100%Z) 1%N 0%N)
  [mkTh None [OPut (mkTx 1%N 0%N 0%N 1%N 5%Z); OGet]; mkTh None [OPut (mkTx 1%N 0%N 0%N 1%N 5%Z); OPut (mkTx 2%N 0%N 0%N 2%N 5%Z)]]))).
Proof.
  apply (schedule_inv (fun t => t = mkTx 1%N 0%N 0%N 1%N 5%Z \/ t = mkTx 2%N 0%N 0%N 2%N 5%Z)).
  - intros t t' [->| ->] [->| ->]; simpl; intros; (discriminate || auto).
  - apply empty_pool_inv.
  - constructor.
  - repeat (first [apply Forall_nil | apply Forall_cons]); unfold thread_in; simpl;
    repeat split; auto; repeat (first [apply Forall_nil | apply Forall_cons]); simpl; auto.
Qed.

(* ---- eviction interrupted by its work timeout ---- *)
(** The pass checks the timer once per account: what it has done when the timer expires is the
    complete eviction of some of the old accounts ([done], any sublist of the selected ones).
    Any such partial pass keeps the invariant. *)
Theorem evict_interrupted_inv : forall U m accs k,
  PoolInv (pl m) -> pool_in U (pl m) ->
  PoolInv (pl (evict m (firstn k accs))) /\ pool_in U (pl (evict m (firstn k accs))).
Proof. intros U m accs k I P. apply evict_inv; auto. Qed.

(** A pass that could stop in the middle of one account's list (after [k] of its transactions
    have been taken out of the hash cache and counted down, list still in place) breaks it. *)
Definition evict_midlist (m : mstate) (a : addr) (k : nat) : mstate :=
  let p := pl m in
  match lookup a (lists p) with
  | None => m
  | Some l => with_pool m (mkPool (lists p) (cache_del_all (firstn k (txs l)) (cache p))
                                  (plen p - Z.of_nat (length (firstn k (txs l)))) (porphan p))
  end.

Theorem evict_midlist_refuted :
  exists m a k, PoolInv (pl m) /\ ~ PoolInv (pl (evict_midlist m a k)).
Proof.
  exists ex_m, 0%N, 1%nat. split; [apply ex_pool_inv|].
  intros I. pose proof (inv_len _ I) as L. vm_compute in L. discriminate.
Qed.

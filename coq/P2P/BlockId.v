(** Model of the identifier a received block is filed under:
      types/blockchain.go  Block.BlockHash (returns the sender-supplied Hash field when it
                           is non-empty, otherwise calculateBlockHash = sha256 of the header
                           serialization) and Block.BlockID;
      chain/chainhandle.go ChainService.addBlock (errBlocks negative cache, block store,
                           both keyed by BlockHash()).
    [H] stands for sha256 over the header serialization (a Section variable: every theorem
    holds for every function H).  [valid] stands for addBlockInternal succeeding on the
    block content (header + body), independent of the Hash field.  No proofs here. *)
From Coq Require Import NArith List Bool.
From Verif Require Import Common.Bytes.
Import ListNotations.
Open Scope N_scope.

Record block := mk_block {
  b_hash_field : bytes;     (* types.Block.Hash as received *)
  b_header : bytes          (* serialization of the header (input of the digest) *)
}.

Section BlockId.
Variable H : bytes -> bytes.

(** Block.BlockHash(). *)
Definition block_hash (b : block) : bytes :=
  match b_hash_field b with
  | [] => H (b_header b)
  | h => h
  end.

(** The digest of the block's own header (calculateBlockHash). *)
Definition own_digest (b : block) : bytes := H (b_header b).

Record store := mk_store {
  s_blocks : list (bytes * block);   (* id -> block, newest first *)
  s_err : list bytes                 (* errBlocks keys *)
}.

Definition empty_store : store := mk_store [] [].

Fixpoint lookup (id : bytes) (l : list (bytes * block)) : option block :=
  match l with
  | [] => None
  | (k, b) :: r => if bytes_eqb k id then Some b else lookup id r
  end.

Definition in_err (id : bytes) (st : store) : bool := existsb (bytes_eqb id) (s_err st).

(** The store write of addBlockInternal: the block is filed under BlockHash(). *)
Definition file_under (st : store) (b : block) : store :=
  mk_store ((block_hash b, b) :: s_blocks st) (s_err st).

Inductive add_result := Added | AlreadyConnected | ErrCached | ErrInvalid.

(** ChainService.addBlock: errBlocks.Contains(hashID) -> ErrBlockCachedErrLRU;
    already connected -> nil; addBlockInternal error -> errBlocks.Add(hashID). *)
Definition add_block (valid : block -> bool) (st : store) (b : block) : store * add_result :=
  let id := block_hash b in
  if in_err id st then (st, ErrCached)
  else match lookup id (s_blocks st) with
       | Some _ => (st, AlreadyConnected)
       | None =>
           if valid b then (file_under st b, Added)
           else (mk_store (s_blocks st) (id :: s_err st), ErrInvalid)
       end.

End BlockId.

(** Correspondence: (hash field, observed digest of the header, observed BlockHash()). The
    digest function is instantiated by the observed digest. *)
Definition blockid_case_ok (c : bytes * bytes * bytes) : bool :=
  let '(field, digest, observed) := c in
  bytes_eqb (block_hash (fun _ => digest) (mk_block field [])) observed.

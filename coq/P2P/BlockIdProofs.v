(** Proofs about P2P/BlockId.v: what identifier a received block is filed under (F8). *)
From Coq Require Import NArith List Bool Lia.
From Verif Require Import Common.Bytes P2P.BlockId.
Import ListNotations.
Open Scope N_scope.

Section Proofs.
Variable H : bytes -> bytes.

(** Empty Hash field: BlockHash() is the digest of the block's own header. *)
Theorem block_hash_empty_field : forall b, b_hash_field b = [] -> block_hash H b = own_digest H b.
Proof. intros b E. unfold block_hash, own_digest. rewrite E. reflexivity. Qed.

(** Non-empty Hash field: BlockHash() is that field, whatever the header is. *)
Theorem block_hash_trusts_field : forall b, b_hash_field b <> [] -> block_hash H b = b_hash_field b.
Proof. intros b E. unfold block_hash. destruct (b_hash_field b); [congruence | reflexivity]. Qed.

Lemma lookup_file_under : forall st b, lookup (block_hash H b) (s_blocks (file_under H st b)) = Some b.
Proof. intros. simpl. rewrite bytes_eqb_refl. reflexivity. Qed.

(** Partial: a block received with an empty Hash field that is added is filed under the
    digest of its own header, and found there. *)
Theorem stored_under_own_digest_partial : forall valid st b st',
  b_hash_field b = [] ->
  add_block H valid st b = (st', Added) ->
  lookup (own_digest H b) (s_blocks st') = Some b.
Proof.
  intros valid st b st' E A. unfold add_block in A.
  destruct (in_err (block_hash H b) st); [discriminate|].
  destruct (lookup (block_hash H b) (s_blocks st)); [discriminate|].
  destruct (valid b); [|discriminate].
  inversion A; subst. rewrite <- (block_hash_empty_field b E). apply lookup_file_under.
Qed.

(** In general a block that is added is filed under BlockHash(), i.e. under the supplied
    field when there is one. *)
Theorem stored_under_block_hash : forall valid st b st',
  add_block H valid st b = (st', Added) -> lookup (block_hash H b) (s_blocks st') = Some b.
Proof.
  intros valid st b st' A. unfold add_block in A.
  destruct (in_err (block_hash H b) st); [discriminate|].
  destruct (lookup (block_hash H b) (s_blocks st)); [discriminate|].
  destruct (valid b); [|discriminate].
  inversion A; subst. apply lookup_file_under.
Qed.

(** A forged identifier different from the digest: chosen after H. *)
Definition forged_id (d : bytes) : bytes := 171 :: d.

Lemma forged_id_neq : forall d, forged_id d <> d.
Proof.
  intros d E. apply (f_equal (@length N)) in E. unfold forged_id in E. simpl in E. lia.
Qed.

Definition forged_block (hdr : bytes) : block := mk_block (forged_id (H hdr)) hdr.

(** F8: for every digest function there is a block with a forged, non-empty Hash field
    that is accepted into the empty store and filed under an identifier different from the
    digest of its own header; nothing is filed under its real digest. *)
Theorem stored_under_own_digest_refuted :
  exists b st',
    b_hash_field b <> [] /\
    add_block H (fun _ => true) empty_store b = (st', Added) /\
    block_hash H b <> own_digest H b /\
    lookup (block_hash H b) (s_blocks st') = Some b /\
    lookup (own_digest H b) (s_blocks st') = None.
Proof.
  exists (forged_block []), (file_under H empty_store (forged_block [])).
  assert (N : forged_id (H []) <> H []) by apply forged_id_neq.
  split; [discriminate|]. split; [reflexivity|]. split; [exact N|]. split.
  - apply lookup_file_under.
  - change (lookup (H []) [(forged_id (H []), forged_block [])] = None).
    unfold lookup. rewrite (proj2 (bytes_eqb_neq _ _) N). reflexivity.
Qed.

(** The universally quantified property is false of the model. *)
Theorem stored_under_own_digest_false :
  ~ (forall valid st b st', add_block H valid st b = (st', Added) ->
       lookup (own_digest H b) (s_blocks st') = Some b).
Proof.
  intro P. destruct stored_under_own_digest_refuted as (b & st' & _ & A & _ & _ & L).
  rewrite (P _ _ _ _ A) in L. discriminate.
Qed.

(** F8b: an altered (invalid) block that announces the identifier of a genuine block
    poisons the negative cache: the genuine block, valid and unseen, is then rejected. *)
Theorem forged_poisons_genuine_refuted : forall (genuine : block) (valid : block -> bool),
  b_hash_field genuine = [] -> valid genuine = true ->
  forall altered_header, valid (mk_block (own_digest H genuine) altered_header) = false ->
  own_digest H genuine <> [] ->
  exists st1,
    add_block H valid empty_store (mk_block (own_digest H genuine) altered_header) = (st1, ErrInvalid) /\
    add_block H valid st1 genuine = (st1, ErrCached) /\
    (* whereas without the altered block the genuine one is added *)
    snd (add_block H valid empty_store genuine) = Added.
Proof.
  intros g valid Eg Vg ah Va Hne.
  set (alt := mk_block (own_digest H g) ah).
  assert (Ealt : block_hash H alt = own_digest H g).
  { apply block_hash_trusts_field. exact Hne. }
  assert (Eg' : block_hash H g = own_digest H g) by (apply block_hash_empty_field; exact Eg).
  exists (mk_store [] [own_digest H g]). repeat split.
  - unfold add_block. rewrite Ealt. unfold in_err, empty_store. cbn [existsb s_err s_blocks lookup].
    fold alt in Va. rewrite Va. reflexivity.
  - unfold add_block. rewrite Eg'. unfold in_err. simpl. rewrite bytes_eqb_refl. reflexivity.
  - unfold add_block. rewrite Eg'. unfold in_err, empty_store. cbn [existsb s_err s_blocks lookup].
    rewrite Vg. reflexivity.
Qed.

(** If the Hash field were checked against the digest before use (the repair), poisoning
    and misfiling are impossible: stated as what holds for blocks with a consistent field. *)
Theorem consistent_field_filed_under_digest : forall valid st b st',
  (b_hash_field b = [] \/ b_hash_field b = own_digest H b) ->
  add_block H valid st b = (st', Added) ->
  lookup (own_digest H b) (s_blocks st') = Some b.
Proof.
  intros valid st b st' [E|E] A.
  - eapply stored_under_own_digest_partial; eauto.
  - assert (block_hash H b = own_digest H b).
    { unfold block_hash. destruct (b_hash_field b) eqn:F; [reflexivity | congruence]. }
    rewrite <- H0. eapply stored_under_block_hash; eauto.
Qed.

End Proofs.

(** * Examples *)

Definition ex_H (b : bytes) : bytes := [blen b; 1; 2; 3].

Example ex_empty_field :
  exists st', add_block ex_H (fun _ => true) empty_store (mk_block [] [5;6;7]) = (st', Added) /\
              lookup [3;1;2;3] (s_blocks st') = Some (mk_block [] [5;6;7]).
Proof. eexists. split; reflexivity. Qed.

Example ex_forged :
  block_hash ex_H (mk_block [171;171] [5;6;7]) = [171;171] /\
  own_digest ex_H (mk_block [171;171] [5;6;7]) = [3;1;2;3].
Proof. split; reflexivity. Qed.

Example ex_poison :
  let valid b := bytes_eqb (b_header b) [5;6;7] in
  let genuine := mk_block [] [5;6;7] in
  let altered := mk_block [3;1;2;3] [5;6;8] in
  snd (add_block ex_H valid (fst (add_block ex_H valid empty_store altered)) genuine) = ErrCached.
Proof. reflexivity. Qed.

(** Model of the P2P block receive path:
      p2p/blkreceiver.go   BlocksChunkReceiver.ReceiveResp / handleInWaiting /
                           cancelReceiving / finishReceiver / ignoreMsg
      p2p/syncmanager.go   syncManager.HandleBlockProducedNotice / HandleNewBlockNotice /
                           HandleGetBlockResponse (blkCache = LRU of identifiers)
    Blocks are [P2P.BlockId.block] (sender-supplied Hash field + header bytes).  The receiver
    compares the *Hash field* of each received block with the requested hash at the current
    offset ([bytes.Equal(br.blockHashes[br.offset], block.Hash)]); nothing on this path
    recomputes the digest of the header (F8).  [too_big] stands for
    [block.Size() > chain.MaxBlockSize()].  No proofs here. *)
From Coq Require Import NArith List Bool.
From Verif Require Import Common.Bytes P2P.BlockId.
Import ListNotations.
Open Scope N_scope.

Inductive rstatus := Waiting | Canceled | Finished.

(** types/message/p2pmsg.go error values told to the syncer. *)
Inductive rerr :=
| ERemotePeerFail | EMissingHash | ETooManyBlocks | EUnexpectedBlock | ETooBigBlock | ETooFewBlocks.

(** BlocksChunkReceiver: [r_got] is the filled prefix of br.got (br.offset = its length). *)
Record rstate := mk_rstate {
  r_hashes : list bytes;
  r_got : list block;
  r_status : rstatus
}.

Definition new_receiver (hashes : list bytes) : rstate := mk_rstate hashes [] Waiting.

(** The message body handed to ReceiveResp. *)
Inductive body :=
| BOther (resp_ok : bool)        (* not a *GetBlockResponse; resp_ok = it is a ResponseMessage with status OK *)
| BBlocks (status_ok : bool) (blocks : list block) (has_next : bool).

(** What one call does towards the outside: at most one TellRequest to the syncer
    (GetBlockChunksRsp with Err, or with the blocks), and whether ConsumeRequest is called
    synchronously (finishReceiver). *)
Inductive tell := TellNone | TellErr (e : rerr) | TellBlocks (bs : list block).
Record event := mk_event { ev_tell : tell; ev_consume : bool }.
Definition silent : event := mk_event TellNone false.

Section Recv.
Variable too_big : block -> bool.

(** The "add to Got" loop: [rem] = requested hashes from the current offset on. *)
Fixpoint fill (rem : list bytes) (bs : list block) (got : list block) {struct bs} : list block * option rerr :=
  match bs with
  | [] => (got, None)
  | b :: bs' =>
      match rem with
      | [] => (got, Some ETooManyBlocks)
      | h :: rem' =>
          if negb (bytes_eqb h (b_hash_field b)) then (got, Some EUnexpectedBlock)
          else if too_big b then (got, Some ETooBigBlock)
          else fill rem' bs' (got ++ [b])
      end
  end.

(** cancelReceiving(err, hasNext): status Canceled, tell the error; if no more responses are
    expected it is the same as finishing (ConsumeRequest now), otherwise the request id is
    consumed later by a goroutine. *)
Definition cancel (st : rstate) (got : list block) (e : rerr) (has_next : bool) : rstate * event :=
  (mk_rstate (r_hashes st) got (if has_next then Canceled else Finished),
   mk_event (TellErr e) (negb has_next)).

(** ReceiveResp.  [expired] = br.timeout.Before(time.Now()) at this call. *)
Definition receive_resp (st : rstate) (expired : bool) (bd : body) : rstate * event :=
  match r_status st with
  | Waiting =>
      if expired then (mk_rstate (r_hashes st) (r_got st) Finished, mk_event TellNone true)
      else match bd with
           | BOther ok => cancel st (r_got st) (if ok then EMissingHash else ERemotePeerFail) false
           | BBlocks status_ok blocks has_next =>
               if negb status_ok then cancel st (r_got st) ERemotePeerFail false
               else match blocks with
                    | [] => cancel st (r_got st) EMissingHash false
                    | _ =>
                        let '(got', err) :=
                          fill (skipn (length (r_got st)) (r_hashes st)) blocks (r_got st) in
                        match err with
                        | Some e => cancel st got' e has_next
                        | None =>
                            if has_next then (mk_rstate (r_hashes st) got' Waiting, silent)
                            else if Nat.ltb (length got') (length (r_hashes st))
                            then cancel st got' ETooFewBlocks false
                            else (mk_rstate (r_hashes st) got' Finished,
                                  mk_event (TellBlocks got') true)
                        end
                    end
           end
  | Canceled => (st, silent)       (* ignoreMsg *)
  | Finished => (st, silent)
  end.

(** A whole conversation: the list of events, one per response. *)
Fixpoint run (st : rstate) (inputs : list (bool * body)) : rstate * list event :=
  match inputs with
  | [] => (st, [])
  | (ex, bd) :: r =>
      let '(st1, ev) := receive_resp st ex bd in
      let '(st2, evs) := run st1 r in (st2, ev :: evs)
  end.

Definition tells (evs : list event) : list tell :=
  filter (fun t => match t with TellNone => false | _ => true end) (map ev_tell evs).

(** * syncManager: admission of notices *)

(** blkCache: identifiers, most recently added first, at most [cap] of them
    (lru.ContainsOrAdd does not refresh an entry that is present). *)
Definition cache := list bytes.
Definition cache_has (id : bytes) (c : cache) : bool := existsb (bytes_eqb id) c.
Definition cache_add (cap : nat) (id : bytes) (c : cache) : cache := firstn cap (id :: c).

Inductive decision :=
| APanic                       (* MustParseBlockID on a hash that is not 32 bytes *)
| ADuplicate                   (* cache hit: dropped *)
| ATooBig                      (* dropped after being cached *)
| AForward (b : block)         (* AddBlock sent to the chain service *)
| ARequestBack (id : bytes)    (* GetBlockInfos sent back to the notifier *)
| ANothing.                    (* known block / ignored response *)

Definition hash_len_ok (h : bytes) : bool := Nat.eqb (length h) 32.

(** HandleBlockProducedNotice: the cache key is the block's Hash field. *)
Definition handle_block_produced (cap : nat) (c : cache) (b : block) : cache * decision :=
  let id := b_hash_field b in
  if negb (hash_len_ok id) then (c, APanic)
  else if cache_has id c then (c, ADuplicate)
  else let c' := cache_add cap id c in
       if too_big b then (c', ATooBig) else (c', AForward b).

(** HandleNewBlockNotice: [known] = the chain accessor already has a block under that hash. *)
Definition handle_new_block_notice (cap : nat) (c : cache) (id : bytes) (known : bool) : cache * decision :=
  if negb (hash_len_ok id) then (c, APanic)
  else if cache_has id c then (c, ADuplicate)
  else (cache_add cap id c, if known then ANothing else ARequestBack id).

(** HandleGetBlockResponse (legacy single-block response): no cache, no identifier test. *)
Definition handle_get_block_response (blocks : list block) : decision :=
  match blocks with
  | [b] => if too_big b then ATooBig else AForward b
  | _ => ANothing
  end.

End Recv.

(** * Correspondence helpers *)

Definition status_code (s : rstatus) : N := match s with Waiting => 0 | Canceled => 1 | Finished => 2 end.
Definition err_code (e : rerr) : N :=
  match e with ERemotePeerFail => 1 | EMissingHash => 2 | ETooManyBlocks => 3
             | EUnexpectedBlock => 4 | ETooBigBlock => 5 | ETooFewBlocks => 6 end.

(** A block on the wire for the engines: (hash field, tag); the tag (first header byte) is 1
    for a block above the size limit.  Header = [tag; serial]. *)
Definition wire_too_big (b : block) : bool := match b_header b with 1 :: _ => true | _ => false end.

(** Observation of one step: status after, offset after, tell kind (0 none, 1..6 error,
    7 blocks), headers' serials of the blocks told, synchronous ConsumeRequest (2 = not
    compared). *)
Definition tell_code (t : tell) : N :=
  match t with TellNone => 0 | TellErr e => err_code e | TellBlocks _ => 7 end.
Definition tell_blocks (t : tell) : list block := match t with TellBlocks bs => bs | _ => [] end.

Definition block_eqb (a b : block) : bool :=
  bytes_eqb (b_hash_field a) (b_hash_field b) && bytes_eqb (b_header a) (b_header b).
Fixpoint blocks_eqb (a b : list block) : bool :=
  match a, b with
  | [], [] => true
  | x :: a', y :: b' => block_eqb x y && blocks_eqb a' b'
  | _, _ => false
  end.

Definition step_obs := (N * N * N * list block * N)%type.

Fixpoint steps_ok (st : rstate) (inputs : list (bool * body)) (obs : list step_obs) : bool :=
  match inputs, obs with
  | [], [] => true
  | (ex, bd) :: r, (sc, off, tc, bs, csm) :: o =>
      let '(st1, ev) := receive_resp wire_too_big st ex bd in
      (status_code (r_status st1) =? sc) && (N.of_nat (length (r_got st1)) =? off)
      && (tell_code (ev_tell ev) =? tc) && blocks_eqb (tell_blocks (ev_tell ev)) bs
      && ((csm =? 2) || (csm =? (if ev_consume ev then 1 else 0)))
      && steps_ok st1 r o
  | _, _ => false
  end.

(** (requested hashes, inputs, observations). *)
Definition recv_case_ok (c : list bytes * list (bool * body) * list step_obs) : bool :=
  let '(hashes, inputs, obs) := c in steps_ok (new_receiver hashes) inputs obs.

(** What the engines can observe of a decision: 3 = AddBlock sent to the chain service,
    4 = GetBlockInfos sent back, 9 = panic, 0 = nothing sent (duplicate / too big / ignored);
    the cache length tells duplicates and admissions apart. *)
Definition decision_code (a : decision) : N :=
  match a with APanic => 9 | AForward _ => 3 | ARequestBack _ => 4 | ADuplicate | ATooBig | ANothing => 0 end.

(** syncManager script. *)
Inductive sm_op :=
| OpProduced (b : block) | OpNotice (id : bytes) (known : bool) | OpResponse (bs : list block).

(** Observations: (code, cache length after the call). *)
Fixpoint sm_ok (cap : nat) (c : cache) (ops : list sm_op) (obs : list (N * N)) : bool :=
  match ops, obs with
  | [], [] => true
  | op :: r, (o, clen) :: os =>
      let '(c', a) :=
        match op with
        | OpProduced b => handle_block_produced wire_too_big cap c b
        | OpNotice id known => handle_new_block_notice cap c id known
        | OpResponse bs => (c, handle_get_block_response wire_too_big bs)
        end in
      (decision_code a =? o) && (N.of_nat (length c') =? clen) && sm_ok cap c' r os
  | _, _ => false
  end.

Definition sm_case_ok (c : N * list sm_op * list (N * N)) : bool :=
  let '(cap, ops, obs) := c in sm_ok (N.to_nat cap) [] ops obs.

(** Proofs about P2P/BlockRecv.v (p2p/blkreceiver.go, p2p/syncmanager.go). *)
From Coq Require Import NArith PeanoNat List Bool Lia.
From Verif Require Import Common.Bytes P2P.BlockId P2P.BlockIdProofs P2P.BlockRecv.
Import ListNotations.
Open Scope N_scope.

Section Proofs.
Variable too_big : block -> bool.

(** * The fill loop *)

Lemma fill_spec : forall bs rem got got' err,
  fill too_big rem bs got = (got', err) ->
  exists added,
    got' = got ++ added /\
    map b_hash_field added = firstn (length added) rem /\
    (length added <= length rem)%nat /\
    Forall (fun b => too_big b = false) added /\
    (err = None -> added = bs) /\
    (forall e, err = Some e -> exists b post, bs = added ++ b :: post /\
       ((e = ETooManyBlocks /\ length added = length rem) \/
        (e = EUnexpectedBlock /\ nth_error rem (length added) <> Some (b_hash_field b) /\
           (length added < length rem)%nat) \/
        (e = ETooBigBlock /\ too_big b = true))).
Proof.
  induction bs as [|b bs IH]; intros rem got got' err F; simpl in F.
  - inversion F; subst. exists []. rewrite app_nil_r.
    split; [reflexivity|]. split; [reflexivity|]. split; [simpl; lia|]. split; [constructor|].
    split; [reflexivity | intros e E; discriminate].
  - destruct rem as [|h rem'].
    + inversion F; subst. exists []. rewrite app_nil_r.
      split; [reflexivity|]. split; [reflexivity|]. split; [simpl; lia|]. split; [constructor|].
      split; [intro E; discriminate|].
      intros e E. inversion E; subst. exists b, bs. split; [reflexivity|]. left. split; reflexivity.
    + destruct (bytes_eqb h (b_hash_field b)) eqn:Eh; simpl in F.
      * destruct (too_big b) eqn:Eb.
        -- inversion F; subst. exists []. rewrite app_nil_r.
           split; [reflexivity|]. split; [reflexivity|]. split; [simpl; lia|]. split; [constructor|].
           split; [intro E; discriminate|].
           intros e E. inversion E; subst. exists b, bs. split; [reflexivity|]. right; right. split; [reflexivity | assumption].
        -- apply IH in F as (added & Hg & Hm & Hl & Hf & Hn & He).
           apply bytes_eqb_eq in Eh. exists (b :: added).
           split; [rewrite Hg, <- app_assoc; reflexivity|].
           split; [simpl; rewrite Hm, Eh; reflexivity|].
           split; [simpl; lia|].
           split; [constructor; assumption|].
           split; [intro E; rewrite (Hn E); reflexivity|].
           intros e E. destruct (He e E) as (b0 & post & Hbs & Hc).
           exists b0, post. split; [simpl; rewrite Hbs; reflexivity|].
           destruct Hc as [(E1 & L)|[(E1 & N1 & L)|(E1 & T)]].
           ++ left. split; [assumption | simpl; lia].
           ++ right; left. split; [assumption|]. split; [simpl; assumption | simpl; lia].
           ++ right; right. split; assumption.
      * inversion F; subst. exists []. rewrite app_nil_r.
        split; [reflexivity|]. split; [reflexivity|]. split; [simpl; lia|]. split; [constructor|].
        split; [intro E; discriminate|].
        intros e E. inversion E; subst. exists b, bs. split; [reflexivity|]. right; left.
        split; [reflexivity|]. split; [|simpl; lia]. simpl. intro X. inversion X; subst.
        rewrite bytes_eqb_refl in Eh. discriminate.
Qed.

(** * Invariant: the filled prefix carries exactly the requested identifiers, in order *)

Definition inv (st : rstate) : Prop :=
  map b_hash_field (r_got st) = firstn (length (r_got st)) (r_hashes st) /\
  (length (r_got st) <= length (r_hashes st))%nat /\
  Forall (fun b => too_big b = false) (r_got st).

Lemma inv_new : forall hashes, inv (new_receiver hashes).
Proof. intro. split; [reflexivity|]. split; [simpl; lia | constructor]. Qed.

Lemma firstn_skipn_app : forall (A : Type) (l : list A) n m,
  firstn n l ++ firstn m (skipn n l) = firstn (n + m) l.
Proof.
  intros A l. induction l as [|x l IH]; intros n m.
  - rewrite !firstn_nil, skipn_nil, firstn_nil. reflexivity.
  - destruct n; simpl; [reflexivity|]. rewrite IH. reflexivity.
Qed.

Lemma inv_fill : forall st bs got' err,
  inv st -> fill too_big (skipn (length (r_got st)) (r_hashes st)) bs (r_got st) = (got', err) ->
  map b_hash_field got' = firstn (length got') (r_hashes st) /\
  (length got' <= length (r_hashes st))%nat /\
  Forall (fun b => too_big b = false) got'.
Proof.
  intros st bs got' err (Hm & Hl & Hf) F.
  apply fill_spec in F as (added & Hg & Ha & Hal & Hfa & _). subst got'.
  rewrite skipn_length in Hal. split; [|split].
  - rewrite map_app, Hm, Ha, app_length. apply firstn_skipn_app.
  - rewrite app_length. lia.
  - apply Forall_app. split; assumption.
Qed.

Lemma receive_resp_hashes : forall st ex bd st' ev,
  receive_resp too_big st ex bd = (st', ev) -> r_hashes st' = r_hashes st.
Proof.
  intros st ex bd st' ev R. unfold receive_resp, cancel in R.
  destruct (r_status st); try (inversion R; reflexivity).
  destruct ex; [inversion R; reflexivity|].
  destruct bd as [ok|sok bs hn]; [inversion R; reflexivity|].
  destruct sok; simpl in R; [|inversion R; reflexivity].
  destruct bs as [|b bs]; [inversion R; reflexivity|].
  destruct (fill too_big (skipn (length (r_got st)) (r_hashes st)) (b :: bs) (r_got st)) as [g e].
  destruct e; [inversion R; reflexivity|].
  destruct hn; [inversion R; reflexivity|].
  destruct (Nat.ltb (length g) (length (r_hashes st))); inversion R; reflexivity.
Qed.

Lemma receive_resp_inv : forall st ex bd st' ev,
  inv st -> receive_resp too_big st ex bd = (st', ev) -> inv st'.
Proof.
  intros st ex bd st' ev I R. unfold receive_resp, cancel in R.
  destruct (r_status st) eqn:S; try (inversion R; subst; exact I).
  destruct ex; [inversion R; subst; exact I|].
  destruct bd as [ok|sok bs hn]; [inversion R; subst; exact I|].
  destruct sok; simpl in R; [|inversion R; subst; exact I].
  destruct bs as [|b bs]; [inversion R; subst; exact I|].
  destruct (fill too_big (skipn (length (r_got st)) (r_hashes st)) (b :: bs) (r_got st)) as [g e] eqn:F.
  pose proof (inv_fill st _ _ _ I F) as I'.
  destruct e; [inversion R; subst; exact I'|].
  destruct hn; [inversion R; subst; exact I'|].
  destruct (Nat.ltb (length g) (length (r_hashes st))); inversion R; subst; exact I'.
Qed.

(** * recv_count_bounded: never more blocks kept than requested *)
Theorem recv_count_bounded : forall hashes inputs st evs,
  run too_big (new_receiver hashes) inputs = (st, evs) ->
  (length (r_got st) <= length hashes)%nat /\ r_hashes st = hashes.
Proof.
  intros hashes inputs.
  assert (G : forall st0, inv st0 -> forall st evs, run too_big st0 inputs = (st, evs) ->
              inv st /\ r_hashes st = r_hashes st0).
  { induction inputs as [|[ex bd] r IH]; intros st0 I st evs R; simpl in R.
    - inversion R; subst. auto.
    - destruct (receive_resp too_big st0 ex bd) as [st1 ev] eqn:R1.
      destruct (run too_big st1 r) as [st2 evs2] eqn:R2. inversion R; subst.
      destruct (IH st1 (receive_resp_inv _ _ _ _ _ I R1) _ _ R2) as (I2 & H2).
      split; [assumption|]. rewrite H2. eapply receive_resp_hashes; eauto. }
  intros st evs R. destruct (G _ (inv_new hashes) _ _ R) as ((_ & L & _) & H).
  simpl in H. rewrite H in L. auto.
Qed.

(** * What one step tells *)

Lemma step_tell_blocks : forall st ex bd st' ev bs,
  inv st -> receive_resp too_big st ex bd = (st', ev) -> ev_tell ev = TellBlocks bs ->
  map b_hash_field bs = r_hashes st /\ r_status st = Waiting /\ r_status st' = Finished /\
  Forall (fun b => too_big b = false) bs /\ r_got st' = bs.
Proof.
  intros st ex bd st' ev bs0 I R T. unfold receive_resp, cancel in R.
  destruct (r_status st) eqn:S; try (inversion R; subst; discriminate).
  destruct ex; [inversion R; subst; discriminate|].
  destruct bd as [ok|sok bs hn]; [inversion R; subst; discriminate|].
  destruct sok; simpl in R; [|inversion R; subst; discriminate].
  destruct bs as [|b bs]; [inversion R; subst; discriminate|].
  destruct (fill too_big (skipn (length (r_got st)) (r_hashes st)) (b :: bs) (r_got st)) as [g e] eqn:F.
  pose proof (inv_fill st _ _ _ I F) as (Hm & Hl & Hf).
  destruct e; [inversion R; subst; discriminate|].
  destruct hn; [inversion R; subst; discriminate|].
  destruct (Nat.ltb (length g) (length (r_hashes st))) eqn:L; [inversion R; subst; discriminate|].
  apply Nat.ltb_ge in L. inversion R; subst. simpl in T. inversion T; subst.
  split; [|split; [reflexivity|split; [reflexivity|split; [assumption | reflexivity]]]].
  rewrite Hm. apply firstn_all2. lia.
Qed.

Lemma step_not_waiting_silent : forall st ex bd,
  r_status st <> Waiting -> receive_resp too_big st ex bd = (st, silent).
Proof. intros st ex bd N. unfold receive_resp. destruct (r_status st); congruence. Qed.

Lemma step_tell_ends : forall st ex bd st' ev,
  receive_resp too_big st ex bd = (st', ev) -> ev_tell ev <> TellNone -> r_status st' <> Waiting.
Proof.
  intros st ex bd st' ev R T. unfold receive_resp, cancel in R.
  destruct (r_status st) eqn:S; try (inversion R; subst; simpl in T; congruence).
  destruct ex; [inversion R; subst; simpl in T; congruence|].
  destruct bd as [ok|sok bs hn]; [inversion R; subst; simpl; discriminate|].
  destruct sok; simpl in R; [|inversion R; subst; simpl; discriminate].
  destruct bs as [|b bs]; [inversion R; subst; simpl; discriminate|].
  destruct (fill too_big (skipn (length (r_got st)) (r_hashes st)) (b :: bs) (r_got st)) as [g e].
  destruct e; [inversion R; subst; simpl; destruct hn; discriminate|].
  destruct hn; [inversion R; subst; simpl in T; congruence|].
  destruct (Nat.ltb (length g) (length (r_hashes st))); inversion R; subst; simpl; discriminate.
Qed.

Lemma run_not_waiting_silent : forall inputs st,
  r_status st <> Waiting ->
  run too_big st inputs = (st, map (fun _ => silent) inputs).
Proof.
  induction inputs as [|[ex bd] r IH]; intros st N; simpl; [reflexivity|].
  rewrite (step_not_waiting_silent st ex bd N). rewrite (IH st N). reflexivity.
Qed.

Lemma tells_silent : forall (A : Type) (l : list A), tells (map (fun _ => silent) l) = [].
Proof. induction l; simpl; auto. Qed.

(** The syncer is told at most once per receiver, whatever the peer sends. *)
Theorem recv_tells_at_most_once : forall inputs st st' evs,
  run too_big st inputs = (st', evs) -> (length (tells evs) <= 1)%nat.
Proof.
  induction inputs as [|[ex bd] r IH]; intros st st' evs R; simpl in R.
  - inversion R; subst. simpl. lia.
  - destruct (receive_resp too_big st ex bd) as [st1 ev] eqn:R1.
    destruct (run too_big st1 r) as [st2 evs2] eqn:R2. inversion R; subst.
    unfold tells. simpl. destruct (ev_tell ev) eqn:T.
    + apply (IH _ _ _ R2).
    + assert (N : r_status st1 <> Waiting) by (eapply step_tell_ends; eauto; congruence).
      rewrite (run_not_waiting_silent r st1 N) in R2. inversion R2; subst.
      simpl. fold (tells (map (fun _ : bool * body => silent) r)). rewrite tells_silent. simpl. lia.
    + assert (N : r_status st1 <> Waiting) by (eapply step_tell_ends; eauto; congruence).
      rewrite (run_not_waiting_silent r st1 N) in R2. inversion R2; subst.
      simpl. fold (tells (map (fun _ : bool * body => silent) r)). rewrite tells_silent. simpl. lia.
Qed.

(** * recv_delivers_requested_order *)
(** Whatever sequence of responses arrives: if blocks are handed to the syncer, their Hash
    fields are exactly the requested hashes, in order, none extra, none missing; none of
    them is above the size limit. *)
Theorem recv_delivers_requested_order : forall hashes inputs st evs bs,
  run too_big (new_receiver hashes) inputs = (st, evs) ->
  In (TellBlocks bs) (map ev_tell evs) ->
  map b_hash_field bs = hashes /\ length bs = length hashes /\
  Forall (fun b => too_big b = false) bs /\ r_got st = bs /\ r_status st = Finished.
Proof.
  intros hashes inputs.
  assert (G : forall st0, inv st0 -> forall st evs bs, run too_big st0 inputs = (st, evs) ->
              In (TellBlocks bs) (map ev_tell evs) ->
              map b_hash_field bs = r_hashes st0 /\ Forall (fun b => too_big b = false) bs /\
              r_got st = bs /\ r_status st = Finished).
  { induction inputs as [|[ex bd] r IH]; intros st0 I st evs bs R Hin; simpl in R.
    - inversion R; subst. destruct Hin.
    - destruct (receive_resp too_big st0 ex bd) as [st1 ev] eqn:R1.
      destruct (run too_big st1 r) as [st2 evs2] eqn:R2. inversion R; subst.
      simpl in Hin. destruct Hin as [E|Hin].
      + destruct (step_tell_blocks _ _ _ _ _ _ I R1 E) as (Hm & _ & Hfin & Hf & Hg).
        assert (N : r_status st1 <> Waiting) by congruence.
        rewrite (run_not_waiting_silent r st1 N) in R2. inversion R2; subst. auto.
      + pose proof (receive_resp_inv _ _ _ _ _ I R1) as I1.
        destruct (IH st1 I1 _ _ _ R2 Hin) as (Hm & Hf & Hg & Hs).
        rewrite (receive_resp_hashes _ _ _ _ _ R1) in Hm. auto. }
  intros st evs bs R Hin. destruct (G _ (inv_new hashes) _ _ _ R Hin) as (Hm & Hf & Hg & Hs). simpl in *.
  split; [assumption|]. split; [rewrite <- Hm, map_length; reflexivity|]. auto.
Qed.

Lemma nth_error_skipn' : forall (A : Type) (l : list A) n m,
  nth_error (skipn n l) m = nth_error l (n + m).
Proof.
  intros A l. induction l as [|x l IH]; intros n m.
  - rewrite skipn_nil. destruct m, n; reflexivity.
  - destruct n; simpl; [reflexivity | apply IH].
Qed.

(** * recv_unrequested_rejected *)
(** A chunk whose blocks match the next requested hashes up to a block whose Hash field is
    not the next requested one: the receiver leaves the waiting state, tells the syncer
    "unexpected blocks response", and whatever arrives afterwards produces nothing. *)
Theorem recv_unrequested_rejected : forall st pre b post has_next later,
  r_status st = Waiting ->
  map b_hash_field pre = firstn (length pre) (skipn (length (r_got st)) (r_hashes st)) ->
  (length pre <= length (skipn (length (r_got st)) (r_hashes st)))%nat ->
  Forall (fun x => too_big x = false) pre ->
  (length (r_got st) + length pre < length (r_hashes st))%nat ->
  nth_error (r_hashes st) (length (r_got st) + length pre) <> Some (b_hash_field b) ->
  exists st1,
    receive_resp too_big st false (BBlocks true (pre ++ b :: post) has_next)
      = (st1, mk_event (TellErr EUnexpectedBlock) (negb has_next)) /\
    r_status st1 <> Waiting /\
    run too_big st1 later = (st1, map (fun _ => silent) later).
Proof.
  intros st pre b post hn later W Hm Hl Hf Hlt Hn.
  assert (F : forall pre rem got, map b_hash_field pre = firstn (length pre) rem ->
             (length pre <= length rem)%nat -> Forall (fun x => too_big x = false) pre ->
             nth_error rem (length pre) <> Some (b_hash_field b) -> (length pre < length rem)%nat ->
             fill too_big rem (pre ++ b :: post) got = (got ++ pre, Some EUnexpectedBlock)).
  { clear. induction pre as [|p pre IH]; intros rem got Hm Hl Hf Hn Hlt; simpl.
    - destruct rem as [|h rem]; [simpl in Hlt; lia|]. simpl in Hn.
      destruct (bytes_eqb h (b_hash_field b)) eqn:E.
      + apply bytes_eqb_eq in E. subst. congruence.
      + simpl. rewrite app_nil_r. reflexivity.
    - destruct rem as [|h rem]; [simpl in Hl; lia|]. simpl in Hm. inversion Hm as [[E1 E2]].
      rewrite bytes_eqb_refl. simpl. inversion Hf as [|? ? Hp Hf']; subst. rewrite Hp.
      rewrite (IH rem (got ++ [p])); auto; simpl in *; try lia.
      rewrite <- app_assoc. reflexivity. }
  unfold receive_resp. rewrite W. simpl.
  assert (NE : pre ++ b :: post <> []) by (destruct pre; discriminate).
  destruct (pre ++ b :: post) as [|x xs] eqn:E; [congruence|]. rewrite <- E.
  rewrite (F pre _ (r_got st) Hm Hl Hf).
  - unfold cancel. eexists. split; [reflexivity|]. split.
    + simpl. destruct hn; discriminate.
    + apply run_not_waiting_silent. simpl. destruct hn; discriminate.
  - rewrite nth_error_skipn'. exact Hn.
  - rewrite skipn_length. lia.
Qed.

End Proofs.

(** * F8 on the receive path *)
Section F8.
Variable H : bytes -> bytes.

(** Refuted: "a delivered block's content hashes to the requested identifier".  For every
    digest function there is a request and a response block whose Hash field is the
    requested identifier while its header has another digest; it is delivered. *)
Theorem recv_requested_id_not_content_refuted :
  exists (hashes : list bytes) (b : block),
    run (fun _ => false) (new_receiver hashes) [(false, BBlocks true [b] false)]
      = (mk_rstate hashes [b] Finished, [mk_event (TellBlocks [b]) true]) /\
    map b_hash_field [b] = hashes /\
    map (own_digest H) [b] <> hashes.
Proof.
  exists [forged_id (H [])], (mk_block (forged_id (H [])) []).
  split.
  - unfold run, receive_resp, new_receiver. simpl. rewrite bytes_eqb_refl. reflexivity.
  - split; [reflexivity|]. simpl. unfold own_digest. simpl. intro E. inversion E as [E'].
    symmetry in E'. exact (forged_id_neq (H []) E').
Qed.

(** Partial: when every delivered block carries a Hash field consistent with its header
    (what a check of the field on receipt would guarantee), the delivered contents are the
    requested ones. *)
Theorem recv_requested_id_is_content_partial : forall too_big hashes inputs st evs bs,
  run too_big (new_receiver hashes) inputs = (st, evs) ->
  In (TellBlocks bs) (map ev_tell evs) ->
  Forall (fun b => b_hash_field b = own_digest H b) bs ->
  map (own_digest H) bs = hashes.
Proof.
  intros tb hashes inputs st evs bs R Hin Hc.
  destruct (recv_delivers_requested_order tb hashes inputs st evs bs R Hin) as (Hm & _).
  rewrite <- Hm. clear -Hc. induction Hc; simpl; [reflexivity|]. rewrite H0, IHHc. reflexivity.
Qed.

(** A block whose Hash field is empty is never accepted for a non-empty requested hash. *)
Theorem recv_empty_field_rejected : forall too_big hashes inputs st evs bs,
  run too_big (new_receiver hashes) inputs = (st, evs) ->
  In (TellBlocks bs) (map ev_tell evs) ->
  Forall (fun h => h <> []) hashes -> Forall (fun b => b_hash_field b <> []) bs.
Proof.
  intros tb hashes inputs st evs bs R Hin Hne.
  destruct (recv_delivers_requested_order tb hashes inputs st evs bs R Hin) as (Hm & _).
  rewrite <- Hm in Hne. clear -Hne. induction bs; simpl in *; constructor; inversion Hne; auto.
Qed.

End F8.

(** * syncManager admission *)
Section Admission.
Variable too_big : block -> bool.

Lemma cache_add_has : forall cap id c, (0 < cap)%nat -> cache_has id (cache_add cap id c) = true.
Proof.
  intros cap id c Hc. unfold cache_add, cache_has. destruct cap; [lia|]. simpl.
  rewrite bytes_eqb_refl. reflexivity.
Qed.

(** A block-produced notice that was not refused for its hash length leaves its identifier
    in the cache; the same identifier announced again right after is a duplicate, whatever
    the second block contains. *)
Theorem notice_duplicate_suppressed : forall cap c b c' a b2,
  (0 < cap)%nat ->
  handle_block_produced too_big cap c b = (c', a) -> a <> APanic ->
  b_hash_field b2 = b_hash_field b ->
  handle_block_produced too_big cap c' b2 = (c', ADuplicate) /\
  forall known, handle_new_block_notice cap c' (b_hash_field b) known = (c', ADuplicate).
Proof.
  intros cap c b c' a b2 Hc Hh Ha Hf. unfold handle_block_produced in Hh.
  destruct (hash_len_ok (b_hash_field b)) eqn:L; simpl in Hh; [|inversion Hh; subst; congruence].
  assert (In' : cache_has (b_hash_field b) c' = true).
  { destruct (cache_has (b_hash_field b) c) eqn:E.
    - inversion Hh; subst. assumption.
    - destruct (too_big b); inversion Hh; subst; apply cache_add_has; assumption. }
  split.
  - unfold handle_block_produced. rewrite Hf, L, In'. reflexivity.
  - intro known. unfold handle_new_block_notice. rewrite L, In'. reflexivity.
Qed.

(** Only forwarded once: of two consecutive notices for one identifier at most the first
    reaches the chain service. *)
Theorem notice_forward_at_most_once : forall cap c b c1 a1 b2 c2 a2,
  (0 < cap)%nat ->
  handle_block_produced too_big cap c b = (c1, a1) ->
  b_hash_field b2 = b_hash_field b ->
  handle_block_produced too_big cap c1 b2 = (c2, a2) ->
  forall x, a2 <> AForward x.
Proof.
  intros cap c b c1 a1 b2 c2 a2 Hc H1 Hf H2 x.
  destruct (hash_len_ok (b_hash_field b)) eqn:L.
  - assert (Ha : a1 <> APanic).
    { unfold handle_block_produced in H1. rewrite L in H1. simpl in H1.
      destruct (cache_has (b_hash_field b) c); [inversion H1; discriminate|].
      destruct (too_big b); inversion H1; discriminate. }
    destruct (notice_duplicate_suppressed cap c b c1 a1 b2 Hc H1 Ha Hf) as (D & _).
    rewrite D in H2. inversion H2. discriminate.
  - unfold handle_block_produced in H2. rewrite Hf, L in H2. simpl in H2. inversion H2. discriminate.
Qed.

(** F8 on the notice path (refuted: "what is suppressed as a duplicate is the same block"):
    a block above the size limit (or with any other header) announcing identifier [id] makes
    the genuine block with that identifier be dropped as a duplicate. *)
Theorem notice_forged_id_suppresses_genuine_refuted : forall (genuine : block),
  hash_len_ok (b_hash_field genuine) = true -> too_big genuine = false ->
  forall junk_header,
  let forged := mk_block (b_hash_field genuine) junk_header in
  too_big forged = true ->
  exists c1, handle_block_produced too_big 300 [] forged = (c1, ATooBig) /\
             handle_block_produced too_big 300 c1 genuine = (c1, ADuplicate) /\
             handle_block_produced too_big 300 [] genuine = ([b_hash_field genuine], AForward genuine).
Proof.
  intros g L T jh forged Tf. exists [b_hash_field g]. repeat split.
  - unfold handle_block_produced. simpl. rewrite L. simpl. fold forged. rewrite Tf. reflexivity.
  - unfold handle_block_produced. rewrite L. simpl. rewrite bytes_eqb_refl. reflexivity.
  - unfold handle_block_produced. rewrite L. simpl. rewrite T. reflexivity.
Qed.

(** The legacy single-block response path forwards any one block within the size limit:
    no identifier is compared at all. *)
Theorem get_block_response_forwards_any : forall b,
  too_big b = false -> handle_get_block_response too_big [b] = AForward b.
Proof. intros b T. simpl. rewrite T. reflexivity. Qed.

End Admission.

(** * Examples *)
Definition exb (id tag : N) : block := mk_block [id] [tag; id].
Example ex_recv_two_chunks :
  run wire_too_big (new_receiver [[1];[2];[3]])
      [(false, BBlocks true [exb 1 0] true); (false, BBlocks true [exb 2 0; exb 3 0] false)]
  = (mk_rstate [[1];[2];[3]] [exb 1 0; exb 2 0; exb 3 0] Finished,
     [silent; mk_event (TellBlocks [exb 1 0; exb 2 0; exb 3 0]) true]).
Proof. reflexivity. Qed.
Example ex_recv_reordered :
  snd (run wire_too_big (new_receiver [[1];[2];[3]])
      [(false, BBlocks true [exb 1 0; exb 3 0] true); (false, BBlocks true [exb 2 0] false)])
  = [mk_event (TellErr EUnexpectedBlock) false; silent].
Proof. reflexivity. Qed.
Example ex_recv_too_few :
  snd (run wire_too_big (new_receiver [[1];[2]]) [(false, BBlocks true [exb 1 0] false)])
  = [mk_event (TellErr ETooFewBlocks) true].
Proof. reflexivity. Qed.
Example ex_recv_too_many_too_big :
  snd (run wire_too_big (new_receiver [[1]]) [(false, BBlocks true [exb 1 0; exb 2 0] true)])
  = [mk_event (TellErr ETooManyBlocks) false] /\
  snd (run wire_too_big (new_receiver [[1]]) [(false, BBlocks true [exb 1 1] false)])
  = [mk_event (TellErr ETooBigBlock) true].
Proof. split; reflexivity. Qed.

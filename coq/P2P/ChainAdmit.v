(** Model of the admission of a received block by the chain service, as far as the chain
    identifier is concerned:
      chain/chainhandle.go  ChainService.addBlock / addBlockInternal (already connected;
                            ValidChildOf(bestBlock) BEFORE the orphan test; orphan pool keyed
                            by the parent identifier, first one wins; connect; resolveOrphan:
                            the pooled child of a block just connected is connected in turn,
                            with NO further chain-identifier test)
      types/blockchain.go   Block.ValidChildOf = ChainIdEqualWithoutVersion with the best block
    A block is abstracted to (identifier, parent identifier, height, foreign) where [foreign]
    says that its header chain identifier differs from the local chain's in something else
    than the version.  Since every connected block is of the local chain (the invariant proved
    below), comparing with the best block is comparing with the local chain.
    The position of the test is a parameter, so that the model with the test moved after the
    orphan branch can be stated and refuted.  Forks among blocks of the local chain are outside
    this model (best = highest connected block, first wins at equal height).  No proofs here. *)
From Coq Require Import NArith List Bool.
Import ListNotations.
Open Scope N_scope.

Record cblock := mk_cblock { cb_id : N; cb_parent : N; cb_no : N; cb_foreign : bool }.

Inductive check_pos := CheckBeforeOrphan | CheckAfterOrphan.

Record cstate := mk_cstate {
  cs_connected : list cblock;   (* stored and connected blocks, newest first *)
  cs_best : cblock;             (* best block *)
  cs_orphans : list cblock      (* orphan pool (at most one per parent identifier) *)
}.

Inductive add_outcome := OConnected | OAlready | OInvalidChainId | OOrphaned.

Definition is_connected (id : N) (st : cstate) : bool :=
  existsb (fun b => cb_id b =? id) (cs_connected st).

Definition has_orphan_of (parent : N) (st : cstate) : bool :=
  existsb (fun b => cb_parent b =? parent) (cs_orphans st).

(** connect one block: stored, best if higher than the best. *)
Definition connect1 (st : cstate) (b : cblock) : cstate :=
  mk_cstate (b :: cs_connected st) (if cb_no (cs_best st) <? cb_no b then b else cs_best st) (cs_orphans st).

(** resolveOrphan loop: after connecting [b], the pooled child of [b] (if its height is the
    next one) is connected in turn, and so on; [fuel] bounds the length of the orphan chain. *)
Fixpoint resolve (fuel : nat) (st : cstate) (b : cblock) : cstate :=
  match fuel with
  | O => st
  | S f =>
      match find (fun o => cb_parent o =? cb_id b) (cs_orphans st) with
      | Some o =>
          if cb_no o =? cb_no b + 1 then
            let st1 := mk_cstate (cs_connected st) (cs_best st)
                                 (filter (fun x => negb (cb_parent x =? cb_id b)) (cs_orphans st)) in
            resolve f (connect1 st1 o) o
          else st
      | None => st
      end
  end.

Definition add_block (pos : check_pos) (st : cstate) (b : cblock) : cstate * add_outcome :=
  if is_connected (cb_id b) st then (st, OAlready)
  else
    let pre := match pos with CheckBeforeOrphan => cb_foreign b | CheckAfterOrphan => false end in
    if pre then (st, OInvalidChainId)
    else if negb (is_connected (cb_parent b) st) then
      (if has_orphan_of (cb_parent b) st then st
       else mk_cstate (cs_connected st) (cs_best st) (b :: cs_orphans st), OOrphaned)
    else
      let post := match pos with CheckBeforeOrphan => false | CheckAfterOrphan => cb_foreign b end in
      if post then (st, OInvalidChainId)
      else (resolve (S (length (cs_orphans st))) (connect1 st b) b, OConnected).

Fixpoint run (pos : check_pos) (st : cstate) (bs : list cblock) : cstate :=
  match bs with
  | [] => st
  | b :: r => run pos (fst (add_block pos st b)) r
  end.

(** A node whose blocks are all of the local chain. *)
Definition local_only (st : cstate) : Prop :=
  Forall (fun b => cb_foreign b = false) (cs_connected st) /\ cb_foreign (cs_best st) = false.

(** * Correspondence helpers *)
Definition outcome_code (o : add_outcome) : N :=
  match o with OConnected => 0 | OAlready => 0 | OOrphaned => 0 | OInvalidChainId => 2 end.

Fixpoint ids_subset (a b : list N) : bool :=
  match a with [] => true | x :: r => existsb (N.eqb x) b && ids_subset r b end.
Definition ids_same (a b : list N) : bool := ids_subset a b && ids_subset b a.

(** One scripted arrival: block, observed (error class, best id, stored ids, orphan ids). *)
Fixpoint script_ok (st : cstate) (steps : list (cblock * (N * N * list N * list N))) : bool :=
  match steps with
  | [] => true
  | (b, (cls, best, stored, orph)) :: r =>
      let '(st1, o) := add_block CheckBeforeOrphan st b in
      (outcome_code o =? cls) && (cb_id (cs_best st1) =? best)
      && ids_same (map cb_id (cs_connected st1)) stored
      && ids_same (map cb_id (cs_orphans st1)) orph
      && script_ok st1 r
  end.

(** (initial chain as blocks oldest first, steps). *)
Definition chain_script_ok (c : list cblock * list (cblock * (N * N * list N * list N))) : bool :=
  match rev (fst c) with
  | [] => false
  | tip :: older => script_ok (mk_cstate (tip :: older) tip []) (snd c)
  end.

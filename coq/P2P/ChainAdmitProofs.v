(** Proofs about P2P/ChainAdmit.v: the position of the chain-identifier test. *)
From Coq Require Import NArith List Bool Lia.
From Verif Require Import P2P.ChainAdmit.
Import ListNotations.
Open Scope N_scope.

(** With the test before the orphan branch (the code), the orphan pool never holds a foreign
    block either. *)
Definition clean (st : cstate) : Prop :=
  local_only st /\ Forall (fun b => cb_foreign b = false) (cs_orphans st).

Lemma connect1_clean : forall st b, clean st -> cb_foreign b = false -> clean (connect1 st b).
Proof.
  intros st b ((Hc & Hb) & Ho) Hf. unfold connect1, clean, local_only. simpl.
  split; [split|]; auto. destruct (cb_no (cs_best st) <? cb_no b); assumption.
Qed.

Lemma resolve_clean : forall fuel st b, clean st -> clean (resolve fuel st b).
Proof.
  induction fuel as [|f IH]; intros st b C; simpl; [assumption|].
  destruct (find (fun o => cb_parent o =? cb_id b) (cs_orphans st)) as [o|] eqn:F; [|assumption].
  destruct (cb_no o =? cb_no b + 1); [|assumption].
  apply IH. destruct C as ((Hc & Hb) & Ho).
  assert (Hof : cb_foreign o = false).
  { apply find_some in F as (Hin & _). rewrite Forall_forall in Ho. apply Ho. assumption. }
  apply connect1_clean; [|assumption].
  split; [split; assumption|]. simpl. rewrite Forall_forall in *. intros x Hx.
  apply filter_In in Hx as (Hx & _). apply Ho. assumption.
Qed.

Lemma add_block_clean : forall st b,
  clean st -> clean (fst (add_block CheckBeforeOrphan st b)).
Proof.
  intros st b C. unfold add_block.
  destruct (is_connected (cb_id b) st); [assumption|].
  destruct (cb_foreign b) eqn:Hf; [assumption|].
  destruct (negb (is_connected (cb_parent b) st)).
  - cbn [fst]. destruct (has_orphan_of (cb_parent b) st); [assumption|].
    destruct C as (L & Ho). split; [assumption|]. cbn [cs_orphans]. constructor; assumption.
  - cbn [fst]. apply resolve_clean. apply connect1_clean; assumption.
Qed.

Lemma run_clean : forall bs st, clean st -> clean (run CheckBeforeOrphan st bs).
Proof.
  induction bs as [|b r IH]; intros st C; simpl; [assumption|]. apply IH, add_block_clean, C.
Qed.

(** For every arrival order: starting from a node whose blocks are of the local chain, no
    block of another chain is ever connected (stored on a branch), becomes the best block,
    or waits in the orphan pool. *)
Theorem foreign_chain_block_never_connected : forall st bs,
  local_only st -> cs_orphans st = [] ->
  let st' := run CheckBeforeOrphan st bs in
  Forall (fun b => cb_foreign b = false) (cs_connected st') /\
  cb_foreign (cs_best st') = false /\
  Forall (fun b => cb_foreign b = false) (cs_orphans st').
Proof.
  intros st bs L Ho. assert (C : clean st) by (split; [assumption | rewrite Ho; constructor]).
  destruct (run_clean bs st C) as ((Hc & Hb) & Hor). auto.
Qed.

(** A foreign block is discarded without affecting what the node will later accept: the
    arrival of a block of another chain (not already known) leaves the state unchanged, so the
    final state is the one reached without it. *)
Theorem foreign_block_is_a_no_op : forall st b,
  cb_foreign b = true -> fst (add_block CheckBeforeOrphan st b) = st.
Proof.
  intros st b Hf. unfold add_block. destruct (is_connected (cb_id b) st); [reflexivity|].
  rewrite Hf. reflexivity.
Qed.

Theorem foreign_blocks_do_not_affect_later_acceptance : forall bs st,
  run CheckBeforeOrphan st bs = run CheckBeforeOrphan st (filter (fun b => negb (cb_foreign b)) bs).
Proof.
  induction bs as [|b r IH]; intro st; simpl; [reflexivity|].
  destruct (cb_foreign b) eqn:Hf; simpl.
  - rewrite (foreign_block_is_a_no_op st b Hf). apply IH.
  - apply IH.
Qed.

(** The position matters: with the test after the orphan branch, a foreign block that arrives
    before its parent is pooled, connected when the honest parent arrives and becomes the
    best block; the honest block of that height is then only a side block. *)
Definition h3 := mk_cblock 3 2 3 false.
Definition h4 := mk_cblock 4 3 4 false.
Definition h5 := mk_cblock 5 4 5 false.
Definition f5 := mk_cblock 105 4 5 true.
Definition st3 := mk_cstate [h3] h3 [].

Theorem check_after_orphan_refuted :
  let st' := run CheckAfterOrphan st3 [f5; h4; h5] in
  local_only st3 /\ cb_foreign (cs_best st') = true /\ In f5 (cs_connected st') /\
  (* whereas the code's order keeps the honest chain *)
  cs_best (run CheckBeforeOrphan st3 [f5; h4; h5]) = h5.
Proof.
  vm_compute. repeat split; try reflexivity; auto.
Qed.

(** * Examples *)
Example ex_orphans_resolved :
  let st' := run CheckBeforeOrphan st3 [mk_cblock 6 5 6 false; h5; h4] in
  cb_id (cs_best st') = 6 /\ cs_orphans st' = [].
Proof. vm_compute. split; reflexivity. Qed.
Example ex_foreign_direct_child :
  add_block CheckBeforeOrphan st3 (mk_cblock 104 3 4 true) = (st3, OInvalidChainId).
Proof. reflexivity. Qed.

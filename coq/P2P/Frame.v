(** Model of p2p/v030/v030io.go: the 48-byte message header, WriteMsg and ReadMsg.
    Bytes are [list N]; a stream is the finite list of bytes the peer will ever deliver
    (its end is EOF / connection close).  No proofs here.

    Header layout (marshalHeader / parseHeader):
      [0,4)   big-endian uint32  sub-protocol
      [4,8)   big-endian uint32  payload length
      [8,16)  big-endian uint64  timestamp (bit pattern of the int64)
      [16,32) message id, [32,48) original id. *)
From Coq Require Import NArith List Bool.
From Verif Require Import Common.Bytes.
Import ListNotations.
Open Scope N_scope.

Definition header_len : N := 48.
Definition id_len : N := 16.

(** p2pcommon.MessageValue.  [m_length] is the separate [length] field (WriteMsg checks it
    against len(payload)); [m_ts] is the uint64 bit pattern of the int64 timestamp. *)
Record msg := mk_msg {
  m_proto : N;
  m_length : N;
  m_ts : N;
  m_id : bytes;
  m_orig : bytes;
  m_payload : bytes
}.

(** marshalHeader: copy(writeBuf[16:32], id[:]) etc.; ids are [16]byte in Go. *)
Definition marshal_header (m : msg) : bytes :=
  be_bytes 4 (m_proto m) ++ be_bytes 4 (m_length m) ++ be_bytes 8 (m_ts m) ++ m_id m ++ m_orig m.

(** WriteMsg into a buffer that accepts everything: None = one of the two error returns
    ("Invalid payload size", "too big payload"); nothing is written in that case. *)
Definition write_msg (max : N) (m : msg) : option bytes :=
  if negb (m_length m =? blen (m_payload m)) then None
  else if max <? m_length m then None
  else Some (marshal_header m ++ m_payload m).

(** buf[a:b] of a slice. *)
Definition sub (a b : N) (l : bytes) : bytes := take (b - a) (drop a l).

(** p2pcommon.ParseBytesToMsgID / MustParseBytes: panics unless exactly 16 bytes. *)
Definition must_parse_id (b : bytes) : option bytes :=
  if blen b =? id_len then Some b else None.

(** parseHeader on the 48-byte read buffer: message without payload, and the body length.
    None = MustParseBytes panicked. *)
Definition parse_header (buf : bytes) : option (msg * N) :=
  let proto := be_decode (sub 0 4 buf) in
  let len := be_decode (sub 4 8 buf) in
  let ts := be_decode (sub 8 16 buf) in
  match must_parse_id (sub 16 32 buf), must_parse_id (sub 32 48 buf) with
  | Some mid, Some oid => Some (mk_msg proto 0 ts mid oid [], len)
  | _, _ => None
  end.

(** MessageValue.SetPayload: payload and length. *)
Definition set_payload (m : msg) (p : bytes) : msg :=
  mk_msg (m_proto m) (blen p) (m_ts m) (m_id m) (m_orig m) p.

Inductive outcome :=
| ROk (m : msg) (rest : bytes)   (* message and the unread remainder of the stream *)
| RErrHeader                     (* io error / "invalid msgHeader": fewer than 48 bytes *)
| RErrTooBig                     (* "too big payload" *)
| RErrPayload                    (* "failed to read paylod ..." : stream ended inside the payload *)
| RPanic.                        (* a run-time panic (MustParseBytes) *)

(** [alloc]: size passed to make([]byte, bodyLen), 0 when make is not reached. *)
Record read_result := mk_rr { outcome_of : outcome; alloc : N }.

(** ReadMsg.  Order as in the code: fill the header buffer; parseHeader; compare the
    length with the maximum; only then make([]byte, bodyLen); fill the payload. *)
Definition read_msg (max : N) (s : bytes) : read_result :=
  let hdr := take header_len s in
  if blen hdr <? header_len then mk_rr RErrHeader 0
  else match parse_header hdr with
       | None => mk_rr RPanic 0
       | Some (m, body_len) =>
           if max <? body_len then mk_rr RErrTooBig 0
           else
             let after := drop header_len s in
             let payload := take body_len after in      (* make + readToLen *)
             if blen payload <? body_len then mk_rr RErrPayload body_len
             else mk_rr (ROk (set_payload m payload) (drop body_len after)) body_len
       end.

(** Reading a sequence of messages until the first error (a peer's read loop). *)
Fixpoint read_all (fuel : nat) (max : N) (s : bytes) : list msg * outcome :=
  match fuel with
  | O => ([], RErrHeader)
  | S f =>
      match outcome_of (read_msg max s) with
      | ROk m rest => let '(ms, e) := read_all f max rest in (m :: ms, e)
      | e => ([], e)
      end
  end.

Definition msg_wf (max : N) (m : msg) : Prop :=
  m_proto m < 2 ^ 32 /\ m_ts m < 2 ^ 64 /\
  blen (m_id m) = id_len /\ blen (m_orig m) = id_len /\
  m_length m = blen (m_payload m) /\ m_length m <= max /\ m_length m < 2 ^ 32.

(** * Correspondence helpers (evaluated by vm_compute on observed cases) *)

Definition msg_eqb (a b : msg) : bool :=
  (m_proto a =? m_proto b) && (m_length a =? m_length b) && (m_ts a =? m_ts b)
  && bytes_eqb (m_id a) (m_id b) && bytes_eqb (m_orig a) (m_orig b)
  && bytes_eqb (m_payload a) (m_payload b).

(** Observed write: (max, msg fields, observed bytes or None on error). *)
Definition write_case_ok (c : N * msg * option bytes) : bool :=
  let '(max, m, o) := c in
  match write_msg max m, o with
  | Some bs, Some obs => bytes_eqb bs obs
  | None, None => true
  | _, _ => false
  end.

(** Observed outcome class: 0 ok, 1 header error, 2 too big, 3 payload error, 4 panic. *)
Definition outcome_class (o : outcome) : N :=
  match o with ROk _ _ => 0 | RErrHeader => 1 | RErrTooBig => 2 | RErrPayload => 3 | RPanic => 4 end.

(** Observed read: (max, stream, class, decoded msg (dummy when not ok), rest). *)
Definition read_case_ok (c : N * bytes * N * msg * bytes) : bool :=
  let '(max, s, cls, m, rest) := c in
  let r := read_msg max s in
  (outcome_class (outcome_of r) =? cls) &&
  match outcome_of r with
  | ROk m' rest' => msg_eqb m' m && bytes_eqb rest' rest
  | _ => true
  end.

(** Model allocation for a stream (compared tolerantly with the measured heap delta). *)
Definition read_alloc (max : N) (s : bytes) : N := alloc (read_msg max s).

(** Header-only form used for large frames (the payload is not shipped to Coq): class and
    allocation given the 48 header bytes and the number of bytes available after them. *)
Definition read_hdr_class (max : N) (hdr : bytes) (avail : N) : N * N :=
  if blen hdr <? header_len then (1, 0)
  else match parse_header hdr with
       | None => (4, 0)
       | Some (_, body_len) =>
           if max <? body_len then (2, 0)
           else if avail <? body_len then (3, body_len) else (0, body_len)
       end.

(** Proofs about the framing model P2P/Frame.v (p2p/v030/v030io.go). *)
From Coq Require Import NArith PeanoNat List Bool Lia.
From Verif Require Import Common.Bytes P2P.Frame.
Import ListNotations.
Open Scope N_scope.

(** * Slicing lemmas *)

Lemma blen_take : forall n l, blen (take n l) = N.min n (blen l).
Proof.
  intros. unfold blen, take. rewrite firstn_length. lia.
Qed.

Lemma blen_drop : forall n l, blen (drop n l) = blen l - n.
Proof.
  intros. unfold blen, drop. rewrite skipn_length. lia.
Qed.

Lemma blen_sub : forall a b l, b <= blen l -> blen (sub a b l) = b - a.
Proof.
  intros a b l Hb. unfold sub. rewrite blen_take, blen_drop. lia.
Qed.

Lemma sub_app : forall a b pre x post,
  blen pre = a -> blen x = b - a -> sub a b (pre ++ x ++ post) = x.
Proof.
  intros a b pre x post Hp Hx. unfold sub.
  rewrite (drop_app_exact a pre (x ++ post) Hp).
  apply take_app_exact. assumption.
Qed.

Lemma take_all : forall n l, blen l <= n -> take n l = l.
Proof.
  intros n l Hl. unfold take. apply firstn_all2. unfold blen in Hl. lia.
Qed.

Lemma take_take_prefix : forall n p q, n <= blen p -> take n (p ++ q) = take n p.
Proof.
  intros n p q Hn. unfold take. rewrite firstn_app.
  replace (N.to_nat n - length p)%nat with 0%nat by (unfold blen in Hn; lia).
  simpl. apply app_nil_r.
Qed.

(** * Header codec *)

Lemma marshal_header_len : forall m,
  blen (m_id m) = id_len -> blen (m_orig m) = id_len -> blen (marshal_header m) = header_len.
Proof.
  intros m Hi Ho. unfold marshal_header. rewrite !blen_app, !blen_be_bytes, Hi, Ho.
  reflexivity.
Qed.

Lemma parse_marshal_header : forall m,
  m_proto m < 2 ^ 32 -> m_length m < 2 ^ 32 -> m_ts m < 2 ^ 64 ->
  blen (m_id m) = id_len -> blen (m_orig m) = id_len ->
  parse_header (marshal_header m) =
    Some (mk_msg (m_proto m) 0 (m_ts m) (m_id m) (m_orig m) [], m_length m).
Proof.
  intros m Hp Hl Ht Hi Ho. unfold parse_header, marshal_header.
  set (A := be_bytes 4 (m_proto m)). set (B := be_bytes 4 (m_length m)).
  set (C := be_bytes 8 (m_ts m)).
  assert (LA : blen A = 4) by (unfold A; rewrite blen_be_bytes; reflexivity).
  assert (LB : blen B = 4) by (unfold B; rewrite blen_be_bytes; reflexivity).
  assert (LC : blen C = 8) by (unfold C; rewrite blen_be_bytes; reflexivity).
  unfold id_len in *.
  assert (E1 : sub 0 4 (A ++ B ++ C ++ m_id m ++ m_orig m) = A).
  { apply (sub_app 0 4 [] A); [reflexivity | rewrite LA; reflexivity]. }
  assert (E2 : sub 4 8 (A ++ B ++ C ++ m_id m ++ m_orig m) = B).
  { apply (sub_app 4 8 A B); [assumption | rewrite LB; reflexivity]. }
  assert (E3 : sub 8 16 (A ++ B ++ C ++ m_id m ++ m_orig m) = C).
  { replace (A ++ B ++ C ++ m_id m ++ m_orig m) with ((A ++ B) ++ C ++ m_id m ++ m_orig m)
      by (rewrite <- app_assoc; reflexivity).
    apply sub_app; [rewrite blen_app, LA, LB; reflexivity | rewrite LC; reflexivity]. }
  assert (E4 : sub 16 32 (A ++ B ++ C ++ m_id m ++ m_orig m) = m_id m).
  { replace (A ++ B ++ C ++ m_id m ++ m_orig m) with ((A ++ B ++ C) ++ m_id m ++ m_orig m)
      by (rewrite <- !app_assoc; reflexivity).
    apply sub_app; [rewrite !blen_app, LA, LB, LC; reflexivity | rewrite Hi; reflexivity]. }
  assert (E5 : sub 32 48 (A ++ B ++ C ++ m_id m ++ m_orig m) = m_orig m).
  { replace (A ++ B ++ C ++ m_id m ++ m_orig m) with ((A ++ B ++ C ++ m_id m) ++ m_orig m ++ [])
      by (rewrite <- !app_assoc, app_nil_r; reflexivity).
    apply sub_app; [rewrite !blen_app, LA, LB, LC, Hi; reflexivity | rewrite Ho; reflexivity]. }
  rewrite E1, E2, E3, E4, E5. unfold must_parse_id, id_len. rewrite Hi, Ho. simpl.
  unfold A, B, C. rewrite !be_decode_be_bytes by assumption. reflexivity.
Qed.

(** * Round trip *)

Lemma write_msg_wf : forall max m, msg_wf max m ->
  write_msg max m = Some (marshal_header m ++ m_payload m).
Proof.
  intros max m (Hp & Ht & Hi & Ho & Hl & Hm & Hl32). unfold write_msg.
  rewrite Hl, N.eqb_refl. simpl. rewrite <- Hl.
  destruct (max <? m_length m) eqn:E; [apply N.ltb_lt in E; lia | reflexivity].
Qed.

Lemma set_payload_wf : forall max m, msg_wf max m ->
  set_payload (mk_msg (m_proto m) 0 (m_ts m) (m_id m) (m_orig m) []) (m_payload m) = m.
Proof.
  intros max m (Hp & Ht & Hi & Ho & Hl & Hm & Hl32). unfold set_payload. simpl.
  rewrite <- Hl. destruct m; reflexivity.
Qed.

Theorem read_write_roundtrip : forall max m rest,
  msg_wf max m ->
  exists bs, write_msg max m = Some bs /\
             read_msg max (bs ++ rest) = mk_rr (ROk m rest) (blen (m_payload m)).
Proof.
  intros max m rest W. exists (marshal_header m ++ m_payload m).
  split; [apply write_msg_wf; assumption|].
  pose proof W as (Hp & Ht & Hi & Ho & Hl & Hm & Hl32).
  unfold read_msg. rewrite <- !app_assoc.
  rewrite (take_app_exact header_len (marshal_header m)) by (apply marshal_header_len; assumption).
  rewrite marshal_header_len by assumption. rewrite N.ltb_irrefl.
  rewrite parse_marshal_header by assumption.
  destruct (max <? m_length m) eqn:E; [apply N.ltb_lt in E; lia|].
  rewrite (drop_app_exact header_len (marshal_header m)) by (apply marshal_header_len; assumption).
  rewrite (take_app_exact (m_length m) (m_payload m) rest) by (symmetry; assumption).
  rewrite (drop_app_exact (m_length m) (m_payload m) rest) by (symmetry; assumption).
  rewrite <- Hl, N.ltb_irrefl. rewrite (set_payload_wf max) by assumption. reflexivity.
Qed.

(** * Allocation bound *)

Theorem read_alloc_bounded : forall max s, alloc (read_msg max s) <= max.
Proof.
  intros max s. unfold read_msg.
  destruct (blen (take header_len s) <? header_len); simpl; [lia|].
  destruct (parse_header (take header_len s)) as [[m bl]|]; simpl; [|lia].
  destruct (max <? bl) eqn:E; simpl; [lia|]. apply N.ltb_ge in E.
  destruct (blen (take bl (drop header_len s)) <? bl); simpl; assumption.
Qed.

(** * Totality *)

Lemma parse_header_total : forall buf, blen buf = header_len -> parse_header buf <> None.
Proof.
  intros buf Hb. unfold parse_header, must_parse_id.
  rewrite !blen_sub by (rewrite Hb; unfold header_len; lia).
  simpl. discriminate.
Qed.

Theorem read_total : forall max s, outcome_of (read_msg max s) <> RPanic.
Proof.
  intros max s. unfold read_msg.
  destruct (blen (take header_len s) <? header_len) eqn:E; simpl; [discriminate|].
  apply N.ltb_ge in E.
  assert (Hb : blen (take header_len s) = header_len) by (rewrite blen_take in *; lia).
  destruct (parse_header (take header_len s)) as [[m bl]|] eqn:P.
  - destruct (max <? bl); simpl; [discriminate|].
    destruct (blen (take bl (drop header_len s)) <? bl); simpl; discriminate.
  - exfalso. eapply parse_header_total; eauto.
Qed.

(** The outcome is an error exactly in three named ways; success returns a payload of
    the announced length, at most [max], and consumes exactly header + payload. *)
Theorem read_ok_shape : forall max s m rest a,
  read_msg max s = mk_rr (ROk m rest) a ->
  a = blen (m_payload m) /\ m_length m = a /\ a <= max /\
  s = take header_len s ++ m_payload m ++ rest /\ blen (take header_len s) = header_len.
Proof.
  intros max s m rest a. unfold read_msg.
  destruct (blen (take header_len s) <? header_len) eqn:E; [discriminate|].
  apply N.ltb_ge in E.
  destruct (parse_header (take header_len s)) as [[m0 bl]|]; [|discriminate].
  destruct (max <? bl) eqn:E2; [discriminate|]. apply N.ltb_ge in E2.
  destruct (blen (take bl (drop header_len s)) <? bl) eqn:E3; [discriminate|].
  apply N.ltb_ge in E3. intro R. inversion R; subst. simpl.
  assert (L : blen (take a (drop header_len s)) = a).
  { rewrite blen_take in *. lia. }
  repeat split; auto.
  - rewrite take_drop. symmetry. apply take_drop.
  - rewrite blen_take in *. lia.
Qed.

(** * Truncation *)

Theorem read_truncated_clean : forall max m bs p q,
  msg_wf max m -> write_msg max m = Some bs -> bs = p ++ q -> q <> [] ->
  (blen p < header_len /\ read_msg max p = mk_rr RErrHeader 0) \/
  (header_len <= blen p /\ read_msg max p = mk_rr RErrPayload (m_length m)).
Proof.
  intros max m bs p q W Hw Hs Hq.
  assert (Hbs : bs = marshal_header m ++ m_payload m)
    by (rewrite (write_msg_wf max m W) in Hw; congruence).
  clear Hw. rewrite Hbs in Hs. clear Hbs bs.
  pose proof W as (Hp & Ht & Hi & Ho & Hl & Hm & Hl32).
  pose proof (marshal_header_len m Hi Ho) as HL.
  destruct (blen p <? header_len) eqn:E.
  - left. apply N.ltb_lt in E. split; [assumption|].
    unfold read_msg. rewrite blen_take.
    replace (N.min header_len (blen p) <? header_len) with true
      by (symmetry; apply N.ltb_lt; lia).
    reflexivity.
  - right. apply N.ltb_ge in E. split; [assumption|].
    assert (Hh : take header_len p = marshal_header m).
    { rewrite <- (take_take_prefix header_len p q E), <- Hs.
      apply take_app_exact. assumption. }
    assert (Hlen : blen p + blen q = header_len + m_length m).
    { rewrite <- blen_app, <- Hs, blen_app, HL, Hl. reflexivity. }
    assert (Hq' : 0 < blen q).
    { destruct q; [congruence|]. unfold blen. simpl. lia. }
    unfold read_msg. rewrite Hh, HL, N.ltb_irrefl.
    rewrite parse_marshal_header by assumption.
    destruct (max <? m_length m) eqn:E2; [apply N.ltb_lt in E2; lia|].
    rewrite blen_take, blen_drop.
    replace (N.min (m_length m) (blen p - header_len) <? m_length m) with true
      by (symmetry; apply N.ltb_lt; lia).
    reflexivity.
Qed.

(** * Oversized frames *)

Theorem read_oversize_clean : forall max s,
  header_len <= blen s -> max < be_decode (sub 4 8 (take header_len s)) ->
  read_msg max s = mk_rr RErrTooBig 0.
Proof.
  intros max s Hs Hbig. unfold read_msg.
  assert (Hb : blen (take header_len s) = header_len) by (rewrite blen_take; lia).
  rewrite Hb, N.ltb_irrefl.
  destruct (parse_header (take header_len s)) as [[m bl]|] eqn:P.
  - assert (bl = be_decode (sub 4 8 (take header_len s))).
    { unfold parse_header in P.
      destruct (must_parse_id (sub 16 32 (take header_len s))); [|discriminate].
      destruct (must_parse_id (sub 32 48 (take header_len s))); [|discriminate].
      inversion P. reflexivity. }
    subst bl. apply N.ltb_lt in Hbig. rewrite Hbig. reflexivity.
  - exfalso. eapply parse_header_total; eauto.
Qed.

(** Short streams: fewer than 48 bytes is a header error. *)
Theorem read_short_header : forall max s, blen s < header_len -> read_msg max s = mk_rr RErrHeader 0.
Proof.
  intros max s Hs. unfold read_msg. rewrite blen_take.
  replace (N.min header_len (blen s) <? header_len) with true by (symmetry; apply N.ltb_lt; lia).
  reflexivity.
Qed.

(** Two written frames are equal only for equal messages (the framing is injective on
    well-formed messages): a corollary of the round trip. *)
Theorem write_msg_injective : forall max m1 m2 bs,
  msg_wf max m1 -> msg_wf max m2 -> write_msg max m1 = Some bs -> write_msg max m2 = Some bs -> m1 = m2.
Proof.
  intros max m1 m2 bs W1 W2 H1 H2.
  destruct (read_write_roundtrip max m1 [] W1) as (b1 & Hb1 & R1).
  destruct (read_write_roundtrip max m2 [] W2) as (b2 & Hb2 & R2).
  rewrite H1 in Hb1. rewrite H2 in Hb2. inversion Hb1; inversion Hb2; subst.
  rewrite R1 in R2. inversion R2. reflexivity.
Qed.

(** A stream of written frames is read back message by message. *)
Theorem read_all_roundtrip : forall max ms,
  Forall (msg_wf max) ms ->
  exists bs, fold_right (fun m acc => match write_msg max m, acc with
                                      | Some b, Some r => Some (b ++ r) | _, _ => None end)
                        (Some []) ms = Some bs /\
             read_all (S (length ms)) max bs = (ms, RErrHeader).
Proof.
  intros max ms. induction ms as [|m ms IH]; intro F.
  - exists []. split; reflexivity.
  - inversion F as [|? ? W F']; subst. destruct (IH F') as (bs & Hbs & Hr).
    destruct (read_write_roundtrip max m bs W) as (b & Hb & R).
    exists (b ++ bs). split.
    + simpl. rewrite Hb, Hbs. reflexivity.
    + change (read_all (S (length (m :: ms))) max (b ++ bs))
        with (match outcome_of (read_msg max (b ++ bs)) with
              | ROk m0 rest => let '(ms0, e) := read_all (S (length ms)) max rest in (m0 :: ms0, e)
              | e => ([], e) end).
      rewrite R. simpl outcome_of. cbv iota beta. rewrite Hr. reflexivity.
Qed.

(** * Examples: the hypotheses are satisfiable *)

Definition ex_msg : msg :=
  mk_msg 1 3 1700000000000000000 [1;2;3;4;5;6;7;8;9;10;11;12;13;14;15;16]
         [0;0;0;0;0;0;0;0;0;0;0;0;0;0;0;0] [7;8;9].

Example ex_msg_wf : msg_wf 1000 ex_msg.
Proof. unfold msg_wf, ex_msg; simpl. repeat split; try reflexivity; discriminate. Qed.

Example ex_roundtrip :
  exists bs, write_msg 1000 ex_msg = Some bs /\ blen bs = 51 /\
             read_msg 1000 (bs ++ [42]) = mk_rr (ROk ex_msg [42]) 3.
Proof. eexists. split; [reflexivity|]. split; reflexivity. Qed.

Example ex_truncated :
  forall bs, write_msg 1000 ex_msg = Some bs ->
  read_msg 1000 (take 50 bs) = mk_rr RErrPayload 3 /\ read_msg 1000 (take 47 bs) = mk_rr RErrHeader 0.
Proof. intros bs E. inversion E. split; reflexivity. Qed.

Example ex_oversize :
  read_msg 1000 (be_bytes 4 1 ++ be_bytes 4 1001 ++ be_bytes 8 0 ++ repeat 0 32) = mk_rr RErrTooBig 0.
Proof. reflexivity. Qed.

Example ex_write_too_big : write_msg 2 ex_msg = None.
Proof. reflexivity. Qed.

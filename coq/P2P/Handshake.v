(** Model of the status checks of the four accepted P2P handshakers and of the version
    negotiation:
      p2p/v030/v030handshake.go  V030Handshaker.checkRemoteStatus   (wire version 0.3.1)
      p2p/v030/v032handshake.go  V032Handshaker.checkRemoteStatus   (0.3.2)
      p2p/v030/v033handshake.go  V033Handshaker.checkRemoteStatus   (0.3.3)
      p2p/v200/v200handshake.go  V200Handshaker.checkRemoteStatus   (2.0.0)
      p2p/versionmanager.go      FindBestP2PVersion / GetVersionedHandshaker
      p2p/p2pcommon/consts.go    AcceptedInboundVersions
    The order of the tests inside each function is the order of the code (the first failing
    test decides the error).  No proofs here. *)
From Coq Require Import NArith List Bool.
From Verif Require Import Common.Bytes Codec.ChainId.
Import ListNotations.
Open Scope N_scope.

(** types.Status as far as the checks read it. *)
Record status := mk_status {
  st_chain_id : bytes;       (* Status.ChainID, decoded with ChainID.Read *)
  st_best_hash : bytes;      (* Status.BestBlockHash *)
  st_best_height : N;        (* Status.BestHeight *)
  st_addr_ok : bool;         (* Sender != nil && CheckAddressType(Sender.Address) != AddressTypeError *)
  st_peer_id : bytes;        (* Sender.PeerID *)
  st_genesis : bytes;        (* Status.Genesis *)
  st_cert_ok : bool          (* checkByRole: not an agent, or agent with producers and valid certificates *)
}.

(** What the local node compares with. *)
Record local := mk_local {
  l_static_chain_id : chain_id;       (* versionmanager.localChainID, used by 0.3.1 / 0.3.2 *)
  l_chain_id_at : N -> chain_id;      (* vm.GetChainID(height), used by 0.3.3 / 2.0.0 *)
  l_genesis : bytes;                  (* chain.Genesis.Block().Hash *)
  l_peer_id : bytes                   (* peer id of the connection *)
}.

Inductive hs_error :=
| EChainIdRead     (* "wrong status": ChainID.Read failed *)
| EChainIdDiff     (* "different chainID" *)
| EBestHash        (* "wrong block hash" (2.0.0 only) *)
| EAddress         (* "invalid peer address" *)
| EPeerId          (* "Inconsistent peerID" *)
| EGenesis         (* "different genesis block" *)
| ECert.           (* "invalid certificate works" (2.0.0 only) *)

Definition hash_id_length : N := 32.

(** Common prefix: read the chain id and compare it with [lc]. *)
Definition check_chain_id (lc : chain_id) (st : status) : option hs_error :=
  match chain_id_read (st_chain_id st) with
  | None => Some EChainIdRead
  | Some rc => if chain_id_eqb lc rc then None else Some EChainIdDiff
  end.

Definition check_addr_peer (l : local) (st : status) : option hs_error :=
  if negb (st_addr_ok st) then Some EAddress
  else if negb (bytes_eqb (st_peer_id st) (l_peer_id l)) then Some EPeerId
  else None.

Definition check_genesis (l : local) (st : status) : option hs_error :=
  if bytes_eqb (l_genesis l) (st_genesis st) then None else Some EGenesis.

Definition and_then (a : option hs_error) (b : option hs_error) : option hs_error :=
  match a with Some e => Some e | None => b end.

(** None = accepted. *)
Definition check_remote_status_v031 (l : local) (st : status) : option hs_error :=
  and_then (check_chain_id (l_static_chain_id l) st) (check_addr_peer l st).

Definition check_remote_status_v032 (l : local) (st : status) : option hs_error :=
  and_then (check_remote_status_v031 l st) (check_genesis l st).

Definition check_remote_status_v033 (l : local) (st : status) : option hs_error :=
  and_then (check_chain_id (l_chain_id_at l (st_best_height st)) st)
    (and_then (check_addr_peer l st) (check_genesis l st)).

Definition check_remote_status_v200 (l : local) (st : status) : option hs_error :=
  and_then (check_chain_id (l_chain_id_at l (st_best_height st)) st)
    (and_then (if blen (st_best_hash st) =? hash_id_length then None else Some EBestHash)
      (and_then (check_addr_peer l st)
        (and_then (check_genesis l st)
          (if st_cert_ok st then None else Some ECert)))).

(** Version numbers (p2pcommon.P2PVersion). *)
Definition v_unknown : N := 0.
Definition v031 : N := 769.      (* 0x00000301 *)
Definition v032 : N := 770.      (* 0x00000302 *)
Definition v033 : N := 771.      (* 0x00000303 *)
Definition v200 : N := 131072.   (* 0x00020000 *)

Definition accepted_inbound_versions : list N := [v200; v033; v032; v031].

(** FindBestP2PVersion: the first accepted version (in the order of the accepted list)
    that occurs among the requested ones; P2PVersionUnknown otherwise. *)
Fixpoint find_best_version (accepted requested : list N) : N :=
  match accepted with
  | [] => v_unknown
  | s :: rest => if existsb (N.eqb s) requested then s else find_best_version rest requested
  end.

Inductive hs_result :=
| HsOk (version : N)
| HsRefused (version : N) (e : hs_error)
| HsNoVersion.                    (* "not supported version" *)

(** GetVersionedHandshaker + checkRemoteStatus of the chosen handshaker. *)
Definition run_handshaker (v : N) (l : local) (st : status) : hs_result :=
  let wrap r := match r with None => HsOk v | Some e => HsRefused v e end in
  if v =? v200 then wrap (check_remote_status_v200 l st)
  else if v =? v033 then wrap (check_remote_status_v033 l st)
  else if v =? v032 then wrap (check_remote_status_v032 l st)
  else if v =? v031 then wrap (check_remote_status_v031 l st)
  else HsNoVersion.

Definition handshake (l : local) (versions : list N) (st : status) : hs_result :=
  run_handshaker (find_best_version accepted_inbound_versions versions) l st.

(** * The mapping version -> handshaker (defaultVersionManager.GetVersionedHandshaker)

    [run_handshaker] above runs, for version v, the check that the code's switch selects;
    the selection itself is made explicit here so that it can be compared with the concrete
    type the real GetVersionedHandshaker returns for every version value. *)
Inductive handshaker_kind := HK030 | HK032 | HK033 | HK200.

(** None = "not supported version". *)
Definition versioned_handshaker (v : N) : option handshaker_kind :=
  if v =? v200 then Some HK200
  else if v =? v033 then Some HK033
  else if v =? v032 then Some HK032
  else if v =? v031 then Some HK030
  else None.

(** checkRemoteStatus of the handshaker type. *)
Definition check_of_kind (k : handshaker_kind) : local -> status -> option hs_error :=
  match k with
  | HK030 => check_remote_status_v031
  | HK032 => check_remote_status_v032
  | HK033 => check_remote_status_v033
  | HK200 => check_remote_status_v200
  end.

(** Code of the concrete Go type: 0 *v030.V030Handshaker, 1 *v030.V032Handshaker,
    2 *v030.V033Handshaker, 3 *v200.V200Handshaker, 9 error. *)
Definition kind_code (k : option handshaker_kind) : N :=
  match k with Some HK030 => 0 | Some HK032 => 1 | Some HK033 => 2 | Some HK200 => 3 | None => 9 end.

(** (version, observed type code). *)
Definition kind_case_ok (c : N * N) : bool := kind_code (versioned_handshaker (fst c)) =? snd c.

(** * Correspondence helpers *)

(** Error class numbers used by the engines: 0 accepted, 1.. = constructors in order. *)
Definition err_class (r : option hs_error) : N :=
  match r with
  | None => 0
  | Some EChainIdRead => 1 | Some EChainIdDiff => 2 | Some EBestHash => 3
  | Some EAddress => 4 | Some EPeerId => 5 | Some EGenesis => 6 | Some ECert => 7
  end.

(** Local chain id as the engines build it: a base id whose version becomes [v1] from
    height [fork] on (and [v0] below). *)
Definition forked_chain_id (base : chain_id) (v0 v1 fork : N) (h : N) : chain_id :=
  mk_chain_id (if h <? fork then v0 else v1) (cid_public base) (cid_main base)
              (cid_magic base) (cid_consensus base).

(** (handshaker version, local, status, observed class). *)
Definition hs_case_ok (c : N * local * status * N) : bool :=
  let '(v, l, st, cls) := c in
  let r := if v =? v200 then check_remote_status_v200 l st
           else if v =? v033 then check_remote_status_v033 l st
           else if v =? v032 then check_remote_status_v032 l st
           else check_remote_status_v031 l st in
  err_class r =? cls.

(** (requested versions, observed choice of the real FindBestP2PVersion or of its
    re-implementation over the real AcceptedInboundVersions list). *)
Definition negotiate_case_ok (c : list N * N) : bool :=
  let '(req, chosen) := c in find_best_version accepted_inbound_versions req =? chosen.

(** Whole connection at the version the real negotiation / the listener chose:
    (version, local, status, observed class: 0 accepted, 1..7 refusal, 98 no handshaker). *)
Definition conn_case_ok (c : N * local * status * N) : bool :=
  let '(v, l, st, cls) := c in
  match run_handshaker v l st with
  | HsOk _ => cls =? 0
  | HsRefused _ e => err_class (Some e) =? cls
  | HsNoVersion => cls =? 98
  end.


(** Proofs about the handshake model P2P/Handshake.v. *)
From Coq Require Import NArith PeanoNat List Bool Lia.
From Verif Require Import Common.Bytes Codec.ChainId P2P.Handshake.
Import ListNotations.
Open Scope N_scope.

(** * ChainID.Equals decides equality of all five fields *)

Lemma chain_id_eqb_eq : forall a b, chain_id_eqb a b = true <-> a = b.
Proof.
  intros [v1 p1 m1 g1 c1] [v2 p2 m2 g2 c2]. unfold chain_id_eqb. simpl.
  rewrite !andb_true_iff, N.eqb_eq, !eqb_true_iff, !bytes_eqb_eq.
  split.
  - intros ((((-> & ->) & ->) & ->) & ->). reflexivity.
  - intro E. inversion E. repeat split; reflexivity.
Qed.

Lemma chain_id_eqb_refl : forall a, chain_id_eqb a a = true.
Proof. intro a. apply chain_id_eqb_eq. reflexivity. Qed.

Lemma chain_id_eqb_false_field : forall a b,
  cid_version a <> cid_version b \/ cid_public a <> cid_public b \/ cid_main a <> cid_main b \/
  cid_magic a <> cid_magic b \/ cid_consensus a <> cid_consensus b ->
  chain_id_eqb a b = false.
Proof.
  intros a b Hd. destruct (chain_id_eqb a b) eqn:E; [|reflexivity].
  apply chain_id_eqb_eq in E. subst b. exfalso.
  destruct Hd as [Hd|[Hd|[Hd|[Hd|Hd]]]]; apply Hd; reflexivity.
Qed.

(** * Exact acceptance conditions of the building blocks *)

Lemma and_then_none : forall a b, and_then a b = None <-> a = None /\ b = None.
Proof.
  intros [e|] b; simpl; split.
  - discriminate.
  - intros [H _]; discriminate.
  - intro; auto.
  - intros [_ H]; exact H.
Qed.

Lemma check_chain_id_none : forall lc st,
  check_chain_id lc st = None <-> chain_id_read (st_chain_id st) = Some lc.
Proof.
  intros lc st. unfold check_chain_id.
  destruct (chain_id_read (st_chain_id st)) as [rc|]; split; try discriminate.
  - destruct (chain_id_eqb lc rc) eqn:E; [|discriminate].
    apply chain_id_eqb_eq in E. congruence.
  - intro E. inversion E. rewrite chain_id_eqb_refl. reflexivity.
Qed.

Lemma check_addr_peer_none : forall l st,
  check_addr_peer l st = None <-> st_addr_ok st = true /\ st_peer_id st = l_peer_id l.
Proof.
  intros l st. unfold check_addr_peer.
  destruct (st_addr_ok st); simpl.
  - destruct (bytes_eqb (st_peer_id st) (l_peer_id l)) eqn:E; simpl.
    + apply bytes_eqb_eq in E. tauto.
    + apply bytes_eqb_neq in E. split; [discriminate | tauto].
  - split; [discriminate | intros [? _]; discriminate].
Qed.

Lemma check_genesis_none : forall l st,
  check_genesis l st = None <-> st_genesis st = l_genesis l.
Proof.
  intros l st. unfold check_genesis.
  destruct (bytes_eqb (l_genesis l) (st_genesis st)) eqn:E.
  - apply bytes_eqb_eq in E. split; congruence.
  - apply bytes_eqb_neq in E. split; [discriminate | congruence].
Qed.

(** * Acceptance is equivalent to the conjunction of the per-field conditions *)

Definition same_chain (lc : chain_id) (l : local) (st : status) : Prop :=
  chain_id_read (st_chain_id st) = Some lc /\
  st_genesis st = l_genesis l /\
  st_peer_id st = l_peer_id l.

Theorem v031_accept_iff : forall l st,
  check_remote_status_v031 l st = None <->
  chain_id_read (st_chain_id st) = Some (l_static_chain_id l) /\
  st_addr_ok st = true /\ st_peer_id st = l_peer_id l.
Proof.
  intros. unfold check_remote_status_v031.
  rewrite and_then_none, check_chain_id_none, check_addr_peer_none. tauto.
Qed.

Theorem v032_accept_iff : forall l st,
  check_remote_status_v032 l st = None <->
  same_chain (l_static_chain_id l) l st /\ st_addr_ok st = true.
Proof.
  intros. unfold check_remote_status_v032, same_chain.
  rewrite and_then_none, v031_accept_iff, check_genesis_none. tauto.
Qed.

Theorem v033_accept_iff : forall l st,
  check_remote_status_v033 l st = None <->
  same_chain (l_chain_id_at l (st_best_height st)) l st /\ st_addr_ok st = true.
Proof.
  intros. unfold check_remote_status_v033, same_chain.
  rewrite !and_then_none, check_chain_id_none, check_addr_peer_none, check_genesis_none. tauto.
Qed.

Theorem v200_accept_iff : forall l st,
  check_remote_status_v200 l st = None <->
  same_chain (l_chain_id_at l (st_best_height st)) l st /\ st_addr_ok st = true /\
  blen (st_best_hash st) = hash_id_length /\ st_cert_ok st = true.
Proof.
  intros. unfold check_remote_status_v200, same_chain.
  rewrite !and_then_none, check_chain_id_none, check_addr_peer_none, check_genesis_none.
  destruct (blen (st_best_hash st) =? hash_id_length) eqn:E;
    [apply N.eqb_eq in E | apply N.eqb_neq in E];
    destruct (st_cert_ok st); intuition congruence.
Qed.

(** * handshake ok => same chain (all five chain id fields at the height used, genesis,
      peer id) *)

Theorem handshake_ok_implies_same_chain_v200 : forall l st,
  check_remote_status_v200 l st = None ->
  exists rc, chain_id_read (st_chain_id st) = Some rc /\
    cid_version rc = cid_version (l_chain_id_at l (st_best_height st)) /\
    cid_public rc = cid_public (l_chain_id_at l (st_best_height st)) /\
    cid_main rc = cid_main (l_chain_id_at l (st_best_height st)) /\
    cid_magic rc = cid_magic (l_chain_id_at l (st_best_height st)) /\
    cid_consensus rc = cid_consensus (l_chain_id_at l (st_best_height st)) /\
    st_genesis st = l_genesis l /\ st_peer_id st = l_peer_id l.
Proof.
  intros l st Hc. apply v200_accept_iff in Hc as ((Hr & Hg & Hp) & _).
  eexists. split; [eassumption|]. repeat split; assumption.
Qed.

Theorem handshake_ok_implies_same_chain_v033 : forall l st,
  check_remote_status_v033 l st = None ->
  exists rc, chain_id_read (st_chain_id st) = Some rc /\
    cid_version rc = cid_version (l_chain_id_at l (st_best_height st)) /\
    cid_public rc = cid_public (l_chain_id_at l (st_best_height st)) /\
    cid_main rc = cid_main (l_chain_id_at l (st_best_height st)) /\
    cid_magic rc = cid_magic (l_chain_id_at l (st_best_height st)) /\
    cid_consensus rc = cid_consensus (l_chain_id_at l (st_best_height st)) /\
    st_genesis st = l_genesis l /\ st_peer_id st = l_peer_id l.
Proof.
  intros l st Hc. apply v033_accept_iff in Hc as ((Hr & Hg & Hp) & _).
  eexists. split; [eassumption|]. repeat split; assumption.
Qed.

Theorem handshake_ok_implies_same_chain_v032 : forall l st,
  check_remote_status_v032 l st = None ->
  exists rc, chain_id_read (st_chain_id st) = Some rc /\
    cid_version rc = cid_version (l_static_chain_id l) /\
    cid_public rc = cid_public (l_static_chain_id l) /\
    cid_main rc = cid_main (l_static_chain_id l) /\
    cid_magic rc = cid_magic (l_static_chain_id l) /\
    cid_consensus rc = cid_consensus (l_static_chain_id l) /\
    st_genesis st = l_genesis l /\ st_peer_id st = l_peer_id l.
Proof.
  intros l st Hc. apply v032_accept_iff in Hc as ((Hr & Hg & Hp) & _).
  eexists. split; [eassumption|]. repeat split; assumption.
Qed.

(** * Per-field refusals.  [strict c] = the handshaker [c] with the chain id it compares
      with; the three strict handshakers share the statements. *)

Inductive strict_checker : (local -> status -> option hs_error) -> (local -> status -> chain_id) -> Prop :=
| SC200 : strict_checker check_remote_status_v200 (fun l st => l_chain_id_at l (st_best_height st))
| SC033 : strict_checker check_remote_status_v033 (fun l st => l_chain_id_at l (st_best_height st))
| SC032 : strict_checker check_remote_status_v032 (fun l st => l_static_chain_id l).

Lemma strict_accept : forall c lc, strict_checker c lc ->
  forall l st, c l st = None -> same_chain (lc l st) l st.
Proof.
  intros c lc S l st Hc. destruct S.
  - apply v200_accept_iff in Hc. tauto.
  - apply v033_accept_iff in Hc. tauto.
  - apply v032_accept_iff in Hc. tauto.
Qed.

(** A status whose chain id bytes do not decode is refused. *)
Theorem refuse_undecodable_chain_id : forall c lc, strict_checker c lc ->
  forall l st, chain_id_read (st_chain_id st) = None -> c l st = Some EChainIdRead.
Proof.
  intros c lc S l st Hr.
  destruct S; unfold check_remote_status_v200, check_remote_status_v033,
    check_remote_status_v032, check_remote_status_v031, check_chain_id; rewrite Hr; reflexivity.
Qed.

(** A status whose decoded chain id differs in any one of the five fields is refused with
    "different chainID". *)
Theorem refuse_chain_id_field : forall c lc, strict_checker c lc ->
  forall l st rc, chain_id_read (st_chain_id st) = Some rc ->
  (cid_version rc <> cid_version (lc l st) \/ cid_public rc <> cid_public (lc l st) \/
   cid_main rc <> cid_main (lc l st) \/ cid_magic rc <> cid_magic (lc l st) \/
   cid_consensus rc <> cid_consensus (lc l st)) ->
  c l st = Some EChainIdDiff.
Proof.
  intros c lc S l st rc Hr Hd.
  assert (E : chain_id_eqb (lc l st) rc = false).
  { apply chain_id_eqb_false_field.
    destruct Hd as [Hd|[Hd|[Hd|[Hd|Hd]]]]; [left|right;left|right;right;left|right;right;right;left|right;right;right;right];
      intro E; apply Hd; symmetry; exact E. }
  destruct S; unfold check_remote_status_v200, check_remote_status_v033,
    check_remote_status_v032, check_remote_status_v031, check_chain_id; rewrite Hr, E; reflexivity.
Qed.

Theorem refuse_genesis : forall c lc, strict_checker c lc ->
  forall l st, st_genesis st <> l_genesis l -> c l st <> None.
Proof.
  intros c lc S l st Hg Hc. apply (strict_accept c lc S) in Hc. destruct Hc as (_ & Hg' & _). contradiction.
Qed.

Theorem refuse_peer_id : forall c lc, strict_checker c lc ->
  forall l st, st_peer_id st <> l_peer_id l -> c l st <> None.
Proof.
  intros c lc S l st Hg Hc. apply (strict_accept c lc S) in Hc. destruct Hc as (_ & _ & Hp). contradiction.
Qed.

(** Single-field mutation of an accepted status: the exact error. *)
Definition with_genesis (st : status) (g : bytes) : status :=
  mk_status (st_chain_id st) (st_best_hash st) (st_best_height st) (st_addr_ok st)
            (st_peer_id st) g (st_cert_ok st).
Definition with_peer_id (st : status) (p : bytes) : status :=
  mk_status (st_chain_id st) (st_best_hash st) (st_best_height st) (st_addr_ok st)
            p (st_genesis st) (st_cert_ok st).
Definition with_chain_id (st : status) (c : bytes) : status :=
  mk_status c (st_best_hash st) (st_best_height st) (st_addr_ok st)
            (st_peer_id st) (st_genesis st) (st_cert_ok st).
Definition with_best_hash (st : status) (h : bytes) : status :=
  mk_status (st_chain_id st) h (st_best_height st) (st_addr_ok st)
            (st_peer_id st) (st_genesis st) (st_cert_ok st).

Lemma bytes_eqb_sym_false : forall a b, a <> b -> bytes_eqb a b = false.
Proof. intros. apply bytes_eqb_neq. assumption. Qed.

Theorem mutate_genesis_refused : forall c lc, strict_checker c lc ->
  forall l st g, c l st = None -> g <> st_genesis st -> c l (with_genesis st g) = Some EGenesis.
Proof.
  intros c lc S l st g Hc Hg. destruct S.
  - apply v200_accept_iff in Hc as ((Hr & Hgen & Hp) & Ha & Hb & Hcert).
    unfold check_remote_status_v200, check_chain_id, check_addr_peer, check_genesis, with_genesis; simpl.
    rewrite Hr, chain_id_eqb_refl, Ha, Hp, bytes_eqb_refl. simpl.
    apply N.eqb_eq in Hb. rewrite Hb. simpl.
    rewrite bytes_eqb_sym_false by congruence. reflexivity.
  - apply v033_accept_iff in Hc as ((Hr & Hgen & Hp) & Ha).
    unfold check_remote_status_v033, check_chain_id, check_addr_peer, check_genesis, with_genesis; simpl.
    rewrite Hr, chain_id_eqb_refl, Ha, Hp, bytes_eqb_refl. simpl.
    rewrite bytes_eqb_sym_false by congruence. reflexivity.
  - apply v032_accept_iff in Hc as ((Hr & Hgen & Hp) & Ha).
    unfold check_remote_status_v032, check_remote_status_v031, check_chain_id, check_addr_peer, check_genesis, with_genesis; simpl.
    rewrite Hr, chain_id_eqb_refl, Ha, Hp, bytes_eqb_refl. simpl.
    rewrite bytes_eqb_sym_false by congruence. reflexivity.
Qed.

Theorem mutate_peer_id_refused : forall c lc, strict_checker c lc ->
  forall l st p, c l st = None -> p <> st_peer_id st -> c l (with_peer_id st p) = Some EPeerId.
Proof.
  intros c lc S l st p Hc Hpp. destruct S.
  - apply v200_accept_iff in Hc as ((Hr & Hgen & Hp) & Ha & Hb & Hcert).
    unfold check_remote_status_v200, check_chain_id, check_addr_peer, with_peer_id; simpl.
    rewrite Hr, chain_id_eqb_refl, Ha. simpl.
    apply N.eqb_eq in Hb. rewrite Hb. simpl.
    rewrite bytes_eqb_sym_false by congruence. reflexivity.
  - apply v033_accept_iff in Hc as ((Hr & Hgen & Hp) & Ha).
    unfold check_remote_status_v033, check_chain_id, check_addr_peer, with_peer_id; simpl.
    rewrite Hr, chain_id_eqb_refl, Ha. simpl.
    rewrite bytes_eqb_sym_false by congruence. reflexivity.
  - apply v032_accept_iff in Hc as ((Hr & Hgen & Hp) & Ha).
    unfold check_remote_status_v032, check_remote_status_v031, check_chain_id, check_addr_peer, with_peer_id; simpl.
    rewrite Hr, chain_id_eqb_refl, Ha. simpl.
    rewrite bytes_eqb_sym_false by congruence. reflexivity.
Qed.

(** 2.0.0 only: a best block hash that is not 32 bytes long is refused. *)
Theorem mutate_best_hash_refused_v200 : forall l st h,
  check_remote_status_v200 l st = None -> blen h <> hash_id_length ->
  check_remote_status_v200 l (with_best_hash st h) = Some EBestHash.
Proof.
  intros l st h Hc Hh.
  apply v200_accept_iff in Hc as ((Hr & Hgen & Hp) & Ha & Hb & Hcert).
  unfold check_remote_status_v200, check_chain_id, with_best_hash; simpl.
  rewrite Hr, chain_id_eqb_refl. simpl.
  apply N.eqb_neq in Hh. rewrite Hh. reflexivity.
Qed.

(** * Version negotiation *)

Lemma existsb_eqb_In : forall s l, existsb (N.eqb s) l = true <-> In s l.
Proof.
  intros s l. rewrite existsb_exists. split.
  - intros (x & Hx & E). apply N.eqb_eq in E. subst. assumption.
  - intro H. exists s. split; [assumption | apply N.eqb_refl].
Qed.

(** FindBestP2PVersion returns the first element of the accepted list (in list order) that
    the peer requested; unknown iff there is none. *)
Theorem find_best_version_spec : forall acc req,
  (exists pre post, acc = pre ++ find_best_version acc req :: post /\
                    In (find_best_version acc req) req /\
                    forall a, In a pre -> ~ In a req)
  \/ (find_best_version acc req = v_unknown /\ forall a, In a acc -> ~ In a req).
Proof.
  induction acc as [|s acc IH]; intro req; simpl.
  - right. split; [reflexivity | intros a []].
  - destruct (existsb (N.eqb s) req) eqn:E.
    + left. exists [], acc. split; [reflexivity|]. split; [apply existsb_eqb_In; assumption | intros a []].
    + destruct (IH req) as [(pre & post & Hacc & Hin & Hpre) | (Hu & Hnone)].
      * left. exists (s :: pre), post. split; [simpl; f_equal; assumption|]. split; [assumption|].
        intros a [<-|Ha]; [|apply Hpre; assumption].
        intro Hs. apply existsb_eqb_In in Hs. congruence.
      * right. split; [assumption|]. intros a [<-|Ha]; [|apply Hnone; assumption].
        intro Hs. apply existsb_eqb_In in Hs. congruence.
Qed.

(** With the accepted list of the code: the choice is the best common version in the order
    2.0.0 > 0.3.3 > 0.3.2 > 0.3.1. *)
Theorem negotiation_picks_best_common : forall req,
  let v := find_best_version accepted_inbound_versions req in
  (In v200 req -> v = v200) /\
  (~ In v200 req -> In v033 req -> v = v033) /\
  (~ In v200 req -> ~ In v033 req -> In v032 req -> v = v032) /\
  (~ In v200 req -> ~ In v033 req -> ~ In v032 req -> In v031 req -> v = v031) /\
  (~ In v200 req -> ~ In v033 req -> ~ In v032 req -> ~ In v031 req -> v = v_unknown).
Proof.
  intro req. unfold accepted_inbound_versions. simpl.
  destruct (existsb (N.eqb v200) req) eqn:E1;
  destruct (existsb (N.eqb v033) req) eqn:E2;
  destruct (existsb (N.eqb v032) req) eqn:E3;
  destruct (existsb (N.eqb v031) req) eqn:E4;
  repeat match goal with
  | H : existsb _ _ = true |- _ => apply existsb_eqb_In in H
  | H : existsb (N.eqb ?s) ?r = false |- _ =>
      assert (~ In s r) by (intro X; apply existsb_eqb_In in X; congruence); clear H
  end; repeat split; intros; try reflexivity; try contradiction.
Qed.

(** * Handshake after negotiation *)

Lemma run_handshaker_ok : forall v l st v',
  run_handshaker v l st = HsOk v' ->
  v' = v /\
  ((v = v200 /\ check_remote_status_v200 l st = None) \/
   (v = v033 /\ check_remote_status_v033 l st = None) \/
   (v = v032 /\ check_remote_status_v032 l st = None) \/
   (v = v031 /\ check_remote_status_v031 l st = None)).
Proof.
  intros v l st v'. unfold run_handshaker.
  destruct (v =? v200) eqn:E1; [apply N.eqb_eq in E1|].
  { destruct (check_remote_status_v200 l st) eqn:C; intro H; [discriminate|].
    injection H as <-. split; [reflexivity | left; split; [assumption | reflexivity]]. }
  destruct (v =? v033) eqn:E2; [apply N.eqb_eq in E2|].
  { destruct (check_remote_status_v033 l st) eqn:C; intro H; [discriminate|].
    injection H as <-. split; [reflexivity | right; left; split; [assumption | reflexivity]]. }
  destruct (v =? v032) eqn:E3; [apply N.eqb_eq in E3|].
  { destruct (check_remote_status_v032 l st) eqn:C; intro H; [discriminate|].
    injection H as <-. split; [reflexivity | right; right; left; split; [assumption | reflexivity]]. }
  destruct (v =? v031) eqn:E4; [apply N.eqb_eq in E4|].
  { destruct (check_remote_status_v031 l st) eqn:C; intro H; [discriminate|].
    injection H as <-. split; [reflexivity | right; right; right; split; [assumption | reflexivity]]. }
  discriminate.
Qed.

(** A completed handshake at any negotiated version other than 0.3.1 is with a peer of
    the same genesis and the expected peer id, whose chain id decodes. *)
Theorem handshake_ok_not_v031_same_genesis : forall l versions st v,
  handshake l versions st = HsOk v -> v <> v031 ->
  st_genesis st = l_genesis l /\ st_peer_id st = l_peer_id l /\
  exists rc, chain_id_read (st_chain_id st) = Some rc /\
    (rc = l_chain_id_at l (st_best_height st) \/ rc = l_static_chain_id l).
Proof.
  intros l versions st v H Hv. unfold handshake in H. apply run_handshaker_ok in H as (-> & H).
  destruct H as [(E & C)|[(E & C)|[(E & C)|(E & C)]]].
  - apply v200_accept_iff in C as ((Hr & Hg & Hp) & _). eauto 8.
  - apply v033_accept_iff in C as ((Hr & Hg & Hp) & _). eauto 8.
  - apply v032_accept_iff in C as ((Hr & Hg & Hp) & _). eauto 8.
  - congruence.
Qed.

(** Whatever the version: chain id and peer id. *)
Theorem handshake_ok_chain_and_peer : forall l versions st v,
  handshake l versions st = HsOk v ->
  st_peer_id st = l_peer_id l /\
  exists rc, chain_id_read (st_chain_id st) = Some rc /\
    (rc = l_chain_id_at l (st_best_height st) \/ rc = l_static_chain_id l).
Proof.
  intros l versions st v H. unfold handshake in H. apply run_handshaker_ok in H as (-> & H).
  destruct H as [(E & C)|[(E & C)|[(E & C)|(E & C)]]].
  - apply v200_accept_iff in C as ((Hr & Hg & Hp) & _). eauto 8.
  - apply v033_accept_iff in C as ((Hr & Hg & Hp) & _). eauto 8.
  - apply v032_accept_iff in C as ((Hr & Hg & Hp) & _). eauto 8.
  - apply v031_accept_iff in C as (Hr & _ & Hp). eauto 8.
Qed.

(** 0.3.1 is negotiated only when the peer offers none of the better versions. *)
Theorem handshake_v031_only_if_no_better : forall l versions st,
  handshake l versions st = HsOk v031 ->
  ~ In v200 versions /\ ~ In v033 versions /\ ~ In v032 versions /\ In v031 versions.
Proof.
  intros l versions st H. unfold handshake in H. apply run_handshaker_ok in H as (E & _).
  pose proof (negotiation_picks_best_common versions) as (N1 & N2 & N3 & N4 & N5).
  cbv zeta in *. rewrite <- E in *.
  assert (D1 : ~ In v200 versions) by (intro X; specialize (N1 X); discriminate).
  assert (D2 : ~ In v033 versions) by (intro X; specialize (N2 D1 X); discriminate).
  assert (D3 : ~ In v032 versions) by (intro X; specialize (N3 D1 D2 X); discriminate).
  repeat split; try assumption.
  destruct (in_dec N.eq_dec v031 versions) as [I|I]; [assumption|].
  specialize (N5 D1 D2 D3 I). discriminate.
Qed.

(** * Version -> handshaker mapping *)

Theorem run_handshaker_via_kind : forall v l st,
  run_handshaker v l st =
  match versioned_handshaker v with
  | None => HsNoVersion
  | Some k => match check_of_kind k l st with None => HsOk v | Some e => HsRefused v e end
  end.
Proof.
  intros v l st. unfold run_handshaker, versioned_handshaker.
  destruct (v =? v200); [reflexivity|]. destruct (v =? v033); [reflexivity|].
  destruct (v =? v032); [reflexivity|]. destruct (v =? v031); reflexivity.
Qed.

(** Each version that exchanges the genesis hash is mapped to a handshaker that checks it:
    for 0.3.2, 0.3.3 and 2.0.0 an accepted status has the local genesis, the connection's
    peer id and a chain id that decodes to the local one. *)
Theorem versioned_handshaker_checks_genesis : forall v k l st,
  In v [v032; v033; v200] -> versioned_handshaker v = Some k ->
  check_of_kind k l st = None ->
  st_genesis st = l_genesis l /\ st_peer_id st = l_peer_id l /\
  exists rc, chain_id_read (st_chain_id st) = Some rc /\
    (rc = l_chain_id_at l (st_best_height st) \/ rc = l_static_chain_id l).
Proof.
  intros v k l st Hv Hk Hc.
  destruct Hv as [<-|[<-|[<-|[]]]]; vm_compute in Hk; inversion Hk; subst k; simpl in Hc.
  - apply v032_accept_iff in Hc as ((Hr & Hg & Hp) & _). eauto 8.
  - apply v033_accept_iff in Hc as ((Hr & Hg & Hp) & _). eauto 8.
  - apply v200_accept_iff in Hc as ((Hr & Hg & Hp) & _). eauto 8.
Qed.

(** The four accepted versions have a handshaker, pairwise of different kinds; every other
    version has none. *)
Theorem versioned_handshaker_table :
  versioned_handshaker v031 = Some HK030 /\ versioned_handshaker v032 = Some HK032 /\
  versioned_handshaker v033 = Some HK033 /\ versioned_handshaker v200 = Some HK200 /\
  forall v, ~ In v accepted_inbound_versions -> versioned_handshaker v = None.
Proof.
  repeat split; try reflexivity. intros v Hn. unfold versioned_handshaker, accepted_inbound_versions in *.
  destruct (v =? v200) eqn:E1; [apply N.eqb_eq in E1; exfalso; apply Hn; simpl; auto|].
  destruct (v =? v033) eqn:E2; [apply N.eqb_eq in E2; exfalso; apply Hn; simpl; auto|].
  destruct (v =? v032) eqn:E3; [apply N.eqb_eq in E3; exfalso; apply Hn; simpl; auto|].
  destruct (v =? v031) eqn:E4; [apply N.eqb_eq in E4; exfalso; apply Hn; simpl; auto|].
  reflexivity.
Qed.

(** * F20: the 0.3.1 handshaker has no genesis check and is reachable by negotiation *)

Definition ex_chain : chain_id := mk_chain_id 3 true true [97;101;114;103;111] [100;112;111;115].
Definition ex_local : local := mk_local ex_chain (fun _ => ex_chain) [1;2;3] [9;9].
Definition ex_status : status :=
  mk_status (chain_id_bytes ex_chain) (repeat 7 32) 100 true [9;9] [1;2;3] true.
Definition ex_status_other_genesis : status := with_genesis ex_status [6;6;6].

Theorem handshake_v031_partial : forall l st,
  check_remote_status_v031 l st = None ->
  chain_id_read (st_chain_id st) = Some (l_static_chain_id l) /\ st_peer_id st = l_peer_id l.
Proof. intros l st H. apply v031_accept_iff in H. tauto. Qed.

Theorem handshake_v031_no_genesis_refuted :
  exists l st,
    st_genesis st <> l_genesis l /\
    check_remote_status_v031 l st = None /\
    check_remote_status_v032 l st = Some EGenesis /\
    check_remote_status_v033 l st = Some EGenesis /\
    check_remote_status_v200 l st = Some EGenesis /\
    find_best_version accepted_inbound_versions [v031] = v031 /\
    handshake l [v031] st = HsOk v031.
Proof.
  exists ex_local, ex_status_other_genesis.
  split; [discriminate|]. repeat split; vm_compute; reflexivity.
Qed.

(** The full statement "every completed handshake is with a peer of the same genesis" is
    false of the model (and of the code). *)
Theorem handshake_same_genesis_refuted :
  ~ (forall l versions st v, handshake l versions st = HsOk v -> st_genesis st = l_genesis l).
Proof.
  intro H. specialize (H ex_local [v031] ex_status_other_genesis v031 eq_refl). discriminate.
Qed.

(** * Examples: hypotheses are satisfiable *)

Example ex_v200_accepts : check_remote_status_v200 ex_local ex_status = None.
Proof. vm_compute. reflexivity. Qed.
Example ex_v033_accepts : check_remote_status_v033 ex_local ex_status = None.
Proof. vm_compute. reflexivity. Qed.
Example ex_v032_accepts : check_remote_status_v032 ex_local ex_status = None.
Proof. vm_compute. reflexivity. Qed.
Example ex_v031_accepts : check_remote_status_v031 ex_local ex_status = None.
Proof. vm_compute. reflexivity. Qed.
Example ex_handshake_best : handshake ex_local [v031; v033; 5] ex_status = HsOk v033.
Proof. vm_compute. reflexivity. Qed.
Example ex_handshake_none : handshake ex_local [768; 5] ex_status = HsNoVersion.
Proof. vm_compute. reflexivity. Qed.
Example ex_mutate_genesis :
  check_remote_status_v200 ex_local (with_genesis ex_status [6;6;6]) = Some EGenesis.
Proof. apply (mutate_genesis_refused _ _ SC200); [exact ex_v200_accepts | discriminate]. Qed.
Example ex_mutate_magic :
  check_remote_status_v200 ex_local
    (with_chain_id ex_status (chain_id_bytes (mk_chain_id 3 true true [98] [100;112;111;115])))
  = Some EChainIdDiff.
Proof. vm_compute. reflexivity. Qed.
Example ex_forked_height :
  let l := mk_local ex_chain (forked_chain_id ex_chain 2 3 1000) [1;2;3] [9;9] in
  check_remote_status_v033 l ex_status = Some EChainIdDiff /\
  check_remote_status_v033 l (mk_status (chain_id_bytes ex_chain) [] 1000 true [9;9] [1;2;3] true) = None.
Proof. vm_compute. split; reflexivity. Qed.

(** Model of the inbound handshake over a byte stream: receiveRemoteStatus
    (p2p/v030/v030handshake.go, p2p/v200/v200handshake.go) = ReadMsg, sub-protocol test,
    protobuf decoding of the payload into a Status, followed by checkRemoteStatus of the
    negotiated handshaker.  Protobuf decoding is a Section function [decode].
    No proofs here. *)
From Coq Require Import NArith List Bool.
From Verif Require Import Common.Bytes Codec.ChainId P2P.Frame P2P.Handshake.
Import ListNotations.
Open Scope N_scope.

Definition sp_status_request : N := 1.   (* p2pcommon.StatusRequest *)
Definition sp_go_away : N := 4.          (* p2pcommon.GoAway *)

Inductive recv_result :=
| RecvStatus (payload : bytes) (rest : bytes)
| RecvReadError (o : outcome)      (* "malformed message": ReadMsg failed *)
| RecvGoAway                       (* remote peer refused *)
| RecvUnexpected.                  (* "unexpected message type" *)

Definition receive_remote_status (max : N) (s : bytes) : recv_result :=
  match outcome_of (read_msg max s) with
  | ROk m rest =>
      if m_proto m =? sp_status_request then RecvStatus (m_payload m) rest
      else if m_proto m =? sp_go_away then RecvGoAway
      else RecvUnexpected
  | o => RecvReadError o
  end.

Inductive inbound_result :=
| InOk (version : N) (st : status) (rest : bytes)
| InRefusedStatus (version : N) (e : hs_error)
| InMalformedStatus                 (* payload does not decode / no sender *)
| InNotStatus (r : recv_result)
| InNoVersion.

Section Inbound.
Variable decode : bytes -> option status.

(** DoForInbound of the handshaker chosen for the requested versions, on stream [s]. *)
Definition inbound (max : N) (l : local) (versions : list N) (s : bytes) : inbound_result :=
  let v := find_best_version accepted_inbound_versions versions in
  match run_handshaker v l (mk_status [] [] 0 false [] [] false) with
  | HsNoVersion => InNoVersion
  | _ =>
    match receive_remote_status max s with
    | RecvStatus payload rest =>
        match decode payload with
        | None => InMalformedStatus
        | Some st =>
            match run_handshaker v l st with
            | HsOk v' => InOk v' st rest
            | HsRefused v' e => InRefusedStatus v' e
            | HsNoVersion => InNoVersion
            end
        end
    | r => InNotStatus r
    end
  end.

End Inbound.

(** Proofs about P2P/Inbound.v: framing and status checks composed. *)
From Coq Require Import NArith List Bool Lia.
From Verif Require Import Common.Bytes Codec.ChainId P2P.Frame P2P.FrameProofs
  P2P.Handshake P2P.HandshakeProofs P2P.Inbound.
Import ListNotations.
Open Scope N_scope.

(** receiveRemoteStatus never reports a panic, on any stream. *)
Theorem receive_total : forall max s, receive_remote_status max s <> RecvReadError RPanic.
Proof.
  intros max s. unfold receive_remote_status.
  pose proof (read_total max s) as T.
  destruct (outcome_of (read_msg max s)) as [m rest| | | |]; try discriminate.
  - destruct (m_proto m =? sp_status_request); [discriminate|].
    destruct (m_proto m =? sp_go_away); discriminate.
  - congruence.
Qed.

(** A status is delivered only from a stream that starts with a complete frame of at most
    [max] payload bytes whose sub-protocol is StatusRequest. *)
Theorem receive_status_shape : forall max s payload rest,
  receive_remote_status max s = RecvStatus payload rest ->
  blen payload <= max /\
  s = take header_len s ++ payload ++ rest /\
  be_decode (sub 0 4 (take header_len s)) = sp_status_request.
Proof.
  intros max s payload rest. unfold receive_remote_status.
  destruct (read_msg max s) as [o a] eqn:R. simpl.
  destruct o as [m r| | | |]; try discriminate.
  destruct (m_proto m =? sp_status_request) eqn:E.
  - intro X. inversion X; subst. apply N.eqb_eq in E.
    pose proof (read_ok_shape max s m rest a R) as (Ha & Hl & Hm & Hs & Hh).
    split; [lia|]. split; [assumption|].
    (* the decoded sub-protocol is the first four header bytes *)
    unfold read_msg in R. rewrite Hh, N.ltb_irrefl in R.
    unfold parse_header in R.
    destruct (must_parse_id (sub 16 32 (take header_len s))); [|discriminate].
    destruct (must_parse_id (sub 32 48 (take header_len s))); [|discriminate].
    destruct (max <? be_decode (sub 4 8 (take header_len s))); [discriminate|].
    destruct (blen (take (be_decode (sub 4 8 (take header_len s))) (drop header_len s)) <?
              be_decode (sub 4 8 (take header_len s))); [discriminate|].
    inversion R as [[Hm' Hr' Ha']]. rewrite <- Hm' in E. simpl in E. exact E.
  - destruct (m_proto m =? sp_go_away); discriminate.
Qed.

Section WithDecode.
Variable decode : bytes -> option status.

(** An inbound handshake that completes at a version other than 0.3.1 was with a peer that
    sent, in a well-formed StatusRequest frame within the size limit, a status with the
    local genesis, the connection's peer id and the local chain id. *)
Theorem inbound_ok_same_chain : forall max l versions s v st rest,
  inbound decode max l versions s = InOk v st rest -> v <> v031 ->
  (exists payload, receive_remote_status max s = RecvStatus payload rest /\
                   decode payload = Some st /\ blen payload <= max) /\
  st_genesis st = l_genesis l /\ st_peer_id st = l_peer_id l /\
  exists rc, chain_id_read (st_chain_id st) = Some rc /\
    (rc = l_chain_id_at l (st_best_height st) \/ rc = l_static_chain_id l).
Proof.
  intros max l versions s v st rest H Hv. unfold inbound in H.
  destruct (run_handshaker (find_best_version accepted_inbound_versions versions) l
              (mk_status [] [] 0 false [] [] false)); try discriminate;
  (destruct (receive_remote_status max s) as [payload r| | |] eqn:R; try discriminate;
   destruct (decode payload) as [st0|] eqn:D; try discriminate;
   destruct (run_handshaker (find_best_version accepted_inbound_versions versions) l st0) eqn:HS;
     try discriminate;
   inversion H; subst;
   (split;
    [exists payload; split; [reflexivity|]; split; [assumption|];
      apply (receive_status_shape max s payload rest R)
    | apply (handshake_ok_not_v031_same_genesis l versions st v); [exact HS | assumption]])).
Qed.

(** No stream makes the inbound handshake panic (framing is total; the checks are total
    functions by construction). *)
Theorem inbound_never_reads_panic : forall max l versions s,
  inbound decode max l versions s <> InNotStatus (RecvReadError RPanic).
Proof.
  intros max l versions s. unfold inbound.
  destruct (run_handshaker (find_best_version accepted_inbound_versions versions) l
              (mk_status [] [] 0 false [] [] false)); try discriminate;
  (pose proof (receive_total max s) as T;
   destruct (receive_remote_status max s) as [payload r|o| |]; try discriminate;
   [ destruct (decode payload) as [st0|]; try discriminate;
     destruct (run_handshaker (find_best_version accepted_inbound_versions versions) l st0); discriminate
   | congruence ]).
Qed.

(** A truncated or oversized first frame never yields a handshake. *)
Theorem inbound_bad_frame_refused : forall max l versions s,
  (blen s < header_len \/
   (header_len <= blen s /\ max < be_decode (sub 4 8 (take header_len s)))) ->
  forall v st rest, inbound decode max l versions s <> InOk v st rest.
Proof.
  intros max l versions s Hbad v st rest. unfold inbound.
  assert (R : exists o, receive_remote_status max s = RecvReadError o).
  { unfold receive_remote_status. destruct Hbad as [Hs|[Hs Hb]].
    - rewrite (read_short_header max s Hs). simpl. eauto.
    - rewrite (read_oversize_clean max s Hs Hb). simpl. eauto. }
  destruct R as (o & R). rewrite R.
  destruct (run_handshaker (find_best_version accepted_inbound_versions versions) l
              (mk_status [] [] 0 false [] [] false)); discriminate.
Qed.

End WithDecode.

(** * Example: a status frame is delivered and accepted; the same frame with another
      sub-protocol is not a status. *)
Definition ex_decode (p : bytes) : option status :=
  match p with
  | [1] => Some ex_status
  | [2] => Some ex_status_other_genesis
  | _ => None
  end.

Definition ex_frame (proto : N) (p : bytes) : bytes :=
  match write_msg 1000 (mk_msg proto (blen p) 5 (repeat 1 16) (repeat 0 16) p) with
  | Some b => b | None => [] end.

Example ex_inbound_ok :
  inbound ex_decode 1000 ex_local [v200; v033] (ex_frame sp_status_request [1] ++ [9]) = InOk v200 ex_status [9].
Proof. vm_compute. reflexivity. Qed.
Example ex_inbound_other_genesis :
  inbound ex_decode 1000 ex_local [v200] (ex_frame sp_status_request [2]) = InRefusedStatus v200 EGenesis /\
  inbound ex_decode 1000 ex_local [v031] (ex_frame sp_status_request [2]) = InOk v031 ex_status_other_genesis [].
Proof. vm_compute. split; reflexivity. Qed.
Example ex_inbound_not_status :
  inbound ex_decode 1000 ex_local [v200] (ex_frame 2 [1]) = InNotStatus RecvUnexpected /\
  inbound ex_decode 1000 ex_local [v200] (ex_frame sp_go_away [1]) = InNotStatus RecvGoAway /\
  inbound ex_decode 1000 ex_local [v200] (take 50 (ex_frame sp_status_request [1;1;1])) = InNotStatus (RecvReadError RErrPayload).
Proof. vm_compute. repeat split; reflexivity. Qed.

(** Size limits of the P2P boundary as constants of the code, and the arithmetic fact that
    a maximal legal block always fits in one frame:
      types/common.go      maxMetaSizeLimit = 256 KiB, blockSizeHardLimit = 8 MiB,
                           MaxMessageSize() = maxMetaSizeLimit + blockSizeHardLimit
      types/blockchain.go  DefaultMaxHdrSize = 400
      chain/common.go      MaxBlockSize() = MaxBlockBodySize() + DefaultMaxHdrSize,
                           MaxBlockBodySize() <= blockSizeHardLimit
      p2p/p2pcommon        MaxPayloadLength = types.MaxMessageSize()
    The protobuf envelope of a block inside GetBlockResponse / BlockProducedNotice is
    bounded by [envelope] (tag + length varint of the block field, status, hasNext / blockNo,
    and the length prefixes of the block's own fields); the engines measure the real
    envelope on a block of maximal size on every run. *)
From Coq Require Import NArith Lia.
Open Scope N_scope.

Definition max_meta_size_limit : N := 262144.
Definition block_size_hard_limit : N := 8388608.
Definition default_max_hdr_size : N := 400.
Definition max_payload_length : N := max_meta_size_limit + block_size_hard_limit.
Definition max_block_size (body_limit : N) : N := body_limit + default_max_hdr_size.
(** Allowance for the protobuf envelope (the measured value is below 64). *)
Definition envelope : N := 1024.

(** Every block within the configured size limit, wrapped in a response or notice, is
    within the frame payload limit: it can always be sent and received. *)
Theorem max_block_message_fits : forall body_limit block_bytes,
  body_limit <= block_size_hard_limit -> block_bytes <= max_block_size body_limit ->
  block_bytes + envelope <= max_payload_length.
Proof.
  unfold max_block_size, max_payload_length, block_size_hard_limit, default_max_hdr_size, envelope, max_meta_size_limit.
  intros. lia.
Qed.

Example limits_values : max_payload_length = 8650752 /\ max_block_size block_size_hard_limit = 8389008.
Proof. split; reflexivity. Qed.

(** Status messages as they come out of protobuf decoding, with optional / empty fields
    explicit, the 2.0.0 role/certificate rule (checkByRole / checkAgent) as a model instead
    of one bit, and the checks of the four handshakers with the nil guards and dereferences
    of the code made explicit (an unguarded dereference of a nil Sender would be [CPanic]).
      p2p/v030/v030handshake.go  receiveRemoteStatus (sender fix-up), checkRemoteStatus
      p2p/v030/v033handshake.go, p2p/v200/v200handshake.go  checkRemoteStatus, checkAgent
      p2p/p2pcommon/peermeta.go  NewMetaFromStatus / FromPeerAddressNew
    No proofs here. *)
From Coq Require Import NArith List Bool.
From Verif Require Import Common.Bytes Codec.ChainId P2P.Handshake.
Import ListNotations.
Open Scope N_scope.

(** types.AgentCertificate after p2putil.CheckAndGetV1: [c_valid] = it parses, is within
    its validity period and its signature verifies (oracle). *)
Record cert := mk_cert { c_valid : bool; c_agent_id : bytes; c_bp_id : bytes }.

(** types.PeerAddress as the checks read it. *)
Record sender := mk_sender {
  sd_addr_class_ok : bool;      (* CheckAddressType(Address) != AddressTypeError *)
  sd_has_addresses : bool;      (* len(Addresses) > 0 *)
  sd_multiaddr_ok : bool;       (* types.ToMultiAddr(Address, Port) succeeds *)
  sd_peer_id : bytes;
  sd_role : N;                  (* raw enum value *)
  sd_producers : list bytes
}.

Record raw_status := mk_raw_status {
  rs_chain_id : bytes;
  rs_best_hash : bytes;
  rs_best_height : N;
  rs_sender : option sender;    (* nil Sender *)
  rs_genesis : bytes;
  rs_certs : list cert
}.

Definition role_agent : N := 3.
(** FromPeerAddressNew: an unknown enum value becomes LegacyVersion (0). *)
Definition role_eff (sd : sender) : N := if sd_role sd <=? 3 then sd_role sd else 0.

(** checkAgent: at least one producer id; every certificate valid, issued for this agent
    (the sender's peer id) and for one of the listed producers.  No certificate at all is
    accepted. *)
Definition cert_for (sd : sender) (c : cert) : bool :=
  c_valid c && bytes_eqb (c_agent_id c) (sd_peer_id sd)
  && existsb (bytes_eqb (c_bp_id c)) (sd_producers sd).

Definition check_agent (sd : sender) (certs : list cert) : bool :=
  match sd_producers sd with
  | [] => false
  | _ => forallb (cert_for sd) certs
  end.

(** checkByRole. *)
Definition check_by_role (sd : sender) (certs : list cert) : bool :=
  if role_eff sd =? role_agent then check_agent sd certs else true.

(** The abstract status of P2P/Handshake.v. *)
Definition status_of_raw (rs : raw_status) : status :=
  match rs_sender rs with
  | None => mk_status (rs_chain_id rs) (rs_best_hash rs) (rs_best_height rs) false [] (rs_genesis rs) true
  | Some sd => mk_status (rs_chain_id rs) (rs_best_hash rs) (rs_best_height rs) (sd_addr_class_ok sd)
                         (sd_peer_id sd) (rs_genesis rs) (check_by_role sd (rs_certs rs))
  end.

Inductive check_outcome := CAccept | CRefuse (e : hs_error) | CPanic.

Definition of_option (r : option hs_error) : check_outcome :=
  match r with None => CAccept | Some e => CRefuse e end.

(** NewMetaFromStatus(status): dereferences status.Sender. *)
Definition meta_peer_id (rs : raw_status) : option bytes :=
  match rs_sender rs with None => None | Some sd => Some (sd_peer_id sd) end.

(** Sender checks in code order: nil / address class guard, then NewMetaFromStatus, then
    the peer id comparison. *)
Definition raw_addr_peer (l : local) (rs : raw_status) (k : sender -> check_outcome) : check_outcome :=
  match rs_sender rs with
  | None => CRefuse EAddress                          (* peerAddress == nil || ... *)
  | Some sd =>
      if negb (sd_addr_class_ok sd) then CRefuse EAddress
      else match meta_peer_id rs with
           | None => CPanic                           (* nil dereference in FromPeerAddressNew *)
           | Some pid => if negb (bytes_eqb pid (l_peer_id l)) then CRefuse EPeerId else k sd
           end
  end.

Definition raw_chain (lc : chain_id) (rs : raw_status) (k : check_outcome) : check_outcome :=
  match chain_id_read (rs_chain_id rs) with
  | None => CRefuse EChainIdRead
  | Some rc => if chain_id_eqb lc rc then k else CRefuse EChainIdDiff
  end.

Definition raw_genesis (l : local) (rs : raw_status) (k : check_outcome) : check_outcome :=
  if bytes_eqb (l_genesis l) (rs_genesis rs) then k else CRefuse EGenesis.

Definition check_raw_v031 (l : local) (rs : raw_status) : check_outcome :=
  raw_chain (l_static_chain_id l) rs (raw_addr_peer l rs (fun _ => CAccept)).

Definition check_raw_v032 (l : local) (rs : raw_status) : check_outcome :=
  raw_chain (l_static_chain_id l) rs (raw_addr_peer l rs (fun _ => raw_genesis l rs CAccept)).

Definition check_raw_v033 (l : local) (rs : raw_status) : check_outcome :=
  raw_chain (l_chain_id_at l (rs_best_height rs)) rs
    (raw_addr_peer l rs (fun _ => raw_genesis l rs CAccept)).

Definition check_raw_v200 (l : local) (rs : raw_status) : check_outcome :=
  raw_chain (l_chain_id_at l (rs_best_height rs)) rs
    (if negb (blen (rs_best_hash rs) =? hash_id_length) then CRefuse EBestHash
     else raw_addr_peer l rs (fun sd =>
            raw_genesis l rs (if check_by_role sd (rs_certs rs) then CAccept else CRefuse ECert))).

(** v030 receiveRemoteStatus fix-up (0.3.1 - 0.3.3): nil sender, or no Addresses and an
    Address/Port that does not make a multiaddr, is "malformed status message". *)
Definition v030_receive_ok (rs : raw_status) : bool :=
  match rs_sender rs with
  | None => false
  | Some sd => sd_has_addresses sd || sd_multiaddr_ok sd
  end.

(** * Correspondence helper: (version, local, raw status, observed class 0..7 / 98 panic) *)
Definition outcome_class (o : check_outcome) : N :=
  match o with CAccept => 0 | CRefuse e => err_class (Some e) | CPanic => 98 end.

Definition raw_case_ok (c : N * local * raw_status * N) : bool :=
  let '(v, l, rs, cls) := c in
  let r := if v =? v200 then check_raw_v200 l rs
           else if v =? v033 then check_raw_v033 l rs
           else if v =? v032 then check_raw_v032 l rs
           else check_raw_v031 l rs in
  outcome_class r =? cls.

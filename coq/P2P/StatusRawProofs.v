(** Proofs about P2P/StatusRaw.v. *)
From Coq Require Import NArith List Bool Lia.
From Verif Require Import Common.Bytes Codec.ChainId P2P.Handshake P2P.HandshakeProofs P2P.StatusRaw.
Import ListNotations.
Open Scope N_scope.

(** * The checks never dereference a nil Sender: total on every decoded status *)

Lemma raw_addr_peer_total : forall l rs k, (forall sd, k sd <> CPanic) -> raw_addr_peer l rs k <> CPanic.
Proof.
  intros l rs k Hk. unfold raw_addr_peer, meta_peer_id.
  destruct (rs_sender rs) as [sd|]; [|discriminate].
  destruct (sd_addr_class_ok sd); simpl; [|discriminate].
  destruct (bytes_eqb (sd_peer_id sd) (l_peer_id l)); simpl; [apply Hk | discriminate].
Qed.

Lemma raw_chain_total : forall lc rs k, k <> CPanic -> raw_chain lc rs k <> CPanic.
Proof.
  intros lc rs k Hk. unfold raw_chain. destruct (chain_id_read (rs_chain_id rs)); [|discriminate].
  destruct (chain_id_eqb lc c); [assumption | discriminate].
Qed.

Lemma raw_genesis_total : forall l rs k, k <> CPanic -> raw_genesis l rs k <> CPanic.
Proof. intros l rs k Hk. unfold raw_genesis. destruct (bytes_eqb _ _); [assumption | discriminate]. Qed.

Theorem check_total : forall l rs,
  check_raw_v031 l rs <> CPanic /\ check_raw_v032 l rs <> CPanic /\
  check_raw_v033 l rs <> CPanic /\ check_raw_v200 l rs <> CPanic.
Proof.
  intros l rs. repeat split.
  - apply raw_chain_total, raw_addr_peer_total. discriminate.
  - apply raw_chain_total, raw_addr_peer_total. intro. apply raw_genesis_total. discriminate.
  - apply raw_chain_total, raw_addr_peer_total. intro. apply raw_genesis_total. discriminate.
  - apply raw_chain_total. destruct (negb (blen (rs_best_hash rs) =? hash_id_length)); [discriminate|].
    apply raw_addr_peer_total. intro sd. apply raw_genesis_total.
    destruct (check_by_role sd (rs_certs rs)); discriminate.
Qed.

(** * The raw checks are the abstract checks of P2P/Handshake.v on [status_of_raw] *)

Theorem check_raw_refines : forall l rs,
  check_raw_v031 l rs = of_option (check_remote_status_v031 l (status_of_raw rs)) /\
  check_raw_v032 l rs = of_option (check_remote_status_v032 l (status_of_raw rs)) /\
  check_raw_v033 l rs = of_option (check_remote_status_v033 l (status_of_raw rs)) /\
  check_raw_v200 l rs = of_option (check_remote_status_v200 l (status_of_raw rs)).
Proof.
  intros l rs.
  unfold check_raw_v031, check_raw_v032, check_raw_v033, check_raw_v200,
    check_remote_status_v031, check_remote_status_v032, check_remote_status_v033, check_remote_status_v200,
    raw_chain, raw_addr_peer, raw_genesis, meta_peer_id, check_chain_id, check_addr_peer, check_genesis,
    status_of_raw.
  unfold check_remote_status_v031, check_chain_id, check_addr_peer.
  destruct (rs_sender rs) as [sd|]; simpl;
    destruct (chain_id_read (rs_chain_id rs)) as [rc|]; simpl;
    try destruct (chain_id_eqb (l_static_chain_id l) rc);
    try destruct (chain_id_eqb (l_chain_id_at l (rs_best_height rs)) rc); simpl;
    destruct (blen (rs_best_hash rs) =? hash_id_length); simpl;
    try destruct (sd_addr_class_ok sd); simpl;
    try destruct (bytes_eqb (sd_peer_id sd) (l_peer_id l)); simpl;
    destruct (bytes_eqb (l_genesis l) (rs_genesis rs)); simpl;
    try destruct (check_by_role sd (rs_certs rs)); repeat split; reflexivity.
Qed.

(** * The role / certificate rule *)

Lemma cert_for_iff : forall sd c,
  cert_for sd c = true <->
  c_valid c = true /\ c_agent_id c = sd_peer_id sd /\ In (c_bp_id c) (sd_producers sd).
Proof.
  intros sd c. unfold cert_for. rewrite !andb_true_iff, bytes_eqb_eq, existsb_exists. split.
  - intros ((V & A) & (x & Hx & E)). apply bytes_eqb_eq in E. subst x. auto.
  - intros (V & A & I). split; [split; assumption|]. exists (c_bp_id c). split; [assumption | apply bytes_eqb_refl].
Qed.

(** A status passes checkByRole iff its sender is not an agent, or it lists at least one
    producer and every certificate is valid, for this agent and for a listed producer. *)
Theorem agent_accepted_iff : forall sd certs,
  check_by_role sd certs = true <->
  role_eff sd <> role_agent \/
  (sd_producers sd <> [] /\
   forall c, In c certs ->
     c_valid c = true /\ c_agent_id c = sd_peer_id sd /\ In (c_bp_id c) (sd_producers sd)).
Proof.
  intros sd certs. unfold check_by_role.
  destruct (role_eff sd =? role_agent) eqn:R; [apply N.eqb_eq in R | apply N.eqb_neq in R].
  - unfold check_agent. destruct (sd_producers sd) as [|p ps] eqn:P.
    + split; [discriminate|]. intros [X|(X & _)]; congruence.
    + rewrite forallb_forall. split.
      * intro F. right. split; [discriminate|]. intros c Hc. rewrite <- P. apply cert_for_iff, F, Hc.
      * intros [X|(_ & F)]; [congruence|]. intros c Hc. apply cert_for_iff. rewrite P. apply F, Hc.
  - split; [auto | reflexivity].
Qed.

(** 2.0.0: exact acceptance condition on a decoded status, certificates included. *)
Theorem v200_raw_accept_iff : forall l rs,
  check_raw_v200 l rs = CAccept <->
  exists sd, rs_sender rs = Some sd /\
    chain_id_read (rs_chain_id rs) = Some (l_chain_id_at l (rs_best_height rs)) /\
    blen (rs_best_hash rs) = hash_id_length /\ sd_addr_class_ok sd = true /\
    sd_peer_id sd = l_peer_id l /\ rs_genesis rs = l_genesis l /\
    check_by_role sd (rs_certs rs) = true.
Proof.
  intros l rs. destruct (check_raw_refines l rs) as (_ & _ & _ & E). rewrite E.
  destruct (check_remote_status_v200 l (status_of_raw rs)) eqn:C; simpl.
  - split; [discriminate|]. intros (sd & S & Hc & Hb & Ha & Hp & Hg & Hr).
    assert (X : check_remote_status_v200 l (status_of_raw rs) = None).
    { apply v200_accept_iff. unfold status_of_raw, same_chain. rewrite S. simpl. auto 10. }
    congruence.
  - split; [|reflexivity]. intros _. apply v200_accept_iff in C as ((Hc & Hg & Hp) & Ha & Hb & Hr).
    unfold status_of_raw in *. destruct (rs_sender rs) as [sd|]; simpl in *; [|discriminate].
    exists sd. auto 10.
Qed.

(** * Examples *)
Definition ex_sender : sender := mk_sender true true true [9;9] 3 [[5];[6]].
Example ex_agent_ok : check_by_role ex_sender [mk_cert true [9;9] [6]] = true.
Proof. reflexivity. Qed.
Example ex_agent_no_certs : check_by_role ex_sender [] = true.
Proof. reflexivity. Qed.
Example ex_agent_wrong_bp : check_by_role ex_sender [mk_cert true [9;9] [6]; mk_cert true [9;9] [7]] = false.
Proof. reflexivity. Qed.
Example ex_agent_no_producers : check_by_role (mk_sender true true true [9;9] 3 []) [] = false.
Proof. reflexivity. Qed.
Example ex_nil_sender : check_raw_v200 ex_local (mk_raw_status (chain_id_bytes ex_chain) (repeat 7 32) 100 None [1;2;3] []) = CRefuse EAddress.
Proof. vm_compute. reflexivity. Qed.
Example ex_raw_accept :
  check_raw_v200 ex_local (mk_raw_status (chain_id_bytes ex_chain) (repeat 7 32) 100 (Some ex_sender) [1;2;3] [mk_cert true [9;9] [5]]) = CAccept.
Proof. vm_compute. reflexivity. Qed.

(** A connection as a stream of frames (p2p/v030/v030io.go used by one read loop / one writer):
    [write_stream] = successive WriteMsg calls on one V030ReadWriter, [read_stream] = successive
    ReadMsg calls on one V030ReadWriter until the first error, returning ALL messages read.

    Messages are values in the model: a message returned by an earlier read is not affected by
    later reads.  In Go a Message holds a payload slice, so this is a real obligation of the
    implementation (no buffer shared between the messages a reader hands out); the frame
    engine checks it by holding on to every message of a stream and comparing them with what
    was written only after the whole stream has been read (op "stream").  No proofs here. *)
From Coq Require Import NArith List Bool.
From Verif Require Import Common.Bytes P2P.Frame.
Import ListNotations.
Open Scope N_scope.

Fixpoint write_stream (max : N) (ms : list msg) : option bytes :=
  match ms with
  | [] => Some []
  | m :: r =>
      match write_msg max m, write_stream max r with
      | Some b, Some bs => Some (b ++ bs)
      | _, _ => None
      end
  end.

(** Every ROk frame consumes at least the 48 header bytes, so [length s] reads suffice. *)
Definition read_stream (max : N) (s : bytes) : list msg := fst (read_all (S (length s)) max s).
Definition read_stream_end (max : N) (s : bytes) : outcome := snd (read_all (S (length s)) max s).

Definition msg_eqb (a b : msg) : bool :=
  (m_proto a =? m_proto b) && (m_length a =? m_length b) && (m_ts a =? m_ts b) &&
  bytes_eqb (m_id a) (m_id b) && bytes_eqb (m_orig a) (m_orig b) && bytes_eqb (m_payload a) (m_payload b).

Fixpoint msgs_eqb (a b : list msg) : bool :=
  match a, b with
  | [], [] => true
  | x :: a', y :: b' => msg_eqb x y && msgs_eqb a' b'
  | _, _ => false
  end.

(** Correspondence case: (max, messages written, bytes observed on the wire, messages held by
    the reader after the whole stream was read). *)
Definition stream_case_ok (c : N * list msg * bytes * list msg) : bool :=
  let '(max, ms, wire, held) := c in
  match write_stream max ms with
  | Some bs => bytes_eqb bs wire
  | None => false
  end && msgs_eqb (read_stream max wire) held.

(** * Refused writes on a long-lived writer

    WriteMsg as (error, bytes that reach the connection because of this call, now or at any
    later flush of the same bufio.Writer).  In the code both refusals ("Invalid payload size",
    "too big payload") are decided before anything is handed to the buffered writer, so a
    refused call emits nothing and the next accepted message starts at a frame boundary. *)
Inductive write_error := WInvalidSize | WTooBig.

Definition write_msg_emit (max : N) (m : msg) : option write_error * bytes :=
  if negb (m_length m =? blen (m_payload m)) then (Some WInvalidSize, [])
  else if max <? m_length m then (Some WTooBig, [])
  else (None, marshal_header m ++ m_payload m).

Definition accepted (max : N) (m : msg) : bool :=
  match fst (write_msg_emit max m) with None => true | Some _ => false end.

(** Successive WriteMsg calls on ONE writer, refused ones included: what is on the wire after
    the last flush. *)
Definition write_stream_mixed (max : N) (ms : list msg) : bytes :=
  flat_map (fun m => snd (write_msg_emit max m)) ms.

Definition write_error_code (e : option write_error) : N :=
  match e with None => 0 | Some WInvalidSize => 1 | Some WTooBig => 2 end.

(** Correspondence case: (max, messages written with per-write observed (error class, bytes
    that reached the buffer after the call), wire after a final explicit flush, messages held
    by the reader). *)
Fixpoint emits_ok (max : N) (ws : list (msg * (N * N))) : bool :=
  match ws with
  | [] => true
  | (m, (cls, n)) :: r =>
      let '(e, b) := write_msg_emit max m in
      (write_error_code e =? cls) && (blen b =? n) && emits_ok max r
  end.

Definition mixed_case_ok (c : N * list (msg * (N * N)) * bytes * list msg) : bool :=
  let '(max, ws, wire, held) := c in
  emits_ok max ws && bytes_eqb (write_stream_mixed max (map fst ws)) wire
  && msgs_eqb (read_stream max wire) held.

(** read_stream (write_stream ms) = ms. *)
From Coq Require Import NArith List Bool Lia.
From Verif Require Import Common.Bytes P2P.Frame P2P.FrameProofs P2P.Stream.
Import ListNotations.
Open Scope N_scope.

Lemma write_msg_nonempty : forall max m b, write_msg max m = Some b -> (16 <= length b)%nat.
Proof.
  intros max m b W. unfold write_msg in W.
  destruct (negb (m_length m =? blen (m_payload m))); [discriminate|].
  destruct (max <? m_length m); [discriminate|]. injection W as W. subst b.
  unfold marshal_header. repeat rewrite app_length. cbn [length]. lia.
Qed.

Lemma write_stream_length : forall max ms bs, write_stream max ms = Some bs -> (length ms <= length bs)%nat.
Proof.
  induction ms as [|m ms IH]; intros bs W; simpl in *; [lia|].
  destruct (write_msg max m) as [b|] eqn:E; [|discriminate].
  destruct (write_stream max ms) as [bs'|] eqn:E'; [|discriminate]. injection W as <-.
  rewrite app_length. pose proof (write_msg_nonempty _ _ _ E). specialize (IH _ eq_refl). lia.
Qed.

Lemma read_all_written : forall max ms fuel,
  Forall (msg_wf max) ms -> (length ms < fuel)%nat ->
  exists bs, write_stream max ms = Some bs /\ read_all fuel max bs = (ms, RErrHeader).
Proof.
  intros max ms. induction ms as [|m ms IH]; intros fuel F B.
  - exists []. split; [reflexivity|]. destruct fuel; [simpl in B; lia|]. reflexivity.
  - inversion F as [|? ? W F']; subst. destruct fuel as [|f]; [simpl in B; lia|].
    destruct (IH f F') as (bs & Hbs & Hr); [simpl in B; lia|].
    destruct (read_write_roundtrip max m bs W) as (b & Hb & R).
    exists (b ++ bs). split.
    + simpl. rewrite Hb, Hbs. reflexivity.
    + change (read_all (S f) max (b ++ bs))
        with (match outcome_of (read_msg max (b ++ bs)) with
              | ROk m0 rest => let '(ms0, e) := read_all f max rest in (m0 :: ms0, e)
              | e => ([], e) end).
      rewrite R. simpl outcome_of. cbv iota beta. rewrite Hr. reflexivity.
Qed.

(** Every message of a written stream is read back, in order, and the stream then ends with
    a clean header error (EOF). *)
Theorem read_stream_write_stream : forall max ms,
  Forall (msg_wf max) ms ->
  exists bs, write_stream max ms = Some bs /\ read_stream max bs = ms /\ read_stream_end max bs = RErrHeader.
Proof.
  intros max ms F.
  destruct (read_all_written max ms (S (length ms)) F ltac:(lia)) as (bs & W & _).
  pose proof (write_stream_length _ _ _ W) as L.
  destruct (read_all_written max ms (S (length bs)) F ltac:(lia)) as (bs' & W' & R).
  rewrite W in W'. injection W' as <-.
  exists bs. unfold read_stream, read_stream_end. rewrite R. auto.
Qed.

Example read_stream_example :
  exists bs, write_stream 1000 [ex_msg; set_payload ex_msg [1]; ex_msg] = Some bs /\
             read_stream 1000 bs = [ex_msg; set_payload ex_msg [1]; ex_msg].
Proof. eexists. split; [reflexivity|]. vm_compute. reflexivity. Qed.

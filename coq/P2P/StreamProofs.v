(** read_stream (write_stream ms) = ms. *)
From Coq Require Import NArith List Bool Lia.
From Verif Require Import Common.Bytes P2P.Frame P2P.FrameProofs P2P.Stream.
Import ListNotations.
Open Scope N_scope.

Lemma write_msg_nonempty : forall max m b, write_msg max m = Some b -> (16 <= length b)%nat.
Proof.
  intros max m b W. unfold write_msg in W.
  destruct (negb (m_length m =? blen (m_payload m))); [discriminate|].
  destruct (max <? m_length m); [discriminate|]. injection W as W. subst b.
  unfold marshal_header. repeat rewrite app_length. cbn [length]. lia.
Qed.

Lemma write_stream_length : forall max ms bs, write_stream max ms = Some bs -> (length ms <= length bs)%nat.
Proof.
  induction ms as [|m ms IH]; intros bs W; simpl in *; [lia|].
  destruct (write_msg max m) as [b|] eqn:E; [|discriminate].
  destruct (write_stream max ms) as [bs'|] eqn:E'; [|discriminate]. injection W as <-.
  rewrite app_length. pose proof (write_msg_nonempty _ _ _ E). specialize (IH _ eq_refl). lia.
Qed.

Lemma read_all_written : forall max ms fuel,
  Forall (msg_wf max) ms -> (length ms < fuel)%nat ->
  exists bs, write_stream max ms = Some bs /\ read_all fuel max bs = (ms, RErrHeader).
Proof.
  intros max ms. induction ms as [|m ms IH]; intros fuel F B.
  - exists []. split; [reflexivity|]. destruct fuel; [simpl in B; lia|]. reflexivity.
  - inversion F as [|? ? W F']; subst. destruct fuel as [|f]; [simpl in B; lia|].
    destruct (IH f F') as (bs & Hbs & Hr); [simpl in B; lia|].
    destruct (read_write_roundtrip max m bs W) as (b & Hb & R).
    exists (b ++ bs). split.
    + simpl. rewrite Hb, Hbs. reflexivity.
    + change (read_all (S f) max (b ++ bs))
        with (match outcome_of (read_msg max (b ++ bs)) with
              | ROk m0 rest => let '(ms0, e) := read_all f max rest in (m0 :: ms0, e)
              | e => ([], e) end).
      rewrite R. simpl outcome_of. cbv iota beta. rewrite Hr. reflexivity.
Qed.

(** Every message of a written stream is read back, in order, and the stream then ends with
    a clean header error (EOF). *)
Theorem read_stream_write_stream : forall max ms,
  Forall (msg_wf max) ms ->
  exists bs, write_stream max ms = Some bs /\ read_stream max bs = ms /\ read_stream_end max bs = RErrHeader.
Proof.
  intros max ms F.
  destruct (read_all_written max ms (S (length ms)) F ltac:(lia)) as (bs & W & _).
  pose proof (write_stream_length _ _ _ W) as L.
  destruct (read_all_written max ms (S (length bs)) F ltac:(lia)) as (bs' & W' & R).
  rewrite W in W'. injection W' as <-.
  exists bs. unfold read_stream, read_stream_end. rewrite R. auto.
Qed.

Example read_stream_example :
  exists bs, write_stream 1000 [ex_msg; set_payload ex_msg [1]; ex_msg] = Some bs /\
             read_stream 1000 bs = [ex_msg; set_payload ex_msg [1]; ex_msg].
Proof. eexists. split; [reflexivity|]. vm_compute. reflexivity. Qed.

(** * Refused writes *)

Lemma write_msg_emit_spec : forall max m,
  write_msg max m = match write_msg_emit max m with (None, b) => Some b | (Some _, _) => None end.
Proof.
  intros max m. unfold write_msg, write_msg_emit.
  destruct (negb (m_length m =? blen (m_payload m))); [reflexivity|].
  destruct (max <? m_length m); reflexivity.
Qed.

(** A refused write puts nothing on the wire, neither at once nor at a later flush. *)
Theorem refused_write_emits_nothing : forall max m e b,
  write_msg_emit max m = (Some e, b) -> b = [].
Proof.
  intros max m e b W. unfold write_msg_emit in W.
  destruct (negb (m_length m =? blen (m_payload m))); [inversion W; reflexivity|].
  destruct (max <? m_length m); inversion W. reflexivity.
Qed.

Lemma write_stream_mixed_filter : forall max ms,
  write_stream max (filter (accepted max) ms) = Some (write_stream_mixed max ms).
Proof.
  intros max ms. induction ms as [|m r IH]; [reflexivity|].
  unfold write_stream_mixed in *. cbn [flat_map filter]. unfold accepted at 1.
  destruct (write_msg_emit max m) as [[e|] b] eqn:E; cbn [fst snd].
  - rewrite (refused_write_emits_nothing _ _ _ _ E). cbn [app]. exact IH.
  - cbn [write_stream]. rewrite write_msg_emit_spec, E, IH. reflexivity.
Qed.

(** One long-lived writer, refused writes interleaved with accepted ones: the wire is the
    concatenation of the frames of the accepted messages only, and one reader gets exactly the
    accepted messages, in order, then a clean end. *)
Theorem read_stream_mixed_writes : forall max ms,
  (forall m, In m ms -> accepted max m = true -> msg_wf max m) ->
  read_stream max (write_stream_mixed max ms) = filter (accepted max) ms /\
  read_stream_end max (write_stream_mixed max ms) = RErrHeader.
Proof.
  intros max ms H.
  assert (F : Forall (msg_wf max) (filter (accepted max) ms)).
  { apply Forall_forall. intros m Hm. apply filter_In in Hm as (Hin & Ha). apply H; assumption. }
  destruct (read_stream_write_stream max _ F) as (bs & W & R & E).
  rewrite write_stream_mixed_filter in W. injection W as <-. auto.
Qed.

Example mixed_example :
  let big := set_payload ex_msg (repeat 7 1001) in
  let bad := mk_msg 1 9 0 (repeat 1 16) (repeat 0 16) [1;2] in
  read_stream 1000 (write_stream_mixed 1000 [ex_msg; big; bad; set_payload ex_msg [1]])
  = [ex_msg; set_payload ex_msg [1]] /\
  fst (write_msg_emit 1000 big) = Some WTooBig /\ fst (write_msg_emit 1000 bad) = Some WInvalidSize.
Proof. vm_compute. repeat split; reflexivity. Qed.

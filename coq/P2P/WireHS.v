(** Model of the wire handshake header (p2p/handshakev2.go, p2p/p2pcommon/handshake.go):
    HSHeadReq.Marshal, HSHeadResp.Marshal, baseWireHandshaker.readWireHSRequest /
    readWireHSResp (p2putil.ReadToLen on a finite stream), and
    InboundWireHandshaker.handleInboundPeer up to the versioned handshaker, composed with
    P2P/Inbound.v.  No proofs here.

    Request:  BE uint32 magic, BE uint32 version count, count x BE uint32 version.
    Response: BE uint32 magic (request magic, or 0 = HSError), BE uint32 code (chosen version,
              or an error code). *)
From Coq Require Import NArith List Bool.
From Verif Require Import Common.Bytes Codec.ChainId P2P.Frame P2P.Handshake P2P.Inbound.
Import ListNotations.
Open Scope N_scope.

Definition magic_main : N := 1195468865.        (* p2pcommon.MAGICMain 0x47416841 *)
Definition hs_error : N := 0.                    (* p2pcommon.HSError *)
Definition hs_code_wrong_req : N := 1.           (* HSCodeWrongHSReq *)
Definition hs_code_no_version : N := 2.          (* HSCodeNoMatchedVersion *)
Definition hs_max_version_cnt : N := 16.         (* HSMaxVersionCnt *)
Definition hs_word : N := 4.                     (* HSMagicLength = HSVerCntLength = HSVersionLength *)

Record hs_req := mk_hs_req { hq_magic : N; hq_versions : list N }.
Record hs_resp := mk_hs_resp { hp_magic : N; hp_code : N }.

(** HSHeadReq.Marshal (the count is uint32(len(Versions))). *)
Definition marshal_hs_req (r : hs_req) : bytes :=
  be_bytes 4 (hq_magic r) ++ be_bytes 4 (N.of_nat (length (hq_versions r)))
  ++ flat_map (be_bytes 4) (hq_versions r).

Definition marshal_hs_resp (r : hs_resp) : bytes := be_bytes 4 (hp_magic r) ++ be_bytes 4 (hp_code r).

Inductive hs_read :=
| HOk (r : hs_req) (rest : bytes)
| HTransport                  (* EOF / io error / "transport error" *)
| HBadCount (n : N)           (* "invalid version count" *)
| HPanic.                     (* buf[:n] beyond the 4-byte buffer *)

(** [hs_alloc]: bytes requested with make() (4 for the word buffer, 4 per version). *)
Record hs_read_result := mk_hrr { hs_outcome : hs_read; hs_alloc : N }.

(** buf[:n] of the HSMagicLength-byte buffer followed by ReadToLen: None = slice out of range. *)
Definition read_word (n : N) (s : bytes) : option (option (N * bytes)) :=
  if hs_word <? n then None
  else if blen s <? n then Some None
  else Some (Some (be_decode (take n s), drop n s)).

Fixpoint read_versions (k : nat) (s : bytes) (acc : list N) : option (option (list N * bytes)) :=
  match k with
  | O => Some (Some (acc, s))
  | S k' =>
      match read_word hs_word s with
      | None => None
      | Some None => Some None
      | Some (Some (v, s')) => read_versions k' s' (acc ++ [v])
      end
  end.

(** readWireHSRequest. *)
Definition read_hs_req (s : bytes) : hs_read_result :=
  match read_word hs_word s with
  | None => mk_hrr HPanic hs_word
  | Some None => mk_hrr HTransport hs_word
  | Some (Some (magic, s1)) =>
      match read_word hs_word s1 with
      | None => mk_hrr HPanic hs_word
      | Some None => mk_hrr HTransport hs_word
      | Some (Some (cnt, s2)) =>
          if (cnt =? 0) || (hs_max_version_cnt <? cnt) then mk_hrr (HBadCount cnt) hs_word
          else
            let a := hs_word + 4 * cnt in
            match read_versions (N.to_nat cnt) s2 [] with
            | None => mk_hrr HPanic a
            | Some None => mk_hrr HTransport a
            | Some (Some (vs, rest)) => mk_hrr (HOk (mk_hs_req magic vs) rest) a
            end
      end
  end.

(** readWireHSResp: None = transport error. *)
Definition read_hs_resp (s : bytes) : option (hs_resp * bytes) :=
  if blen s <? 8 then None
  else Some (mk_hs_resp (be_decode (take 4 s)) (be_decode (take 4 (drop 4 s))), drop 8 s).

(** handleInboundPeer: the response written, and what happens next. *)
Inductive wire_next :=
| WRefused                                   (* error returned, connection dropped *)
| WInner (version : N) (r : inbound_result). (* versioned handshaker's DoForInbound on the rest *)

Section Wire.
Variable decode : bytes -> option status.

Definition handle_inbound_wire (max : N) (l : local) (s : bytes) : hs_resp * wire_next :=
  match hs_outcome (read_hs_req s) with
  | HOk r rest =>
      if negb (hq_magic r =? magic_main) then (mk_hs_resp hs_error hs_code_wrong_req, WRefused)
      else
        let best := find_best_version accepted_inbound_versions (hq_versions r) in
        if best =? v_unknown then (mk_hs_resp hs_error hs_code_no_version, WRefused)
        else (mk_hs_resp (hq_magic r) best, WInner best (inbound decode max l (hq_versions r) rest))
  | _ => (mk_hs_resp hs_error hs_code_wrong_req, WRefused)
  end.
End Wire.

(** handleOutboundPeer: the request written first (MAGICMain, AttemptingOutboundVersions),
    then the response read from the stream; the version the *listener* answered is the one
    whose handshaker is created. *)
Definition attempting_outbound_versions : list N := [v200; v033; v032; v031].
Definition outbound_request : bytes := marshal_hs_req (mk_hs_req magic_main attempting_outbound_versions).

Inductive out_next :=
| ORefused                                  (* transport error, or "remote peer failed" *)
| OInner (version : N) (rest : bytes).      (* GetVersionedHandshaker(version); DoForOutbound on the rest *)

Definition handle_outbound_wire (s : bytes) : bytes * out_next :=
  match read_hs_resp s with
  | None => (outbound_request, ORefused)
  | Some (r, rest) =>
      if negb (hp_magic r =? magic_main) then (outbound_request, ORefused)
      else (outbound_request, OInner (hp_code r) rest)
  end.

Definition hs_req_wf (r : hs_req) : Prop :=
  hq_magic r < 2 ^ 32 /\ Forall (fun v => v < 2 ^ 32) (hq_versions r) /\
  (0 < length (hq_versions r))%nat /\ N.of_nat (length (hq_versions r)) <= hs_max_version_cnt.

(** * Correspondence helpers *)
Definition hs_class (o : hs_read) : N :=
  match o with HOk _ _ => 0 | HTransport => 1 | HBadCount _ => 2 | HPanic => 4 end.

Fixpoint list_N_eqb (a b : list N) : bool :=
  match a, b with
  | [], [] => true
  | x :: a', y :: b' => (x =? y) && list_N_eqb a' b'
  | _, _ => false
  end.

(** (stream, observed class, magic, versions, rest) *)
Definition hs_read_case_ok (c : bytes * N * N * list N * bytes) : bool :=
  let '(s, cls, magic, vs, rest) := c in
  let r := read_hs_req s in
  (hs_class (hs_outcome r) =? cls) &&
  match hs_outcome r with
  | HOk q rest' => (hq_magic q =? magic) && list_N_eqb (hq_versions q) vs && bytes_eqb rest' rest
  | _ => true
  end.

(** (magic, versions, observed bytes) *)
Definition hs_marshal_case_ok (c : N * list N * bytes) : bool :=
  let '(m, vs, obs) := c in bytes_eqb (marshal_hs_req (mk_hs_req m vs)) obs.

(** Inbound wire step: (stream, response bytes written, chosen version or 0 when refused,
    bytes handed to the versioned handshaker). *)
Definition wire_case_ok (c : bytes * bytes * N * bytes) : bool :=
  let '(s, resp, chosen, rest) := c in
  let '(r, nx) := handle_inbound_wire (fun _ => None) 0 (mk_local (mk_chain_id 0 false false [] []) (fun _ => mk_chain_id 0 false false [] []) [] []) s in
  bytes_eqb (marshal_hs_resp r) resp &&
  match nx with
  | WRefused => chosen =? 0
  | WInner v _ =>
      (v =? chosen) &&
      match hs_outcome (read_hs_req s) with HOk _ rest' => bytes_eqb rest' rest | _ => false end
  end.

(** Outbound: (response stream, bytes written, version handed to GetVersionedHandshaker or 0,
    bytes left for the versioned handshaker). *)
Definition wire_out_case_ok (c : bytes * bytes * N * bytes) : bool :=
  let '(s, written, chosen, rest) := c in
  let '(w, nx) := handle_outbound_wire s in
  bytes_eqb w written &&
  match nx with
  | ORefused => chosen =? 0
  | OInner v rest' => (v =? chosen) && bytes_eqb rest' rest
  end.

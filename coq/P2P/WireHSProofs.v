(** Proofs about P2P/WireHS.v (wire handshake header, p2p/handshakev2.go). *)
From Coq Require Import NArith PeanoNat List Bool Lia.
From Verif Require Import Common.Bytes Codec.ChainId P2P.Frame P2P.FrameProofs
  P2P.Handshake P2P.HandshakeProofs P2P.Inbound P2P.InboundProofs P2P.WireHS.
Import ListNotations.
Open Scope N_scope.

Lemma read_word_not_panic : forall s, read_word hs_word s <> None.
Proof. intro s. unfold read_word. rewrite N.ltb_irrefl. destruct (blen s <? hs_word); discriminate. Qed.

Lemma read_word_app : forall v rest, v < 2 ^ 32 ->
  read_word hs_word (be_bytes 4 v ++ rest) = Some (Some (v, rest)).
Proof.
  intros v rest Hv. unfold read_word. rewrite N.ltb_irrefl.
  rewrite blen_app, blen_be_bytes.
  replace (N.of_nat 4 + blen rest <? hs_word) with false
    by (symmetry; apply N.ltb_ge; unfold hs_word; lia).
  rewrite (take_app_exact hs_word (be_bytes 4 v) rest) by (rewrite blen_be_bytes; reflexivity).
  rewrite (drop_app_exact hs_word (be_bytes 4 v) rest) by (rewrite blen_be_bytes; reflexivity).
  rewrite be_decode_be_bytes by assumption. reflexivity.
Qed.

Lemma read_versions_app : forall vs rest acc,
  Forall (fun v => v < 2 ^ 32) vs ->
  read_versions (length vs) (flat_map (be_bytes 4) vs ++ rest) acc = Some (Some (acc ++ vs, rest)).
Proof.
  induction vs as [|v vs IH]; intros rest acc F.
  - simpl. rewrite app_nil_r. reflexivity.
  - inversion F as [|? ? Hv F']; subst.
    change (flat_map (be_bytes 4) (v :: vs)) with (be_bytes 4 v ++ flat_map (be_bytes 4) vs).
    cbn [length read_versions]. rewrite <- app_assoc, (read_word_app v _ Hv).
    rewrite IH by assumption. rewrite <- app_assoc. reflexivity.
Qed.

Lemma read_versions_not_panic : forall k s acc, read_versions k s acc <> None.
Proof.
  induction k as [|k IH]; intros s acc; simpl; [discriminate|].
  pose proof (read_word_not_panic s) as P.
  destruct (read_word hs_word s) as [[[v s']|]|]; [apply IH | discriminate | congruence].
Qed.

(** A well-formed request header is read back, whatever follows it. *)
Theorem hs_header_roundtrip : forall r rest, hs_req_wf r ->
  read_hs_req (marshal_hs_req r ++ rest)
  = mk_hrr (HOk r rest) (hs_word + 4 * N.of_nat (length (hq_versions r))).
Proof.
  intros [magic vs] rest (Hm & Hv & Hpos & Hmax). cbn [hq_magic hq_versions] in *.
  unfold read_hs_req, marshal_hs_req. cbn [hq_magic hq_versions].
  rewrite <- !app_assoc. rewrite (read_word_app magic _ Hm).
  assert (Hc : N.of_nat (length vs) < 2 ^ 32) by (unfold hs_max_version_cnt in Hmax; lia).
  rewrite (read_word_app _ _ Hc).
  replace (N.of_nat (length vs) =? 0) with false by (symmetry; apply N.eqb_neq; lia).
  replace (hs_max_version_cnt <? N.of_nat (length vs)) with false by (symmetry; apply N.ltb_ge; lia).
  cbn [orb]. rewrite Nnat.Nat2N.id. rewrite (read_versions_app vs rest [] Hv). reflexivity.
Qed.

(** The response header is read back. *)
Theorem hs_resp_roundtrip : forall r rest, hp_magic r < 2 ^ 32 -> hp_code r < 2 ^ 32 ->
  read_hs_resp (marshal_hs_resp r ++ rest) = Some (r, rest).
Proof.
  intros [m c] rest Hm Hc. cbn [hp_magic hp_code] in *. unfold read_hs_resp, marshal_hs_resp. cbn [hp_magic hp_code].
  rewrite !blen_app, !blen_be_bytes.
  replace (N.of_nat 4 + N.of_nat 4 + blen rest <? 8) with false by (symmetry; apply N.ltb_ge; lia).
  rewrite <- app_assoc.
  rewrite (take_app_exact 4 (be_bytes 4 m)) by (rewrite blen_be_bytes; reflexivity).
  rewrite (drop_app_exact 4 (be_bytes 4 m)) by (rewrite blen_be_bytes; reflexivity).
  rewrite (take_app_exact 4 (be_bytes 4 c)) by (rewrite blen_be_bytes; reflexivity).
  replace (drop 8 (be_bytes 4 m ++ be_bytes 4 c ++ rest)) with rest.
  - rewrite !be_decode_be_bytes by assumption. reflexivity.
  - rewrite app_assoc. symmetry. apply drop_app_exact. rewrite blen_app, !blen_be_bytes. reflexivity.
Qed.

(** Reading the request header from arbitrary bytes never panics ... *)
Theorem hs_read_total : forall s, hs_outcome (read_hs_req s) <> HPanic.
Proof.
  intro s. unfold read_hs_req.
  pose proof (read_word_not_panic s) as P1.
  destruct (read_word hs_word s) as [[[magic s1]|]|]; simpl; try discriminate; [|congruence].
  pose proof (read_word_not_panic s1) as P2.
  destruct (read_word hs_word s1) as [[[cnt s2]|]|]; simpl; try discriminate; [|congruence].
  destruct ((cnt =? 0) || (hs_max_version_cnt <? cnt)); simpl; [discriminate|].
  pose proof (read_versions_not_panic (N.to_nat cnt) s2 []) as P3.
  destruct (read_versions (N.to_nat cnt) s2 []) as [[[vs rest]|]|]; simpl; try discriminate. congruence.
Qed.

(** ... and never requests more than 4 + 4*16 bytes, whatever count the peer announces. *)
Theorem hs_alloc_bounded : forall s, hs_alloc (read_hs_req s) <= hs_word + 4 * hs_max_version_cnt.
Proof.
  intro s. unfold read_hs_req.
  destruct (read_word hs_word s) as [[[magic s1]|]|]; cbn [hs_alloc]; try (unfold hs_word, hs_max_version_cnt; lia).
  destruct (read_word hs_word s1) as [[[cnt s2]|]|]; cbn [hs_alloc]; try (unfold hs_word, hs_max_version_cnt; lia).
  destruct ((cnt =? 0) || (hs_max_version_cnt <? cnt)) eqn:E; cbn [hs_alloc]; [unfold hs_word, hs_max_version_cnt; lia|].
  apply orb_false_iff in E as (_ & E). apply N.ltb_ge in E.
  cbv zeta.
  destruct (read_versions (N.to_nat cnt) s2 []) as [[[vs rest]|]|]; cbn [hs_alloc];
    unfold hs_word, hs_max_version_cnt in *; lia.
Qed.

(** A count of zero or above 16 is refused before the version slice is made. *)
Theorem hs_bad_count_refused : forall magic cnt rest,
  magic < 2 ^ 32 -> cnt < 2 ^ 32 -> (cnt = 0 \/ hs_max_version_cnt < cnt) ->
  read_hs_req (be_bytes 4 magic ++ be_bytes 4 cnt ++ rest) = mk_hrr (HBadCount cnt) hs_word.
Proof.
  intros magic cnt rest Hm Hc Hb. unfold read_hs_req.
  rewrite (read_word_app magic _ Hm), (read_word_app cnt _ Hc).
  replace ((cnt =? 0) || (hs_max_version_cnt <? cnt)) with true; [reflexivity|].
  symmetry. apply orb_true_iff. destruct Hb as [->|Hb]; [left; reflexivity | right; apply N.ltb_lt; assumption].
Qed.

(** On success the versions read are at most 16, at least one, and the header consumed is
    exactly 8 + 4*count bytes. *)
Lemma read_versions_shape : forall k s acc vs rest,
  read_versions k s acc = Some (Some (vs, rest)) ->
  exists vs' used, vs = acc ++ vs' /\ length vs' = k /\ s = used ++ rest /\ length used = (4 * k)%nat.
Proof.
  induction k as [|k IH]; intros s acc vs rest R; simpl in R.
  - inversion R; subst. exists [], []. rewrite app_nil_r. auto.
  - unfold read_word in R. rewrite N.ltb_irrefl in R.
    destruct (blen s <? hs_word) eqn:E; [discriminate|]. apply N.ltb_ge in E.
    apply IH in R as (vs' & used & Hvs & Hl & Hs & Hu).
    exists (be_decode (take hs_word s) :: vs'), (take hs_word s ++ used).
    split; [rewrite Hvs, <- app_assoc; reflexivity|]. split; [simpl; lia|]. split.
    + rewrite <- app_assoc, <- Hs. symmetry. apply take_drop.
    + rewrite app_length, Hu. unfold take. rewrite firstn_length. unfold blen, hs_word in *. lia.
Qed.

Theorem hs_read_ok_shape : forall s r rest a,
  read_hs_req s = mk_hrr (HOk r rest) a ->
  (1 <= length (hq_versions r) <= 16)%nat /\ a = hs_word + 4 * N.of_nat (length (hq_versions r)) /\
  exists used, s = used ++ rest /\ length used = (8 + 4 * length (hq_versions r))%nat.
Proof.
  intros s r rest a R. unfold read_hs_req in R.
  unfold read_word at 1 in R. rewrite N.ltb_irrefl in R.
  destruct (blen s <? hs_word) eqn:E1; [discriminate|]. apply N.ltb_ge in E1.
  unfold read_word at 1 in R. rewrite N.ltb_irrefl in R.
  destruct (blen (drop hs_word s) <? hs_word) eqn:E2; [discriminate|]. apply N.ltb_ge in E2.
  set (cnt := be_decode (take hs_word (drop hs_word s))) in *.
  destruct ((cnt =? 0) || (hs_max_version_cnt <? cnt)) eqn:E; [discriminate|].
  apply orb_false_iff in E as (E0 & E16). apply N.eqb_neq in E0. apply N.ltb_ge in E16.
  destruct (read_versions (N.to_nat cnt) (drop hs_word (drop hs_word s)) []) as [[[vs rest']|]|] eqn:RV; try discriminate.
  inversion R; subst. simpl.
  apply read_versions_shape in RV as (vs' & used & Hvs & Hl & Hs & Hu). simpl in Hvs. subst vs.
  unfold hs_max_version_cnt in E16. split; [lia|]. split; [rewrite Hl, Nnat.N2Nat.id; reflexivity|].
  exists (take hs_word s ++ take hs_word (drop hs_word s) ++ used). split.
  - rewrite <- !app_assoc, <- Hs, take_drop, take_drop. reflexivity.
  - rewrite !app_length, Hu, Hl. unfold take. rewrite !firstn_length. unfold blen, hs_word in *. lia.
Qed.

Section WithDecode.
Variable decode : bytes -> option status.

(** Anything but a complete header with the main magic and a common version is answered
    with the error magic and the connection is refused. *)
Theorem wire_refused_unless_well_formed : forall max l s resp nx,
  handle_inbound_wire decode max l s = (resp, nx) ->
  (hp_magic resp = hs_error /\ nx = WRefused) \/
  (exists r rest, hs_outcome (read_hs_req s) = HOk r rest /\ hq_magic r = magic_main /\
     hp_magic resp = magic_main /\
     hp_code resp = find_best_version accepted_inbound_versions (hq_versions r) /\
     hp_code resp <> v_unknown /\
     nx = WInner (hp_code resp) (inbound decode max l (hq_versions r) rest)).
Proof.
  intros max l s resp nx Hh. unfold handle_inbound_wire in Hh.
  destruct (hs_outcome (read_hs_req s)) as [r rest| |n|] eqn:O;
    try (inversion Hh; subst; left; split; reflexivity).
  destruct (hq_magic r =? magic_main) eqn:M; cbn [negb] in Hh; [|inversion Hh; subst; left; split; reflexivity].
  apply N.eqb_eq in M.
  destruct (find_best_version accepted_inbound_versions (hq_versions r) =? v_unknown) eqn:B;
    [inversion Hh; subst; left; split; reflexivity|].
  apply N.eqb_neq in B. inversion Hh; subst. right. exists r, rest. cbn [hp_magic hp_code]. rewrite M. repeat split; auto.
Qed.

(** A completed inbound connection at a version other than 0.3.1: well-formed header with
    the main magic, the version answered is the one run, and the peer is on the same chain
    (same genesis, expected peer id, local chain id). *)
Theorem wire_inbound_ok_same_chain : forall max l s resp v v' st rest,
  handle_inbound_wire decode max l s = (resp, WInner v (InOk v' st rest)) -> v' <> v031 ->
  hp_magic resp = magic_main /\ hp_code resp = v /\ v' = v /\
  st_genesis st = l_genesis l /\ st_peer_id st = l_peer_id l /\
  exists rc, chain_id_read (st_chain_id st) = Some rc /\
    (rc = l_chain_id_at l (st_best_height st) \/ rc = l_static_chain_id l).
Proof.
  intros max l s resp v v' st rest Hh Hv.
  destruct (wire_refused_unless_well_formed max l s resp _ Hh) as [(_ & X)|(r & rest0 & O & M & Rm & Rc & Rn & Nx)];
    [discriminate|].
  injection Nx as Ev Ei. split; [exact Rm|]. split; [symmetry; exact Ev|].
  symmetry in Ei.
  destruct (inbound_ok_same_chain decode max l (hq_versions r) rest0 v' st rest Ei Hv) as (_ & Hg & Hp & Hc).
  assert (v' = v).
  { unfold inbound in Ei.
    destruct (run_handshaker (find_best_version accepted_inbound_versions (hq_versions r)) l
                (mk_status [] [] 0 false [] [] false)); try discriminate;
    (destruct (receive_remote_status max rest0) as [p rr| | |]; try discriminate;
     destruct (decode p); try discriminate;
     destruct (run_handshaker (find_best_version accepted_inbound_versions (hq_versions r)) l s0) eqn:RH; try discriminate;
     inversion Ei; subst; apply run_handshaker_ok in RH as (E1 & _); rewrite E1, Rc; reflexivity). }
  auto.
Qed.

End WithDecode.

(** * Outbound side *)

(** The request an outbound node writes is read by an inbound node, which answers the best
    version 2.0.0; that answer is accepted by the outbound node with the same version. *)
Theorem wire_interop : forall (decode : bytes -> option status) max l rest rest',
  hs_outcome (read_hs_req (outbound_request ++ rest))
    = HOk (mk_hs_req magic_main attempting_outbound_versions) rest /\
  fst (handle_inbound_wire decode max l (outbound_request ++ rest)) = mk_hs_resp magic_main v200 /\
  handle_outbound_wire (marshal_hs_resp (mk_hs_resp magic_main v200) ++ rest')
    = (outbound_request, OInner v200 rest').
Proof.
  intros decode max l rest rest'.
  assert (W : hs_req_wf (mk_hs_req magic_main attempting_outbound_versions)).
  { unfold hs_req_wf, attempting_outbound_versions, magic_main, hs_max_version_cnt, v200, v033, v032, v031; simpl.
    repeat split; try lia; repeat constructor. }
  pose proof (hs_header_roundtrip _ rest W) as R. fold outbound_request in R.
  split; [rewrite R; reflexivity|]. split.
  - unfold handle_inbound_wire. rewrite R. reflexivity.
  - unfold handle_outbound_wire. rewrite hs_resp_roundtrip by (unfold magic_main, v200; simpl; lia). reflexivity.
Qed.

(** Anything but a complete response carrying the main-net magic ends the attempt. *)
Theorem outbound_refuses_error_response : forall s,
  (blen s < 8 \/ (8 <= blen s /\ be_decode (take 4 s) <> magic_main)) ->
  snd (handle_outbound_wire s) = ORefused.
Proof.
  intros s Hs. unfold handle_outbound_wire, read_hs_resp. destruct Hs as [Hs|[Hs Hm]].
  - replace (blen s <? 8) with true by (symmetry; apply N.ltb_lt; assumption). reflexivity.
  - replace (blen s <? 8) with false by (symmetry; apply N.ltb_ge; assumption). simpl.
    apply N.eqb_neq in Hm. rewrite Hm. reflexivity.
Qed.

(** F20, outbound side (refuted: "an outbound node runs the best version it offered"): the
    version is whatever the listener answers; a listener answering 0.3.1 is followed, and
    the 0.3.1 handshaker then completes with a peer of another genesis. *)
Theorem outbound_version_chosen_by_listener_refuted :
  exists s l st,
    snd (handle_outbound_wire s) = OInner v031 [] /\
    In v200 attempting_outbound_versions /\
    st_genesis st <> l_genesis l /\ check_remote_status_v031 l st = None.
Proof.
  exists (marshal_hs_resp (mk_hs_resp magic_main v031)), ex_local, ex_status_other_genesis.
  split; [vm_compute; reflexivity|]. split; [left; reflexivity|].
  split; [discriminate | vm_compute; reflexivity].
Qed.

(** * Examples *)
Definition ex_req : hs_req := mk_hs_req magic_main [v200; v033; v031].
Example ex_req_wf : hs_req_wf ex_req.
Proof. unfold hs_req_wf, ex_req, magic_main, hs_max_version_cnt; simpl. repeat split; try lia; repeat constructor. Qed.
Example ex_req_bytes : marshal_hs_req ex_req = [71;65;104;65; 0;0;0;3; 0;2;0;0; 0;0;3;3; 0;0;3;1].
Proof. reflexivity. Qed.
Example ex_wire_ok :
  fst (handle_inbound_wire (fun _ => None) 1000 ex_local (marshal_hs_req ex_req ++ [1;2])) = mk_hs_resp magic_main v200.
Proof. vm_compute. reflexivity. Qed.
Example ex_wire_wrong_magic :
  handle_inbound_wire (fun _ => None) 1000 ex_local (marshal_hs_req (mk_hs_req 5 [v200]))
  = (mk_hs_resp 0 1, WRefused).
Proof. vm_compute. reflexivity. Qed.
Example ex_wire_no_version :
  handle_inbound_wire (fun _ => None) 1000 ex_local (marshal_hs_req (mk_hs_req magic_main [768; 7]))
  = (mk_hs_resp 0 2, WRefused).
Proof. vm_compute. reflexivity. Qed.
Example ex_wire_huge_count :
  read_hs_req (be_bytes 4 magic_main ++ be_bytes 4 4294967295 ++ repeat 0 100) = mk_hrr (HBadCount 4294967295) 4.
Proof. vm_compute. reflexivity. Qed.

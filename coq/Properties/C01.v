(** C01  Ledger conservation.  Statements only; proofs in Ledger/{Supply,TxProofs,BlockProofs}.v.
    Hypotheses shared by the block-level theorems: balances of the pre-state are non-negative,
    the gas price is non-negative, the repaired contract/name code (c_fix_f18, fixes/F18_*.diff),
    and every transaction is sent with a non-negative amount from a plain account (no code, not
    the address being created, not aergo.name itself for setOwner) -- [txs_plain]. *)
From stdpp Require Import gmap.
From Coq Require Import ZArith List Bool.
From Verif Require Import Ledger.Model Ledger.Supply Ledger.Frame Ledger.TxProofs Ledger.BlockProofs.
Import ListNotations.
Open Scope Z_scope.

Theorem C01_send_balance_conserves : forall a b x a' b',
  send_balance a b x = Some (a', b') -> 0 <= x -> 0 <= a_bal a -> 0 <= a_bal b ->
  a_bal a' + a_bal b' = a_bal a + a_bal b.
Proof. exact send_balance_conserves. Qed.
Print Assumptions C01_send_balance_conserves.

Theorem C01_stake_conserves : forall cfg bno s t sd rc s' sd' rc',
  exec_stake cfg bno s t sd rc = Some (s', sd', rc') -> pre s sd rc -> 0 <= t_amount t ->
  post s sd rc s' sd' rc'.
Proof. exact exec_stake_post. Qed.
Print Assumptions C01_stake_conserves.

Theorem C01_unstake_conserves : forall cfg bno s t sd rc s' sd' rc',
  exec_unstake cfg bno s t sd rc = Some (s', sd', rc') -> pre s sd rc -> 0 <= t_amount t ->
  post s sd rc s' sd' rc'.
Proof. exact exec_unstake_post. Qed.
Print Assumptions C01_unstake_conserves.

Theorem C01_name_tx_conserves : forall is_name cfg, c_fix_f18 cfg = true ->
  forall s t sd rc s' sd' rc',
  exec_name is_name cfg s t sd rc = Some (s', sd', rc') -> pre s sd rc -> 0 <= t_amount t ->
  (t_kind t = KSetOwner -> a_id sd <> a_id rc) ->
  post s sd rc s' sd' rc'.
Proof. exact exec_name_post. Qed.
Print Assumptions C01_name_tx_conserves.

Theorem C01_exec_tx_supply : forall is_name cid_of tx_hash vm cfg,
  0 <= c_gas_price cfg -> c_fix_f18 cfg = true ->
  forall bno s t o s',
  nonneg s -> 0 <= t_amount t -> plain_sender is_name cid_of s t ->
  exec_tx is_name cid_of tx_hash vm cfg bno s t = (o, s') ->
  nonneg s' /\ supply s' + bp_reward s' = supply s + bp_reward s /\
  match o with
  | Rejected => s' = s
  | _ => exists status fee, 0 <= fee /\ (o = FeeNonceOnly -> status = 2%N) /\ supply s' = supply s - fee /\
               bp_reward s' = bp_reward s + fee /\ receipts s' = receipts s ++ [mk_receipt cfg t status fee]
  end.
Proof. exact exec_tx_supply. Qed.
Print Assumptions C01_exec_tx_supply.

Theorem C01_voting_reward_conserves : forall reward winner s,
  nonneg s -> 0 <= reward ->
  nonneg (send_voting_reward reward winner s) /\ supply (send_voting_reward reward winner s) = supply s /\
  bp_reward (send_voting_reward reward winner s) = bp_reward s /\ receipts (send_voting_reward reward winner s) = receipts s.
Proof. exact voting_reward_conserves. Qed.
Print Assumptions C01_voting_reward_conserves.

(** validated block: coinbase present => supply unchanged; absent => shrinks by exactly the
    sum of the fees in the block's receipts *)
Theorem C01_exec_block_conserves : forall is_name cid_of tx_hash vm sig_ok cfg,
  0 <= c_gas_price cfg -> c_fix_f18 cfg = true ->
  forall bno cb vr s txs s',
  nonneg s -> vreward_ok vr -> txs_plain is_name cid_of tx_hash vm cfg bno (begin_block s) txs ->
  exec_block is_name cid_of tx_hash vm sig_ok cfg bno cb vr s txs = Some s' ->
  nonneg s' /\ match cb with
               | Some _ => supply s' = supply s
               | None => supply s - supply s' = fee_sum (receipts s')
               end.
Proof. exact exec_block_supply. Qed.
Print Assumptions C01_exec_block_conserves.

Theorem C01_produce_block_conserves : forall is_name cid_of tx_hash vm cfg,
  0 <= c_gas_price cfg -> c_fix_f18 cfg = true ->
  forall bno cb vr s cands l s',
  nonneg s -> vreward_ok vr -> txs_plain is_name cid_of tx_hash vm cfg bno (begin_block s) cands ->
  produce_block is_name cid_of tx_hash vm cfg bno cb vr s cands = (l, s') ->
  nonneg s' /\ match cb with
               | Some _ => supply s' = supply s
               | None => supply s - supply s' = fee_sum (receipts s')
               end.
Proof. exact produce_block_supply. Qed.
Print Assumptions C01_produce_block_conserves.

(** any list of blocks, hence every branch of every fork history *)
Theorem C01_chain_conserves : forall is_name cid_of tx_hash vm sig_ok cfg,
  0 <= c_gas_price cfg -> c_fix_f18 cfg = true ->
  forall vr bl s s',
  nonneg s -> vreward_ok vr -> chain_plain is_name cid_of tx_hash vm sig_ok cfg vr s bl ->
  exec_chain is_name cid_of tx_hash vm sig_ok cfg vr s bl = Some s' ->
  nonneg s' /\ supply s' = supply s.
Proof. exact chain_conserves. Qed.
Print Assumptions C01_chain_conserves.

From Verif Require Import Ledger.Refuted.
(** F24: without the repair (c_fix_f24 = false) and without the plain-sender hypothesis, conservation
    fails: a fee-delegation transaction sent through a name that resolves to the called contract
    itself mints its fee.  (Reproduced on the real executor by corpus tag f24.) *)
Theorem C01_exec_tx_supply_self_feedeleg_refuted :
  exists is_name cid_of tx_hash vm cfg bno s t o s',
    c_fix_f24 cfg = false /\ nonneg s /\ 0 <= t_amount t /\ 0 <= c_gas_price cfg /\ c_fix_f18 cfg = true /\
    exec_tx is_name cid_of tx_hash vm cfg bno s t = (o, s') /\ o = Applied /\
    supply s' + bp_reward s' = supply s + bp_reward s + 2000000000000000.
Proof. exact exec_tx_supply_self_feedeleg_refuted. Qed.
Print Assumptions C01_exec_tx_supply_self_feedeleg_refuted.

From Verif Require Import Ledger.Examples Ledger.Eval.
(** the hypotheses of the chain theorems are satisfiable by a non-trivial two-block chain (transfers,
    stake, name purchase, a run-time failing call, coinbase, fee regime) *)
Theorem C01_chain_hypotheses_satisfiable :
  exists s', exec_chain is_name_std w_cid w_hash e_vm sig_ok_std e_cfg (fun x => x) e_state e_chain = Some s' /\
             chain_plain is_name_std w_cid w_hash e_vm sig_ok_std e_cfg (fun x => x) e_state e_chain /\
             supply s' = supply e_state /\
             nonce (acct_of s' 10%N) = 3%N /\ nonce (acct_of s' 11%N) = 2%N /\
             length (receipts s') = 2%nat.
Proof. exact chain_hypotheses_satisfiable. Qed.
Print Assumptions C01_chain_hypotheses_satisfiable.

(** the block reward as composed by a DPoS node: voting reward, then a fresh coinbase copy credited with BpReward *)
Theorem C01_block_reward_composition_conserves : forall reward winner cb s,
  nonneg s -> 0 <= reward -> 0 <= bp_reward s ->
  nonneg (send_reward_coinbase (send_voting_reward reward winner s) cb) /\
  supply (send_reward_coinbase (send_voting_reward reward winner s) cb)
    = supply s + (match cb with Some _ => bp_reward s | None => 0 end).
Proof. exact block_reward_composition_conserves. Qed.
Print Assumptions C01_block_reward_composition_conserves.

(** loading the coinbase copy before the hook (stale copy) loses the reward when winner = coinbase *)
Theorem C01_block_reward_stale_order_refuted :
  supply (block_reward_stale 160 (Some 10%N) 10%N w_rstate) = supply w_rstate + bp_reward w_rstate - 160 /\
  supply (send_reward_coinbase (send_voting_reward 160 (Some 10%N) w_rstate) (Some 10%N)) = supply w_rstate + bp_reward w_rstate.
Proof. exact block_reward_stale_order_refuted. Qed.
Print Assumptions C01_block_reward_stale_order_refuted.

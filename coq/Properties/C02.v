(** C02  Deterministic execution: same block + same prior state => same roots; blocks built by
    the producer path are accepted by the validator path.
    Statements only ([exact] of lemmas proved in Determ/*.v and Gov/*.v), except the
    reflective obligation over the generated inventory Gen/MapRanges.v, which is closed by
    [vm_compute]. *)
From Coq Require Import ZArith NArith List Bool Permutation Sorted String.
From Verif Require Import Gov.Model Gov.VoteOrder Gov.VprProofs Determ.Sorting Determ.Export Determ.Agree Determ.BlockState Determ.Refuse Determ.Shapes.
From Verif Require Import Gen.MapRanges.
Import ListNotations.
Open Scope Z_scope.

(** (a) The producer drops exactly the transactions the validator would reject: the block it
    builds is accepted by the validator with the producer's final state (hence identical
    roots).  Hypothesis: the dropped transactions were refused by validation, i.e. did not
    fail after touching the process-wide voting-power rank (panic / unstake pay-back failure,
    both unreachable under GovInv with non-negative donations). *)
Theorem C02_produce_validate_agree : forall c cands g b g',
  skips_clean c g cands -> produce_block c g cands = (b, g') -> exec_block c g b = Some g'.
Proof. exact produce_validate_agree. Qed.
Print Assumptions C02_produce_validate_agree.

(** (a), at the level of chain.executeTx / NewTxExecutor / BlockState: the block state is the
    part saved by Snapshot/Rollback (accounts, storages) plus what is NOT saved — BpReward,
    receipts, internalOps, CCProposal, process-wide globals.  If every transaction the producer
    drops (or that ends the block by a contract timeout) left those untouched, the validator
    ends in the producer's block state, reward pot and receipts included. *)
Theorem C02_produce_validate_agree_blockstate :
  forall (C M R P T : Type) (etx : bstate C M R P -> T -> bool * bool * bstate C M R P) cands bs b bs',
    skips_clean_b C M R P T etx bs cands -> produce C M R P T etx bs cands = (b, bs') ->
    validate C M R P T etx bs b = Some bs'.
Proof. exact produce_validate_agree_b. Qed.
Print Assumptions C02_produce_validate_agree_blockstate.

(** executeTx (HEAD ordering) credits the reward pot and appends receipt / internal ops only on
    its non-failing exit; NewTxExecutor restores the covered part. *)
Theorem C02_execute_tx_failure_leaves_pot_and_receipts :
  forall (C M R P T : Type) (core : C -> M -> option P -> T -> core_result C M R P) bs t to bs',
    tx_exec C M R P T (execute_tx C M R P T core) bs t = (true, to, bs') ->
    bp _ _ _ _ bs' = bp _ _ _ _ bs /\ rcpts _ _ _ _ bs' = rcpts _ _ _ _ bs /\ iops _ _ _ _ bs' = iops _ _ _ _ bs /\
    covered _ _ _ _ bs' = covered _ _ _ _ bs.
Proof. exact execute_tx_failure_leaves_pot_and_receipts. Qed.
Print Assumptions C02_execute_tx_failure_leaves_pot_and_receipts.

(** so for HEAD the hypothesis reduces to: a dropped transaction did not touch CCProposal and
    the globals (for governance transactions: C15_rejected_tx_memory_unchanged). *)
Theorem C02_produce_validate_agree_head :
  forall (C M R P T : Type) (core : C -> M -> option P -> T -> core_result C M R P) cands bs b bs',
    skips_clean_core C M R P T core bs cands ->
    produce C M R P T (execute_tx C M R P T core) bs cands = (b, bs') ->
    validate C M R P T (execute_tx C M R P T core) bs b = Some bs'.
Proof. exact produce_validate_agree_head. Qed.
Print Assumptions C02_produce_validate_agree_head.

(** the ordering of seeded/C02/patch.diff (pot credited before the error handling) is refuted:
    a dropped call leaves its fee in the pot, the validator computes another pot. *)
Theorem C02_bp_reward_before_error_handling_refuted :
  exists cands bs,
    let '(b, bs') := produce Z unit Z unit Z (execute_tx_mut Z unit Z unit Z demo_core) bs cands in
    exists bs'', validate Z unit Z unit Z (execute_tx_mut Z unit Z unit Z demo_core) bs b = Some bs'' /\ bp _ _ _ _ bs'' <> bp _ _ _ _ bs'.
Proof. exact bp_reward_before_error_handling_refuted. Qed.
Print Assumptions C02_bp_reward_before_error_handling_refuted.

(** (a) with the block-generation deadline as an input: [d] = how many more transactions may
    start before the deadline (None = never).  The producer stops BEFORE executing the first
    transaction after the deadline (checkBGTimeout is composed before the executor), so for EVERY
    deadline position the block is accepted with the producer's block state. *)
Theorem C02_produce_validate_agree_deadline :
  forall (C M R P T : Type) (etx : bstate C M R P -> T -> bool * bool * bstate C M R P) cands d bs b bs',
    skips_clean_d C M R P T etx d bs cands -> produce_d C M R P T etx d bs cands = (b, bs') ->
    validate C M R P T etx bs b = Some bs'.
Proof. exact produce_validate_agree_deadline. Qed.
Print Assumptions C02_produce_validate_agree_deadline.

(** the order of seeded/C02-r2/patch.diff (deadline tested after the transaction has run) is
    refuted: the transaction during which the deadline passes is in the producer's state but not
    in its block. *)
Theorem C02_deadline_checked_after_tx_refuted :
  exists cands d bs,
    let '(b, bs') := produce_d_mut Z unit Z unit Z (execute_tx Z unit Z unit Z demo_core) d bs cands in
    exists bs'', validate Z unit Z unit Z (execute_tx Z unit Z unit Z demo_core) bs b = Some bs'' /\ bs'' <> bs'.
Proof. exact deadline_checked_after_tx_refuted. Qed.
Print Assumptions C02_deadline_checked_after_tx_refuted.

(** (b)/(c) uniqueness of sorted permutations for a strict total order. *)
Theorem C02_sorted_perm_unique : forall (A : Type) (ltb : A -> A -> bool) (P : A -> Prop),
  irreflexive ltb -> transitive ltb -> total_on ltb P ->
  forall l1 l2, Forall P l1 -> NoDup l1 -> go_sorted ltb l1 -> go_sorted ltb l2 -> Permutation l1 l2 -> l1 = l2.
Proof. exact @sorted_perm_unique. Qed.
Print Assumptions C02_sorted_perm_unique.

(** (b) stateBuffer.export does not depend on the iteration order of buffer.indexes, whatever
    the (unstable) sort.Slice does; its keys are strictly ascending. *)
Theorem C02_export_order_independent : forall order1 order2 : list entry,
  NoDup (map fst order1) -> Permutation order1 order2 -> export order1 = export order2.
Proof. exact export_order_independent. Qed.
Print Assumptions C02_export_order_independent.

Theorem C02_export_is_any_go_sort : forall order out : list entry,
  NoDup (map fst order) -> Permutation order out -> go_sorted key_ltb out -> out = export order.
Proof. exact export_is_any_go_sort. Qed.
Print Assumptions C02_export_is_any_go_sort.

Theorem C02_export_sorted_nodup : forall order : list entry,
  NoDup (map fst order) -> strictly_sorted key_ltb (export order) /\ Permutation order (export order).
Proof. exact export_sorted_nodup. Qed.
Print Assumptions C02_export_sorted_nodup.

(** (c) the repaired VoteList.Less is a strict total order; the stored ranking is unique. *)
Theorem C02_vote_less_total :
  irreflexive vote_less_fixed /\ transitive vote_less_fixed /\
  forall x y, x <> y -> vote_less_fixed x y = true \/ vote_less_fixed y x = true.
Proof. exact vote_less_total. Qed.
Print Assumptions C02_vote_less_total.

Theorem C02_ranking_order_independent : forall l1 l2 : list (cand * Z),
  NoDup l1 -> Permutation l1 l2 -> isort (rank_before true) l1 = isort (rank_before true) l2.
Proof. exact ranking_order_independent. Qed.
Print Assumptions C02_ranking_order_independent.

(** F10: at HEAD the comparator is not total and the ranking depends on the map order;
    it is total where the candidate keys differ. *)
Theorem C02_vote_less_not_total_refuted :
  exists x y : cand * Z, x <> y /\ fst x <> fst y /\
    vote_less_legacy x y = false /\ vote_less_legacy y x = false.
Proof. exact vote_less_not_total_refuted. Qed.
Print Assumptions C02_vote_less_not_total_refuted.

Theorem C02_vote_less_total_on : forall x y : cand * Z,
  List.length (fst x) = List.length (fst y) -> cand_key (fst x) <> cand_key (fst y) ->
  vote_less_legacy x y = true \/ vote_less_legacy y x = true.
Proof. exact vote_less_legacy_total_on. Qed.
Print Assumptions C02_vote_less_total_on.

(** (d) voting-power buckets stay ordered by account id, so their bytes are a function of the
    set of entries; the stored buckets do not depend on the order in which updRows is
    visited. *)
Theorem C02_vpr_bucket_sorted : forall e b, buckets_sorted b -> buckets_sorted (store_update e b).
Proof. exact vpr_bucket_sorted. Qed.
Print Assumptions C02_vpr_bucket_sorted.

Theorem C02_bucket_canonical : forall l1 l2,
  bucket_sorted l1 -> bucket_sorted l2 -> Permutation l1 l2 -> l1 = l2.
Proof. exact bucket_canonical. Qed.
Print Assumptions C02_bucket_canonical.

Theorem C02_vpr_write_rows_order_independent : forall b rows disk i,
  get_bucket i (write_rows rows b disk)
  = if existsb (N.eqb i) rows then bucket_disk (get_bucket i b) else get_bucket i disk.
Proof. exact write_rows_get. Qed.
Print Assumptions C02_vpr_write_rows_order_independent.

(** (d') when the process-wide state is the one rebuilt from the durable state, execution is a
    function of the durable state alone ... *)
Theorem C02_exec_depends_on_durable_only : forall c no d m1 m2 t,
  m1 = reload c d -> m2 = reload c d -> apply_tx c no d m1 t = apply_tx c no d m2 t.
Proof. exact exec_depends_on_durable_only. Qed.
Print Assumptions C02_exec_depends_on_durable_only.

(** ... the precondition is not an invariant of histories in which a producer executes a
    block that is never connected (F12): the same transaction then writes a different
    durable state. *)
Theorem C02_discarded_production_breaks_precondition_refuted :
  exists c no d m1 m2 t,
    m1 = reload c d /\
    (exists t0, m2 = snd (apply_tx c no d m1 t0)) /\
    disk_total (d_vpr (snd (fst (apply_tx c no d m1 t)))) <> disk_total (d_vpr (snd (fst (apply_tx c no d m2 t)))).
Proof. exact exec_depends_on_memory_refuted. Qed.
Print Assumptions C02_discarded_production_breaks_precondition_refuted.

(** (d'') which discard paths reload the process-wide rank.  A block the validator executed and
    then REFUSED (chain.executeBlock calls cs.Update(bestBlock) = dpos.Status.Update rollback branch
    = InitVPR(state of best) + CommitParams(false)) leaves no residue, whatever it contained; the
    same branch serves reorganisations.  Only the producer's own unconnected block is not covered
    (F12, above). *)
Theorem C02_refused_block_leaves_no_residue : forall c g xs, refuse_block c g xs = refuse_block c g [].
Proof. exact refused_block_leaves_no_residue. Qed.
Print Assumptions C02_refused_block_leaves_no_residue.

(** seeded/C02-r4 (reload skipped when the status already stands on the target block): the refused
    block's rank changes stay in memory and the valid sibling applies them a second time. *)
Theorem C02_refused_block_keeps_residue_seeded_refuted :
  exists c g xs ys,
    g_m g = reload c (g_d g) /\
    disk_total (d_vpr (g_d (exec_txs c (refuse_block_seeded c g xs) ys)))
    <> disk_total (d_vpr (g_d (exec_txs c (refuse_block_seeded c g []) ys))).
Proof. exact refused_block_keeps_residue_seeded_refuted. Qed.
Print Assumptions C02_refused_block_keeps_residue_seeded_refuted.

(** (e) NO INFORMATION: [exec_block] is a Gallina function, so repeating an execution gives
    the same result by reflexivity.  Stated only to make explicit that the model has no hidden
    inputs; the content is in (a)-(d') and in the cross-process runs of the check. *)
Theorem C02_exec_block_is_a_function : forall c g b, exec_block c g b = exec_block c g b.
Proof. exact exec_block_is_a_function. Qed.
Print Assumptions C02_exec_block_is_a_function.

(** Generated obligation: every map range / time.Now / unseeded rand / multi-case select in a
    function reachable from executeTx / executeBlock / GatherTXs has a shape with an
    order-independence lemma, is a reviewed site, a producer-choice site, or a reported
    finding.  A new unsorted map iteration is [Unknown] and this fails. *)
Theorem C02_map_ranges_ok : sites_ok map_ranges = true.
Proof. vm_compute. reflexivity. Qed.
Print Assumptions C02_map_ranges_ok.

Theorem C02_sites_ok_sound : forall l,
  sites_ok l = true ->
  forall s, In s l -> is_finding s = true \/ is_producer_choice s = true \/ justified (effective_shape s).
Proof. exact sites_ok_sound. Qed.
Print Assumptions C02_sites_ok_sound.

(** C03  Transaction atomicity (ledger part).  Proofs in Ledger/AtomAuth.v, Ledger/BlockProofs.v. *)
From stdpp Require Import gmap.
From Coq Require Import ZArith List Bool.
From Verif Require Import Ledger.Model Ledger.Supply Ledger.TxProofs Ledger.BlockProofs Ledger.AtomAuth.
Import ListNotations.
Open Scope Z_scope.

(** the three outcomes are exclusive and exhaustive by construction (a function into a
    three-constructor type); the content is what each outcome may have changed *)
Theorem C03_rejected_unchanged : forall is_name cid_of tx_hash vm cfg bno s t s',
  exec_tx is_name cid_of tx_hash vm cfg bno s t = (Rejected, s') -> s' = s.
Proof. exact exec_tx_rejected_unchanged. Qed.
Print Assumptions C03_rejected_unchanged.

Theorem C03_fee_nonce_only_partial : forall is_name cid_of tx_hash vm cfg bno s t s',
  exec_tx is_name cid_of tx_hash vm cfg bno s t = (FeeNonceOnly, s') ->
  rest_eq s s' /\
  exists fee payer,
    bp_reward s' = bp_reward s + fee /\ receipts s' = receipts s ++ [mk_receipt cfg t 2%N fee] /\
    fee <= bal (acct_of s payer) /\
    (forall id, id <> resolve is_name s (t_from t) -> id <> payer -> accts s' !! id = accts s !! id).
Proof. exact exec_tx_fee_nonce_only_partial. Qed.
Print Assumptions C03_fee_nonce_only_partial.

(** per outcome: what happened to value, BpReward and the receipts *)
Theorem C03_exec_tx_trichotomy : forall is_name cid_of tx_hash vm cfg,
  0 <= c_gas_price cfg -> c_fix_f18 cfg = true ->
  forall bno s t o s',
  nonneg s -> 0 <= t_amount t -> plain_sender is_name cid_of s t ->
  exec_tx is_name cid_of tx_hash vm cfg bno s t = (o, s') ->
  nonneg s' /\ supply s' + bp_reward s' = supply s + bp_reward s /\
  match o with
  | Rejected => s' = s
  | _ => exists status fee, 0 <= fee /\ (o = FeeNonceOnly -> status = 2%N) /\ supply s' = supply s - fee /\
               bp_reward s' = bp_reward s + fee /\ receipts s' = receipts s ++ [mk_receipt cfg t status fee]
  end.
Proof. exact exec_tx_supply. Qed.
Print Assumptions C03_exec_tx_trichotomy.

Theorem C03_exec_block_fail_unchanged : forall is_name cid_of tx_hash vm sig_ok cfg bno cb vr s txs,
  exec_block is_name cid_of tx_hash vm sig_ok cfg bno cb vr s txs = None ->
  apply_block is_name cid_of tx_hash vm sig_ok cfg bno cb vr s txs = s.
Proof. exact exec_block_fail_unchanged. Qed.
Print Assumptions C03_exec_block_fail_unchanged.

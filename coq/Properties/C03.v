(** C03  Transaction atomicity (ledger part).  Proofs in Ledger/AtomAuth.v, Ledger/BlockProofs.v. *)
From stdpp Require Import gmap.
From Coq Require Import ZArith List Bool.
From Verif Require Import Ledger.Model Ledger.Supply Ledger.TxProofs Ledger.BlockProofs Ledger.AtomAuth.
Import ListNotations.
Open Scope Z_scope.

(** the three outcomes are exclusive and exhaustive by construction (a function into a
    three-constructor type); the content is what each outcome may have changed *)
Theorem C03_rejected_unchanged : forall is_name cid_of tx_hash vm cfg bno s t s',
  exec_tx is_name cid_of tx_hash vm cfg bno s t = (Rejected, s') -> s' = s.
Proof. exact exec_tx_rejected_unchanged. Qed.
Print Assumptions C03_rejected_unchanged.

(** FeeNonceOnly, exact: the post-state is the pre-state with the sender entry := (balance - fee,
    nonce := tx nonce) -- or, for fee delegation to a different account, sender entry := (nonce := tx
    nonce) and contract entry := (balance - fee) -- BpReward += fee and one ERROR receipt; all other
    accounts, staking records, names and contract storages are those of the pre-state *)
Theorem C03_fee_nonce_only : forall is_name cid_of tx_hash vm cfg bno s t s',
  exec_tx is_name cid_of tx_hash vm cfg bno s t = (FeeNonceOnly, s') ->
  let sid := resolve is_name s (t_from t) in
  let rid := receiver_id is_name cid_of s t in
  exists fee,
    (fee <= bal (acct_of s sid) /\
     s' = finish cfg (with_accts s (<[sid := reset_entry (acct_of s sid) (Some fee) (Some (t_nonce t))]> (accts s))) t 2%N fee)
    \/
    (t_kind t = KFeeDeleg /\ rid <> sid /\ fee <= bal (acct_of s rid) /\
     s' = finish cfg (with_accts s (<[rid := reset_entry (acct_of s rid) (Some fee) None]>
                                     (<[sid := reset_entry (acct_of s sid) None (Some (t_nonce t))]> (accts s)))) t 2%N fee).
Proof. exact exec_tx_fee_nonce_only. Qed.
Print Assumptions C03_fee_nonce_only.

(** per outcome: what happened to value, BpReward and the receipts *)
Theorem C03_exec_tx_trichotomy : forall is_name cid_of tx_hash vm cfg,
  0 <= c_gas_price cfg -> c_fix_f18 cfg = true ->
  forall bno s t o s',
  nonneg s -> 0 <= t_amount t -> plain_sender is_name cid_of s t ->
  exec_tx is_name cid_of tx_hash vm cfg bno s t = (o, s') ->
  nonneg s' /\ supply s' + bp_reward s' = supply s + bp_reward s /\
  match o with
  | Rejected => s' = s
  | _ => exists status fee, 0 <= fee /\ (o = FeeNonceOnly -> status = 2%N) /\ supply s' = supply s - fee /\
               bp_reward s' = bp_reward s + fee /\ receipts s' = receipts s ++ [mk_receipt cfg t status fee]
  end.
Proof. exact exec_tx_supply. Qed.
Print Assumptions C03_exec_tx_trichotomy.

Theorem C03_exec_block_fail_unchanged : forall is_name cid_of tx_hash vm sig_ok cfg bno cb vr s txs,
  exec_block is_name cid_of tx_hash vm sig_ok cfg bno cb vr s txs = None ->
  apply_block is_name cid_of tx_hash vm sig_ok cfg bno cb vr s txs = s.
Proof. exact exec_block_fail_unchanged. Qed.
Print Assumptions C03_exec_block_fail_unchanged.

(** commit-only path (block delivered with a block state): a state that is not the one the header commits to
    leaves the node state unchanged; a refused pooled transaction leaves the state unchanged *)
Theorem C03_commit_only_fail_unchanged : forall (root_of : lstate -> N) hdr supplied s,
  root_of supplied <> hdr -> commit_only root_of hdr supplied s = s.
Proof. exact commit_only_fail_unchanged. Qed.
Print Assumptions C03_commit_only_fail_unchanged.

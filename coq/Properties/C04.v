(** C04  Authorisation and replay protection (ledger part).  Proofs in Ledger/AtomAuth.v. *)
From stdpp Require Import gmap.
From Coq Require Import ZArith List Bool.
From Verif Require Import Ledger.Model Ledger.AtomAuth.
Import ListNotations.
Open Scope Z_scope.

Theorem C04_exec_tx_authorised : forall is_name cid_of tx_hash vm cfg bno s t o s',
  exec_tx is_name cid_of tx_hash vm cfg bno s t = (o, s') -> o <> Rejected ->
  t_chain t = c_chain cfg /\ t_hash t = tx_hash t /\ t_from t <> 0%N /\
  t_nonce t = (nonce (acct_of s (resolve is_name s (t_from t))) + 1)%N.
Proof. exact exec_tx_authorised. Qed.
Print Assumptions C04_exec_tx_authorised.

Theorem C04_exec_block_signatures : forall is_name cid_of tx_hash vm sig_ok cfg bno cb vr s txs s',
  exec_block is_name cid_of tx_hash vm sig_ok cfg bno cb vr s txs = Some s' ->
  forall t, In t txs -> verify_tx is_name sig_ok s t = true.
Proof. exact exec_block_signatures. Qed.
Print Assumptions C04_exec_block_signatures.

Theorem C04_accepted_block_txs_bound_to_chain : forall is_name cid_of tx_hash vm cfg bno txs s s',
  exec_txs is_name cid_of tx_hash vm cfg bno s txs = Some s' ->
  Forall (fun t => t_chain t = c_chain cfg /\ t_hash t = tx_hash t) txs.
Proof. exact exec_txs_all_executed. Qed.
Print Assumptions C04_accepted_block_txs_bound_to_chain.

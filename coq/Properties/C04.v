(** C04  Authorisation and replay protection (ledger part).  Proofs in Ledger/AtomAuth.v. *)
From stdpp Require Import gmap.
From Coq Require Import ZArith List Bool.
From Verif Require Import Ledger.Model Ledger.AtomAuth.
Import ListNotations.
Open Scope Z_scope.

Theorem C04_exec_tx_authorised : forall is_name cid_of tx_hash vm cfg bno s t o s',
  exec_tx is_name cid_of tx_hash vm cfg bno s t = (o, s') -> o <> Rejected ->
  t_chain t = c_chain cfg /\ t_hash t = tx_hash t /\ t_from t <> 0%N /\
  t_nonce t = (nonce (acct_of s (resolve is_name s (t_from t))) + 1)%N.
Proof. exact exec_tx_authorised. Qed.
Print Assumptions C04_exec_tx_authorised.

Theorem C04_exec_block_signatures : forall is_name cid_of tx_hash vm sig_ok cfg bno cb vr s txs s',
  exec_block is_name cid_of tx_hash vm sig_ok cfg bno cb vr s txs = Some s' ->
  forall t, In t txs -> verify_tx is_name sig_ok s t = true.
Proof. exact exec_block_signatures. Qed.
Print Assumptions C04_exec_block_signatures.

Theorem C04_accepted_block_txs_bound_to_chain : forall is_name cid_of tx_hash vm cfg bno txs s s',
  exec_txs is_name cid_of tx_hash vm cfg bno s txs = Some s' ->
  Forall (fun t => t_chain t = c_chain cfg /\ t_hash t = tx_hash t) txs.
Proof. exact exec_txs_all_executed. Qed.
Print Assumptions C04_accepted_block_txs_bound_to_chain.

From Verif Require Import Ledger.BlockProofs Ledger.NonceBase Ledger.NonceTx Ledger.NonceChain.

(** an executed transaction sets its sender's nonce to the tx nonce, nobody else's nonce moves *)
Theorem C04_exec_tx_nonces : forall is_name cid_of tx_hash vm cfg bno s t o s',
  exec_tx is_name cid_of tx_hash vm cfg bno s t = (o, s') -> o <> Rejected ->
  nonce (acct_of s' (resolve is_name s (t_from t))) = t_nonce t /\
  forall id, id <> resolve is_name s (t_from t) -> nonce (acct_of s' id) = nonce (acct_of s id).
Proof. exact exec_tx_nonces. Qed.
Print Assumptions C04_exec_tx_nonces.

(** main chain nonces: for every chain (list of blocks accepted by exec_block) from any state s,
    the nonces executed for each account, in order, are n0+1, n0+2, ... (n0 = its nonce in s),
    and its nonce at the tip is n0 + number of its executed transactions *)
Theorem C04_main_chain_nonces : forall is_name cid_of tx_hash vm sig_ok cfg vr bl s s',
  vreward_nn vr ->
  exec_chain is_name cid_of tx_hash vm sig_ok cfg vr s bl = Some s' ->
  forall a,
    nonces_of a (trace_chain is_name cid_of tx_hash vm sig_ok cfg vr s bl)
      = nseq (nonce (acct_of s a) + 1) (length (nonces_of a (trace_chain is_name cid_of tx_hash vm sig_ok cfg vr s bl))) /\
    nonce (acct_of s' a) = (nonce (acct_of s a) + N.of_nat (length (nonces_of a (trace_chain is_name cid_of tx_hash vm sig_ok cfg vr s bl))))%N.
Proof. exact main_chain_nonces. Qed.
Print Assumptions C04_main_chain_nonces.

(** reorganisations: both branches of a fork are chains from the common origin (the state at a
    tip is the fold of exec_block along its branch), so the discipline holds on each *)
Theorem C04_fork_branches_nonces : forall is_name cid_of tx_hash vm sig_ok cfg vr pre b1 b2 s s1 s2,
  vreward_nn vr ->
  exec_chain is_name cid_of tx_hash vm sig_ok cfg vr s (pre ++ b1) = Some s1 ->
  exec_chain is_name cid_of tx_hash vm sig_ok cfg vr s (pre ++ b2) = Some s2 ->
  seq_ok s s1 (trace_chain is_name cid_of tx_hash vm sig_ok cfg vr s (pre ++ b1)) /\
  seq_ok s s2 (trace_chain is_name cid_of tx_hash vm sig_ok cfg vr s (pre ++ b2)).
Proof. exact fork_branches_nonces. Qed.
Print Assumptions C04_fork_branches_nonces.

Theorem C04_voting_reward_keeps_nonces : forall reward winner, vreward_nn (send_voting_reward reward winner).
Proof. exact voting_reward_nn. Qed.
Print Assumptions C04_voting_reward_keeps_nonces.

(** no transaction hash twice along a chain whose senders are addresses, or the hash collides.
    The hypothesis on senders is necessary: see C04_no_tx_twice_names_refuted. *)
Theorem C04_no_tx_twice : forall is_name cid_of tx_hash vm sig_ok cfg vr bl s s',
  vreward_nn vr -> Forall (fun t => is_name (t_from t) = false) (chain_txs bl) ->
  exec_chain is_name cid_of tx_hash vm sig_ok cfg vr s bl = Some s' ->
  NoDup (map tx_hash (chain_txs bl)) \/ collision tx_hash.
Proof. exact no_tx_twice. Qed.
Print Assumptions C04_no_tx_twice.

From Verif Require Import Ledger.Refuted.
(** F25: with name senders the statement is false: the same signed transaction is executed twice
    along an accepted chain (name re-pointed by its owner in between).  Reproduced on the real
    chain service by corpus tag f25. *)
Theorem C04_no_tx_twice_names_refuted :
  exists is_name cid_of tx_hash vm sig_ok cfg vr bl s s',
    vreward_nn vr /\ exec_chain is_name cid_of tx_hash vm sig_ok cfg vr s bl = Some s' /\
    ~ NoDup (chain_txs bl).
Proof. exact no_tx_twice_names_refuted. Qed.
Print Assumptions C04_no_tx_twice_names_refuted.

From Verif Require Import Ledger.Resolve.
(** signature check and executor agree on who an account name is: at every position of a block the executor
    resolves names through the map committed before the block, the one the signature check reads the owner from
    (a name created / re-pointed earlier in the SAME block does not change whom a later tx is executed as) *)
Theorem C04_verify_and_exec_resolve_same : forall is_name cid_of tx_hash vm cfg bno s pre s1,
  exec_txs is_name cid_of tx_hash vm cfg bno (begin_block s) pre = Some s1 ->
  names0 s1 = names s /\
  forall a, resolve is_name s1 a = (if is_name a then match names s !! a with Some (_, d) => d | None => 0%N end else a).
Proof. exact verify_and_exec_resolve_same. Qed.
Print Assumptions C04_verify_and_exec_resolve_same.

(** producer path: a transaction taken from the pool executes only as the account its signature was verified
    for at admission (executeTx's verified-account comparison); a refused one leaves the state unchanged *)
Theorem C04_exec_tx_pooled_as_verified : forall is_name cid_of tx_hash vm cfg a bno s t o s',
  exec_tx_pooled is_name cid_of tx_hash vm cfg (Some a) bno s t = (o, s') -> o <> Rejected ->
  resolve is_name s (t_from t) = a.
Proof. exact exec_tx_pooled_as_verified. Qed.
Print Assumptions C04_exec_tx_pooled_as_verified.

(** F51 + F52 repaired (current code): a pooled transaction is never executed against an account other than the one
    verified at admission, after ANY sequence of earlier offers (refused, or executed in discarded attempts) *)
Theorem C04_pooled_tx_never_executes_as_other : forall is_name cid_of tx_hash vm cfg a bno t ss s o s',
  exec_tx_pooled is_name cid_of tx_hash vm cfg (va_after is_name 2 (Some a) t ss) bno s t = (o, s') ->
  o <> Rejected -> resolve is_name s (t_from t) = a.
Proof. exact pooled_tx_never_executes_as_other. Qed.
Print Assumptions C04_pooled_tx_never_executes_as_other.

(** the original executeTx removed the verified account before comparing: one offer lost the binding (F51) *)
Theorem C04_old_code_loses_binding_refuted : forall is_name a t s, va_after is_name 0 (Some a) t [s] = None.
Proof. exact old_code_loses_binding_refuted. Qed.
Print Assumptions C04_old_code_loses_binding_refuted.

(** after F51 alone, an offer whose comparison succeeded still removed it (F52) *)
Theorem C04_f51_code_loses_binding_after_success_refuted : forall is_name a t s,
  resolve is_name s (t_from t) = a -> va_after is_name 1 (Some a) t [s] = None.
Proof. exact f51_code_loses_binding_after_success_refuted. Qed.
Print Assumptions C04_f51_code_loses_binding_after_success_refuted.

(** C05  Chain database consistency after any history of block arrivals.
    Only statements, each closed by [exact] of a lemma proved in ChainDB/*, followed by
    [Print Assumptions].  Hypotheses common to all: block execution is a deterministic function
    [apply] with the replay-protection property (a transaction executed on a state is [spent]
    afterwards and cannot be executed again: what C04 proves of the ledger); the blocks that
    arrive ([U]) carry collision-free identifiers (F8 excluded).  [add_block ... true] is the
    model of the repaired reorg (fixes/F7_reorg_restore_state.diff), [false] the unrepaired one. *)
From Coq Require Import NArith List Bool.
From Verif Require Import ChainDB.Model ChainDB.Inv ChainDB.Reorg ChainDB.AddBlock ChainDB.Refute ChainDB.Wal.
Import ListNotations.
Open Scope N_scope.

(** The invariant holds after genesis initialisation. *)
Theorem C05_inv_init :
  forall (apply : sroot -> block -> option sroot) (spent : sroot -> txid -> bool),
  (forall r b r', apply r b = Some r' -> NoDup (txs b) /\ forall t, In t (txs b) -> spent r t = false) ->
  (forall r b r' t, apply r b = Some r' -> spent r' t = spent r t || mem t (txs b)) ->
  forall (U : block -> Prop), (forall a b, U a -> U b -> hash_field a = hash_field b -> a = b) ->
  forall (g : block),
  U g -> no g = 0 -> txs g = [] -> Inv apply spent U g (init_node g).
Proof. intros; eapply inv_init; eauto. Qed.
Print Assumptions C05_inv_init.

(** addBlock keeps the invariant for EVERY arriving block (valid, invalid at any stage, duplicate,
    orphan, side branch, forged parent or number, triggering a reorganisation of any depth or a
    failed one) that does not carry BlockNo 0. *)
Theorem C05_add_block_inv :
  forall (apply : sroot -> block -> option sroot) (orphan_cap : nat) (f27 : bool) (spent : sroot -> txid -> bool),
  (forall r b r', apply r b = Some r' -> NoDup (txs b) /\ forall t, In t (txs b) -> spent r t = false) ->
  (forall r b r' t, apply r b = Some r' -> spent r' t = spent r t || mem t (txs b)) ->
  forall (U : block -> Prop), (forall a b, U a -> U b -> hash_field a = hash_field b -> a = b) ->
  forall (g : block),
  forall n b, Inv apply spent U g n -> U b -> (f27 = true \/ no b <> 0) ->
  Inv apply spent U g (fst (add_block apply true f27 orphan_cap n b)).
Proof. intros; eapply add_block_inv; eauto. Qed.
Print Assumptions C05_add_block_inv.

(** Hence after every history of arrivals (with any LIB stream). *)
Theorem C05_history_inv :
  forall (apply : sroot -> block -> option sroot) (orphan_cap : nat) (f27 : bool) (spent : sroot -> txid -> bool),
  (forall r b r', apply r b = Some r' -> NoDup (txs b) /\ forall t, In t (txs b) -> spent r t = false) ->
  (forall r b r' t, apply r b = Some r' -> spent r' t = spent r t || mem t (txs b)) ->
  forall (U : block -> Prop), (forall a b, U a -> U b -> hash_field a = hash_field b -> a = b) ->
  forall (g : block),
  forall (l : list (N * block)) n, Inv apply spent U g n ->
  (forall x, In x l -> U (snd x) /\ (f27 = true \/ no (snd x) <> 0)) ->
  Inv apply spent U g (history apply true f27 orphan_cap n l).
Proof. intros; eapply history_inv; eauto. Qed.
Print Assumptions C05_history_inv.

(** Query surface: a transaction of a main-chain block is reported confirmed at its block and
    position ... *)
Theorem C05_get_tx_complete :
  forall (apply : sroot -> block -> option sroot) (spent : sroot -> txid -> bool),
  (forall r b r', apply r b = Some r' -> NoDup (txs b) /\ forall t, In t (txs b) -> spent r t = false) ->
  (forall r b r' t, apply r b = Some r' -> spent r' t = spent r t || mem t (txs b)) ->
  forall (U : block -> Prop), (forall a b, U a -> U b -> hash_field a = hash_field b -> a = b) ->
  forall (g : block),
  forall n k b i t, Inv apply spent U g n -> k <= no (best n) -> mainb (dur n) k = Some b ->
  nth_error (txs b) i = Some t -> get_tx (dur n) t = TxMain (hash_field b) i.
Proof. intros; eapply inv_get_tx_complete; eauto. Qed.
Print Assumptions C05_get_tx_complete.

(** ... and a transaction reported confirmed is in that main-chain block at that position
    (transactions only on abandoned branches are never reported confirmed). *)
Theorem C05_get_tx_sound :
  forall (apply : sroot -> block -> option sroot) (spent : sroot -> txid -> bool),
  (forall r b r', apply r b = Some r' -> NoDup (txs b) /\ forall t, In t (txs b) -> spent r t = false) ->
  (forall r b r' t, apply r b = Some r' -> spent r' t = spent r t || mem t (txs b)) ->
  forall (U : block -> Prop), (forall a b, U a -> U b -> hash_field a = hash_field b -> a = b) ->
  forall (g : block),
  forall n t id i, Inv apply spent U g n -> get_tx (dur n) t = TxMain id i ->
  exists k b, k <= no (best n) /\ mainb (dur n) k = Some b /\ hash_field b = id /\ nth_error (txs b) i = Some t.
Proof. intros; eapply inv_get_tx_sound; eauto. Qed.
Print Assumptions C05_get_tx_sound.

(** The invariant is also kept by deliveries that fail a consensus pre-check (VerifyTimestamp: not
    negatively cached; VerifySign: cached) and by blocks produced by the node itself (usedBState:
    stale test, no orphan resolution, commit-only execution). *)
Theorem C05_add_block_gen_inv :
  forall (apply : sroot -> block -> option sroot) (orphan_cap : nat) (f27 : bool) (spent : sroot -> txid -> bool),
  (forall r b r', apply r b = Some r' -> NoDup (txs b) /\ forall t, In t (txs b) -> spent r t = false) ->
  (forall r b r' t, apply r b = Some r' -> spent r' t = spent r t || mem t (txs b)) ->
  forall (U : block -> Prop), (forall a b, U a -> U b -> hash_field a = hash_field b -> a = b) ->
  forall (g : block),
  forall own pre n b, Inv apply spent U g n -> U b -> (f27 = true \/ no b <> 0) ->
  Inv apply spent U g (fst (add_block_gen apply true f27 orphan_cap own pre n b)).
Proof. intros; eapply add_block_gen_inv; eauto. Qed.
Print Assumptions C05_add_block_gen_inv.

(** A rejection for a transient reason (future timestamp; a produced block that became stale) leaves
    the node - in particular errBlocks - untouched, so the block is accepted when delivered again. *)
Theorem C05_transient_rejection_not_cached :
  forall (apply : sroot -> block -> option sroot) (orphan_cap : nat) (f27 : bool) own n b,
  fst (add_block_gen apply true f27 orphan_cap own PreTimestamp n b) = n /\
  (prev b <> hash_field (best n) -> forall pre, fst (add_block_gen apply true f27 orphan_cap true pre n b) = n).
Proof. intros; eapply transient_rejection_not_cached; eauto. Qed.
Print Assumptions C05_transient_rejection_not_cached.

(** findAncestor (the syncer's ancestor search) returns a listed block that is on the main chain, and
    finds one whenever a listed hash names a main-chain block. *)
Theorem C05_find_ancestor_sound :
  forall (apply : sroot -> block -> option sroot) (spent : sroot -> txid -> bool),
  (forall r b r', apply r b = Some r' -> NoDup (txs b) /\ forall t, In t (txs b) -> spent r t = false) ->
  (forall r b r' t, apply r b = Some r' -> spent r' t = spent r t || mem t (txs b)) ->
  forall (U : block -> Prop), (forall a b, U a -> U b -> hash_field a = hash_field b -> a = b) ->
  forall (g : block),
  forall n hs b, Inv apply spent U g n -> find_ancestor (dur n) hs = Some b ->
  In (hash_field b) hs /\ no b <= no (best n) /\ mainb (dur n) (no b) = Some b.
Proof. intros; eapply find_ancestor_sound; eauto. Qed.
Print Assumptions C05_find_ancestor_sound.

Theorem C05_find_ancestor_complete :
  forall (apply : sroot -> block -> option sroot) (spent : sroot -> txid -> bool),
  (forall r b r', apply r b = Some r' -> NoDup (txs b) /\ forall t, In t (txs b) -> spent r t = false) ->
  (forall r b r' t, apply r b = Some r' -> spent r' t = spent r t || mem t (txs b)) ->
  forall (U : block -> Prop), (forall a b, U a -> U b -> hash_field a = hash_field b -> a = b) ->
  forall (g : block),
  forall n hs k b, Inv apply spent U g n -> k <= no (best n) -> mainb (dur n) k = Some b -> In (hash_field b) hs ->
  exists a, find_ancestor (dur n) hs = Some a.
Proof. intros; eapply find_ancestor_complete; eauto. Qed.
Print Assumptions C05_find_ancestor_complete.

(** With the BlockNo-0 repair (fixes/F27_blockno_zero.diff, [f27 = true]) no hypothesis on the block
    number is needed: the invariant holds after every history of blocks of U. *)
Theorem C05_history_inv_repaired :
  forall (apply : sroot -> block -> option sroot) (orphan_cap : nat) (spent : sroot -> txid -> bool),
  (forall r b r', apply r b = Some r' -> NoDup (txs b) /\ forall t, In t (txs b) -> spent r t = false) ->
  (forall r b r' t, apply r b = Some r' -> spent r' t = spent r t || mem t (txs b)) ->
  forall (U : block -> Prop), (forall a b, U a -> U b -> hash_field a = hash_field b -> a = b) ->
  forall (g : block) (l : list (N * block)) n, Inv apply spent U g n ->
  (forall x, In x l -> U (snd x)) ->
  Inv apply spent U g (history apply true true orphan_cap n l).
Proof. intros; eapply history_inv; eauto. Qed.
Print Assumptions C05_history_inv_repaired.

(** F7: for the unrepaired reorg the statement is false (G-A1 main, G-B1 side, B2 invalid). *)
Theorem C05_add_block_inv_refuted :
  exists (apply : sroot -> block -> option sroot) (spent : sroot -> txid -> bool) (U : block -> Prop)
         (g : block) (n : node) (b : block),
    (forall r b r', apply r b = Some r' -> NoDup (txs b) /\ forall t, In t (txs b) -> spent r t = false) /\
    (forall r b r' t, apply r b = Some r' -> spent r' t = spent r t || mem t (txs b)) /\
    (forall a b, U a -> U b -> hash_field a = hash_field b -> a = b) /\
    Inv apply spent U g n /\ U b /\ no b <> 0 /\
    ~ Inv apply spent U g (fst (add_block apply false false 100 n b)).
Proof. exact add_block_inv_refuted. Qed.
Print Assumptions C05_add_block_inv_refuted.

(** BlockNo 0: without [no b <> 0] the statement is false even for the repaired code. *)
Theorem C05_add_block_inv_no0_refuted :
  exists (apply : sroot -> block -> option sroot) (spent : sroot -> txid -> bool) (U : block -> Prop)
         (g : block) (n : node) (b : block),
    (forall r b r', apply r b = Some r' -> NoDup (txs b) /\ forall t, In t (txs b) -> spent r t = false) /\
    (forall r b r' t, apply r b = Some r' -> spent r' t = spent r t || mem t (txs b)) /\
    (forall a b, U a -> U b -> hash_field a = hash_field b -> a = b) /\
    Inv apply spent U g n /\ U b /\ no b = 0 /\
    ~ Inv apply spent U g (fst (add_block apply true false 100 n b)).
Proof. exact add_block_inv_no0_refuted. Qed.
Print Assumptions C05_add_block_inv_no0_refuted.

(** ** Consensus configuration with a write-ahead log (raftv2, HasWAL() = true) *)

(** Without WAL the configurable delivery is the ordinary one. *)
Theorem C05_add_block_cfg_nowal :
  forall (apply : sroot -> block -> option sroot) (f7 f27 : bool) (orphan_cap : nat) walpre own pre n b,
  add_block_cfg apply f7 f27 orphan_cap false walpre own pre n b = add_block_gen apply f7 f27 orphan_cap own pre n b.
Proof. intros; apply add_block_cfg_nowal. Qed.
Print Assumptions C05_add_block_cfg_nowal.

(** A block delivered through the WAL (body pre-written by the consensus, then connected), on the
    leader (block state present: body skipped) and on a follower (body written again). *)
Theorem C05_wal_connect_inv :
  forall (apply : sroot -> block -> option sroot) (spent : sroot -> txid -> bool),
  (forall r b r', apply r b = Some r' -> NoDup (txs b) /\ forall t, In t (txs b) -> spent r t = false) ->
  (forall r b r' t, apply r b = Some r' -> spent r' t = spent r t || mem t (txs b)) ->
  forall (U : block -> Prop), (forall a b, U a -> U b -> hash_field a = hash_field b -> a = b) ->
  forall (g : block),
  forall own n b n', Inv apply spent U g n -> U b -> prev b = hash_field (best n) -> no b = no (best n) + 1 ->
  connect_main_cfg apply own (wal_write n b) b = Some n' ->
  Inv apply spent U g n' /\ best n' = b /\ get_block (dur n') (hash_field b) = Some b.
Proof. intros; eapply wal_connect_inv; eauto. Qed.
Print Assumptions C05_wal_connect_inv.

(** The skip-body flag must not apply to a block whose body is not in the store (a block a WAL node
    receives from a peer or the syncer): the invariant breaks whatever the state before. *)
Theorem C05_connect_skip_unstored_breaks_inv :
  forall (apply : sroot -> block -> option sroot) (spent : sroot -> txid -> bool) (U : block -> Prop) (g : block),
  forall n b n', get_block (dur n) (hash_field b) = None ->
  connect_main_cfg apply true n b = Some n' -> ~ Inv apply spent U g n'.
Proof. intros; eapply connect_skip_unstored_breaks_inv; eauto. Qed.
Print Assumptions C05_connect_skip_unstored_breaks_inv.

(** ** In-memory system parameters *)

(** At rest the parameters in memory are those stored in the state of the best block. *)
Theorem C05_params_coherent :
  forall (apply : sroot -> block -> option sroot) (spent : sroot -> txid -> bool) (U : block -> Prop) (g : block),
  forall n, Inv apply spent U g n -> pmem n = root (best n).
Proof. intros; eapply params_coherent; eauto. Qed.
Print Assumptions C05_params_coherent.

(** The next valid block (a valid child of the best block the node has not seen) is accepted. *)
Theorem C05_next_block_accepted :
  forall (apply : sroot -> block -> option sroot) (spent : sroot -> txid -> bool),
  (forall r b r', apply r b = Some r' -> NoDup (txs b) /\ forall t, In t (txs b) -> spent r t = false) ->
  (forall r b r' t, apply r b = Some r' -> spent r' t = spent r t || mem t (txs b)) ->
  forall (U : block -> Prop), (forall a b, U a -> U b -> hash_field a = hash_field b -> a = b) ->
  forall (g : block),
  forall (f7 f27 : bool) (orphan_cap : nat) n b,
  Inv apply spent U g n -> U b -> prev b = hash_field (best n) -> no b = no (best n) + 1 ->
  apply (root (best n)) b = Some (root b) ->
  mem (hash_field b) (bad n) = false -> get_block (dur n) (hash_field b) = None ->
  find_orphan (orphans n) (hash_field b) = None ->
  exists n', add_block apply f7 f27 orphan_cap n b = (n', ROk) /\ best n' = b /\ sdb_root n' = root b /\
             pmem n' = root b /\ Inv apply spent U g n'.
Proof. intros; eapply next_block_accepted; eauto. Qed.
Print Assumptions C05_next_block_accepted.

(** ... and a node whose parameters in memory are not those of its state rejects every block. *)
Theorem C05_stale_params_reject :
  forall (apply : sroot -> block -> option sroot) n b, pmem n <> sdb_root n -> connect_main apply n b = None.
Proof. intros; apply stale_params_reject; auto. Qed.
Print Assumptions C05_stale_params_reject.

(** C05  Chain database consistency after any history of block arrivals.
    Only statements, each closed by [exact] of a lemma proved in ChainDB/*, followed by
    [Print Assumptions]. *)
From Coq Require Import NArith List Bool.
From Verif Require Import ChainDB.Model ChainDB.Inv ChainDB.Reorg.
Import ListNotations.
Open Scope N_scope.

(** Connecting a valid child of the tip (executeBlock + connectToChain) keeps the invariant. *)
Theorem C05_connect_main_inv :
  forall (apply : sroot -> block -> option sroot) (spent : sroot -> txid -> bool),
  (forall r b r', apply r b = Some r' -> NoDup (txs b) /\ forall t, In t (txs b) -> spent r t = false) ->
  (forall r b r' t, apply r b = Some r' -> spent r' t = spent r t || mem t (txs b)) ->
  forall (U : block -> Prop), (forall a b, U a -> U b -> hash_field a = hash_field b -> a = b) ->
  forall g n b n',
  Inv apply spent U g n -> U b -> prev b = hash_field (best n) -> no b = no (best n) + 1 ->
  connect_main apply n b = Some n' ->
  Inv apply spent U g n' /\ best n' = b /\ orphans n' = orphans n /\ bad n' = bad n /\ lib n' = lib n /\
  (forall id x, get_block (dur n) id = Some x -> get_block (dur n') id = Some x) /\
  get_block (dur n') (hash_field b) = Some b.
Proof. exact connect_main_inv. Qed.
Print Assumptions C05_connect_main_inv.

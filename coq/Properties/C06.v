(** C06  Crash recovery.  Every durable mutation of the model is a write unit; a crash keeps a
    prefix of the units of the running operation and loses the volatile state; [restart] is
    loadChainData + cdb.recover + sdb.Init(best) + Recover.
    Proved: restart on any consistent store; every crash point of a main-chain connection, of a
    main-chain orphan-resolution run, of side-branch stores / state commits / receipts, and of a
    reorganisation of any depth (every prefix of: rollforward state commits and receipts, marker write,
    deleteOldReceipts, swapTxMapping, swapChainMapping bulk, marker delete), with crash_best_legit and
    state_available; crash_replay_converges for main-chain connection and for reorg crashes after the
    marker (the restart already holds the crash-free store); refuted for reorg crashes before the marker
    (known finding).  Partial flush: every prefix of the operations inside the swapTxMapping delete bulk
    and inside the swapChainMapping bulk is recoverable (the marker outlives them); a partial flush of
    the RecoverChainMapping bulk is NOT (refuted).  Crash during the recovery itself (atomic units):
    a further restart ends in the same final store (recovery is idempotent).  The state-commit bulk has a
    single modelled operation (its marker, written last); its partial flushes are exercised on the real
    code by the engine only. *)
From Coq Require Import NArith List Bool.
From Verif Require Import ChainDB.Model ChainDB.Inv ChainDB.Reorg ChainDB.Crash ChainDB.CrashReorg ChainDB.RefuteFork ChainDB.AddBlock ChainDB.Wal ChainDB.Params.
Import ListNotations.
Open Scope N_scope.

(** Restart on the durable store of a consistent node: same best block, invariant holds, the state
    of the best block is available (state_available). *)
Theorem C06_restart_inv :
  forall (apply : sroot -> block -> option sroot) (spent : sroot -> txid -> bool),
  (forall r b r', apply r b = Some r' -> NoDup (txs b) /\ forall t, In t (txs b) -> spent r t = false) ->
  (forall r b r' t, apply r b = Some r' -> spent r' t = spent r t || mem t (txs b)) ->
  forall (U : block -> Prop), (forall a b, U a -> U b -> hash_field a = hash_field b -> a = b) ->
  forall (g : block),
  forall f7 n, Inv apply spent U g n ->
  exists n', restart f7 (dur n) = Some (StartOk n') /\ Inv apply spent U g n' /\ best n' = best n /\
             dur n' = dur n /\ has_state_marker (dur n') (root (best n')) = true.
Proof. intros; eapply restart_inv; eauto. Qed.
Print Assumptions C06_restart_inv.

(** crash_recover_inv / crash_best_legit / state_available for the connection of a main-chain
    block: for EVERY prefix length k of its write units (state commit bulk, receipts transaction,
    tip transaction) the restarted node satisfies the invariant on the old or the new tip. *)
Theorem C06_crash_connect_inv_partial :
  forall (apply : sroot -> block -> option sroot) (spent : sroot -> txid -> bool),
  (forall r b r', apply r b = Some r' -> NoDup (txs b) /\ forall t, In t (txs b) -> spent r t = false) ->
  (forall r b r' t, apply r b = Some r' -> spent r' t = spent r t || mem t (txs b)) ->
  forall (U : block -> Prop), (forall a b, U a -> U b -> hash_field a = hash_field b -> a = b) ->
  forall (g : block),
  forall f7 n b n' k, Inv apply spent U g n -> U b -> prev b = hash_field (best n) -> no b = no (best n) + 1 ->
  connect_main apply n b = Some n' ->
  exists r, restart f7 (crash k (dur n) (connect_units b)) = Some (StartOk r) /\ Inv apply spent U g r /\
            (best r = best n \/ best r = b) /\ has_state_marker (dur r) (root (best r)) = true.
Proof. intros; eapply crash_connect_inv; eauto. Qed.
Print Assumptions C06_crash_connect_inv_partial.

(** The units of [connect_units] are exactly what the model's connect_main journals, and the
    store is their replay (so cutting the journal is cutting the operation). *)
Theorem C06_connect_units_exact :
  forall (apply : sroot -> block -> option sroot) n b n', connect_main apply n b = Some n' ->
  jlog n' = rev (connect_units b) ++ jlog n /\ dur n' = replay (dur n) (connect_units b).
Proof. exact connect_main_units. Qed.
Print Assumptions C06_connect_units_exact.

(** Every crash point of a sequence of state commits, receipt writes and side-branch stores (an
    orphan-resolution run on a side branch; the rollback/rollforward part of a reorganisation):
    restart on the old tip, invariant, state available. *)
Theorem C06_crash_benign_prefix_inv :
  forall (apply : sroot -> block -> option sroot) (spent : sroot -> txid -> bool),
  (forall r b r', apply r b = Some r' -> NoDup (txs b) /\ forall t, In t (txs b) -> spent r t = false) ->
  (forall r b r' t, apply r b = Some r' -> spent r' t = spent r t || mem t (txs b)) ->
  forall (U : block -> Prop), (forall a b, U a -> U b -> hash_field a = hash_field b -> a = b) ->
  forall (g : block),
  forall f7 n us k, Inv apply spent U g n -> Forall (benign_unit U) us ->
  exists r, restart f7 (crash k (dur n) us) = Some (StartOk r) /\ Inv apply spent U g r /\ best r = best n /\
            has_state_marker (dur r) (root (best r)) = true.
Proof. intros; eapply crash_benign_prefix_inv; eauto. Qed.
Print Assumptions C06_crash_benign_prefix_inv.

(** Every crash point of a main-chain orphan-resolution run (the starting block and the parked
    descendants it connects, any length): restart on the old tip or on one of the connected blocks. *)
Theorem C06_crash_main_run_inv :
  forall (apply : sroot -> block -> option sroot) (spent : sroot -> txid -> bool),
  (forall r b r', apply r b = Some r' -> NoDup (txs b) /\ forall t, In t (txs b) -> spent r t = false) ->
  (forall r b r' t, apply r b = Some r' -> spent r' t = spent r t || mem t (txs b)) ->
  forall (U : block -> Prop), (forall a b, U a -> U b -> hash_field a = hash_field b -> a = b) ->
  forall (g : block),
  forall f7 bs n n' k, Inv apply spent U g n -> linked (best n) bs -> (forall b, In b bs -> U b) ->
  connect_seq apply n bs = Some n' ->
  exists r, restart f7 (crash k (dur n) (concat (map connect_units bs))) = Some (StartOk r) /\ Inv apply spent U g r /\
            (best r = best n \/ In (best r) bs) /\ has_state_marker (dur r) (root (best r)) = true.
Proof. intros; eapply crash_main_run_inv; eauto. Qed.
Print Assumptions C06_crash_main_run_inv.

(** crash_reorg_inv + crash_best_legit + state_available: EVERY prefix of the write units of a
    reorganisation of any depth.  Before the marker: old tip.  After it: the marker-driven recovery
    (RecoverChainMapping when the height bulk had been flushed, then recoverReorg) ends on the new tip
    holding exactly the crash-free final store. *)
Theorem C06_crash_reorg_inv :
  forall (apply : sroot -> block -> option sroot) (spent : sroot -> txid -> bool),
  (forall r b r', apply r b = Some r' -> NoDup (txs b) /\ forall t, In t (txs b) -> spent r t = false) ->
  (forall r b r' t, apply r b = Some r' -> spent r' t = spent r t || mem t (txs b)) ->
  forall (U : block -> Prop), (forall a b, U a -> U b -> hash_field a = hash_field b -> a = b) ->
  forall (g : block),
  forall n, Inv apply spent U g n ->
  forall top st news olds, U top -> get_block (dur n) (hash_field top) = Some top -> no (best n) < no top ->
  gather (S (N.to_nat (no top))) (dur n) (no (best n)) top [] [] = Some (st, news, olds) ->
  forall n2, rollforward apply (set_state n (root st)) (rev news) = (n2, true) ->
  let m := mkMarker (hash_field st) (no st) (hash_field (best n)) (no (best n)) (hash_field top) (no top) in
  forall k, exists r,
    restart true (crash k (dur n) (rf_units (rev news) ++ swap_units m top news olds)) = Some (StartOk r) /\
    Inv apply spent U g r /\
    ((best r = best n /\ (k <= length (rf_units (rev news)))%nat) \/
     (best r = top /\ (length (rf_units (rev news)) < k)%nat /\
      forall key, dur r key = dur (swap_chain n2 m top news olds false) key)) /\
    has_state_marker (dur r) (root (best r)) = true.
Proof. intros; eapply crash_reorg_inv; eauto. Qed.
Print Assumptions C06_crash_reorg_inv.

(** These are the units of [reorg]: its result store is their replay. *)
Theorem C06_reorg_units_exact :
  forall (apply : sroot -> block -> option sroot) n top st news olds n2,
  gather (S (N.to_nat (no top))) (dur n) (no (best n)) top [] [] = Some (st, news, olds) ->
  (no st <? lib n) = false ->
  rollforward apply (set_state n (root st)) (rev news) = (n2, true) ->
  let m := mkMarker (hash_field st) (no st) (hash_field (best n)) (no (best n)) (hash_field top) (no top) in
  reorg apply true n top = (swap_chain n2 m top news olds false, false) /\
  dur (swap_chain n2 m top news olds false) = replay (dur n) (rf_units (rev news) ++ swap_units m top news olds).
Proof. exact reorg_units_exact. Qed.
Print Assumptions C06_reorg_units_exact.

(** crash_replay_converges, main-chain connection: after a crash at any unit boundary, feeding the
    block again reaches exactly the crash-free durable state. *)
Theorem C06_crash_replay_converges_connect :
  forall (apply : sroot -> block -> option sroot) (spent : sroot -> txid -> bool),
  (forall r b r', apply r b = Some r' -> NoDup (txs b) /\ forall t, In t (txs b) -> spent r t = false) ->
  (forall r b r' t, apply r b = Some r' -> spent r' t = spent r t || mem t (txs b)) ->
  forall (U : block -> Prop), (forall a b, U a -> U b -> hash_field a = hash_field b -> a = b) ->
  forall (g : block),
  forall f7 n b n' k, Inv apply spent U g n -> U b -> prev b = hash_field (best n) -> no b = no (best n) + 1 ->
  connect_main apply n b = Some n' ->
  exists r, restart f7 (crash k (dur n) (connect_units b)) = Some (StartOk r) /\
    ((best r = b /\ forall key, dur r key = dur n' key) \/
     (best r = best n /\ exists r', connect_main apply r b = Some r' /\ best r' = b /\
                                     forall key, dur r' key = dur n' key)).
Proof. intros; eapply crash_replay_converges_connect; eauto. Qed.
Print Assumptions C06_crash_replay_converges_connect.

(** crash_replay_converges is false for a crash during a reorganisation before the marker write. *)
Theorem C06_crash_replay_converges_refuted :
  exists (apply : sroot -> block -> option sroot) (spent : sroot -> txid -> bool) (U : block -> Prop) (g : block)
         (n : node) (b : block) (k : nat),
    (forall r b r', apply r b = Some r' -> NoDup (txs b) /\ forall t, In t (txs b) -> spent r t = false) /\
    (forall r b r' t, apply r b = Some r' -> spent r' t = spent r t || mem t (txs b)) /\
    (forall a b, U a -> U b -> hash_field a = hash_field b -> a = b) /\
    Inv apply spent U g n /\ U b /\ no b <> 0 /\
    let n' := fst (add_block apply true true 100 n b) in
    hash_field (best n') = hash_field b /\
    match restart true (crash k (dur n) (units_since n n')) with
    | Some (StartOk r) =>
        snd (add_block apply true true 100 r b) = RKnown /\
        hash_field (best (fst (add_block apply true true 100 r b))) <> hash_field (best n')
    | _ => False
    end.
Proof. exact crash_replay_converges_refuted. Qed.
Print Assumptions C06_crash_replay_converges_refuted.

(** _partial_flush, deleteOldReceipts / swapTxMapping: crash after the marker write and ANY prefix of
    the individual operations that follow up to the height bulk (in particular inside the bulk deleting
    the abandoned tx-index entries): recovery ends in the crash-free final store. *)
Theorem C06_crash_partial_flush_mid :
  forall (apply : sroot -> block -> option sroot) (spent : sroot -> txid -> bool),
  (forall r b r', apply r b = Some r' -> NoDup (txs b) /\ forall t, In t (txs b) -> spent r t = false) ->
  (forall r b r' t, apply r b = Some r' -> spent r' t = spent r t || mem t (txs b)) ->
  forall (U : block -> Prop), (forall a b, U a -> U b -> hash_field a = hash_field b -> a = b) ->
  forall (g : block),
  forall n, Inv apply spent U g n ->
  forall top st news olds, U top -> get_block (dur n) (hash_field top) = Some top -> no (best n) < no top ->
  gather (S (N.to_nat (no top))) (dur n) (no (best n)) top [] [] = Some (st, news, olds) ->
  forall n2, rollforward apply (set_state n (root st)) (rev news) = (n2, true) ->
  let m := mkMarker (hash_field st) (no st) (hash_field (best n)) (no (best n)) (hash_field top) (no top) in
  let nF := swap_chain n2 m top news olds false in
  forall j, exists r,
    restart true (apply_ops (apply_unit (dur n2) (marker_write_unit m)) (firstn j (all_ops (swap_mid news olds)))) = Some (StartOk r) /\
    Inv apply spent U g r /\ best r = top /\ (forall k, dur r k = dur nF k).
Proof. intros; eapply crash_partial_flush_mid; eauto. Qed.
Print Assumptions C06_crash_partial_flush_mid.

(** _partial_flush, swapChainMapping: crash after any prefix of the operations INSIDE its bulk (heights
    of the new branch in ascending order, Latest last). *)
Theorem C06_crash_partial_flush_heights :
  forall (apply : sroot -> block -> option sroot) (spent : sroot -> txid -> bool),
  (forall r b r', apply r b = Some r' -> NoDup (txs b) /\ forall t, In t (txs b) -> spent r t = false) ->
  (forall r b r' t, apply r b = Some r' -> spent r' t = spent r t || mem t (txs b)) ->
  forall (U : block -> Prop), (forall a b, U a -> U b -> hash_field a = hash_field b -> a = b) ->
  forall (g : block),
  forall n, Inv apply spent U g n ->
  forall top st news olds, U top -> get_block (dur n) (hash_field top) = Some top -> no (best n) < no top ->
  gather (S (N.to_nat (no top))) (dur n) (no (best n)) top [] [] = Some (st, news, olds) ->
  forall n2, rollforward apply (set_state n (root st)) (rev news) = (n2, true) ->
  let m := mkMarker (hash_field st) (no st) (hash_field (best n)) (no (best n)) (hash_field top) (no top) in
  let nF := swap_chain n2 m top news olds false in
  forall j, exists r,
    restart true (apply_ops (replay (dur n2) (marker_write_unit m :: swap_mid news olds))
                    (firstn j (u_ops (heights_unit (rev news) top)))) = Some (StartOk r) /\
    Inv apply spent U g r /\ best r = top /\ (forall k, dur r k = dur nF k).
Proof. intros; eapply crash_partial_flush_heights; eauto. Qed.
Print Assumptions C06_crash_partial_flush_heights.

(** Crash during recovery: first crash at unit j of the swap (after the marker write, before the
    marker delete), then a crash after any prefix k of the write units the recovery itself issues
    (RecoverChainMapping bulk, redone swap units): the next restart ends in the crash-free final store. *)
Theorem C06_crash_during_recovery :
  forall (apply : sroot -> block -> option sroot) (spent : sroot -> txid -> bool),
  (forall r b r', apply r b = Some r' -> NoDup (txs b) /\ forall t, In t (txs b) -> spent r t = false) ->
  (forall r b r' t, apply r b = Some r' -> spent r' t = spent r t || mem t (txs b)) ->
  forall (U : block -> Prop), (forall a b, U a -> U b -> hash_field a = hash_field b -> a = b) ->
  forall (g : block),
  forall n, Inv apply spent U g n ->
  forall top st news olds, U top -> get_block (dur n) (hash_field top) = Some top -> no (best n) < no top ->
  gather (S (N.to_nat (no top))) (dur n) (no (best n)) top [] [] = Some (st, news, olds) ->
  forall n2, rollforward apply (set_state n (root st)) (rev news) = (n2, true) ->
  let m := mkMarker (hash_field st) (no st) (hash_field (best n)) (no (best n)) (hash_field top) (no top) in
  let nF := swap_chain n2 m top news olds false in
  forall j k, (1 <= j)%nat -> (j < length (swap_units m top news olds))%nat ->
  let c := crash j (dur n2) (swap_units m top news olds) in
  exists r', restart true (replay c (firstn k (restart_units c))) = Some (StartOk r') /\
             Inv apply spent U g r' /\ best r' = top /\ (forall key, dur r' key = dur nF key).
Proof. intros; eapply crash_twice; eauto. Qed.
Print Assumptions C06_crash_during_recovery.

(** A partial flush inside the RecoverChainMapping bulk is not recoverable (Latest still names a height
    whose mapping has been deleted): restart fails with ErrorLoadBestBlock. *)
Theorem C06_recover_chain_mapping_partial_flush_refuted :
  exists (apply : sroot -> block -> option sroot) (n : node) (b : block),
    let n' := fst (add_block apply true true 100 n b) in
    let us := units_since n n' in
    let c3 := crash (length us - 1) (dur n) us in
    match restart true c3 with
    | Some (StartOk r) =>
        hash_field (best r) = hash_field b /\
        match rev (jlog r) with
        | u :: _ => u_kind u = UBulk /\ restart true (apply_ops c3 (firstn 1 (u_ops u))) = None
        | [] => False
        end
    | _ => False
    end.
Proof. exact recover_chain_mapping_partial_flush_refuted. Qed.
Print Assumptions C06_recover_chain_mapping_partial_flush_refuted.

(** ** In-memory system parameters across a recovery
    Whenever a restart goes through the reorg-marker recovery, the node it returns is [reload r0]:
    [r0], the node just before the last statement of ChainService.reorg (reloadSystemParams), holds
    the parameters of the marker's branch root [st0] and already the final state root.  The reload
    re-establishes [pmem = sdb_root]; dropping it leaves a node that rejects every block whenever
    the parameters of the new tip differ from those of the fork point (Wal.stale_params_reject). *)
Theorem C06_recovery_before_reload :
  forall f7 d m r, get_marker d = Some m -> restart f7 d = Some (StartOk r) ->
  exists r0 st0, get_block d (m_start m) = Some st0 /\ r = reload r0 /\
                 pmem r0 = root st0 /\ sdb_root r0 = sdb_root r /\ pmem r = sdb_root r.
Proof. intros; eapply recovery_before_reload; eauto. Qed.
Print Assumptions C06_recovery_before_reload.

(** After every recovery covered by C06_crash_reorg_inv the invariant holds, hence the parameters
    are those of the recovered best block and the next valid block is accepted
    (C05_params_coherent, C05_next_block_accepted). *)
Theorem C06_recovered_next_block_accepted :
  forall (apply : sroot -> block -> option sroot) (spent : sroot -> txid -> bool),
  (forall r b r', apply r b = Some r' -> NoDup (txs b) /\ forall t, In t (txs b) -> spent r t = false) ->
  (forall r b r' t, apply r b = Some r' -> spent r' t = spent r t || mem t (txs b)) ->
  forall (U : block -> Prop), (forall a b, U a -> U b -> hash_field a = hash_field b -> a = b) ->
  forall (g : block),
  forall (f7 f27 : bool) (orphan_cap : nat) r b,
  Inv apply spent U g r -> U b -> prev b = hash_field (best r) -> no b = no (best r) + 1 ->
  apply (root (best r)) b = Some (root b) ->
  mem (hash_field b) (bad r) = false -> get_block (dur r) (hash_field b) = None ->
  find_orphan (orphans r) (hash_field b) = None ->
  pmem r = root (best r) /\
  exists n', add_block apply f7 f27 orphan_cap r b = (n', ROk) /\ best n' = b /\ Inv apply spent U g n'.
Proof.
  intros apply spent Hf Hs U Hi g f7 f27 cap r b I Ub Hp Hn Ha Hb Hg Ho. split.
  - eapply params_coherent; eauto.
  - destruct (next_block_accepted apply f7 f27 cap spent Hf Hs U Hi g r b I Ub Hp Hn Ha Hb Hg Ho)
      as (n' & A & B & _ & _ & C). eauto.
Qed.
Print Assumptions C06_recovered_next_block_accepted.

(** C06  Crash recovery.  Every durable mutation of the model is a write unit; a crash keeps a
    prefix of the units of the running operation and loses the volatile state; [restart] is
    loadChainData + cdb.recover + sdb.Init(best) + Recover.
    Proved in full: restart on any consistent store; every crash point of a main-chain connection.
    The reorganisation crash points (marker protocol) are covered on the implementation by the
    journal engine for every prefix (see checks/C06.py); their Coq proof is not done (partial). *)
From Coq Require Import NArith List Bool.
From Verif Require Import ChainDB.Model ChainDB.Inv ChainDB.Crash.
Import ListNotations.
Open Scope N_scope.

(** Restart on the durable store of a consistent node: same best block, invariant holds, the state
    of the best block is available (state_available). *)
Theorem C06_restart_inv :
  forall (apply : sroot -> block -> option sroot) (spent : sroot -> txid -> bool),
  (forall r b r', apply r b = Some r' -> NoDup (txs b) /\ forall t, In t (txs b) -> spent r t = false) ->
  (forall r b r' t, apply r b = Some r' -> spent r' t = spent r t || mem t (txs b)) ->
  forall (U : block -> Prop), (forall a b, U a -> U b -> hash_field a = hash_field b -> a = b) ->
  forall (g : block),
  forall f7 n, Inv apply spent U g n ->
  exists n', restart f7 (dur n) = Some (StartOk n') /\ Inv apply spent U g n' /\ best n' = best n /\
             dur n' = dur n /\ has_state_marker (dur n') (root (best n')) = true.
Proof. intros; eapply restart_inv; eauto. Qed.
Print Assumptions C06_restart_inv.

(** crash_recover_inv / crash_best_legit / state_available for the connection of a main-chain
    block: for EVERY prefix length k of its write units (state commit bulk, receipts transaction,
    tip transaction) the restarted node satisfies the invariant on the old or the new tip. *)
Theorem C06_crash_connect_inv_partial :
  forall (apply : sroot -> block -> option sroot) (spent : sroot -> txid -> bool),
  (forall r b r', apply r b = Some r' -> NoDup (txs b) /\ forall t, In t (txs b) -> spent r t = false) ->
  (forall r b r' t, apply r b = Some r' -> spent r' t = spent r t || mem t (txs b)) ->
  forall (U : block -> Prop), (forall a b, U a -> U b -> hash_field a = hash_field b -> a = b) ->
  forall (g : block),
  forall f7 n b n' k, Inv apply spent U g n -> U b -> prev b = hash_field (best n) -> no b = no (best n) + 1 ->
  connect_main apply n b = Some n' ->
  exists r, restart f7 (crash k (dur n) (connect_units b)) = Some (StartOk r) /\ Inv apply spent U g r /\
            (best r = best n \/ best r = b) /\ has_state_marker (dur r) (root (best r)) = true.
Proof. intros; eapply crash_connect_inv; eauto. Qed.
Print Assumptions C06_crash_connect_inv_partial.

(** The units of [connect_units] are exactly what the model's connect_main journals, and the
    store is their replay (so cutting the journal is cutting the operation). *)
Theorem C06_connect_units_exact :
  forall (apply : sroot -> block -> option sroot) n b n', connect_main apply n b = Some n' ->
  jlog n' = rev (connect_units b) ++ jlog n /\ dur n' = replay (dur n) (connect_units b).
Proof. exact connect_main_units. Qed.
Print Assumptions C06_connect_units_exact.

(** C07  Fork choice.  Statements over the ChainDB model; LIB is an input stream.
    Proved: the main chain after any history is an executable parent-linked path whose end state is
    the node's state (state_is_fold_of_branch; an invalid block is never on it); a reorganisation
    that completes installs exactly the gathered branch (swap_inv inside add_block_inv).
    Not proved in Coq (checked on the implementation against an independent reference on every run):
    best_is_longest_available, returned_txs.  best_is_longest_available is FALSE of the code when an
    invalid block sits at the end of an orphan chain (known finding, see checks/C07.py). *)
From Coq Require Import NArith List Bool.
From Verif Require Import ChainDB.Model ChainDB.Inv ChainDB.Reorg ChainDB.AddBlock.
Import ListNotations.
Open Scope N_scope.

(** After every history: consecutive main-chain blocks are parent-linked and each executes on its
    predecessor's state to its own header root, and the node's state root is the tip's root: the
    world state is the fold of block execution along the main branch; a block that does not
    execute to its header root (an invalid block) is never on the main chain. *)
Theorem C07_state_is_fold_of_branch :
  forall (apply : sroot -> block -> option sroot) (orphan_cap : nat) (spent : sroot -> txid -> bool),
  (forall r b r', apply r b = Some r' -> NoDup (txs b) /\ forall t, In t (txs b) -> spent r t = false) ->
  (forall r b r' t, apply r b = Some r' -> spent r' t = spent r t || mem t (txs b)) ->
  forall (U : block -> Prop), (forall a b, U a -> U b -> hash_field a = hash_field b -> a = b) ->
  forall (g : block),
  forall (l : list (N * block)) n, Inv apply spent U g n ->
  (forall x, In x l -> U (snd x) /\ no (snd x) <> 0) ->
  let n' := history apply true orphan_cap n l in
  sdb_root n' = root (best n') /\
  mainb (dur n') 0 = Some g /\
  forall k, k < no (best n') -> exists p b,
    mainb (dur n') k = Some p /\ mainb (dur n') (k + 1) = Some b /\
    prev b = hash_field p /\ apply (root p) b = Some (root b).
Proof.
  intros apply cap spent Hf Hs U Hu g l n I H n'.
  pose proof (history_inv apply cap spent Hf Hs U Hu g l n I H) as I'.
  split; [exact (i_sdb _ _ _ _ _ I')|]. split; [exact (proj1 (i_gen _ _ _ _ _ I'))|]. exact (i_path _ _ _ _ _ I').
Qed.
Print Assumptions C07_state_is_fold_of_branch.

(** A completed swap installs exactly the gathered branch: the tip becomes the branch top. *)
Theorem C07_swap_installs_branch :
  forall n m top news olds st, linked st (rev news) ->
  best (swap_chain n m top news olds false) = top /\
  dur (swap_chain n m top news olds false) KLatest = Some (VNo (no top)) /\
  dur (swap_chain n m top news olds false) KMarker = None.
Proof.
  intros n m top news olds st Hl.
  destruct (swap_chain_reads n m top news olds st Hl) as (A & _ & _ & _ & _ & B & C & _). auto.
Qed.
Print Assumptions C07_swap_installs_branch.

(** C07  Fork choice.  Statements over the ChainDB model; LIB is an input stream.
    Proved: the main chain after any history is an executable parent-linked path whose end state is
    the node's state (state_is_fold_of_branch; an invalid block is never on it); a reorganisation
    that completes installs exactly the gathered branch (swap_inv inside add_block_inv).
    Also proved (ChainDB/Fork.v, Trace.v): gather is complete for an available branch and the
    reorganisation towards it succeeds (best_is_longest_available in step form, at the level of reorg
    and of an in-order arrival); no_displace_equal_or_shorter; below_lib_never_displaces; returned_txs.
    best_is_longest_available as a global invariant is FALSE of the code when an invalid block sits at
    the end of an orphan chain: refuted with the witness of known finding
    C07:orphan-chain-invalid-tail-blocks-reorg. *)
From Coq Require Import NArith List Bool.
From Verif Require Import ChainDB.Model ChainDB.Inv ChainDB.Reorg ChainDB.AddBlock ChainDB.Fork ChainDB.Trace ChainDB.Longest ChainDB.RefuteFork ChainDB.Wal.
Import ListNotations.
Open Scope N_scope.

(** After every history: consecutive main-chain blocks are parent-linked and each executes on its
    predecessor's state to its own header root, and the node's state root is the tip's root: the
    world state is the fold of block execution along the main branch; a block that does not
    execute to its header root (an invalid block) is never on the main chain. *)
Theorem C07_state_is_fold_of_branch :
  forall (apply : sroot -> block -> option sroot) (orphan_cap : nat) (f27 : bool) (spent : sroot -> txid -> bool),
  (forall r b r', apply r b = Some r' -> NoDup (txs b) /\ forall t, In t (txs b) -> spent r t = false) ->
  (forall r b r' t, apply r b = Some r' -> spent r' t = spent r t || mem t (txs b)) ->
  forall (U : block -> Prop), (forall a b, U a -> U b -> hash_field a = hash_field b -> a = b) ->
  forall (g : block),
  forall (l : list (N * block)) n, Inv apply spent U g n ->
  (forall x, In x l -> U (snd x) /\ (f27 = true \/ no (snd x) <> 0)) ->
  let n' := history apply true f27 orphan_cap n l in
  sdb_root n' = root (best n') /\
  mainb (dur n') 0 = Some g /\
  forall k, k < no (best n') -> exists p b,
    mainb (dur n') k = Some p /\ mainb (dur n') (k + 1) = Some b /\
    prev b = hash_field p /\ apply (root p) b = Some (root b).
Proof.
  intros apply cap f27 spent Hf Hs U Hu g l n I H n'.
  pose proof (history_inv apply cap f27 spent Hf Hs U Hu g l n I H) as I'.
  split; [exact (i_sdb _ _ _ _ _ I')|]. split; [exact (proj1 (i_gen _ _ _ _ _ I'))|]. exact (i_path _ _ _ _ _ I').
Qed.
Print Assumptions C07_state_is_fold_of_branch.

(** A completed swap installs exactly the gathered branch: the tip becomes the branch top. *)
Theorem C07_swap_installs_branch :
  forall n m top news olds st, linked st (rev news) ->
  best (swap_chain n m top news olds false) = top /\
  dur (swap_chain n m top news olds false) KLatest = Some (VNo (no top)) /\
  dur (swap_chain n m top news olds false) KMarker = None.
Proof.
  intros n m top news olds st Hl.
  destruct (swap_chain_reads n m top news olds st Hl) as (A & _ & _ & _ & _ & B & C & _). auto.
Qed.
Print Assumptions C07_swap_installs_branch.

(** best_is_longest_available, reorg level: for the tip [top] of a branch [L] that is fully stored,
    parent-linked and consecutively numbered from its fork point [f] with the main chain, executable
    from [f]'s state, strictly longer than the main chain, forking at or above the LIB and strictly
    below the current tip, [reorg] succeeds: best = top, state = top's state, invariant kept. *)
Theorem C07_reorg_switches_to_longer_available_branch :
  forall (apply : sroot -> block -> option sroot) (spent : sroot -> txid -> bool),
  (forall r b r', apply r b = Some r' -> NoDup (txs b) /\ forall t, In t (txs b) -> spent r t = false) ->
  (forall r b r' t, apply r b = Some r' -> spent r' t = spent r t || mem t (txs b)) ->
  forall (U : block -> Prop), (forall a b, U a -> U b -> hash_field a = hash_field b -> a = b) ->
  forall (g : block),
  forall n f L L' top, Inv apply spent U g n ->
  mainb (dur n) (no f) = Some f -> no f < no (best n) -> lib n <= no f ->
  linked f L -> L = L' ++ [top] ->
  (forall c, In c L -> get_block (dur n) (hash_field c) = Some c) ->
  (forall c m, In c L -> no c <= no (best n) -> mainb (dur n) (no c) = Some m -> hash_field c <> hash_field m) ->
  valid_chain apply (root f) L -> no (best n) < no top ->
  exists n', reorg apply true n top = (n', false) /\ best n' = top /\ sdb_root n' = root top /\
             Inv apply spent U g n' /\ bad n' = bad n /\ lib n' = lib n.
Proof. intros; eapply reorg_switches; eauto. Qed.
Print Assumptions C07_reorg_switches_to_longer_available_branch.

(** best_is_longest_available, arrival level (exact hypothesis: the arriving block is the tip of the
    branch and no parked orphan is waiting for it, i.e. in-order delivery of the tip): the node
    switches to the branch and its state is the branch's state. *)
Theorem C07_best_is_longest_available_partial :
  forall (apply : sroot -> block -> option sroot) (orphan_cap : nat) (f27 : bool) (spent : sroot -> txid -> bool),
  (forall r b r', apply r b = Some r' -> NoDup (txs b) /\ forall t, In t (txs b) -> spent r t = false) ->
  (forall r b r' t, apply r b = Some r' -> spent r' t = spent r t || mem t (txs b)) ->
  forall (U : block -> Prop), (forall a b, U a -> U b -> hash_field a = hash_field b -> a = b) ->
  forall (g : block),
  forall n b f L, Inv apply spent U g n -> U b -> (f27 = true \/ no b <> 0) ->
  mem (hash_field b) (bad n) = false -> get_block (dur n) (hash_field b) = None ->
  find_orphan (orphans n) (hash_field b) = None ->
  mainb (dur n) (no f) = Some f -> no f < no (best n) -> lib n <= no f ->
  linked f (L ++ [b]) ->
  (forall c, In c L -> get_block (dur n) (hash_field c) = Some c) ->
  (forall c m, In c L -> no c <= no (best n) -> mainb (dur n) (no c) = Some m -> hash_field c <> hash_field m) ->
  valid_chain apply (root f) (L ++ [b]) -> no (best n) < no b ->
  let r := add_block apply true f27 orphan_cap n b in
  snd r = ROk /\ best (fst r) = b /\ sdb_root (fst r) = root b /\ Inv apply spent U g (fst r).
Proof. intros; eapply best_is_longest_available_partial; eauto. Qed.
Print Assumptions C07_best_is_longest_available_partial.

(** The global statement "every available branch tip is at most as high as the best block" is false
    of the code (arrivals A1, B3 invalid, B2, B1). *)
Theorem C07_best_is_longest_available_refuted :
  exists (apply : sroot -> block -> option sroot) (spent : sroot -> txid -> bool) (U : block -> Prop) (g : block)
         (l : list (N * block)),
    (forall r b r', apply r b = Some r' -> NoDup (txs b) /\ forall t, In t (txs b) -> spent r t = false) /\
    (forall r b r' t, apply r b = Some r' -> spent r' t = spent r t || mem t (txs b)) /\
    (forall a b, U a -> U b -> hash_field a = hash_field b -> a = b) /\
    Inv apply spent U g (init_node g) /\ (forall x, In x l -> U (snd x) /\ no (snd x) <> 0) /\
    ~ Longest apply (history apply true true 100 (init_node g) l).
Proof. exact best_is_longest_available_refuted. Qed.
Print Assumptions C07_best_is_longest_available_refuted.

(** An arrival changes the best block only to a strictly higher one: shorter or equal branches never
    displace, ties keep the incumbent. *)
Theorem C07_no_displace_equal_or_shorter :
  forall (apply : sroot -> block -> option sroot) (orphan_cap : nat) (f27 : bool) (spent : sroot -> txid -> bool),
  (forall r b r', apply r b = Some r' -> NoDup (txs b) /\ forall t, In t (txs b) -> spent r t = false) ->
  (forall r b r' t, apply r b = Some r' -> spent r' t = spent r t || mem t (txs b)) ->
  forall (U : block -> Prop), (forall a b, U a -> U b -> hash_field a = hash_field b -> a = b) ->
  forall (g : block),
  forall n b, Inv apply spent U g n -> U b -> (f27 = true \/ no b <> 0) ->
  let n' := fst (add_block apply true f27 orphan_cap n b) in
  best n' = best n \/ no (best n) < no (best n').
Proof. intros; eapply no_displace_equal_or_shorter; eauto. Qed.
Print Assumptions C07_no_displace_equal_or_shorter.

(** No arrival changes the main chain at or below the LIB reported by consensus. *)
Theorem C07_below_lib_never_displaces :
  forall (apply : sroot -> block -> option sroot) (orphan_cap : nat) (f27 : bool) (spent : sroot -> txid -> bool),
  (forall r b r', apply r b = Some r' -> NoDup (txs b) /\ forall t, In t (txs b) -> spent r t = false) ->
  (forall r b r' t, apply r b = Some r' -> spent r' t = spent r t || mem t (txs b)) ->
  forall (U : block -> Prop), (forall a b, U a -> U b -> hash_field a = hash_field b -> a = b) ->
  forall (g : block),
  forall n b, Inv apply spent U g n -> U b -> (f27 = true \/ no b <> 0) ->
  let n' := fst (add_block apply true f27 orphan_cap n b) in
  forall k, k <= lib n -> k <= no (best n) -> mainb (dur n') k = mainb (dur n) k.
Proof. intros; eapply below_lib_never_displaces; eauto. Qed.
Print Assumptions C07_below_lib_never_displaces.

(** The MemPoolPut messages of an arrival are exactly the transactions confirmed before and not
    confirmed after it (txs(old branch) \ txs(new branch)). *)
Theorem C07_returned_txs :
  forall (apply : sroot -> block -> option sroot) (orphan_cap : nat) (f27 : bool) (spent : sroot -> txid -> bool),
  (forall r b r', apply r b = Some r' -> NoDup (txs b) /\ forall t, In t (txs b) -> spent r t = false) ->
  (forall r b r' t, apply r b = Some r' -> spent r' t = spent r t || mem t (txs b)) ->
  forall (U : block -> Prop), (forall a b, U a -> U b -> hash_field a = hash_field b -> a = b) ->
  forall (g : block),
  forall n b, Inv apply spent U g n -> U b -> (f27 = true \/ no b <> 0) ->
  let n' := fst (add_block apply true f27 orphan_cap n b) in
  exists new, evs n' = new ++ evs n /\
    forall t, In t (puts_of new) <-> (confirmed n t /\ ~ confirmed n' t).
Proof. intros; eapply returned_txs; eauto. Qed.
Print Assumptions C07_returned_txs.

(** best_is_longest_available as an INVARIANT over arrival histories.  [good_history]: the LIB
    stream is monotone, every arriving block is in U (and not numbered 0 unless F27 is applied), and
    - the hypothesis excluding the known finding - an arrival that pulls parked orphans in does not
    end in an error (i.e. every orphan-resolution run ends in a valid block and completes its
    reorganisation).  Then after every arrival every fully stored, parent-linked, consecutively
    numbered, executable branch forking from the main chain at or above the LIB has its tip at or
    below the best block's height (ties keep the incumbent by C07_no_displace_equal_or_shorter). *)
Theorem C07_best_is_longest_available_invariant :
  forall (apply : sroot -> block -> option sroot) (orphan_cap : nat) (f27 : bool) (spent : sroot -> txid -> bool),
  (forall r b r', apply r b = Some r' -> NoDup (txs b) /\ forall t, In t (txs b) -> spent r t = false) ->
  (forall r b r' t, apply r b = Some r' -> spent r' t = spent r t || mem t (txs b)) ->
  forall (U : block -> Prop), (forall a b, U a -> U b -> hash_field a = hash_field b -> a = b) ->
  forall (g : block) (l : list (N * block)),
  U g -> no g = 0 -> txs g = [] ->
  good_history apply orphan_cap f27 U (init_node g) l ->
  let n' := history apply true f27 orphan_cap (init_node g) l in
  Inv apply spent U g n' /\ Longest apply n'.
Proof.
  intros apply cap f27 spent Hf Hs U Hu g l Ug Hg Htx Hgood n'.
  destruct (longest_init apply g Hg Htx) as (S0 & L0).
  destruct (longest_history apply cap f27 spent Hf Hs U Hu g l (init_node g)
              (inv_init apply spent U g Ug Hg Htx) S0 L0 Hg Hgood) as (A & _ & C). auto.
Qed.
Print Assumptions C07_best_is_longest_available_invariant.

(** The step version for an arbitrary consistent state. *)
Theorem C07_longest_step :
  forall (apply : sroot -> block -> option sroot) (orphan_cap : nat) (f27 : bool) (spent : sroot -> txid -> bool),
  (forall r b r', apply r b = Some r' -> NoDup (txs b) /\ forall t, In t (txs b) -> spent r t = false) ->
  (forall r b r' t, apply r b = Some r' -> spent r' t = spent r t || mem t (txs b)) ->
  forall (U : block -> Prop), (forall a b, U a -> U b -> hash_field a = hash_field b -> a = b) ->
  forall (g : block) n b,
  Inv apply spent U g n -> Struct g n -> Longest apply n -> no g = 0 -> U b -> (f27 = true \/ no b <> 0) ->
  (snd (add_block apply true f27 orphan_cap n b) = RErr -> find_orphan (orphans n) (hash_field b) = None) ->
  Struct g (fst (add_block apply true f27 orphan_cap n b)) /\ Longest apply (fst (add_block apply true f27 orphan_cap n b)).
Proof. intros; eapply longest_step; eauto. Qed.
Print Assumptions C07_longest_step.

(** ** The node follows the winning branch when it grows
    After a successful switch (C07_reorg_switches) the invariant holds on the new tip, so its
    in-memory system parameters are those of the tip's state and the next valid block of the
    branch is accepted. *)
Theorem C07_winner_followed :
  forall (apply : sroot -> block -> option sroot) (spent : sroot -> txid -> bool),
  (forall r b r', apply r b = Some r' -> NoDup (txs b) /\ forall t, In t (txs b) -> spent r t = false) ->
  (forall r b r' t, apply r b = Some r' -> spent r' t = spent r t || mem t (txs b)) ->
  forall (U : block -> Prop), (forall a b, U a -> U b -> hash_field a = hash_field b -> a = b) ->
  forall (g : block),
  forall (f7 f27 : bool) (orphan_cap : nat) n top b,
  Inv apply spent U g n -> best n = top ->
  U b -> prev b = hash_field top -> no b = no top + 1 -> apply (root top) b = Some (root b) ->
  mem (hash_field b) (bad n) = false -> get_block (dur n) (hash_field b) = None ->
  find_orphan (orphans n) (hash_field b) = None ->
  pmem n = root top /\
  exists n', add_block apply f7 f27 orphan_cap n b = (n', ROk) /\ best n' = b /\ sdb_root n' = root b /\
             Inv apply spent U g n'.
Proof.
  intros apply spent Hf Hs U Hi g f7 f27 cap n top b I <- Ub Hp Hn Ha Hb Hg Ho. split.
  - eapply params_coherent; eauto.
  - destruct (next_block_accepted apply f7 f27 cap spent Hf Hs U Hi g n b I Ub Hp Hn Ha Hb Hg Ho)
      as (n' & A & B & C & _ & D). eauto.
Qed.
Print Assumptions C07_winner_followed.

(** C08  DPoS finality.  Only statements, each closed by [exact] of a lemma proved in
    Dpos/LibProofs.v, Dpos/LibQuorum.v or Dpos/ProtocolProofs.v, followed by [Print Assumptions]. *)
From Coq Require Import ZArith List Bool.
From Verif Require Import Dpos.Lib Dpos.LibProofs.
Import ListNotations.
Open Scope Z_scope.

(** The reported LIB height never decreases: every producer count, every history of
    deliveries (arbitrary blocks and Confirms, forks, reorganisations) and restarts. *)
Theorem C08_lib_monotone : forall size self evs1 evs2,
  lib_no (run (init_node size self) evs1) <= lib_no (run (init_node size self) (evs1 ++ evs2)).
Proof. exact lib_monotone. Qed.
Print Assumptions C08_lib_monotone.

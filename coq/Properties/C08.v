(** C08  DPoS finality.  Only statements, each closed by [exact] of a lemma proved in
    Dpos/LibProofs.v, Dpos/LibOnMain.v, Dpos/LibQuorum.v, Dpos/LibQuorumHist.v, Dpos/LibRestart.v, Dpos/ElectionProofs.v, Dpos/ElectionMemProofs.v or
    Dpos/ProtocolProofs.v, followed by [Print Assumptions].
    Model: Dpos/Lib.v (libStatus/Status/node, after the repairs F9, F21, F22), Dpos/Election.v
    (bp.Snapshots / bp.Cluster / GetRankers around the status: [mnode] is the code as it is, with the
    ranking cut at the in-memory BPCOUNT; F24 repaired), Dpos/Protocol.v. *)
From Coq Require Import ZArith List Bool.
From Verif Require Import Dpos.Lib Dpos.LibProofs Dpos.LibOnMain Dpos.LibQuorum Dpos.LibQuorumHist Dpos.LibRestart Dpos.LibExamples Dpos.Election Dpos.ElectionProofs Dpos.ElectionMemProofs Dpos.AgreementLock Dpos.LibFail Dpos.LibFailProofs Dpos.LibLpb Dpos.AgreementObstacles Dpos.LibCrash Dpos.LibCrashProofs
  Dpos.Protocol Dpos.ProtocolInv Dpos.ProtocolProofs.
Import ListNotations.
Open Scope Z_scope.

(** The reported LIB height never decreases: every producer count, every history of
    deliveries (arbitrary blocks and Confirms, forks, reorganisations) and restarts. *)
Theorem C08_lib_monotone : forall size self evs1 evs2,
  lib_no (run (init_node size self) evs1) <= lib_no (run (init_node size self) (evs1 ++ evs2)).
Proof. exact lib_monotone. Qed.
Print Assumptions C08_lib_monotone.

(** A block numbered at or below the LIB is refused: the node is unchanged. *)
Theorem C08_block_le_lib_refused : forall nd blk,
  k_no blk <= lib_no nd -> fst (deliver nd blk) = nd.
Proof. exact block_le_lib_refused. Qed.
Print Assumptions C08_block_le_lib_refused.

(** No delivery replaces a main-chain block at or below the LIB; a reorganisation whose
    fork point is below the LIB is vetoed and changes neither chain, status nor saved status. *)
Theorem C08_reorg_below_lib_refused : forall nd blk nd' o,
  deliver nd blk = (nd', o) ->
  (forall h, 0 <= h <= lib_no nd -> main_at nd' h = main_at nd h \/ main_at nd h = None) /\
  (o = OVeto -> nd_main nd' = nd_main nd /\ nd_st nd' = nd_st nd /\ nd_saved nd' = nd_saved nd).
Proof. exact reorg_below_lib_refused. Qed.
Print Assumptions C08_reorg_below_lib_refused.

(** Never undone: a main-chain block at or below a LIB the node has reported keeps its
    height on the node's main chain after any further deliveries and restarts. *)
Theorem C08_finalized_never_undone : forall size self evs1 evs2 h b,
  0 <= h <= lib_no (run (init_node size self) evs1) ->
  main_at (run (init_node size self) evs1) h = Some b ->
  main_at (run (init_node size self) (evs1 ++ evs2)) h = Some b.
Proof. exact finalized_never_undone. Qed.
Print Assumptions C08_finalized_never_undone.

(** The reported LIB lies on the node's main chain (or is the empty initial value), after
    any history of deliveries of blocks with non-empty hashes and restarts. *)
Theorem C08_lib_on_main_chain : forall size self evs,
  Forall ev_ok evs -> lib_on_main (run (init_node size self) evs) = true.
Proof. exact lib_on_main_chain. Qed.
Print Assumptions C08_lib_on_main_chain.

(** So do all proposals and all elements of the confirms list. *)
Theorem C08_proposals_on_main_chain : forall size self evs,
  Forall ev_ok evs ->
  let nd := run (init_node size self) evs in
  Forall (fun kv => onm (nd_main nd) (pl_plib (snd kv))) (ls_prpsd (st_ls (nd_st nd))) /\
  Forall (fun c => onm (nd_main nd) (c_bi c)) (ls_confirms (st_ls (nd_st nd))).
Proof. exact proposals_on_main_chain. Qed.
Print Assumptions C08_proposals_on_main_chain.

(** One node never reports irreversible blocks on conflicting branches: an earlier LIB is still
    on the main chain, at or below the later LIB, after any further history. *)
Theorem C08_lib_advances_on_one_branch : forall size self evs1 evs2,
  Forall ev_ok (evs1 ++ evs2) ->
  let nd1 := run (init_node size self) evs1 in
  let nd2 := run (init_node size self) (evs1 ++ evs2) in
  b_id (ls_lib (st_ls (nd_st nd1))) <> -1 ->
  (exists m, main_at nd2 (lib_no nd1) = Some m /\ k_id m = b_id (ls_lib (st_ls (nd_st nd1)))) /\
  lib_no nd1 <= lib_no nd2.
Proof. exact lib_advances_on_one_branch. Qed.
Print Assumptions C08_lib_advances_on_one_branch.

(** * Blocks that fail when executed (chain.executeBlock error path: Update(best block)) or are
      refused by IsBlockValid ([ref]; no Update except reorg's own Update(old best)) *)

(** Without failing blocks the extended model is [deliver]. *)
Theorem C08_deliver_f_no_bad : forall nd blk,
  deliver_f (fun _ => false) (fun _ => false) nd blk = (fst (deliver nd blk), FO (snd (deliver nd blk))).
Proof. exact deliver_f_no_bad. Qed.
Print Assumptions C08_deliver_f_no_bad.

(** With failing blocks a delivery still never lowers the LIB and never replaces a main-chain
    block at or below it. *)
Theorem C08_deliver_f_lib_mono : forall bad ref nd blk, lib_no nd <= lib_no (fst (deliver_f bad ref nd blk)).
Proof. exact deliver_f_lib_mono. Qed.
Print Assumptions C08_deliver_f_lib_mono.

Theorem C08_deliver_f_main_stable : forall bad ref nd blk h b,
  0 <= h <= lib_no nd -> main_at nd h = Some b -> main_at (fst (deliver_f bad ref nd blk)) h = Some b.
Proof. exact deliver_f_main_stable. Qed.
Print Assumptions C08_deliver_f_main_stable.

(** Partial: as long as no reorganisation fails in the middle (invalid or refused blocks only as
    children of the best block), the LIB stays on the main chain. *)
Theorem C08_lib_on_main_chain_partial_f : forall bad ref size self evs,
  no_failed_reorg bad ref (init_node size self) evs ->
  lib_on_main (run_f bad ref (init_node size self) evs) = true.
Proof. exact lib_on_main_chain_partial_f. Qed.
Print Assumptions C08_lib_on_main_chain_partial_f.

(** Refuted in general (known finding F25): after a reorganisation that fails at block k the LIB
    can be a block of the failed branch, and since nothing was saved it decreases at a restart. *)
Theorem C08_lib_on_main_chain_failed_reorg_refuted :
  exists bad ref size self evs, lib_on_main (run_f bad ref (init_node size self) evs) = false.
Proof. exact lib_on_main_chain_failed_reorg_refuted. Qed.
Print Assumptions C08_lib_on_main_chain_failed_reorg_refuted.

Theorem C08_lib_monotone_failed_reorg_refuted :
  exists bad ref size self evs,
    lib_no (step_f bad ref (run_f bad ref (init_node size self) evs) FRestart) <
    lib_no (run_f bad ref (init_node size self) evs).
Proof. exact lib_monotone_failed_reorg_refuted. Qed.
Print Assumptions C08_lib_monotone_failed_reorg_refuted.

(** After an abandoned reorganisation the confirms list is rebuilt from the main chain, wherever the
    failing block was (below, at or above the old best block's height): Status.Update decides
    "connected block or rollback target" by the HASH linkage [k_id best = k_prev blk].  For an
    execution failure this is unconditional (the second Update(old best) starts from a status whose
    best block is the old best block); for an IsBlockValid refusal the only Update(old best) starts
    from the last executed branch block (or the branch root), which is the parent of the old best
    block only when the root is (and then re-extending is correct). *)
Theorem C08_reorg_failed_confirms_on_main : forall bad ref nd blk,
  NI nd -> snd (deliver_f bad ref nd blk) = FReorgFailed ->
  Forall (fun c => onm (nd_main nd) (c_bi c))
         (ls_confirms (st_ls (nd_st (fst (deliver_f bad ref nd blk))))).
Proof. exact reorg_failed_confirms_on_main. Qed.
Print Assumptions C08_reorg_failed_confirms_on_main.

Theorem C08_reorg_refused_confirms_on_main : forall bad ref nd blk,
  NI nd -> snd (deliver_f bad ref nd blk) = FReorgRefused ->
  forall root nb, gather (length (blk :: nd_store nd)) (nd_main nd) (blk :: nd_store nd) blk [] = Some (root, nb) ->
  k_id (last (fst (ok_prefix bad ref nb)) root) <> k_prev (st_best (nd_st nd)) ->
  Forall (fun c => onm (nd_main nd) (c_bi c))
         (ls_confirms (st_ls (nd_st (fst (deliver_f bad ref nd blk))))).
Proof. exact reorg_refused_confirms_on_main. Qed.
Print Assumptions C08_reorg_refused_confirms_on_main.

(** * Write units: what is saved with the chain tip; crash inside a reorganisation *)

(** After a connected block or a reorganisation the status saved with the chain tip is the running
    status: a restart right after it (before any further block) restores the running LIB and
    recomputes from the running proposal map. *)
Theorem C08_saved_current_after_commit : forall nd blk nd' o,
  deliver nd blk = (nd', o) -> o = OConnected \/ o = OReorg ->
  nd_saved nd' = Some (save (st_ls (nd_st nd'))).
Proof. exact saved_current_after_commit. Qed.
Print Assumptions C08_saved_current_after_commit.

Theorem C08_restart_after_reorg_equals_running : forall nd blk nd' o,
  deliver nd blk = (nd', o) -> o = OConnected \/ o = OReorg ->
  let cur := st_ls (nd_st nd') in
  st_ls (nd_st (restart nd')) =
    load (main_get (nd_main nd')) (mkLS (ls_prpsd cur) (ls_lib cur) (ls_lpb cur) [] (confirms_required (nd_size nd')) (nd_self nd'))
         (k_no (st_best (nd_st nd'))) /\
  ls_lib (st_ls (nd_st (restart nd'))) = ls_lib cur.
Proof. exact restart_after_reorg_equals_running. Qed.
Print Assumptions C08_restart_after_reorg_equals_running.

(** Crash inside a reorganisation (after the marker is written, or between the swap of the
    mapping + status and the deletion of the marker) and recovery from the marker: the
    reorganisation is redone (fix 479daa05 / F40: no second veto) and the recovered node satisfies
    the node invariant: LIB and proposals on the new main chain. *)
Theorem C08_recovery_redone : forall point nd blk,
  snd (deliver nd blk) = OReorg -> snd (deliver_crash point nd blk) = CRecovered.
Proof. exact recovery_redone. Qed.
Print Assumptions C08_recovery_redone.

Theorem C08_recovery_lib_on_main : forall point nd blk,
  NI nd -> blk_ok blk -> snd (deliver nd blk) = OReorg ->
  lib_on_main (fst (deliver_crash point nd blk)) = true.
Proof. exact recovery_lib_on_main. Qed.
Print Assumptions C08_recovery_lib_on_main.

(** calcLIB: at least n' - (n'-1)/3 of the n' proposals are at or above the computed LIB. *)
Theorem C08_lib_supported_by_two_thirds : forall p l,
  calc_lib p = Some l ->
  let n' := Z.of_nat (length p) in
  n' - (n' - 1) / 3 <= Z.of_nat (count_ge (b_no l) (plibs p)).
Proof. exact lib_supported_by_two_thirds. Qed.
Print Assumptions C08_lib_supported_by_two_thirds.

(** confirmsRequired = 2n/3+1 is more than two thirds of the producers. *)
Theorem C08_confirms_required_two_thirds : forall n, 0 < n < 21845 ->
  confirms_required n = 2 * n / 3 + 1 /\ 3 * confirms_required n > 2 * n.
Proof. exact confirms_required_two_thirds. Qed.
Print Assumptions C08_confirms_required_two_thirds.

(** plib_has_quorum: in every reachable node, when Update of the next block makes a block a
    producer's proposed LIB, that block is an element of the confirms list (a main-chain block
    by C08_proposals_on_main_chain) and at least 2n/3+1 = confirmsRequired elements of the list
    from it to the tip have confirmation windows containing it.  With honest windows
    (C08_honest_windows_disjoint) these are blocks of distinct producers. *)
Theorem C08_plib_has_quorum : forall size self evs b ls1 bp pl,
  Forall ev_ok2 evs -> 0 < size < 21845 -> k_no b <> 0 ->
  let nd := run (init_node size self) evs in
  get_pre_lib (add_confirm_info (st_ls (nd_st nd)) b) = (ls1, Some (bp, pl)) ->
  exists i e, nth_error (ls_confirms ls1) i = Some e /\ c_bi e = pl_plib pl /\
              (Z.to_nat (2 * size / 3 + 1) <= confirmers (ls_confirms ls1) e i)%nat.
Proof. exact plib_has_quorum. Qed.
Print Assumptions C08_plib_has_quorum.

(** A correct producer's confirmation windows (lpbNo, no] never overlap. *)
Theorem C08_honest_windows_disjoint : forall no1 lpb1 no2 lpb2 h,
  0 <= lpb1 < no1 -> no1 <= lpb2 < no2 ->
  window no1 (honest_confirms no1 lpb1) h -> window no2 (honest_confirms no2 lpb2) h -> False.
Proof. exact honest_windows_disjoint. Qed.
Print Assumptions C08_honest_windows_disjoint.

(** Two sets of 2n/3+1 distinct producers share a non-Byzantine one when f < n/3. *)
Theorem C08_quorum_intersection : forall (u byz q1 q2 : list Z),
  NoDup u -> NoDup q1 -> NoDup q2 -> incl q1 u -> incl q2 u ->
  let n := Z.of_nat (length u) in
  3 * Z.of_nat (length byz) < n ->
  2 * n / 3 + 1 <= Z.of_nat (length q1) -> 2 * n / 3 + 1 <= Z.of_nat (length q2) ->
  exists x, In x q1 /\ In x q2 /\ ~ In x byz.
Proof. exact quorum_intersection. Qed.
Print Assumptions C08_quorum_intersection.

(** Restart: the LIB is restored exactly; restoring is idempotent; the restored status is the
    saved one with confirms list and proposals recomputed from the stored blocks. *)
Theorem C08_restart_lib_preserved : forall size self evs,
  let nd := run (init_node size self) evs in
  ls_lib (st_ls (nd_st (restart nd))) = ls_lib (st_ls (nd_st nd)).
Proof. exact restart_lib_preserved. Qed.
Print Assumptions C08_restart_lib_preserved.

Theorem C08_restart_idempotent : forall nd, restart (restart nd) = restart nd.
Proof. exact restart_idempotent. Qed.
Print Assumptions C08_restart_idempotent.

Theorem C08_restart_equals_recompute : forall nd p l lpb,
  nd_saved nd = Some (p, l, lpb) ->
  st_ls (nd_st (restart nd)) =
    load (main_get (nd_main nd)) (mkLS p l lpb [] (confirms_required (nd_size nd)) (nd_self nd))
         (k_no (st_best (nd_st nd))).
Proof. exact restart_equals_recompute. Qed.
Print Assumptions C08_restart_equals_recompute.

(** ForceResetHeight (operator action at start-up): disabled it is the ordinary restore; enabled,
    neither the LIB nor any proposal stays above the reset height. *)
Theorem C08_restore_reset_zero : forall g sv best size self,
  restore_reset g sv best size self 0 = (restore g sv best size self, sv).
Proof. exact restore_reset_zero. Qed.
Print Assumptions C08_restore_reset_zero.

Theorem C08_restore_reset_bounds : forall g sv best size self rh st sv',
  0 < rh -> restore_reset g sv best size self rh = (st, sv') ->
  b_no (ls_lib (st_ls st)) <= rh \/ sv = None /\ ls_lib (st_ls st) = empty_info.
Proof. exact restore_reset_bounds. Qed.
Print Assumptions C08_restore_reset_bounds.

Theorem C08_restore_reset_proposals_bounded : forall g sv best size self rh st sv',
  0 < rh -> restore_reset g sv best size self rh = (st, sv') ->
  Forall (fun kv => b_no (pl_plib (snd kv)) <= rh /\ b_no (pl_by (snd kv)) <= rh) (ls_prpsd (st_ls st)).
Proof. exact restore_reset_proposals_bounded. Qed.
Print Assumptions C08_restore_reset_proposals_bounded.

(** ForceResetHeight at or above the LIB height keeps the LIB (and the saved status); strictly
    below it the LIB falls back to the genesis block.  Hence after a reset at or above the LIB no
    fork point below the LIB may be reorganised. *)
Theorem C08_restore_reset_keeps_lib_at_or_below_height : forall g sv best size self rh,
  let l0 := ls_lib (st_ls (restore g sv best size self)) in
  (rh <= 0 \/ b_no l0 <= rh ->
     ls_lib (st_ls (fst (restore_reset g sv best size self rh))) = l0 /\
     snd (restore_reset g sv best size self rh) = sv) /\
  (0 < rh < b_no l0 ->
     ls_lib (st_ls (fst (restore_reset g sv best size self rh))) = genesis_info /\
     snd (restore_reset g sv best size self rh) = None).
Proof. exact restore_reset_keeps_lib_at_or_below_height. Qed.
Print Assumptions C08_restore_reset_keeps_lib_at_or_below_height.

Theorem C08_restore_reset_veto_kept : forall g sv best size self rh f,
  b_no (ls_lib (st_ls (restore g sv best size self))) <= rh ->
  f < b_no (ls_lib (st_ls (restore g sv best size self))) ->
  need_reorganization (st_ls (fst (restore_reset g sv best size self rh))) f = false.
Proof. exact restore_reset_veto_kept. Qed.
Print Assumptions C08_restore_reset_veto_kept.

(** ... but it is not always the status computed online (known finding). *)
Theorem C08_restart_equals_online_refuted :
  exists size self evs,
    let nd := run (init_node size self) evs in
    sort_entries (prpsd_obs (ls_prpsd (st_ls (nd_st (restart nd))))) <>
    sort_entries (prpsd_obs (ls_prpsd (st_ls (nd_st nd)))).
Proof. exact restart_equals_online_refuted. Qed.
Print Assumptions C08_restart_equals_online_refuted.

(** What does hold globally: in every world reachable under the protocol rules, with any number
    of Byzantine producers and any delivery schedule, every node's LIB is on its own main chain
    (two nodes conflict only if their main chains diverge below a LIB). *)
Theorem C08_protocol_lib_on_main_chain : forall n byz evs w i nd,
  prun (init_world n byz) evs = Some w -> zget (w_nodes w) i = Some nd -> lib_on_main nd = true.
Proof. exact protocol_lib_on_main_chain. Qed.
Print Assumptions C08_protocol_lib_on_main_chain.

(** agreement_partial: if correct node j's main chain has not diverged from node i's below i's
    LIB, both LIBs lie on j's main chain (one branch). *)
Theorem C08_agreement_partial : forall n byz evs w i j ndi ndj,
  prun (init_world n byz) evs = Some w ->
  zget (w_nodes w) i = Some ndi -> zget (w_nodes w) j = Some ndj ->
  b_id (ls_lib (st_ls (nd_st ndi))) <> -1 -> b_id (ls_lib (st_ls (nd_st ndj))) <> -1 ->
  main_at ndj (lib_no ndi) = main_at ndi (lib_no ndi) ->
  onm (nd_main ndj) (ls_lib (st_ls (nd_st ndi))) /\ onm (nd_main ndj) (ls_lib (st_ls (nd_st ndj))).
Proof. exact agreement_partial. Qed.
Print Assumptions C08_agreement_partial.

(** The global agreement clause is false of the protocol as implemented: one Byzantine
    producer out of four (f < n/3) and an adversarial schedule make two correct nodes
    report irreversible blocks on conflicting branches (F14: Confirms is never validated). *)
Theorem C08_agreement_refuted :
  exists h w, prun (init_world 4 [3]) h = Some w /\ few_faults w = true /\ ~ agreement w.
Proof. exact agreement_refuted. Qed.
Print Assumptions C08_agreement_refuted.

(** ... and also when the Byzantine producer's Confirms windows are honest-sized (F14b). *)
Theorem C08_agreement_refuted_equivocation_only :
  exists w, prun (init_world 4 [3]) f14b_history = Some w /\ few_faults w = true /\ ~ agreement w.
Proof. exact agreement_refuted_equivocation_only. Qed.
Print Assumptions C08_agreement_refuted_equivocation_only.

(** ... and when no correct producer signs anything at all: the 2/3 rule counts map entries. *)
Theorem C08_agreement_refuted_single_producer :
  exists w, prun (init_world 4 [3]) solo_history = Some w /\ few_faults w = true /\ ~ agreement w.
Proof. exact agreement_refuted_single_producer. Qed.
Print Assumptions C08_agreement_refuted_single_producer.

(** The stronger agreement_partial of DESIGN.md, at the level of the rule (abstract block tree and
    views): LIBs below the proposals of 2n/3+1 distinct producers of the same n, proposals below
    the establishing blocks, a lock on correct producers, f < n/3 => the LIBs are on one branch.
    Dpos/AgreementLock.v ends with what is missing to instantiate it for the implementation. *)
Theorem C08_agreement_under_lock : forall parent u byz v1 v2 Q1 Q2,
  NoDup u ->
  let n := Z.of_nat (length u) in
  3 * Z.of_nat (length byz) < n ->
  supported parent u v1 Q1 -> supported parent u v2 Q2 ->
  2 * n / 3 + 1 <= Z.of_nat (length Q1) -> 2 * n / 3 + 1 <= Z.of_nat (length Q2) ->
  locked parent byz v1 v2 ->
  anc parent (v_lib v1) (v_lib v2) \/ anc parent (v_lib v2) (v_lib v1).
Proof. exact agreement_under_lock. Qed.
Print Assumptions C08_agreement_under_lock.

(** The three obstacles between C08_agreement_under_lock and the implementation are facts about
    the code (each witness is also run on the real Status by the check):
    (a) the 2/3 rule counts map entries, not producers; (b) PlibBy is not kept on the main chain;
    (c) the lock is not a rule of the protocol. *)
Theorem C08_lib_needs_two_thirds_of_producers_refuted :
  exists size self evs,
    4 <= size /\ Forall ev_ok evs /\ 0 < lib_no (run (init_node size self) evs) /\
    (forall b, In (EDeliver b) evs -> k_bp b = 3).
Proof. exact lib_needs_two_thirds_of_producers_refuted. Qed.
Print Assumptions C08_lib_needs_two_thirds_of_producers_refuted.

Theorem C08_plib_by_on_main_chain_refuted :
  exists size self evs, Forall ev_ok evs /\ by_on_main (run (init_node size self) evs) = false.
Proof. exact plib_by_on_main_chain_refuted. Qed.
Print Assumptions C08_plib_by_on_main_chain_refuted.

Theorem C08_lock_not_enforced :
  exists w node p, prun (init_world 4 [3]) f14b_history = Some w /\ few_faults w = true /\
    is_byz w p = false /\ is_byz w node = false /\ lock_broken w node p = true.
Proof. exact lock_not_enforced. Qed.
Print Assumptions C08_lock_not_enforced.

(** LpbNo (the lpbNo the block factory starts from) covers every own block on the main chain in
    every reachable node, so a correct producer's windows on its chain stay disjoint across
    reorganisations and restarts. *)
Theorem C08_lpb_covers_own_blocks : forall size self evs b,
  Forall ev_ok2 evs ->
  let nd := run (init_node size self) evs in
  In b (nd_main nd) -> k_bp b = self -> k_no b <= ls_lpb (st_ls (nd_st nd)).
Proof. exact lpb_covers_own_blocks. Qed.
Print Assumptions C08_lpb_covers_own_blocks.

(** A wrapped `no - lpbNo` (lpbNo above the block number) gives an empty window. *)
Theorem C08_underflow_window_empty : forall no lpb bp left_ c,
  0 <= no < lpb -> lpb < 9223372036854775808 ->
  let last := mkC (mkB 0 no (u64 (no - lpb))) bp left_ in
  in_window (win_min last) (win_max last) c = false.
Proof. exact underflow_window_empty. Qed.
Print Assumptions C08_underflow_window_empty.

(** * Block-producer election (bp/cluster.go around Status.Update) *)

(** "The producer set a node uses is a function of its main chain" is FALSE of the code: GetRankers
    cuts the ranking of the reference block at the node's in-memory BPCOUNT, so after a DAO change
    of BPCOUNT a node and the same node restarted (same main chain) install different producer sets
    (known finding C08:bp-snapshot-bpcount-from-memory). *)
Theorem C08_cluster_function_of_chain_refuted :
  exists sto gen self evs,
    Forall ev_ok evs /\
    mn_main (mrestart sto gen (mrun sto gen (minit_node sto gen self) evs)) =
      mn_main (mrun sto gen (minit_node sto gen self) evs) /\
    m_cluster (mrestart sto gen (mrun sto gen (minit_node sto gen self) evs)) <>
      m_cluster (mrun sto gen (minit_node sto gen self) evs).
Proof. exact cluster_function_of_chain_refuted. Qed.
Print Assumptions C08_cluster_function_of_chain_refuted.

(** A weaker hypothesis does not suffice: even with BPCOUNT constant on the whole main chain, a
    node that was restarted, then saw an abandoned branch with another BPCOUNT and reorganised
    (Status.Update(fork point) runs before the parameters are reloaded, fix F41 reloads them right
    after) has a different producer set than a node with the same main chain that never saw it. *)
Theorem C08_cluster_function_of_chain_main_const_refuted :
  exists sto gen self evs1 evs2,
    Forall ev_ok evs1 /\ Forall ev_ok evs2 /\
    mn_main (mrun sto gen (minit_node sto gen self) evs1) = mn_main (mrun sto gen (minit_node sto gen self) evs2) /\
    forallb (fun b => param sto (k_id b) =? 3) (mn_main (mrun sto gen (minit_node sto gen self) evs1)) = true /\
    m_cluster (mrun sto gen (minit_node sto gen self) evs1) <> m_cluster (mrun sto gen (minit_node sto gen self) evs2).
Proof. exact cluster_function_of_chain_main_const_refuted. Qed.
Print Assumptions C08_cluster_function_of_chain_main_const_refuted.

(** Partial: if BPCOUNT never changes (every state stores n0), then after any history (forks,
    reorganisations across election boundaries, vetoes, restarts) the installed producer set is the
    one the main chain determines: the genesis list below the bootstrap height, else the first n0
    entries of the vote ranking committed by the main-chain block at snapBlockNo(best). *)
Theorem C08_cluster_function_of_chain_partial : forall rank n0 gen nd, mreachable rank n0 gen nd ->
  cluster_spec (fun id => (rank id, n0)) gen (mn_main nd) (Z.of_nat (length (mn_main nd)) - 1) = Some (m_cluster nd).
Proof. exact cluster_function_of_chain_partial. Qed.
Print Assumptions C08_cluster_function_of_chain_partial.

Theorem C08_same_chain_same_producers_partial : forall rank n0 gen nd1 nd2,
  mreachable rank n0 gen nd1 -> mreachable rank n0 gen nd2 ->
  mn_main nd1 = mn_main nd2 -> m_cluster nd1 = m_cluster nd2.
Proof. exact same_chain_same_producers_partial. Qed.
Print Assumptions C08_same_chain_same_producers_partial.

Theorem C08_restart_same_producers_partial : forall rank n0 gen nd, mreachable rank n0 gen nd ->
  m_cluster (mrestart (fun id => (rank id, n0)) gen nd) = m_cluster nd.
Proof. exact restart_same_producers_partial. Qed.
Print Assumptions C08_restart_same_producers_partial.

(** The same statement for the election functions with the ranking cut at the BPCOUNT of the
    state it is read from (what the not-applied repair computes), for any BPCOUNT history. *)
Theorem C08_cluster_function_of_chain_state_cut : forall sto gen nd, reachable sto gen nd ->
  cluster_spec sto gen (en_main nd) (Z.of_nat (length (en_main nd)) - 1) = Some (sn_cluster (e_sn nd)).
Proof. exact cluster_function_of_chain. Qed.
Print Assumptions C08_cluster_function_of_chain_state_cut.

(** confirmsRequired is 2n/3+1 of the CURRENT producer count in every reachable node of the model
    of the code as it is (any history, any BPCOUNT changes; uses the committed repair F24). *)
Theorem C08_confirms_required_current : forall sto gen self evs,
  m_cr_ok (mrun sto gen (minit_node sto gen self) evs).
Proof. exact confirms_required_current_mem. Qed.
Print Assumptions C08_confirms_required_current.

(** When Update of a boundary block installs a new producer set, only its members keep an entry
    in the proposal map: a retired producer's proposals are not counted after the boundary
    (for any cut, in particular the in-memory one). *)
Theorem C08_retired_producers_dropped : forall sto gen g s blk sn' bps,
  (k_id (st_best (es_st s)) =? k_prev blk) = true ->
  add_snapshot sto gen g (es_sn s) blk = (sn', bps) -> bps <> [] ->
  bps = sn_cluster sn' /\
  Forall (fun kv => In (fst kv) bps) (ls_prpsd (st_ls (es_st (estatus_update sto gen g s blk)))).
Proof. exact retired_producers_dropped. Qed.
Print Assumptions C08_retired_producers_dropped.

(** The node-local finality clauses with elections (changing producer set and confirmsRequired),
    partial: constant BPCOUNT. *)
Theorem C08_m_lib_monotone_partial : forall rank n0 gen self evs1 evs2, Forall ev_ok (evs1 ++ evs2) ->
  e_lib_no (m_enode (mrun (fun id => (rank id, n0)) gen (minit_node (fun id => (rank id, n0)) gen self) evs1)) <=
  e_lib_no (m_enode (mrun (fun id => (rank id, n0)) gen (minit_node (fun id => (rank id, n0)) gen self) (evs1 ++ evs2))).
Proof. exact m_lib_monotone_partial. Qed.
Print Assumptions C08_m_lib_monotone_partial.

Theorem C08_m_finalized_never_undone_partial : forall rank n0 gen self evs1 evs2 h b, Forall ev_ok (evs1 ++ evs2) ->
  0 <= h <= e_lib_no (m_enode (mrun (fun id => (rank id, n0)) gen (minit_node (fun id => (rank id, n0)) gen self) evs1)) ->
  main_get (mn_main (mrun (fun id => (rank id, n0)) gen (minit_node (fun id => (rank id, n0)) gen self) evs1)) h = Some b ->
  main_get (mn_main (mrun (fun id => (rank id, n0)) gen (minit_node (fun id => (rank id, n0)) gen self) (evs1 ++ evs2))) h = Some b.
Proof. exact m_finalized_never_undone_partial. Qed.
Print Assumptions C08_m_finalized_never_undone_partial.

Theorem C08_m_lib_on_main_chain_partial : forall rank n0 gen nd, mreachable rank n0 gen nd ->
  lib_on_main (proj (m_enode nd)) = true.
Proof. exact m_lib_on_main_chain_partial. Qed.
Print Assumptions C08_m_lib_on_main_chain_partial.

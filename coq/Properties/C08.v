(** C08  DPoS finality.  Only statements, each closed by [exact] of a lemma proved in
    Dpos/LibProofs.v or Dpos/ProtocolProofs.v, followed by [Print Assumptions]. *)
From Coq Require Import ZArith List Bool.
From Verif Require Import Dpos.Lib Dpos.LibProofs Dpos.Protocol Dpos.ProtocolProofs.
Import ListNotations.
Open Scope Z_scope.

(** The reported LIB height never decreases: every producer count, every history of
    deliveries (arbitrary blocks and Confirms, forks, reorganisations) and restarts. *)
Theorem C08_lib_monotone : forall size self evs1 evs2,
  lib_no (run (init_node size self) evs1) <= lib_no (run (init_node size self) (evs1 ++ evs2)).
Proof. exact lib_monotone. Qed.
Print Assumptions C08_lib_monotone.

(** A block numbered at or below the LIB is refused: the node is unchanged. *)
Theorem C08_block_le_lib_refused : forall nd blk,
  k_no blk <= lib_no nd -> fst (deliver nd blk) = nd.
Proof. exact block_le_lib_refused. Qed.
Print Assumptions C08_block_le_lib_refused.

(** No delivery replaces a main-chain block at or below the LIB; a reorganisation whose
    fork point is below the LIB is vetoed and changes neither chain, status nor saved status. *)
Theorem C08_reorg_below_lib_refused : forall nd blk nd' o,
  deliver nd blk = (nd', o) ->
  (forall h, 0 <= h <= lib_no nd -> main_at nd' h = main_at nd h \/ main_at nd h = None) /\
  (o = OVeto -> nd_main nd' = nd_main nd /\ nd_st nd' = nd_st nd /\ nd_saved nd' = nd_saved nd).
Proof. exact reorg_below_lib_refused. Qed.
Print Assumptions C08_reorg_below_lib_refused.

(** Never undone: a main-chain block at or below a LIB the node has reported keeps its
    height on the node's main chain after any further deliveries and restarts. *)
Theorem C08_finalized_never_undone : forall size self evs1 evs2 h b,
  0 <= h <= lib_no (run (init_node size self) evs1) ->
  main_at (run (init_node size self) evs1) h = Some b ->
  main_at (run (init_node size self) (evs1 ++ evs2)) h = Some b.
Proof. exact finalized_never_undone. Qed.
Print Assumptions C08_finalized_never_undone.

(** The global agreement clause is false of the protocol as implemented: one Byzantine
    producer out of four (f < n/3) and an adversarial schedule make two correct nodes
    report irreversible blocks on conflicting branches (F14: Confirms is never validated). *)
Theorem C08_agreement_refuted :
  exists h w, prun (init_world 4 [3]) h = Some w /\ few_faults w = true /\ ~ agreement w.
Proof. exact agreement_refuted. Qed.
Print Assumptions C08_agreement_refuted.

(** ... and also when the Byzantine producer's Confirms windows are honest-sized (F14b). *)
Theorem C08_agreement_refuted_equivocation_only :
  exists w, prun (init_world 4 [3]) f14b_history = Some w /\ few_faults w = true /\ ~ agreement w.
Proof. exact agreement_refuted_equivocation_only. Qed.
Print Assumptions C08_agreement_refuted_equivocation_only.

(** C09  Block producer legitimacy: one producer per slot, valid signature, not future.
    Only statements, each closed by [exact] of a lemma proved elsewhere, followed by
    [Print Assumptions]. *)
From Coq Require Import ZArith List Bool.
From Verif Require Import Dpos.Slot Dpos.SlotProofs.
Import ListNotations.
Open Scope Z_scope.

(** Every non-negative instant belongs to exactly one index of the producer set. *)
Theorem C09_slot_owner_unique : forall iv n ns,
  0 < iv -> 0 < n -> 0 <= ns ->
  exists i, (0 <= i < n /\ is_for (from_unix_ns iv ns) i n = true) /\
            forall j, is_for (from_unix_ns iv ns) j n = true -> j = i.
Proof. exact slot_owner_unique. Qed.
Print Assumptions C09_slot_owner_unique.

(** Slot k is the millisecond interval ((k-1)*iv, k*iv]; its owner is k mod n. *)
Theorem C09_slot_partition : forall iv n k ms,
  0 < iv -> 0 < n -> 0 <= k -> (k - 1) * iv < ms <= k * iv -> 0 <= ms ->
  next_index iv ms = k /\ Z.rem (next_index iv ms) n = k mod n.
Proof. exact slot_partition. Qed.
Print Assumptions C09_slot_partition.

(** Owners of consecutive slots rotate modulo n (including the round wrap-around). *)
Theorem C09_slot_rotation : forall iv n k ms1 ms2,
  0 < iv -> 0 < n -> 0 <= k -> 0 <= ms1 ->
  (k - 1) * iv < ms1 <= k * iv -> k * iv < ms2 <= (k + 1) * iv ->
  Z.rem (next_index iv ms2) n = (Z.rem (next_index iv ms1) n + 1) mod n.
Proof. exact slot_rotation. Qed.
Print Assumptions C09_slot_rotation.

(** "not ahead of the local clock": the clock's slot (slot.Now() = Time(time.Now())) is taken
    from the untouched clock reading by the same function as a block timestamp's slot, so both
    are on one grid: whatever the sub-millisecond phase of the clock in slot k, a timestamp in
    slot k+2 or later is future and one in slot k+1 or earlier is not.  Tied to the code by the
    clock-bracket predicate of the slot engine (n0 <= Now().timeNs <= n1, timeMs = timeNs/10^6,
    indices = those of the reading).  A clock rounded to the nearest millisecond is off the grid
    (refutation; independent change C09-r5). *)
Theorem C09_now_and_block_same_grid : forall iv now ts k,
  0 < iv -> 0 <= now -> 0 <= ts ->
  (k - 1) * iv < ns_to_ms now <= k * iv ->
  ((k + 1) * iv < ns_to_ms ts -> is_future (from_unix_ns iv ts) (now_slot iv now) = true) /\
  (ns_to_ms ts <= (k + 1) * iv -> is_future (from_unix_ns iv ts) (now_slot iv now) = false).
Proof. exact now_and_block_same_grid_both. Qed.
Print Assumptions C09_now_and_block_same_grid.

Theorem C09_rounded_clock_off_grid_refuted :
  exists iv now ts k,
    (k - 1) * iv < ns_to_ms now <= k * iv /\ (k + 1) * iv < ns_to_ms ts /\
    is_future (from_unix_ns iv ts) (rounded_now_slot iv now) = false.
Proof. exact rounded_clock_off_grid_refuted. Qed.
Print Assumptions C09_rounded_clock_off_grid_refuted.

(** Two producers valid for the same timestamp are the same producer. *)
Theorem C09_two_valid_same_producer :
  forall (ID : Type) (id_eqb : ID -> ID -> bool),
  (forall a b, id_eqb a b = true <-> a = b) ->
  forall iv ids a b ts,
  0 < iv -> 0 <= ts -> ids <> [] -> Z.of_nat (length ids) <= index_nil ->
  is_block_valid id_eqb iv ids a ts = true ->
  is_block_valid id_eqb iv ids b ts = true -> a = b.
Proof. exact @two_valid_same_producer. Qed.
Print Assumptions C09_two_valid_same_producer.

(** A key outside the current producer set never yields a valid block. *)
Theorem C09_non_member_never_valid :
  forall (ID : Type) (id_eqb : ID -> ID -> bool),
  (forall a b, id_eqb a b = true <-> a = b) ->
  forall iv ids x ts,
  0 < iv -> 0 <= ts -> ids <> [] -> Z.of_nat (length ids) <= index_nil ->
  ~ In x ids -> is_block_valid id_eqb iv ids x ts = false.
Proof. exact @non_member_never_valid. Qed.
Print Assumptions C09_non_member_never_valid.

(** A timestamp two or more intervals ahead of the local clock is rejected as future,
    and only timestamps more than one interval ahead are. *)
Theorem C09_future_rejected : forall iv ts now,
  0 < iv -> 0 <= now -> now + 2 * iv <= ts ->
  is_future (from_unix_ns iv (ts * 1000000)) (from_unix_ns iv (now * 1000000)) = true.
Proof. exact future_rejected. Qed.
Print Assumptions C09_future_rejected.

Theorem C09_future_is_ahead : forall iv ts now,
  0 < iv -> 0 <= now -> 0 <= ts ->
  is_future (from_unix_ns iv ts) (from_unix_ns iv now) = true ->
  ns_to_ms now + iv < ns_to_ms ts.
Proof. exact future_is_ahead. Qed.
Print Assumptions C09_future_is_ahead.

(** Acceptance = member owning the slot /\ signature ok /\ not future. *)
Theorem C09_accept_iff :
  forall (ID : Type) (id_eqb : ID -> ID -> bool) iv ids (x : ID) sig_ok ts now,
  accept id_eqb iv ids x sig_ok ts now = true <->
  is_block_valid id_eqb iv ids x ts = true /\ sig_ok = true /\
  is_future (from_unix_ns iv ts) (from_unix_ns iv now) = false.
Proof. exact @accept_iff. Qed.
Print Assumptions C09_accept_iff.

(** "its signature verifies over its complete header": the byte string that is signed
    (bytesForDigest) changes whenever any single header field other than Sign changes, and
    does not depend on Sign (byte-level codec model of types/blockchain.go, tied to the
    source by the field-list translator of C19). *)
From Coq Require Import String.
From Verif Require Import Common.Bytes Codec.Fields Codec.Digest Codec.DigestProofs.
Open Scope string_scope.

Theorem C09_sign_digest_covers_all_but_sign : forall f h1 h2,
  In f header_struct_fields -> f <> "Sign" -> header_wf h1 -> header_wf h2 ->
  agree_except header hget f h1 h2 -> hget f h1 <> hget f h2 ->
  sign_digest_input h1 <> sign_digest_input h2.
Proof. exact sign_digest_covers_all_but_sign. Qed.
Print Assumptions C09_sign_digest_covers_all_but_sign.

Theorem C09_sign_input_omits_only_sign :
  (forall h1 h2, agree_except header hget "Sign" h1 h2 -> sign_digest_input h1 = sign_digest_input h2) /\
  (forall f, In f header_struct_fields -> f <> "Sign" -> In f header_sign_fields).
Proof. exact sign_input_omits_only_sign. Qed.
Print Assumptions C09_sign_input_omits_only_sign.

(** "that key belongs to a CURRENT block producer": the producer set a node validates
    with is determined by its main chain (election snapshots, coq/Dpos/Election.v, tied
    to bp/cluster.go by C08's election engine).  Partial: for a BPCOUNT that does not
    change (known finding C08:bp-snapshot-bpcount-from-memory otherwise). *)
From Verif Require Import Dpos.Election Dpos.ElectionProofs Dpos.ElectionMemProofs.
Theorem C09_same_chain_same_producers_partial : forall rank n0 gen nd1 nd2,
  mreachable rank n0 gen nd1 -> mreachable rank n0 gen nd2 ->
  mn_main nd1 = mn_main nd2 -> m_cluster nd1 = m_cluster nd2.
Proof. exact same_chain_same_producers_partial. Qed.
Print Assumptions C09_same_chain_same_producers_partial.

(** "A block is ACCEPTED only if ...": the acceptance pipeline of the chain service
    (coq/Dpos/Accept.v mirrors chain/chainhandle.go addBlock / addBlockInternal /
    chainProcessor / resolveOrphan, chain/orphanpool.go, chain/reorg.go in the order the code
    performs the checks; tied to the real ChainService by harness/engines/c09chain).  For EVERY
    sequence of arrivals (any order, duplicates, children before parents, forged twins): a block
    of the main chain has a verifying signature, was not two or more slots ahead of the clock at
    one of its arrivals, and its signer owns the slot of its timestamp in the producer set in
    force after a block that is the genesis block or was itself vetted.  Covered set: the MAIN
    CHAIN of every reachable state (so also every side branch at the moment the node reorganises
    to it: the theorem holds in the state after the reorganisation).  Blocks merely stored on a
    side branch, and parked orphans, satisfy the signature and clock clauses only
    (C09_stored_blocks_vetted, C09_parked_blocks_vetted): the code runs IsBlockValid when a block
    is connected to the main chain (executeBlock), not when it is stored. *)
From Verif Require Import Dpos.Accept Dpos.AcceptProofs.
Close Scope string_scope.

Theorem C09_accepted_blocks_legitimate : forall iv cluster_of cap genesis f42 evs b,
  In b (n_main (run iv cluster_of cap genesis f42 evs (init genesis))) -> b <> genesis ->
  vetted iv evs b /\
  exists ub, (ub = genesis \/ vetted iv evs ub) /\
             is_block_valid Z.eqb iv (cluster_of (b_id ub)) (b_signer b) (b_ts b) = true.
Proof. exact accepted_blocks_legitimate. Qed.
Print Assumptions C09_accepted_blocks_legitimate.

Theorem C09_accepted_signer_owns_slot : forall iv cluster_of cap genesis f42 evs b,
  0 < iv -> (forall u, cluster_of u <> [] /\ Z.of_nat (List.length (cluster_of u)) <= index_nil) ->
  In b (n_main (run iv cluster_of cap genesis f42 evs (init genesis))) -> b <> genesis -> 0 <= b_ts b ->
  exists ub, (ub = genesis \/ vetted iv evs ub) /\
    let ids := cluster_of (b_id ub) in
    nth_error ids (Z.to_nat (Z.rem (next_index iv (ns_to_ms (b_ts b))) (Z.of_nat (List.length ids)))) = Some (b_signer b)
    /\ In (b_signer b) ids.
Proof. exact accepted_signer_owns_slot. Qed.
Print Assumptions C09_accepted_signer_owns_slot.

Theorem C09_stored_blocks_vetted : forall iv cluster_of cap genesis f42 evs b,
  In b (n_store (run iv cluster_of cap genesis f42 evs (init genesis))) -> b <> genesis -> vetted iv evs b.
Proof. exact stored_blocks_vetted. Qed.
Print Assumptions C09_stored_blocks_vetted.

Theorem C09_parked_blocks_vetted : forall iv cluster_of cap genesis f42 evs b,
  In b (n_orph (run iv cluster_of cap genesis f42 evs (init genesis))) -> vetted iv evs b.
Proof. exact parked_blocks_vetted. Qed.
Print Assumptions C09_parked_blocks_vetted.

(** "... belongs to a CURRENT block producer", at the chain-service level: every main-chain
    block is validated against the producer set in force after its own parent, for every
    history.  f42 is the source flag "reorg() puts the consensus back on the best block when
    rollforward fails" (true for /repo since commit 05cfcb8b, detected from chain/reorg.go on
    every run by lib/c09chain.py:f42_fixed and passed to the model); the theorem is stated for
    the code as it is.  For the code without that repair the statement is refuted (witness
    below, former finding F42; the corpus scenario stale-set-after-failed-reorg keeps it as a
    regression case: with the flag false the check would report
    C09:producer-set-stale-after-failed-reorg). *)
Theorem C09_connected_validated_against_parent :
  forall iv cluster_of cap genesis evs pre b p post,
  n_main (run iv cluster_of cap genesis true evs (init genesis)) = pre ++ b :: p :: post ->
  b_parent b = b_id p /\
  is_block_valid Z.eqb iv (cluster_of (b_id p)) (b_signer b) (b_ts b) = true.
Proof. exact connected_validated_against_parent. Qed.
Print Assumptions C09_connected_validated_against_parent.

Theorem C09_connected_validated_against_parent_refuted :
  exists iv cluster_of cap genesis evs pre b p post,
    n_main (run iv cluster_of cap genesis false evs (init genesis)) = pre ++ b :: p :: post /\
    b_parent b = b_id p /\
    is_block_valid Z.eqb iv (cluster_of (b_id p)) (b_signer b) (b_ts b) = false /\
    ~ In (b_signer b) (cluster_of (b_id p)).
Proof. exact connected_validated_against_parent_refuted. Qed.
Print Assumptions C09_connected_validated_against_parent_refuted.

(** Other consensus types anchored by C09 (the property is written for DPoS slots): raftv2's
    consensus-level checks enforce the signature clause only; its membership / slot / clock
    clauses and every clause for sbp are refuted of those functions (partial / not applicable:
    raft gets producer legitimacy from the raft log, sbp is the single-producer development mode).
    Tied to the real BlockFactory / SimpleBlockFactory methods by harness/engines/c09chain/
    zz_verif_c09{raft,sbp}_engine_test.go. *)
Theorem C09_raft_accepts_iff_signature_and_key : forall key_parses sig_ok,
  checks_accept (raft_checks key_parses sig_ok) = true <-> sig_ok = true /\ key_parses = true.
Proof. exact raft_accepts_iff_signature_and_key. Qed.
Print Assumptions C09_raft_accepts_iff_signature_and_key.

Theorem C09_raft_producer_slot_clock_clauses_refuted :
  exists iv ids signer ts now,
    is_block_valid Z.eqb iv ids signer ts = false /\ ~ In signer ids /\
    is_future (from_unix_ns iv ts) (from_unix_ns iv now) = true /\
    checks_accept (raft_checks true true) = true.
Proof. exact raft_producer_slot_clock_clauses_refuted. Qed.
Print Assumptions C09_raft_producer_slot_clock_clauses_refuted.

Theorem C09_sbp_all_clauses_refuted : checks_accept (sbp_checks false false) = true.
Proof. exact sbp_all_clauses_refuted. Qed.
Print Assumptions C09_sbp_all_clauses_refuted.

(** Readable corollaries of the invariant: a block whose signature does not verify, or that
    has only ever arrived two or more slots ahead of the clock, is never connected, stored or
    parked; such an arrival (or one with a foreign chain id) leaves the node untouched, so the
    block is accepted when it comes again in time. *)
Theorem C09_forged_block_never_kept : forall iv cluster_of cap genesis f42 evs b,
  b_sig b = false -> b <> genesis ->
  let s := run iv cluster_of cap genesis f42 evs (init genesis) in
  ~ In b (n_main s) /\ ~ In b (n_store s) /\ ~ In b (n_orph s).
Proof. exact forged_block_never_kept. Qed.
Print Assumptions C09_forged_block_never_kept.

Theorem C09_always_future_block_never_kept : forall iv cluster_of cap genesis f42 evs b,
  (forall now, In (Arrive b now) evs -> is_future (from_unix_ns iv (b_ts b)) (from_unix_ns iv now) = true) ->
  b <> genesis ->
  let s := run iv cluster_of cap genesis f42 evs (init genesis) in
  ~ In b (n_main s) /\ ~ In b (n_store s) /\ ~ In b (n_orph s).
Proof. exact always_future_block_never_kept. Qed.
Print Assumptions C09_always_future_block_never_kept.

Theorem C09_future_arrival_leaves_node_unchanged : forall iv cluster_of cap genesis f42 s b now,
  is_future (from_unix_ns iv (b_ts b)) (from_unix_ns iv now) = true \/ b_cid b = false ->
  fst (fst (arrive iv cluster_of cap genesis f42 s b now)) = s.
Proof. exact future_arrival_leaves_node_unchanged. Qed.
Print Assumptions C09_future_arrival_leaves_node_unchanged.

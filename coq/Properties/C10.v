(** C10  State trie: content-addressed, history-independent, persistent key-value map.
    Only statements, each closed by [exact] of a lemma proved in coq/Trie/, followed by
    [Print Assumptions].  Model: coq/Trie/Model.v (mirrors pkg/trie/trie.go after the F1
    repair); hash layer parametric in the hash function [H]. *)
From Coq Require Import List Bool Arith NArith.
From Verif Require Import Trie.Proof Trie.BatchModel Trie.BatchBasics Trie.BatchSerial Trie.BatchRep
  Trie.BatchRefine1 Trie.BatchRefine3 Trie.BatchRefine4 Trie.BatchRefine5.
From Verif Require Import Trie.Model Trie.Basics Trie.Masc Trie.GetUpdate Trie.Canon Trie.History Trie.HashBind
  Trie.Store Trie.StoreProofs Trie.F1 Trie.ProofComplete Trie.RevertModel Trie.RevertProofs Trie.StateDBModel.
Import ListNotations.

(** Map semantics of one Update: Get of any key returns the batch's value for it (None for
    DefaultLeaf) and the old value otherwise.  Every height, every strictly sorted batch. *)
Theorem C10_get_after_update :
  forall (val : Type) h (t : tree val) (b : batch val) k,
  wf h t -> keys_len h b -> sorted b -> b <> [] -> length k = h ->
  get (trie_update h t b) k = override b (get t) k.
Proof. exact @get_update. Qed.
Print Assumptions C10_get_after_update.

(** Map semantics over a whole history of batches starting from the empty trie: reading a
    key returns the value last written, or nothing if it was deleted or never written. *)
Theorem C10_get_after_history :
  forall (val : Type) h (bs : list (batch val)) k,
  Forall (good_batch h) bs -> length k = h -> get (run h bs) k = map_of bs k.
Proof. exact @get_after_history. Qed.
Print Assumptions C10_get_after_history.

(** update_canon: Update returns THE canonical well-formed tree holding the overridden
    contents (canonical = every leaf sits at the highest subtree containing only it). *)
Theorem C10_update_canon :
  forall (val : Type) h (t : tree val) (b : batch val) t',
  wf h t -> canon t -> good_batch h b ->
  wf h t' -> canon t' -> (forall k, length k = h -> get t' k = override b (get t) k) ->
  trie_update h t b = t'.
Proof. exact @update_characterised. Qed.
Print Assumptions C10_update_canon.

(** Canonical shape and well-formedness are preserved, with the [deleted]-flag invariant
    that makes maybeMoveUpShortcut sufficient. *)
Theorem C10_update_invariant :
  forall (val : Type) h (t : tree val) (b : batch val),
  wf h t -> canon t -> keys_len h b -> sorted b -> b <> [] -> res_ok h t b (update h t b).
Proof. exact @update_inv. Qed.
Print Assumptions C10_update_invariant.

(** Canonical trees are determined by their contents. *)
Theorem C10_canon_unique :
  forall (val : Type) h (t1 t2 : tree val),
  wf h t1 -> wf h t2 -> canon t1 -> canon t2 ->
  (forall k, length k = h -> get t1 k = get t2 k) -> t1 = t2.
Proof. exact @canon_unique. Qed.
Print Assumptions C10_canon_unique.

(** History independence: two histories (any batching, order, interleaved deletions) that
    result in the same map give the same tree ... *)
Theorem C10_history_independent :
  forall (val : Type) h (bs1 bs2 : list (batch val)),
  Forall (good_batch h) bs1 -> Forall (good_batch h) bs2 ->
  (forall k, length k = h -> map_of bs1 k = map_of bs2 k) ->
  run h bs1 = run h bs2.
Proof. exact @history_independent. Qed.
Print Assumptions C10_history_independent.

(** ... and therefore the same root, for every hash function (no collision caveat). *)
Theorem C10_root_history_independent :
  forall (H : bytes -> bytes) h (bs1 bs2 : list (batch bytes)),
  Forall (good_batch h) bs1 -> Forall (good_batch h) bs2 ->
  (forall k, length k = h -> map_of bs1 k = map_of bs2 k) ->
  root H h (run h bs1) = root H h (run h bs2).
Proof. exact root_history_independent. Qed.
Print Assumptions C10_root_history_independent.

(** Deleting absent keys changes nothing. *)
Theorem C10_delete_absent_id :
  forall (val : Type) h (t : tree val) (b : batch val),
  wf h t -> canon t -> good_batch h b ->
  (forall k ov, In (k, ov) b -> ov = None /\ get t k = None) ->
  trie_update h t b = t.
Proof. exact @delete_absent_id. Qed.
Print Assumptions C10_delete_absent_id.

(** Root binding: equal roots of well-formed 256-bit tries with 32-byte values mean equal
    trees, unless the hash function is broken (collision, or a DefaultLeaf shift pair
    H x = 0::z, H y = z++[0] — see HashBind.v). *)
Theorem C10_root_binding :
  forall (H : bytes -> bytes), (forall x, length (H x) = 32) ->
  forall t1 t2 : tree bytes,
  wf 256 t1 -> wf 256 t2 -> vals32 t1 -> vals32 t2 ->
  root H 256 t1 = root H 256 t2 -> t1 = t2 \/ hash_break H.
Proof. exact root_binding. Qed.
Print Assumptions C10_root_binding.

(** The literal maybeAddShortcutToKV loop (after the F1 repair) is the abstract merge of
    the shortcut pair into the batch, on every strictly sorted non-empty batch. *)
Theorem C10_maybe_add_shortcut_literal :
  forall (val : Type) sk (sv : val) (b : batch val),
  sorted b -> b <> [] -> masc sk sv b = add_shortcut sk sv b.
Proof. exact @masc_spec. Qed.
Print Assumptions C10_maybe_add_shortcut_literal.

(** splitKeys (cut at the first key with the branch bit set) partitions a sorted batch. *)
Theorem C10_split_keys_partition :
  forall (val : Type) (b : batch val),
  sorted b -> split_keys b = (filter (bit_is false) b, filter (bit_is true) b).
Proof. exact @split_keys_sorted. Qed.
Print Assumptions C10_split_keys_partition.

(** ---- persistence (Store.v: content-addressed node store that only grows; the 4-level
    batch serialisation is abstracted) ---- *)

(** commit_monotone: entries already in the store are not changed by later commits. *)
Theorem C10_commit_monotone :
  forall (s s' : store) x n, lookup s x = Some n -> lookup (s ++ s') x = Some n.
Proof. exact commit_monotone. Qed.
Print Assumptions C10_commit_monotone.

(** old_root_readable: a root that opens to a tree keeps opening to the same tree after any
    further commits (every H; no collision caveat needed). *)
Theorem C10_old_root_readable :
  forall (s s' : store) x t, open_root s x = Some t -> open_root (s ++ s') x = Some t.
Proof. exact old_root_readable_open. Qed.
Print Assumptions C10_old_root_readable.

(** Commit keeps the store content-addressed. *)
Theorem C10_commit_keeps_store_ok :
  forall (H : bytes -> bytes) s t,
  store_ok H s -> wf 256 t -> vals32 t -> store_ok H (commit H s t).
Proof. exact commit_ok. Qed.
Print Assumptions C10_commit_keeps_store_ok.

(** reopen_equal: after Commit (and after any later growth of a content-addressed store) a
    fresh instance opened at the committed root holds exactly the committed tree, unless H
    is broken. *)
Theorem C10_reopen_equal :
  forall (H : bytes -> bytes), (forall x, length (H x) = 32) ->
  forall s s' t, store_ok H s -> wf 256 t -> vals32 t -> store_ok H (commit H s t ++ s') ->
  open_root (commit H s t ++ s') (root H 256 t) = Some t \/ hash_break H.
Proof. exact reopen_after_commit. Qed.
Print Assumptions C10_reopen_equal.

(** F1, for the record (repaired in /repo): the loop without the [break] is not the abstract
    merge — for the shortcut key s and the sorted batch [a; s := DefaultLeaf; b] it returns
    the keys [a; b; a; s; s; b]; the repaired loop and the abstract merge return [a; b]. *)
Theorem C10_f1_unrepaired_loop_refuted :
  let a := [false; true] in let s := [true; false] in let b := [true; true] in
  let batch : batch nat := [(a, Some 1); (s, None); (b, Some 3)] in
  sorted batch /\
  masc_old s 7 batch = [(a, Some 1); (b, Some 3); (a, Some 1); (s, None); (s, Some 7); (b, Some 3)] /\
  masc s 7 batch = [(a, Some 1); (b, Some 3)] /\
  add_shortcut s 7 batch = [(a, Some 1); (b, Some 3)].
Proof. exact f1_witness. Qed.
Print Assumptions C10_f1_unrepaired_loop_refuted.

(** ---- the 4-level batch storage layer (BatchModel.v: the 31-slot arrays, loadChildren,
    leafHash / interiorHash / moveUpShortcut writing into the batch, storeNode /
    deleteOldNode on updatedNodes, parseBatch / serializeBatch), literally ---- *)

(** parseBatch (serializeBatch b) = b on well-formed batches. *)
Theorem C10_batch_parse_serialize :
  forall b, batch_wf b -> parse_batch (serialize_batch b) = b.
Proof. exact parse_serialize. Qed.
Print Assumptions C10_batch_parse_serialize.

(** REFINEMENT.  For every height, path, content-addressed store ([inv_st]) and caller batch
    in which node i represents the tree t with nothing stale below it ([lrep]), the
    batch-level update (if it returns without a load error) returns the encoding of the
    tree-level [update h t kvs] and the same [deleted] flag, leaves the caller's batch
    representing the new subtree with nothing stale below node i and NOTHING touched outside
    the slots below node i, and keeps the store content-addressed — unless H is broken. *)
Theorem C10_batch_update_refines :
  forall (H : bytes -> bytes), (forall x, length (H x) = 32) ->
  forall (atomic : bool) (climit h : nat), rec_ok H climit h (bupdate H atomic climit h).
Proof. exact bupdate_ok. Qed.
Print Assumptions C10_batch_update_refines.

(** Trie.Update on the batch store: the new root is the root of the updated tree. *)
Theorem C10_trie_update_b_refines :
  forall (H : bytes -> bytes), (forall x, length (H x) = 32) ->
  forall (atomic : bool) (climit : nat) st rt kvs t st' rt',
  inv_st H climit st -> wf 256 t -> vals32 t -> canon t -> good 256 kvs ->
  rt = root H 256 t ->
  trie_update_b H atomic climit st rt kvs = Some (st', rt') ->
  (rt' = root H 256 (trie_update 256 t kvs) /\ inv_st H climit st') \/ hash_break H.
Proof. exact trie_update_b_refines. Qed.
Print Assumptions C10_trie_update_b_refines.

(** abs_batch_store is sound: whatever tree is read back from a content-addressed store at
    the root of t is t (if a needed batch is missing the read fails: F21 class). *)
Theorem C10_abs_batch_store_sound :
  forall (H : bytes -> bytes), (forall x, length (H x) = 32) ->
  forall (climit : nat) st t t'',
  inv_st H climit st -> wf 256 t -> vals32 t ->
  abs_batch_store st (root H 256 t) = Some t'' -> t'' = t \/ hash_break H.
Proof. exact abs_batch_store_sound. Qed.
Print Assumptions C10_abs_batch_store_sound.

(** Commit (serialise every updated batch into the key-value store) keeps the store
    content-addressed: uses the parse/serialize round trip on canonical batches. *)
Theorem C10_commit_keeps_store_canonical :
  forall (H : bytes -> bytes), (forall x, length (H x) = 32) ->
  forall (climit : nat) st, inv_st H climit st -> inv_st H climit (commit_store st).
Proof. exact commit_keeps_inv. Qed.
Print Assumptions C10_commit_keeps_store_canonical.

(** liveCache (CacheHeightLimit = climit, any value; the node never sets it: TrieHeight+1 = no
    cache).  [inv_st] contains [cache_canonical]: every liveCache entry is the canonical batch
    of a tree position at or above the limit with that hash; C10_batch_update_refines /
    C10_trie_update_b_refines state that Update preserves it, including the in-place mutation
    of a batch obtained from the cache ([alias_back]): storeNode and deleteOldNode use the SAME
    test (height >= limit), so the replaced entry is always evicted.  Hence reads through the
    cache equal reads without it: *)
Theorem C10_cache_read_transparent :
  forall (H : bytes -> bytes), (forall x, length (H x) = 32) ->
  forall (climit : nat) st t a b,
  inv_st H climit st -> wf 256 t -> vals32 t ->
  abs_batch_store st (root H 256 t) = Some a ->
  abs_batch_store (drop_cache st) (root H 256 t) = Some b ->
  (a = t /\ b = t) \/ hash_break H.
Proof. exact cache_read_transparent. Qed.
Print Assumptions C10_cache_read_transparent.

(** Two batch roots at different heights (other than the byte(256) == byte(0) pair) never share
    a hash: what keeps a batch below the cache limit from hitting the cache. *)
Theorem C10_height_clash_breaks_hash :
  forall (H : bytes -> bytes), (forall x, length (H x) = 32) ->
  forall t h rp t2 h2 rp2,
  h < h2 -> h2 <= 256 -> ~ (h = 0 /\ h2 = 256) ->
  length rp + h = 256 -> length rp2 + h2 = 256 -> wf h t -> wf h2 t2 -> vals32 t -> vals32 t2 ->
  1 <= size t -> th H h rp t = th H h2 rp2 t2 -> hash_break H.
Proof. exact height_clash_break. Qed.
Print Assumptions C10_height_clash_breaks_hash.

(** Parallel subtree updates: the slots below the two children of a node are disjoint and
    neither child slot lies below the other (with the frame clause of the refinement theorem:
    a child call touches only the slots strictly below its own slot), so the two goroutines
    of updateParallel never write, nor read, a common batch slot. *)
Theorem C10_parallel_children_disjoint :
  forall i j, i <= 14 -> j <= 30 ->
  (underb (2 * i + 1) j && underb (2 * i + 2) j = false) /\
  underb (2 * i + 1) (2 * i + 2) = false /\ underb (2 * i + 2) (2 * i + 1) = false /\
  underb (2 * i + 1) (2 * i + 1) = false /\ underb (2 * i + 2) (2 * i + 2) = false /\
  underb i i = false /\ (underb i j = true -> i < j).
Proof. exact under_facts. Qed.
Print Assumptions C10_parallel_children_disjoint.

(** ---- Revert (trie_revert.go; not called by the node) ---- *)

(** Every key Revert deletes is the key of a batch root of a LATER past trie ... *)
Theorem C10_revert_deletes_only_later_batch_roots :
  forall (H : bytes -> bytes) h rp o d x, In x (mds H h rp o d) -> In x (all_roots H h rp d).
Proof. exact mds_subset_all_roots. Qed.
Print Assumptions C10_revert_deletes_only_later_batch_roots.

(** ... and a later trie identical to the target contributes nothing. *)
Theorem C10_revert_same_noop :
  forall (H : bytes -> bytes) h rp t, mds H h rp t t = [].
Proof. exact mds_same. Qed.
Print Assumptions C10_revert_same_noop.

(** revert_keeps_other_roots_readable is FALSE (F26): history A -> B -> A, Revert(B) deletes the
    batch that the older past root A consists of. *)
Theorem C10_revert_keeps_other_roots_readable_refuted :
  rv_A <> rv_B /\ In (root ex_H 256 rv_A) (revert_dels ex_H rv_B [rv_A]).
Proof. exact revert_older_root_lost. Qed.
Print Assumptions C10_revert_keeps_other_roots_readable_refuted.

(** revert_restores_past_root is FALSE in the byte(256) == byte(0) aliasing case (F27): the
    deleted key of the later root shortcut is the key of the target's own height-0 leaf. *)
Theorem C10_revert_restores_past_root_refuted :
  get rv_target rv_a = Some (ex_v 1) /\ get rv_target rv_b = Some (ex_v 2) /\ wf 256 rv_target /\
  In (th ex_H 0 (repeat false 256) (Lf [] (ex_v 1))) (revert_dels ex_H rv_target [rv_later]) /\
  In (th ex_H 0 (repeat false 256) (Lf [] (ex_v 1))) (all_roots ex_H 256 [] rv_target).
Proof. exact revert_target_lost_alias. Qed.
Print Assumptions C10_revert_restores_past_root_refuted.

(** ---- statedb level (state/statedb): account trie over per-contract storage tries ---- *)

(** The invariant of the two-level state (every account leaf is the hash of the stored state,
    and the StorageRoot field of that state is the root of the contract's storage trie) holds
    for the empty state, and is kept by every staged contract / account of a block. *)
Theorem C10_statedb_invariant_empty :
  forall (H : bytes -> bytes) (acct : Type) (marshal sroot : acct -> bytes),
  sdb_ok H marshal sroot (@empty_sdb acct).
Proof. exact empty_ok. Qed.
Print Assumptions C10_statedb_invariant_empty.

Theorem C10_statedb_invariant_kept :
  forall (H : bytes -> bytes) (acct : Type) (marshal sroot : acct -> bytes) (set_sroot : acct -> bytes -> acct),
  (forall a r, sroot (set_sroot a r) = r) ->
  forall s ka st ws, sdb_ok H marshal sroot s -> length ka = 256 -> ws_ok ws ->
    sdb_ok H marshal sroot (stage_contract H marshal set_sroot s ka st ws).
Proof. exact stage_keeps_ok. Qed.
Print Assumptions C10_statedb_invariant_kept.

(** storage_root_handover: after a block staged storage writes [ws] of contract [ka], the
    account leaf of [ka] is the hash of a state with the same payload whose StorageRoot is the
    root of the UPDATED storage trie, and reading a variable through that leaf returns the
    overridden contents (map semantics per contract at the new state root). *)
Theorem C10_storage_root_handover :
  forall (H : bytes -> bytes) (acct pl : Type) (marshal sroot : acct -> bytes) (payload : acct -> pl)
    (set_sroot : acct -> bytes -> acct),
  (forall a r, sroot (set_sroot a r) = r) -> (forall a r, payload (set_sroot a r) = payload a) ->
  forall s ka st ws, sdb_ok H marshal sroot s -> length ka = 256 -> ws_ok ws ->
  exists st', table (stage_contract H marshal set_sroot s ka st ws) ka = Some st' /\ payload st' = payload st /\
    sroot st' = root H 256 (stor (stage_contract H marshal set_sroot s ka st ws) ka) /\
    get (accs (stage_contract H marshal set_sroot s ka st ws)) ka = Some (leaf_of H marshal st') /\
    forall kv, length kv = 256 ->
      read_var (stage_contract H marshal set_sroot s ka st ws) ka kv = override ws (get (stor s ka)) kv.
Proof. exact storage_root_handover. Qed.
Print Assumptions C10_storage_root_handover.

(** A block that deletes the LAST keys of a contract hands over the EMPTY storage root: the
    storage trie is the empty tree and the account's StorageRoot is empty. *)
Theorem C10_emptied_storage_empty_root :
  forall (H : bytes -> bytes) (acct : Type) (marshal sroot : acct -> bytes) (set_sroot : acct -> bytes -> acct),
  (forall a r, sroot (set_sroot a r) = r) ->
  forall s ka st ws, sdb_ok H marshal sroot s -> length ka = 256 -> ws_ok ws ->
  (forall kv, length kv = 256 -> override ws (get (stor s ka)) kv = None) ->
  stor (stage_contract H marshal set_sroot s ka st ws) ka = E /\
  exists st', table (stage_contract H marshal set_sroot s ka st ws) ka = Some st' /\ sroot st' = [].
Proof. exact emptied_storage_empty_root. Qed.
Print Assumptions C10_emptied_storage_empty_root.

(** History independence at the state level: two states satisfying the invariant, whatever
    blocks produced them, with the same account payloads and the same storage contents have
    the same account trie, hence the same state root. *)
Theorem C10_state_root_determined_by_contents :
  forall (H : bytes -> bytes) (acct pl : Type) (marshal sroot : acct -> bytes) (payload : acct -> pl),
  (forall a b, payload a = payload b -> sroot a = sroot b -> a = b) ->
  forall s1 s2, sdb_ok H marshal sroot s1 -> sdb_ok H marshal sroot s2 ->
  (forall ka, length ka = 256 -> option_map payload (table s1 ka) = option_map payload (table s2 ka)) ->
  (forall ka kv, length ka = 256 -> length kv = 256 -> table s1 ka <> None ->
     get (stor s1 ka) kv = get (stor s2 ka) kv) ->
  accs s1 = accs s2 /\ root H 256 (accs s1) = root H 256 (accs s2).
Proof. exact state_root_determined_by_contents. Qed.
Print Assumptions C10_state_root_determined_by_contents.

(** C10  State trie: content-addressed, history-independent, persistent key-value map.
    Only statements, each closed by [exact] of a lemma proved in coq/Trie/, followed by
    [Print Assumptions].  Model: coq/Trie/Model.v (mirrors pkg/trie/trie.go after the F1
    repair). *)
From Coq Require Import List Bool Arith NArith.
From Verif Require Import Trie.Model Trie.Basics Trie.Masc Trie.GetUpdate.
Import ListNotations.

(** Map semantics: after Update with a strictly sorted non-empty batch, Get of any key
    returns the batch's value for it (None for DefaultLeaf) and the old value otherwise. *)
Theorem C10_get_after_update :
  forall (val : Type) h (t : tree val) (b : batch val) k,
  wf h t -> keys_len h b -> sorted b -> b <> [] -> length k = h ->
  get (trie_update h t b) k = override b (get t) k.
Proof. exact @get_update. Qed.
Print Assumptions C10_get_after_update.

(** The literal maybeAddShortcutToKV loop (after the F1 repair) is the abstract merge of
    the shortcut pair into the batch, on every strictly sorted non-empty batch. *)
Theorem C10_maybe_add_shortcut_literal :
  forall (val : Type) sk (sv : val) (b : batch val),
  sorted b -> b <> [] -> masc sk sv b = add_shortcut sk sv b.
Proof. exact @masc_spec. Qed.
Print Assumptions C10_maybe_add_shortcut_literal.

(** splitKeys (cut at the first key with the branch bit set) partitions a sorted batch. *)
Theorem C10_split_keys_partition :
  forall (val : Type) (b : batch val),
  sorted b -> split_keys b = (filter (bit_is false) b, filter (bit_is true) b).
Proof. exact @split_keys_sorted. Qed.
Print Assumptions C10_split_keys_partition.

(** C10  State trie: content-addressed, history-independent, persistent key-value map.
    Only statements, each closed by [exact] of a lemma proved in coq/Trie/, followed by
    [Print Assumptions].  Model: coq/Trie/Model.v (mirrors pkg/trie/trie.go after the F1
    repair); hash layer parametric in the hash function [H]. *)
From Coq Require Import List Bool Arith NArith.
From Verif Require Import Trie.Model Trie.Basics Trie.Masc Trie.GetUpdate Trie.Canon Trie.History Trie.HashBind
  Trie.Store Trie.StoreProofs Trie.F1.
Import ListNotations.

(** Map semantics of one Update: Get of any key returns the batch's value for it (None for
    DefaultLeaf) and the old value otherwise.  Every height, every strictly sorted batch. *)
Theorem C10_get_after_update :
  forall (val : Type) h (t : tree val) (b : batch val) k,
  wf h t -> keys_len h b -> sorted b -> b <> [] -> length k = h ->
  get (trie_update h t b) k = override b (get t) k.
Proof. exact @get_update. Qed.
Print Assumptions C10_get_after_update.

(** Map semantics over a whole history of batches starting from the empty trie: reading a
    key returns the value last written, or nothing if it was deleted or never written. *)
Theorem C10_get_after_history :
  forall (val : Type) h (bs : list (batch val)) k,
  Forall (good_batch h) bs -> length k = h -> get (run h bs) k = map_of bs k.
Proof. exact @get_after_history. Qed.
Print Assumptions C10_get_after_history.

(** update_canon: Update returns THE canonical well-formed tree holding the overridden
    contents (canonical = every leaf sits at the highest subtree containing only it). *)
Theorem C10_update_canon :
  forall (val : Type) h (t : tree val) (b : batch val) t',
  wf h t -> canon t -> good_batch h b ->
  wf h t' -> canon t' -> (forall k, length k = h -> get t' k = override b (get t) k) ->
  trie_update h t b = t'.
Proof. exact @update_characterised. Qed.
Print Assumptions C10_update_canon.

(** Canonical shape and well-formedness are preserved, with the [deleted]-flag invariant
    that makes maybeMoveUpShortcut sufficient. *)
Theorem C10_update_invariant :
  forall (val : Type) h (t : tree val) (b : batch val),
  wf h t -> canon t -> keys_len h b -> sorted b -> b <> [] -> res_ok h t b (update h t b).
Proof. exact @update_inv. Qed.
Print Assumptions C10_update_invariant.

(** Canonical trees are determined by their contents. *)
Theorem C10_canon_unique :
  forall (val : Type) h (t1 t2 : tree val),
  wf h t1 -> wf h t2 -> canon t1 -> canon t2 ->
  (forall k, length k = h -> get t1 k = get t2 k) -> t1 = t2.
Proof. exact @canon_unique. Qed.
Print Assumptions C10_canon_unique.

(** History independence: two histories (any batching, order, interleaved deletions) that
    result in the same map give the same tree ... *)
Theorem C10_history_independent :
  forall (val : Type) h (bs1 bs2 : list (batch val)),
  Forall (good_batch h) bs1 -> Forall (good_batch h) bs2 ->
  (forall k, length k = h -> map_of bs1 k = map_of bs2 k) ->
  run h bs1 = run h bs2.
Proof. exact @history_independent. Qed.
Print Assumptions C10_history_independent.

(** ... and therefore the same root, for every hash function (no collision caveat). *)
Theorem C10_root_history_independent :
  forall (H : bytes -> bytes) h (bs1 bs2 : list (batch bytes)),
  Forall (good_batch h) bs1 -> Forall (good_batch h) bs2 ->
  (forall k, length k = h -> map_of bs1 k = map_of bs2 k) ->
  root H h (run h bs1) = root H h (run h bs2).
Proof. exact root_history_independent. Qed.
Print Assumptions C10_root_history_independent.

(** Deleting absent keys changes nothing. *)
Theorem C10_delete_absent_id :
  forall (val : Type) h (t : tree val) (b : batch val),
  wf h t -> canon t -> good_batch h b ->
  (forall k ov, In (k, ov) b -> ov = None /\ get t k = None) ->
  trie_update h t b = t.
Proof. exact @delete_absent_id. Qed.
Print Assumptions C10_delete_absent_id.

(** Root binding: equal roots of well-formed 256-bit tries with 32-byte values mean equal
    trees, unless the hash function is broken (collision, or a DefaultLeaf shift pair
    H x = 0::z, H y = z++[0] — see HashBind.v). *)
Theorem C10_root_binding :
  forall (H : bytes -> bytes), (forall x, length (H x) = 32) ->
  forall t1 t2 : tree bytes,
  wf 256 t1 -> wf 256 t2 -> vals32 t1 -> vals32 t2 ->
  root H 256 t1 = root H 256 t2 -> t1 = t2 \/ hash_break H.
Proof. exact root_binding. Qed.
Print Assumptions C10_root_binding.

(** The literal maybeAddShortcutToKV loop (after the F1 repair) is the abstract merge of
    the shortcut pair into the batch, on every strictly sorted non-empty batch. *)
Theorem C10_maybe_add_shortcut_literal :
  forall (val : Type) sk (sv : val) (b : batch val),
  sorted b -> b <> [] -> masc sk sv b = add_shortcut sk sv b.
Proof. exact @masc_spec. Qed.
Print Assumptions C10_maybe_add_shortcut_literal.

(** splitKeys (cut at the first key with the branch bit set) partitions a sorted batch. *)
Theorem C10_split_keys_partition :
  forall (val : Type) (b : batch val),
  sorted b -> split_keys b = (filter (bit_is false) b, filter (bit_is true) b).
Proof. exact @split_keys_sorted. Qed.
Print Assumptions C10_split_keys_partition.

(** ---- persistence (Store.v: content-addressed node store that only grows; the 4-level
    batch serialisation is abstracted) ---- *)

(** commit_monotone: entries already in the store are not changed by later commits. *)
Theorem C10_commit_monotone :
  forall (s s' : store) x n, lookup s x = Some n -> lookup (s ++ s') x = Some n.
Proof. exact commit_monotone. Qed.
Print Assumptions C10_commit_monotone.

(** old_root_readable: a root that opens to a tree keeps opening to the same tree after any
    further commits (every H; no collision caveat needed). *)
Theorem C10_old_root_readable :
  forall (s s' : store) x t, open_root s x = Some t -> open_root (s ++ s') x = Some t.
Proof. exact old_root_readable_open. Qed.
Print Assumptions C10_old_root_readable.

(** Commit keeps the store content-addressed. *)
Theorem C10_commit_keeps_store_ok :
  forall (H : bytes -> bytes) s t,
  store_ok H s -> wf 256 t -> vals32 t -> store_ok H (commit H s t).
Proof. exact commit_ok. Qed.
Print Assumptions C10_commit_keeps_store_ok.

(** reopen_equal: after Commit (and after any later growth of a content-addressed store) a
    fresh instance opened at the committed root holds exactly the committed tree, unless H
    is broken. *)
Theorem C10_reopen_equal :
  forall (H : bytes -> bytes), (forall x, length (H x) = 32) ->
  forall s s' t, store_ok H s -> wf 256 t -> vals32 t -> store_ok H (commit H s t ++ s') ->
  open_root (commit H s t ++ s') (root H 256 t) = Some t \/ hash_break H.
Proof. exact reopen_after_commit. Qed.
Print Assumptions C10_reopen_equal.

(** F1, for the record (repaired in /repo): the loop without the [break] is not the abstract
    merge — for the shortcut key s and the sorted batch [a; s := DefaultLeaf; b] it returns
    the keys [a; b; a; s; s; b]; the repaired loop and the abstract merge return [a; b]. *)
Theorem C10_f1_unrepaired_loop_refuted :
  let a := [false; true] in let s := [true; false] in let b := [true; true] in
  let batch : batch nat := [(a, Some 1); (s, None); (b, Some 3)] in
  sorted batch /\
  masc_old s 7 batch = [(a, Some 1); (b, Some 3); (a, Some 1); (s, None); (s, Some 7); (b, Some 3)] /\
  masc s 7 batch = [(a, Some 1); (b, Some 3)] /\
  add_shortcut s 7 batch = [(a, Some 1); (b, Some 3)].
Proof. exact f1_witness. Qed.
Print Assumptions C10_f1_unrepaired_loop_refuted.

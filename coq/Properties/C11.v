(** C11  Merkle proofs for accounts and contract variables are sound and complete.
    Only statements, each closed by [exact] of a lemma proved in coq/Trie/, followed by
    [Print Assumptions].  Model: coq/Trie/Proof.v (mirrors pkg/trie/trie_merkle_proof.go
    after the F2 repair). *)
From Coq Require Import List Bool Arith NArith.
From Verif Require Import Trie.Model Trie.Proof Trie.ProofBasics.
Import ListNotations.

(** F2 repaired: a non-inclusion proof whose proof leaf holds the queried key is rejected,
    whatever the audit path. *)
Theorem C11_non_inclusion_rejects_own_key :
  forall (H : bytes -> bytes) root ap key value,
  key <> [] -> verify_non_inclusion H root ap key value key = false.
Proof. exact non_inclusion_rejects_own_key. Qed.
Print Assumptions C11_non_inclusion_rejects_own_key.

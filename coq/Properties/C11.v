(** C11  Merkle proofs for accounts and contract variables are sound and complete.
    Only statements, each closed by [exact] of a lemma proved in coq/Trie/, followed by
    [Print Assumptions].  Model: coq/Trie/Proof.v (mirrors pkg/trie/trie_merkle_proof.go
    after the F2 repair).  Keys are 256-bit strings [kbits]; the verifier sees their packing
    [bits_to_bytes kbits].  [hash_break H] = collision or DefaultLeaf shift pair
    (HashBind.v).  [ap_ok] = every audit node is 32 bytes or DefaultLeaf (checkable). *)
From Coq Require Import List Bool Arith NArith.
From Verif Require Import Trie.Model Trie.Basics Trie.HashBind Trie.Proof Trie.ProofLeafTest Trie.ProofBasics
  Trie.ProofSound Trie.ProofTop Trie.ProofComplete Trie.StateDBProof Trie.ChainProof.
Import ListNotations.

(** Completeness, present key: the proof merkleProof generates is accepted by VerifyInclusion
    for the stored value.  Every well-formed trie, every key. *)
Theorem C11_proof_complete_present :
  forall (H : bytes -> bytes) t kbits v mp inc pk pv,
  wf 256 t -> length kbits = 256 -> get t kbits = Some v ->
  mproof H 256 [] t kbits = (mp, inc, pk, pv) ->
  inc = true /\ pv = v /\ verify_inclusion H (root H 256 t) mp (bits_to_bytes kbits) v = true.
Proof. exact proof_complete_present. Qed.
Print Assumptions C11_proof_complete_present.

(** Completeness, absent key (empty subtree on the path: pk = []; foreign leaf on the path:
    pk = that leaf's key), every NON-EMPTY well-formed trie. *)
Theorem C11_proof_complete_absent :
  forall (H : bytes -> bytes) t kbits mp inc pk pv,
  wf 256 t -> t <> E -> length kbits = 256 -> get t kbits = None ->
  mproof H 256 [] t kbits = (mp, inc, pk, pv) ->
  inc = false /\ verify_non_inclusion H (root H 256 t) mp (bits_to_bytes kbits) pv pk = true.
Proof. exact proof_complete_absent. Qed.
Print Assumptions C11_proof_complete_absent.

(** F25 (refutation of completeness for the empty trie): the honest proof of absence
    against the nil root is rejected. *)
Theorem C11_proof_complete_absent_refuted_empty_trie :
  forall (H : bytes -> bytes) kbits,
  let '(mp, inc, pk, pv) := mproof H 256 [] E kbits in
  inc = false /\ verify_non_inclusion H (root H 256 E) mp (bits_to_bytes kbits) pv pk = false.
Proof. exact empty_trie_proof_rejected. Qed.
Print Assumptions C11_proof_complete_absent_refuted_empty_trie.

(** Compressed proofs: decompressing an honest compression gives back the audit path, so the
    compressed verifiers accept it exactly when the plain verifiers accept the plain proof. *)
Theorem C11_compress_decompress :
  forall mp, let '(bm, apc, n) := compress mp in rev (decomp bm n (rev apc)) = mp.
Proof. exact compress_decompress. Qed.
Print Assumptions C11_compress_decompress.

Theorem C11_compressed_complete :
  forall (H : bytes -> bytes) root mp key value pk,
  let '(bm, apc, n) := compress mp in
  verify_inclusion_c H root bm key value apc n = verify_inclusion H root mp key value /\
  verify_non_inclusion_c H root apc n bm key value pk = verify_non_inclusion H root mp key value pk.
Proof. exact compressed_complete. Qed.
Print Assumptions C11_compressed_complete.

(** Soundness of VerifyInclusion: an accepted (key, value) is stored with that value. *)
Theorem C11_inclusion_sound :
  forall (H : bytes -> bytes), (forall x, length (H x) = 32) ->
  forall t ap kbits value,
  wf 256 t -> vals32 t -> length kbits = 256 -> length value = 32 -> ap_ok ap ->
  verify_inclusion H (root H 256 t) ap (bits_to_bytes kbits) value = true ->
  get t kbits = Some value \/ hash_break H.
Proof. exact inclusion_sound. Qed.
Print Assumptions C11_inclusion_sound.

(** Non-transplantability: a proof (of any length, i.e. claimed height) is accepted for a
    key/value pair that the trie with that root does not hold only if H is broken.  Covers a
    different value, presence of an absent key, another key, another root, another height
    (the leaf hash includes the height byte and has a 65-byte preimage, interior nodes
    64/33). *)
Theorem C11_proof_not_transplantable :
  forall (H : bytes -> bytes), (forall x, length (H x) = 32) ->
  forall t ap kbits value,
  wf 256 t -> vals32 t -> length kbits = 256 -> length value = 32 -> ap_ok ap ->
  get t kbits <> Some value ->
  verify_inclusion H (root H 256 t) ap (bits_to_bytes kbits) value = true -> hash_break H.
Proof. exact proof_not_transplantable. Qed.
Print Assumptions C11_proof_not_transplantable.

(** Soundness of VerifyNonInclusion with a foreign proof leaf: accepted => key absent. *)
Theorem C11_non_inclusion_foreign_sound :
  forall (H : bytes -> bytes), (forall x, length (H x) = 32) ->
  forall t ap kbits pkbits value,
  wf 256 t -> vals32 t -> length kbits = 256 -> length pkbits = 256 -> length value = 32 -> ap_ok ap ->
  verify_non_inclusion H (root H 256 t) ap (bits_to_bytes kbits) value (bits_to_bytes pkbits) = true ->
  get t kbits = None \/ hash_break H.
Proof. exact non_inclusion_foreign_sound. Qed.
Print Assumptions C11_non_inclusion_foreign_sound.

(** Soundness of VerifyNonInclusion with an empty proofKey — PARTIAL: only for audit paths
    whose nodes are DefaultLeaf or hash outputs, which a verifier cannot check. *)
Theorem C11_non_inclusion_empty_sound_partial :
  forall (H : bytes -> bytes), (forall x, length (H x) = 32) ->
  forall t ap kbits value,
  wf 256 t -> vals32 t -> length kbits = 256 -> ap_hashes H ap ->
  verify_non_inclusion H (root H 256 t) ap (bits_to_bytes kbits) value [] = true ->
  get t kbits = None \/ hash_break H.
Proof. exact non_inclusion_empty_sound_partial. Qed.
Print Assumptions C11_non_inclusion_empty_sound_partial.

(** F24 (refutation of the full statement, for every H): if the hash of the right child of
    a node with an empty left side ends in a zero byte, the audit path [0 :: z] with a
    DefaultLeaf leaf is accepted as proof of absence of a key that is stored below it. *)
Theorem C11_non_inclusion_empty_sound_refuted :
  forall (H : bytes -> bytes) (r : tree bytes) z k' v value,
  length k' = 255 -> get r k' = Some v -> th H 255 [true] r = z ++ [0%N] ->
  get (Nd E r) (true :: k') = Some v /\
  verify_non_inclusion H (root H 256 (Nd E r)) [0%N :: z] (bits_to_bytes (true :: k')) value [] = true.
Proof. exact non_inclusion_forgery_present. Qed.
Print Assumptions C11_non_inclusion_empty_sound_refuted.

(** F2 repaired: a non-inclusion proof whose proof leaf holds the queried key is rejected. *)
Theorem C11_non_inclusion_rejects_own_key :
  forall (H : bytes -> bytes) root ap key value,
  key <> [] -> verify_non_inclusion H root ap key value key = false.
Proof. exact non_inclusion_rejects_own_key. Qed.
Print Assumptions C11_non_inclusion_rejects_own_key.

(** The compressed verifiers are the plain verifiers on the decompressed audit path; hence
    their soundness. *)
Theorem C11_inclusion_c_sound :
  forall (H : bytes -> bytes), (forall x, length (H x) = 32) ->
  forall t bm ap n kbits value,
  wf 256 t -> vals32 t -> length kbits = 256 -> length value = 32 ->
  ap_ok (decomp bm n (rev ap)) ->
  verify_inclusion_c H (root H 256 t) bm (bits_to_bytes kbits) value ap n = true ->
  get t kbits = Some value \/ hash_break H.
Proof. exact inclusion_c_sound. Qed.
Print Assumptions C11_inclusion_c_sound.

Theorem C11_non_inclusion_c_foreign_sound :
  forall (H : bytes -> bytes), (forall x, length (H x) = 32) ->
  forall t bm ap n kbits pkbits value,
  wf 256 t -> vals32 t -> length kbits = 256 -> length pkbits = 256 -> length value = 32 ->
  ap_ok (decomp bm n (rev ap)) ->
  verify_non_inclusion_c H (root H 256 t) ap n bm (bits_to_bytes kbits) value (bits_to_bytes pkbits) = true ->
  get t kbits = None \/ hash_break H.
Proof. exact non_inclusion_c_foreign_sound. Qed.
Print Assumptions C11_non_inclusion_c_foreign_sound.

(** ---- statedb layer: account proof + variable proof (GetAccountAndProof, GetVarAndProof) ---- *)

(** Composition: a verified account proof for state st' against the block's state root and a
    verified variable proof against st'.StorageRoot bind the variable to the state root: st'
    is the contract's real state and the storage trie holds H(val) under the variable's key.
    [marshal] = the (injective) encoding of types.State, [sroot] its StorageRoot field. *)
Theorem C11_account_var_composition_sound :
  forall (H : bytes -> bytes), (forall x, length (H x) = 32) ->
  forall (acct : Type) (marshal : acct -> bytes) (sroot : acct -> bytes),
  (forall a b, marshal a = marshal b -> a = b) ->
  forall (w : world acct) st' ap_a kv val ap_v,
  world_ok H acct marshal sroot w -> length kv = 256 -> ap_ok ap_a -> ap_ok ap_v ->
  client_accepts H acct marshal sroot (root H 256 (w_acc acct w)) (w_ka acct w) st' ap_a kv val ap_v = true ->
  (st' = w_st acct w /\ get (w_sto acct w) kv = Some (H val)) \/ hash_break H.
Proof. exact account_var_composition_sound. Qed.
Print Assumptions C11_account_var_composition_sound.

(** Two accepted (state, value) claims for the same variable coincide. *)
Theorem C11_account_var_value_unique :
  forall (H : bytes -> bytes), (forall x, length (H x) = 32) ->
  forall (acct : Type) (marshal : acct -> bytes) (sroot : acct -> bytes),
  (forall a b, marshal a = marshal b -> a = b) ->
  forall (w : world acct) st1 ap1 kv val1 apv1 st2 ap2 val2 apv2,
  world_ok H acct marshal sroot w -> length kv = 256 -> ap_ok ap1 -> ap_ok apv1 -> ap_ok ap2 -> ap_ok apv2 ->
  client_accepts H acct marshal sroot (root H 256 (w_acc acct w)) (w_ka acct w) st1 ap1 kv val1 apv1 = true ->
  client_accepts H acct marshal sroot (root H 256 (w_acc acct w)) (w_ka acct w) st2 ap2 kv val2 apv2 = true ->
  (st1 = st2 /\ val1 = val2) \/ hash_break H.
Proof. exact account_var_value_unique. Qed.
Print Assumptions C11_account_var_value_unique.

(** Absence of a variable (foreign leaf on its path) composed with a verified account proof. *)
Theorem C11_account_var_absence_sound :
  forall (H : bytes -> bytes), (forall x, length (H x) = 32) ->
  forall (acct : Type) (marshal : acct -> bytes) (sroot : acct -> bytes),
  (forall a b, marshal a = marshal b -> a = b) ->
  forall (w : world acct) st' ap_a kv pkbits pv ap_v,
  world_ok H acct marshal sroot w -> length kv = 256 -> length pkbits = 256 -> length pv = 32 -> ap_ok ap_a -> ap_ok ap_v ->
  verify_inclusion H (root H 256 (w_acc acct w)) ap_a (bits_to_bytes (w_ka acct w)) (H (marshal st')) = true ->
  verify_non_inclusion H (sroot st') ap_v (bits_to_bytes kv) pv (bits_to_bytes pkbits) = true ->
  (st' = w_st acct w /\ get (w_sto acct w) kv = None) \/ hash_break H.
Proof. exact account_var_absence_sound. Qed.
Print Assumptions C11_account_var_absence_sound.

(** ---- chain level: GetStateAndProof / GetStateQuery through name resolution ---- *)

(** The node resolves the requested account (address or registered name) to an address, proves
    the account id of that address and labels the proof Key := address; a light client that
    derives the trie key from the proof's own Key accepts it against the state root, for a
    present and for an absent account, in every non-empty account trie.  (Labelling with the
    bytes the caller sent instead — seeded change C11-r3 — breaks exactly this composition.) *)
Theorem C11_chain_account_proof_complete :
  forall (H : bytes -> bytes) (resolve : bytes -> bytes) (akey : bytes -> key),
  (forall a, length (akey a) = 256) ->
  forall t account, wf 256 t -> t <> E ->
  let ans := node_account_proof H resolve akey t account in
  match get t (akey (resolve account)) with
  | Some v => snd (fst (fst (snd ans))) = true /\ client_check H akey (root H 256 t) ans v = true
  | None => snd (fst (fst (snd ans))) = false /\ forall v, client_check H akey (root H 256 t) ans v = true
  end.
Proof. exact chain_account_proof_complete. Qed.
Print Assumptions C11_chain_account_proof_complete.

(** proof_leaf_test_full_key: merkleProof's test at a shortcut leaf compares the FULL stored
    key (its remaining bits) with the query key; a proper prefix or an extension of a stored
    key is not "included".  (Seeded change C11-r6 replaced the equality by a prefix test.) *)
Theorem C11_proof_leaf_test_full_key :
  forall (H : bytes -> bytes) h rp k' v k,
  inc_of (mproof H h rp (Lf k' v) k) = true <-> k' = k.
Proof. exact proof_leaf_test_full_key. Qed.
Print Assumptions C11_proof_leaf_test_full_key.

(** For every tree and every query key of ANY length (no 256-bit hypothesis: GetStateQuery
    forwards the client's storage keys unchanged), Inclusion = true is answered only together
    with the value stored under exactly that key. *)
Theorem C11_proof_inclusion_only_stored :
  forall (H : bytes -> bytes) t h rp k,
  inc_of (mproof H h rp t k) = true -> get t k = Some (val_of (mproof H h rp t k)).
Proof. exact proof_inclusion_only_stored. Qed.
Print Assumptions C11_proof_inclusion_only_stored.

(** C12  State snapshots: reverting restores exactly the earlier visible state.
    Only statements, each closed by [exact] of a lemma proved in StateBuf/BufProofs.v or
    StateBuf/DbProofs.v, followed by [Print Assumptions].

    [sbuf V] is the literal stateBuffer (entries, per-key index stacks, nextIdx); [wf] is the
    index invariant; [latest l k] is the last write to [k] in the log [l]; a run is a list
    of [BPut]/[BRollback r]; [ops_valid n ops]: every rollback target is at most the
    current revision; [ops_above r ops]: no rollback below revision [r]. *)
From Coq Require Import NArith List Bool Arith Permutation Sorting.Sorted.
From Verif Require Import StateBuf.Model StateBuf.BufProofs StateBuf.Db StateBuf.DbProofs StateBuf.DbRevert StateBuf.DbSafe StateBuf.DbPtr.
Import ListNotations.

(** The index invariant holds initially and after every operation of every valid run, and
    no operation of such a run panics ([entries[peek]] always in bounds). *)
Theorem C12_index_wf : forall (V : Type) (ops : list (bop V)) (b : sbuf V),
  wf b -> ops_valid (next_idx b) ops -> exists b', impl_run b ops = Ok b' /\ wf b'.
Proof. exact @index_wf_invariant. Qed.
Print Assumptions C12_index_wf.

Theorem C12_index_wf_initial : forall (V : Type), wf (@sb_new V).
Proof. exact @wf_new. Qed.
Print Assumptions C12_index_wf_initial.

(** Reads return the latest non-reverted write: after any valid run the buffer answers
    every key like the specification log (append on put, truncate on rollback). *)
Theorem C12_buffer_refines_spec : forall (V : Type) (ops : list (bop V)) (b : sbuf V) (k : key),
  wf b -> ops_valid (next_idx b) ops ->
  exists b', impl_run b ops = Ok b' /\ sb_get b' k = Ok (latest (spec_run (entries b) ops) k).
Proof. exact @buffer_refines_spec. Qed.
Print Assumptions C12_buffer_refines_spec.

(** Reverting to a snapshot restores exactly the log (hence every read) of snapshot time,
    whatever writes and nested snapshot/revert pairs happened in between. *)
Theorem C12_revert_restores : forall (V : Type) (b : sbuf V) (ops : list (bop V)),
  wf b -> ops_valid (next_idx b) ops -> ops_above (next_idx b) ops ->
  exists b1 b', impl_run b ops = Ok b1 /\ sb_rollback b1 (sb_snapshot b) = Ok b' /\
                wf b' /\ entries b' = entries b /\ next_idx b' = next_idx b.
Proof. exact @revert_restores_log. Qed.
Print Assumptions C12_revert_restores.

(** export (what goes to the trie, hence the root) never panics, is strictly sorted by key
    and contains exactly the latest surviving write of every written key. *)
Theorem C12_export_latest_surviving : forall (V : Type) (b : sbuf V), wf b ->
  exists l, sb_export b = Ok l /\ StronglySorted klt l /\
            forall e, In e l <-> latest (entries b) (fst e) = Some e.
Proof. exact @export_spec. Qed.
Print Assumptions C12_export_latest_surviving.

Theorem C12_export_sorted_nodup : forall (V : Type) (b : sbuf V) l, wf b -> sb_export b = Ok l ->
  StronglySorted klt l /\ NoDup (map fst l).
Proof. exact @export_sorted_nodup. Qed.
Print Assumptions C12_export_sorted_nodup.

(** Go map iteration order is irrelevant: any permutation of the index map gives the same
    exported list (this is what the sort in stateBuffer.export buys; cited by C02). *)
Theorem C12_export_order_independent : forall (V : Type) (b : sbuf V) idx',
  wf b -> Permutation (index b) idx' ->
  sb_export (mk_sbuf (entries b) idx' (next_idx b)) = sb_export b.
Proof. exact @export_order_independent. Qed.
Print Assumptions C12_export_order_independent.

(** Writes made after a snapshot and reverted influence neither the exported list (root)
    nor any read. *)
Theorem C12_export_ignores_reverted : forall (V : Type) (b : sbuf V) (ops : list (bop V)),
  wf b -> ops_valid (next_idx b) ops -> ops_above (next_idx b) ops ->
  exists b1 b', impl_run b ops = Ok b1 /\ sb_rollback b1 (sb_snapshot b) = Ok b' /\
                sb_export b' = sb_export b /\ forall k, sb_get b' k = sb_get b k.
Proof. exact @export_ignores_reverted. Qed.
Print Assumptions C12_export_ignores_reverted.

(** Commit's stage never panics on a well-formed buffer and persists exactly the latest
    surviving write of every indexed key. *)
Theorem C12_stage_latest_surviving : forall (V : Type) (b : sbuf V), wf b ->
  exists l, sb_stage b = Ok l /\ map fst l = map fst (index b) /\
            forall e, In e l -> latest (entries b) (fst e) = Some e.
Proof. exact @stage_spec. Qed.
Print Assumptions C12_stage_latest_surviving.

(** BlockState.Rollback drops every contract storage that was staged after the snapshot. *)
Theorem C12_staged_later_dropped : forall d s d' c,
  block_rollback d s = Ok d' -> alookup c (bs_storage s) = None -> alookup c (d_cache d') = None.
Proof. exact staged_later_dropped. Qed.
Print Assumptions C12_staged_later_dropped.

(** Block level (BlockState.Snapshot / Rollback over the account buffer, the storage cache and
    the handles, with explicit pointers).  [dwf]: every buffer satisfies the index invariant,
    cached objects exist and no two contracts share one.  [run_ok d0 s0 d0 ops]: the discipline
    of valid nesting — a handle is staged over a contract cached at snapshot time only if it
    is that cached object; a contract-level revert does not go below the revision a cached
    storage had at snapshot time; a nested block revert uses a snapshot taken at or after s0;
    no Update/Commit/reopen in the span.  Then the revert to s0 never panics and restores the
    account log, the cache map and the log, trie and dirty flag of every staged storage. *)
Theorem C12_block_revert_restores : forall d0 s0 ops d,
  dwf d0 -> block_snapshot d0 = Ok s0 -> run_ok d0 s0 d0 ops -> run d0 ops = Ok d ->
  exists d', block_rollback d s0 = Ok d' /\ Restored d0 d'.
Proof. exact block_revert_restores_run. Qed.
Print Assumptions C12_block_revert_restores.

(** Restored states answer every account read and every storage read of a staged contract
    as at snapshot time. *)
Theorem C12_restored_reads : forall d0 d, dwf d0 -> Restored d0 d ->
  (forall a, get_state d a = get_state d0 a) /\
  (forall c o k, alookup c (d_cache d0) = Some o ->
     alookup c (d_cache d) = Some o /\ get_data d o k = get_data d0 o k).
Proof. exact restored_reads. Qed.
Print Assumptions C12_restored_reads.

(** The invariant is established by a fresh StateDB and kept by every disciplined run (so the
    slice accesses of get/rollback/export/stage stay in bounds at block level too). *)
Theorem C12_dwf_reachable : forall t sa sv s ops d,
  block_snapshot (sdb_new t sa sv) = Ok s -> run_ok (sdb_new t sa sv) s (sdb_new t sa sv) ops ->
  run (sdb_new t sa sv) ops = Ok d -> dwf d.
Proof. exact dwf_reachable. Qed.
Print Assumptions C12_dwf_reachable.

(** Every operation that does not itself panic (nil handle, out-of-contract revision) keeps
    the block-level invariant — Update, Commit and reopen included, without any discipline. *)
Theorem C12_dwf_step : forall d o d', dwf d -> step d o = Ok d' -> dwf d'.
Proof. exact dwf_step. Qed.
Print Assumptions C12_dwf_step.

(** Hence in every state reachable from a fresh StateDB by any operation sequence the index
    invariant holds for all buffers, and Update and Commit (export, stage, reset of every
    buffer) never index out of bounds. *)
Theorem C12_update_commit_never_panic : forall t sa sv ops d,
  run (sdb_new t sa sv) ops = Ok d ->
  dwf d /\ (exists d', db_update d = Ok d' /\ dwf d') /\ (exists d', db_commit d = Ok d' /\ dwf d').
Proof. exact update_commit_never_panic. Qed.
Print Assumptions C12_update_commit_never_panic.

(** AccountState handles (state/account.go) are copies written back only by PutState: Add/
    SubBalance through a handle whose newState no buffered entry holds changes no buffer,
    cache, storage, trie or store, hence no read and no root; the newState of a fresh handle is
    such an object.  ([run_ok] requires exactly this of mutations inside a reverted span, so
    C12_block_revert_restores covers handles taken, mutated and put after the snapshot.) *)
Theorem C12_handle_mutation_invisible : forall d h ah o d',
  (exists v, o = OAAdd h v \/ o = OASub h v \/ exists x, o = OASetF h x v) ->
  nth_error (d_ah d) h = Some ah -> ptr_unused d (ah_ptr ah) -> step d o = Ok d' ->
  d_buf d' = d_buf d /\ d_cache d' = d_cache d /\ d_heap d' = d_heap d /\ d_handles d' = d_handles d /\
  d_trie d' = d_trie d /\ d_store_a d' = d_store_a d /\ d_store_v d' = d_store_v d /\
  (forall a, get_state d' a = get_state d a).
Proof. exact handle_mutation_invisible. Qed.
Print Assumptions C12_handle_mutation_invisible.

Theorem C12_fresh_handle_unused : forall d a d',
  (forall e, In e (entries (d_buf d)) -> a_ptr (snd e) < d_nptr d) -> step d (OAGet a) = Ok d' ->
  exists ah, nth_error (d_ah d') (length (d_ah d)) = Some ah /\ ptr_unused d' (ah_ptr ah) /\ d_buf d' = d_buf d.
Proof. exact fresh_handle_unused. Qed.
Print Assumptions C12_fresh_handle_unused.

(** The hypothesis of C12_fresh_handle_unused is an invariant of every run ([pbound]: every
    referenced State object was allocated before d_nptr), so: in every state reachable from a
    fresh StateDB by ANY operations, an AccountState fetched now can be modified through all its
    setters without any effect on the block state until it is put. *)
Theorem C12_fresh_handle_mutation_invisible : forall t sa sv ops d a d1 o d2,
  run (sdb_new t sa sv) ops = Ok d -> step d (OAGet a) = Ok d1 ->
  (exists v, o = OAAdd (length (d_ah d)) v \/ o = OASub (length (d_ah d)) v \/ exists x, o = OASetF (length (d_ah d)) x v) ->
  step d1 o = Ok d2 ->
  d_buf d2 = d_buf d /\ d_cache d2 = d_cache d /\ d_heap d2 = d_heap d /\
  d_trie d2 = d_trie d /\ d_store_a d2 = d_store_a d /\ d_store_v d2 = d_store_v d /\
  (forall b, get_state d2 b = get_state d b).
Proof. exact fresh_handle_mutation_invisible. Qed.
Print Assumptions C12_fresh_handle_mutation_invisible.

(** After PutState the handle aliases the buffered entry: a later Add/SubBalance is visible
    without PutState and is not undone by a revert (known finding C12:mutate-after-put). *)
Theorem C12_mutate_after_put_not_reverted :
  match run (sdb_new [] [] []) [OAGet 1; OAAdd 0 5; OAPut 0; OSnap]%N with
  | Ok d0 => match run d0 [OAAdd 0 3; ORollback 0]%N with
             | Ok d1 => get_state d0 1%N = Ok (Some (fl_set fl0 FBal 5, [])) /\ get_state d1 1%N = Ok (Some (fl_set fl0 FBal 8, []))
             | Panic => False
             end
  | Panic => False
  end.
Proof. exact mutate_after_put_not_reverted. Qed.
Print Assumptions C12_mutate_after_put_not_reverted.

(** Caller-side operations: taking AccountState / ContractState handles and snapshots, Reset,
    GetCode, GetRawKV, SetRawKV, and SetCode through a handle whose embedded State is not a
    buffered object (the executor opens it on the AccountState's own newState) leave buffers,
    cache, storages, tries and staged data untouched. *)
Theorem C12_caller_side_invisible : forall d o d',
  match o with
  | OAGet _ | OACreate _ | OAReset _ | OGetCode _ | ORawSet _ _ _ | ORawGet _ _ | OSSnap | OSnap | OCSnap _ | OClear => True
  | OSetCode h _ _ => forall hs p, nth_error (x_hst (d_x d)) h = Some hs -> hs_ptr hs = Some p -> ptr_unused d p
  | _ => False
  end ->
  step d o = Ok d' -> same_block_state d d'.
Proof. exact caller_side_invisible. Qed.
Print Assumptions C12_caller_side_invisible.

(** StateDB.SetRoot / Revert to a persisted root: buffer emptied, trie switched, reads are the
    trie's; the storage cache is not touched. *)
Theorem C12_set_root_spec : forall d i t d', dwf d -> nth_error (x_roots (d_x d)) i = Some t -> step d (OSetRoot i) = Ok d' ->
  entries (d_buf d') = [] /\ d_trie d' = t /\ d_cache d' = d_cache d /\ d_heap d' = d_heap d /\
  (forall a, get_state d' a = Ok (trie_state d' a)) /\ dwf d'.
Proof. exact set_root_spec. Qed.
Print Assumptions C12_set_root_spec.

(** NewStateDB / Clone / ChainStateDB.NewBlockState at a root: empty buffer and cache. *)
Theorem C12_reopen_at_spec : forall d t,
  let d' := reopen_at d t in
  d_trie d' = t /\ d_cache d' = [] /\ entries (d_buf d') = [] /\ d_store_a d' = d_store_a d /\ d_store_v d' = d_store_v d /\
  (forall a, get_state d' a = Ok (trie_state d' a)) /\ dwf d'.
Proof. exact reopen_at_spec. Qed.
Print Assumptions C12_reopen_at_spec.

(** Commit persists the in-memory trie as the newest root; ChainStateDB.Apply opens the next
    block state exactly there. *)
Theorem C12_commit_records_root : forall d d', db_commit d = Ok d' ->
  x_roots (d_x d') = x_roots (d_x d) ++ [d_trie d] /\ d_trie d' = d_trie d.
Proof. exact commit_records_root. Qed.
Print Assumptions C12_commit_records_root.

Theorem C12_apply_spec : forall d d', step d OApply = Ok d' ->
  exists d1 d2, db_update d = Ok d1 /\ db_commit d1 = Ok d2 /\ d_trie d' = d_trie d1 /\
                x_roots (d_x d') = x_roots (d_x d1) ++ [d_trie d1] /\ d_cache d' = [] /\ entries (d_buf d') = [].
Proof. exact apply_spec. Qed.
Print Assumptions C12_apply_spec.

(** StateDB.Rollback(revision) cuts the account log back and touches nothing else. *)
Theorem C12_sdb_rollback_spec : forall d j rev, dwf d -> nth_error (x_ssnaps (d_x d)) j = Some rev -> rev <= next_idx (d_buf d) ->
  exists d'', step d (OSRollback j) = Ok d'' /\ entries (d_buf d'') = firstn rev (entries (d_buf d)) /\
              d_cache d'' = d_cache d /\ d_heap d'' = d_heap d /\ d_trie d'' = d_trie d.
Proof. exact sdb_rollback_spec. Qed.
Print Assumptions C12_sdb_rollback_spec.

(** Behaviour of the code kept visible (each reproduced on the implementation by a corpus case). *)
Theorem C12_clone_drops_source_hash :
  match run (sdb_new [] [] []) [OAGet 7; OOpenAs 0; OSetCode 0 1 2; OAPut 0]%N with
  | Ok d0 => match run d0 [OAGet 7; OAPut 1]%N with
             | Ok d1 => get_state d0 7%N = Ok (Some (mk_fl 0 0 1 0 2, [])) /\
                        get_state d1 7%N = Ok (Some (mk_fl 0 0 1 0 0, []))
             | Panic => False
             end
  | Panic => False
  end.
Proof. exact clone_drops_source_hash. Qed.
Print Assumptions C12_clone_drops_source_hash.

Theorem C12_raw_kv_survives_revert :
  match run (sdb_new [] [] []) [OSnap; OOpen 7; ORawSet 0 1 5; ORollback 0; OClear; OOpen 7; ORawGet 0 1]%N with
  | Ok d => x_last (d_x d) = [1; 5]%N
  | Panic => False
  end.
Proof. exact raw_kv_survives_revert. Qed.
Print Assumptions C12_raw_kv_survives_revert.

Theorem C12_set_code_through_buffered_state_not_reverted :
  match run (sdb_new [] [] []) [OPut 7 3; OSnap; OOpen 7; OSetCode 0 4 0; ORollback 0]%N with
  | Ok d => get_state d 7%N = Ok (Some (mk_fl 3 0 4 0 0, []))
  | Panic => False
  end.
Proof. exact set_code_through_buffered_state_not_reverted. Qed.
Print Assumptions C12_set_code_through_buffered_state_not_reverted.

(** The unrestricted statement is false of the code: an Update between the snapshot and the
    revert leaves the reverted write in the account trie (known finding C12:update-then-rollback). *)
Theorem C12_revert_restores_with_update_refuted :
  exists ops_before ops_between a,
    In OUpdate ops_between /\
    match run (sdb_new [] [] []) (ops_before ++ [OSnap]) with
    | Ok d0 =>
        match run d0 (ops_between ++ [ORollback 0]) with
        | Ok d1 => get_state d0 a <> get_state d1 a
        | Panic => False
        end
    | Panic => False
    end.
Proof. exact revert_restores_with_update_refuted. Qed.
Print Assumptions C12_revert_restores_with_update_refuted.

(** Why the discipline is needed: a handle opened inside a reverted span and used after the
    revert re-publishes the reverted write (known, documented modelling decision: the node
    never holds a handle across a block rollback). *)
Theorem C12_held_handle_resurrects_reverted_write :
  let ops := [OSnap; OOpen 7; OSet 0 1 5; OStage 0; OOpen 7; ORollback 0; OSet 1 2 9; OStage 1]%N in
  match run (sdb_new [] [] []) ops with
  | Ok d => match alookup 7%N (d_cache d) with
            | Some o => get_data d o 1%N = Ok (Some 5%N)
            | None => False
            end
  | Panic => False
  end.
Proof. exact held_handle_resurrects_reverted_write. Qed.
Print Assumptions C12_held_handle_resurrects_reverted_write.

(** StateDB.updateStorage with a fault ([update_storage]: one snapshot of the account buffer
    before the loop over the cached storages; per storage the update fails, or succeeds clean,
    or succeeds dirty and puts the account entry with the new storage root).  It never panics,
    fails exactly when one storage fails (in whatever order the map is walked), and a failed
    call leaves the account buffer as before the call: same log, same revision, same reads. *)
Theorem C12_failed_update_restores : forall (b : sbuf N) l,
  wf b ->
  exists b' ok, update_storage b l = Ok (b', ok) /\ wf b' /\
    (ok = false <-> Exists (fun x => snd x = None) l) /\
    (ok = false -> entries b' = entries b /\ next_idx b' = next_idx b /\ forall k, sb_get b' k = sb_get b k).
Proof. intros b l. exact (failed_update_restores b l). Qed.
Print Assumptions C12_failed_update_restores.

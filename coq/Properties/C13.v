(** C13  Transaction pool: per-account nonce order, no stale or duplicate entries.
    Only statements, each closed by [exact] of a lemma proved in Mempool/*.v, followed by
    [Print Assumptions].  Model: Mempool/Model.v (txList / MemPool of /repo/mempool). *)
From Coq Require Import ZArith NArith List Bool.
From Verif Require Import Mempool.Model Mempool.ListProofs Mempool.PoolProofs Mempool.Theorems.
From Verif Require Gen.Locks Mempool.LockCheck.
Import ListNotations.

(** [count_ready] (the invariant's ready count) is exactly the maximal gap-free prefix
    base+1, base+2, ... *)
Theorem C13_ready_prefix_gap_free : forall l b i,
  (i < count_ready b l)%nat -> nth_nonce l i = (b + 1 + N.of_nat i)%N.
Proof. exact count_ready_prefix. Qed.
Print Assumptions C13_ready_prefix_gap_free.

Theorem C13_ready_prefix_maximal : forall l b,
  (count_ready b l < length l)%nat ->
  nth_nonce l (count_ready b l) <> (b + 1 + N.of_nat (count_ready b l))%N.
Proof. exact count_ready_maximal. Qed.
Print Assumptions C13_ready_prefix_maximal.

(** On a sorted list Go's sort.Search (binary search, as modelled) finds the insertion point. *)
Theorem C13_binary_search_position : forall l b n, sorted_above b l ->
  tl_search l n = (lin_search n l,
                   (lin_search n l <? length l)%nat && (nth_nonce l (lin_search n l) =? n)%N).
Proof. exact tl_search_sorted. Qed.
Print Assumptions C13_binary_search_position.

(** txList.Put keeps the list invariant, rejects a nonce at or below the base and a nonce
    already present, and reports the exact orphan difference. *)
Theorem C13_list_put : forall a l t, list_inv a l -> t_acc t = a ->
  match tl_put l t with
  | inr PTooLow => (t_nonce t <= s_nonce (base l))%N
  | inr PSameNonce => exists x, In x (txs l) /\ t_nonce x = t_nonce t
  | inr _ => False
  | inl (d, l') => list_inv a l' /\ base l' = base l /\ txs l' = ins t (txs l)
                   /\ d = (orphans l - orphans l')%Z
                   /\ (forall x, In x (txs l) -> t_nonce x <> t_nonce t)
                   /\ (s_nonce (base l) < t_nonce t)%N
  end.
Proof. exact tl_put_spec. Qed.
Print Assumptions C13_list_put.

(** Every atomic step (unlocked put check, locked insert, block arrival, removeTx,
    eviction, getUnconfirmed, get) preserves the pool invariant. *)
Theorem C13_step_inv : forall U, idfun U -> forall m s, step_in U s ->
  PoolInv (pl m) -> pool_in U (pl m) ->
  PoolInv (pl (astep_run m s)) /\ pool_in U (pl (astep_run m s)).
Proof. exact step_inv. Qed.
Print Assumptions C13_step_inv.

(** ... hence every interleaving of the atomic steps of any number of threads does. *)
Theorem C13_schedule_inv : forall U, idfun U -> forall sched m ths,
  PoolInv (pl m) -> pool_in U (pl m) -> Forall (thread_in U) ths ->
  PoolInv (pl (fst (run_sched sched m ths))) /\ pool_in U (pl (fst (run_sched sched m ths))).
Proof. exact schedule_inv. Qed.
Print Assumptions C13_schedule_inv.

Theorem C13_sequential_inv : forall U, idfun U -> forall ops m,
  Forall (op_in U) ops -> PoolInv (pl m) -> pool_in U (pl m) ->
  PoolInv (pl (fold_left seq_step ops m)) /\ pool_in U (pl (fold_left seq_step ops m)).
Proof. exact sequential_inv. Qed.
Print Assumptions C13_sequential_inv.

(** Never two pooled transactions with the same hash or the same (account, nonce). *)
Theorem C13_no_duplicates : forall p t t', PoolInv p ->
  In t (all_txs (lists p)) -> In t' (all_txs (lists p)) ->
  t_id t = t_id t' \/ (t_acc t = t_acc t' /\ t_nonce t = t_nonce t') -> t = t'.
Proof. exact no_duplicates. Qed.
Print Assumptions C13_no_duplicates.

(** Reported totals equal what is held; existence queries answer exactly for held hashes. *)
Theorem C13_counters_exact : forall p, PoolInv p ->
  plen p = Z.of_nat (length (cache p))
  /\ plen p = Z.of_nat (length (all_txs (lists p)))
  /\ porphan p = sum_orphans (lists p)
  /\ (forall h, exist p h = true <-> exists t, In t (all_txs (lists p)) /\ t_id t = h).
Proof. exact counters_exact. Qed.
Print Assumptions C13_counters_exact.

(** What a producer receives per account: the run base+1, base+2, ... of that account's own
    transactions, maximal (the next held nonce, if any, leaves a gap). *)
Theorem C13_get_gap_free : forall p a run, PoolInv p -> In (a, run) (pool_get p) ->
  exists l, In (a, l) (lists p) /\ run = firstn (ready l) (txs l)
    /\ length run = ready l
    /\ (forall i, (i < length run)%nat -> nth_nonce run i = (s_nonce (base l) + 1 + N.of_nat i)%N)
    /\ Forall (fun t => t_acc t = a) run
    /\ ((ready l < length (txs l))%nat ->
        nth_nonce (txs l) (ready l) <> (s_nonce (base l) + 1 + N.of_nat (ready l))%N).
Proof. exact get_gap_free. Qed.
Print Assumptions C13_get_gap_free.

(** With a size budget and any map iteration order each account's share is a prefix of
    that run. *)
Theorem C13_get_limited_prefix : forall size ls budget a got,
  In (a, got) (get_limited size budget ls) ->
  exists l k, In (a, l) ls /\ got = firstn k (tl_pooled l).
Proof. exact get_limited_prefix. Qed.
Print Assumptions C13_get_limited_prefix.

(** After a processed block notification no pooled transaction of a scanned account is at
    or below the account's nonce in the new state, for any new state (advance or rewind). *)
Theorem C13_after_notification_no_stale : forall m b a l t, PoolInv (pl m) ->
  In (a, l) (lists (pl (block_arrival m b))) -> In t (txs l) -> scanned m b a = true ->
  (s_nonce (cur (block_arrival m b) a) < t_nonce t)%N.
Proof. exact after_notification_no_stale. Qed.
Print Assumptions C13_after_notification_no_stale.

(** The best block or a child of the best block scans every account ... *)
Theorem C13_sequential_block_scans_all : forall m b a,
  (b_id b = best m \/ b_parent b = best m) -> scanned m b a = true.
Proof. exact sequential_block_scans_all. Qed.
Print Assumptions C13_sequential_block_scans_all.

(** ... an account that is not scanned (non-child block, sender not in the block) keeps its
    list, which is free of stale entries iff the new nonce has not passed the list's base. *)
Theorem C13_unscanned_no_stale_partial : forall m b a l t, PoolInv (pl m) ->
  In (a, l) (lists (pl (block_arrival m b))) -> In t (txs l) -> scanned m b a = false ->
  In (a, l) (lists (pl m))
  /\ ((s_nonce (cur (block_arrival m b) a) <= s_nonce (base l))%N ->
      (s_nonce (cur (block_arrival m b) a) < t_nonce t)%N).
Proof. exact unscanned_no_stale. Qed.
Print Assumptions C13_unscanned_no_stale_partial.

(** After a full scan every list's base is the new state, so the producer's runs start at
    state nonce + 1. *)
Theorem C13_full_scan_base_fresh : forall m b, PoolInv (pl m) ->
  (forall a, scanned m b a = true) -> BaseFresh (block_arrival m b).
Proof. exact full_scan_base_fresh. Qed.
Print Assumptions C13_full_scan_base_fresh.

Theorem C13_get_from_state : forall m a run, PoolInv (pl m) -> BaseFresh m ->
  In (a, run) (pool_get (pl m)) ->
  forall i, (i < length run)%nat -> nth_nonce run i = (s_nonce (cur m a) + 1 + N.of_nat i)%N.
Proof. exact get_from_state. Qed.
Print Assumptions C13_get_from_state.

(** F11 (repaired in /repo by fixes/F11_mempool_removeTx.diff): locating the list through
    tx.Body.Account breaks the invariant for a named sender; it agrees with the repaired
    lookup whenever Body.Account is the owner address. *)
Theorem C13_remove_by_body_account_refuted :
  exists m t, PoolInv (pl m) /\ In t (all_txs (lists (pl m)))
              /\ ~ PoolInv (pl (snd (remove_tx_body m t))).
Proof. exact remove_by_body_account_refuted. Qed.
Print Assumptions C13_remove_by_body_account_refuted.

Theorem C13_remove_by_body_account_partial : forall m t c,
  cache_find (t_id t) (cache (pl m)) = Some c -> t_body t = t_acc c ->
  remove_tx_body m t = remove_tx m t.
Proof. exact remove_by_body_account_partial. Qed.
Print Assumptions C13_remove_by_body_account_partial.

(** Eviction interrupted by its work timeout: the timer is consulted once per account, so a pass
    has evicted some of the old accounts completely; every such partial pass keeps the invariant.
    A pass that could stop inside one account's list would not (refuted variant). *)
Theorem C13_evict_interrupted_inv : forall U m accs k,
  PoolInv (pl m) -> pool_in U (pl m) ->
  PoolInv (pl (evict m (firstn k accs))) /\ pool_in U (pl (evict m (firstn k accs))).
Proof. exact evict_interrupted_inv. Qed.
Print Assumptions C13_evict_interrupted_inv.

Theorem C13_evict_midlist_refuted :
  exists m a k, PoolInv (pl m) /\ ~ PoolInv (pl (evict_midlist m a k)).
Proof. exact evict_midlist_refuted. Qed.
Print Assumptions C13_evict_midlist_refuted.

(** Atomicity of the modelled steps: every write of mp.pool / mp.length / mp.orphan /
    mp.cache / tl.list / tl.ready / tl.base found in the source by gen/gen_locks.go runs
    under the exclusive pool (or list) lock, except the listed getUnconfirmed insertion. *)
Theorem C13_pool_writes_locked :
  forallb Mempool.LockCheck.lock_ok Gen.Locks.pool_writes && Mempool.LockCheck.writers_present
  && Mempool.LockCheck.reads_locked = true.
Proof. exact Mempool.LockCheck.pool_writes_locked. Qed.
Print Assumptions C13_pool_writes_locked.

(** C13  Transaction pool: per-account nonce order, no stale or duplicate entries. *)
From Coq Require Import ZArith NArith List Bool.
From Verif Require Import Mempool.Model Mempool.ListProofs.
Import ListNotations.

(** The ready count of the invariant names exactly the gap-free prefix base+1, base+2, ... *)
Theorem C13_ready_prefix_gap_free : forall l b i,
  (i < count_ready b l)%nat -> nth_nonce l i = (b + 1 + N.of_nat i)%N.
Proof. exact count_ready_prefix. Qed.
Print Assumptions C13_ready_prefix_gap_free.

Theorem C13_ready_prefix_maximal : forall l b,
  (count_ready b l < length l)%nat ->
  nth_nonce l (count_ready b l) <> (b + 1 + N.of_nat (count_ready b l))%N.
Proof. exact count_ready_maximal. Qed.
Print Assumptions C13_ready_prefix_maximal.

(** C14  Admission totality: validating untrusted transactions never panics; admitted
    transactions execute without a crash.  Statements only, each closed by [exact] of a lemma
    of AdmitTotal/Theorems.v (or by evaluation for the generated inventory), followed by
    [Print Assumptions].  The model is the code after fixes/F3, F4, F15, F21. *)
From Coq Require Import ZArith List Bool String.
From Verif Require Import AdmitTotal.Base AdmitTotal.Model AdmitTotal.Theorems AdmitTotal.Sites Gen.PanicSites.
Import ListNotations.

(** types.Tx.Validate (mempool.verifyTx, and the first step of chain.executeTx) terminates with
    accept or a specific rejection for every decoded payload and every string oracle. *)
Theorem C14_tx_validate_total :
  forall decode_address b58 allowed_name e t p,
  tx_validate decode_address b58 allowed_name e t <> Panic p.
Proof. exact tx_validate_never_panics. Qed.
Print Assumptions C14_tx_validate_total.

(** Pool admission (Tx.Validate, then the stateful validator mempool.validateTx selects) never
    panics, for every transaction and every state whose stored records are well formed. *)
Theorem C14_validate_total :
  forall to_upper decode_address encode_address b58 parse_big allowed_name list_entry_ok rpc_parts rpc_b64_ok
         rpc_has_w cc_peer_ok cc_addr_ok cc_hex_ok e t st,
  state_wf rpc_parts st = true ->
  forall p, admission to_upper decode_address encode_address b58 parse_big allowed_name list_entry_ok rpc_parts
              rpc_b64_ok rpc_has_w cc_peer_ok cc_addr_ok cc_hex_ok e t st <> Panic p.
Proof. exact validate_total. Qed.
Print Assumptions C14_validate_total.

(** A transaction admitted against state [st] executes (executeTx -> executeGovernanceTx ->
    Execute{System,Name,Enterprise}Tx) without panic against every well-formed state [st']. *)
Theorem C14_admitted_executes :
  forall to_upper decode_address encode_address b58 parse_big allowed_name list_entry_ok rpc_parts rpc_b64_ok
         rpc_has_w cc_peer_ok cc_addr_ok cc_hex_ok e t st st',
  state_wf rpc_parts st' = true ->
  admission to_upper decode_address encode_address b58 parse_big allowed_name list_entry_ok rpc_parts
            rpc_b64_ok rpc_has_w cc_peer_ok cc_addr_ok cc_hex_ok e t st = Ok tt ->
  forall p, exec_gov to_upper decode_address encode_address b58 parse_big allowed_name list_entry_ok rpc_parts
              rpc_b64_ok rpc_has_w cc_peer_ok cc_addr_ok cc_hex_ok e t st' <> Panic p.
Proof. exact admitted_executes. Qed.
Print Assumptions C14_admitted_executes.

(** Execution itself is total (it re-validates), admitted or not. *)
Theorem C14_exec_total :
  forall to_upper decode_address encode_address b58 parse_big allowed_name list_entry_ok rpc_parts rpc_b64_ok
         rpc_has_w cc_peer_ok cc_addr_ok cc_hex_ok e t st,
  state_wf rpc_parts st = true ->
  forall p, exec_gov to_upper decode_address encode_address b58 parse_big allowed_name list_entry_ok rpc_parts
              rpc_b64_ok rpc_has_w cc_peer_ok cc_addr_ok cc_hex_ok e t st <> Panic p.
Proof. exact exec_total. Qed.
Print Assumptions C14_exec_total.

(** Enterprise execution keeps the stored conf records well formed (the hypothesis of the
    theorems above is an invariant of the enterprise contract state). *)
Theorem C14_enterprise_state_wf_preserved :
  forall to_upper decode_address encode_address list_entry_ok rpc_parts rpc_b64_ok rpc_has_w cc_peer_ok cc_addr_ok
         cc_hex_ok e oci ev ev',
  ent_wf rpc_parts ev = true ->
  ent_exec to_upper decode_address encode_address list_entry_ok rpc_parts rpc_b64_ok rpc_has_w cc_peer_ok
           cc_addr_ok cc_hex_ok e oci ev = Ok ev' ->
  ent_wf rpc_parts ev' = true.
Proof. exact enterprise_state_wf_preserved. Qed.
Print Assumptions C14_enterprise_state_wf_preserved.

(** Every index / slice / single-value assertion / explicit panic found by gen_panicsites in the
    current source tree is one the model accounts for (Sites.model_sites). *)
Theorem C14_sites_covered : sites_covered Gen.PanicSites.sites = true.
Proof. vm_compute. reflexivity. Qed.
Print Assumptions C14_sites_covered.

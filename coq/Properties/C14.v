(** C14  Admission totality: validating untrusted transactions never panics; admitted
    transactions execute without a crash.  Statements only, each closed by [exact] of a lemma
    of AdmitTotal/Theorems.v (or by evaluation for the generated inventory), followed by
    [Print Assumptions].  The model is the code after fixes/F3, F4, F15, F21. *)
From Coq Require Import ZArith List Bool String.
From Verif Require Import AdmitTotal.Base AdmitTotal.Model AdmitTotal.Theorems AdmitTotal.Sites Gen.PanicSites.
From Verif Require Import AdmitTotal.State AdmitTotal.ProofsState1 AdmitTotal.ProofsState2 AdmitTotal.ProofsState4 AdmitTotal.ProofsState5 AdmitTotal.TheoremsState AdmitTotal.ProofsKeys2 AdmitTotal.TheoremsKeys AdmitTotal.ProofsConf AdmitTotal.ProofsBounds.
From Verif Require VmGuard.Lang VmGuard.Balance Gen.AdmitLocks.
Import ListNotations.

(** types.Tx.Validate (mempool.verifyTx, and the first step of chain.executeTx) terminates with
    accept or a specific rejection for every decoded payload and every string oracle. *)
Theorem C14_tx_validate_total :
  forall decode_address b58 allowed_name e t p,
  tx_validate decode_address b58 allowed_name e t <> Panic p.
Proof. exact tx_validate_never_panics. Qed.
Print Assumptions C14_tx_validate_total.

(** Pool admission (Tx.Validate, then the stateful validator mempool.validateTx selects) never
    panics, for every transaction and every state whose stored records are well formed. *)
Theorem C14_validate_total :
  forall to_upper decode_address encode_address b58 parse_big allowed_name list_entry_ok rpc_parts rpc_b64_ok
         rpc_has_w cc_peer_ok cc_addr_ok cc_hex_ok e t st,
  state_wf rpc_parts st = true ->
  forall p, admission to_upper decode_address encode_address b58 parse_big allowed_name list_entry_ok rpc_parts
              rpc_b64_ok rpc_has_w cc_peer_ok cc_addr_ok cc_hex_ok e t st <> Panic p.
Proof. exact validate_total. Qed.
Print Assumptions C14_validate_total.

(** A transaction admitted against state [st] executes (executeTx -> executeGovernanceTx ->
    Execute{System,Name,Enterprise}Tx) without panic against every well-formed state [st']. *)
Theorem C14_admitted_executes :
  forall to_upper decode_address encode_address b58 parse_big allowed_name list_entry_ok rpc_parts rpc_b64_ok
         rpc_has_w cc_peer_ok cc_addr_ok cc_hex_ok e t st st',
  state_wf rpc_parts st' = true ->
  admission to_upper decode_address encode_address b58 parse_big allowed_name list_entry_ok rpc_parts
            rpc_b64_ok rpc_has_w cc_peer_ok cc_addr_ok cc_hex_ok e t st = Ok tt ->
  forall p, exec_gov to_upper decode_address encode_address b58 parse_big allowed_name list_entry_ok rpc_parts
              rpc_b64_ok rpc_has_w cc_peer_ok cc_addr_ok cc_hex_ok e t st' <> Panic p.
Proof. exact admitted_executes. Qed.
Print Assumptions C14_admitted_executes.

(** Execution itself is total (it re-validates), admitted or not. *)
Theorem C14_exec_total :
  forall to_upper decode_address encode_address b58 parse_big allowed_name list_entry_ok rpc_parts rpc_b64_ok
         rpc_has_w cc_peer_ok cc_addr_ok cc_hex_ok e t st,
  state_wf rpc_parts st = true ->
  forall p, exec_gov to_upper decode_address encode_address b58 parse_big allowed_name list_entry_ok rpc_parts
              rpc_b64_ok rpc_has_w cc_peer_ok cc_addr_ok cc_hex_ok e t st <> Panic p.
Proof. exact exec_total. Qed.
Print Assumptions C14_exec_total.

(** Enterprise execution keeps the stored conf records well formed (the hypothesis of the
    theorems above is an invariant of the enterprise contract state). *)
Theorem C14_enterprise_state_wf_preserved :
  forall to_upper decode_address encode_address list_entry_ok rpc_parts rpc_b64_ok rpc_has_w cc_peer_ok cc_addr_ok
         cc_hex_ok e oci ev ev',
  ent_wf rpc_parts ev = true ->
  ent_exec to_upper decode_address encode_address list_entry_ok rpc_parts rpc_b64_ok rpc_has_w cc_peer_ok
           cc_addr_ok cc_hex_ok e oci ev = Ok ev' ->
  ent_wf rpc_parts ev' = true.
Proof. exact enterprise_state_wf_preserved. Qed.
Print Assumptions C14_enterprise_state_wf_preserved.

(** Enterprise conf records are stored as flag byte + values each preceded by the separator '\'.
    serializeConf / deserializeConf round-trip exactly when no value contains the separator;
    checkArgs rejects such values, so every conf ExecuteEnterpriseTx stores (on a state read from
    raw records, [ent_of_raw], hence separator free) reads back as the values written.  This is
    what the model's use of deserialised conf values rests on. *)
Theorem C14_enterprise_conf_roundtrip :
  forall to_upper decode_address encode_address list_entry_ok rpc_parts rpc_b64_ok rpc_has_w cc_peer_ok cc_addr_ok
         cc_hex_ok e oci ev ev' k c,
  ent_sepfree ev = true ->
  ent_exec to_upper decode_address encode_address list_entry_ok rpc_parts rpc_b64_ok rpc_has_w cc_peer_ok
           cc_addr_ok cc_hex_ok e oci ev = Ok ev' ->
  In (k, c) (ev_confs ev') -> de_conf (ser_conf c) = c.
Proof. exact ent_exec_conf_roundtrip. Qed.
Print Assumptions C14_enterprise_conf_roundtrip.

Theorem C14_enterprise_raw_state_sepfree :
  forall sender admins raws cc, ent_sepfree (ent_of_raw sender admins raws cc) = true.
Proof. exact ent_of_raw_sepfree. Qed.
Print Assumptions C14_enterprise_raw_state_sepfree.

(** The storage invariant [Inv] (every stored staking, proposal-vote, vote-result-list and
    name-map record is an output of its serialiser with short components; enterprise confs well
    formed) is preserved by every executed governance transaction and by block boundaries.
    [step] requires the records written to be shorter than 2^32 bytes ([upd_small]) and the amounts
    written to be short ([upd_bounded]: staking records < 47 bytes, BP tally entries < 78 bytes;
    amounts are bounded by the total supply 5*10^26 aer < 2^89). *)
Theorem C14_storage_invariant_preserved :
  forall to_upper decode_address encode_address b58 parse_big allowed_name list_entry_ok rpc_parts rpc_b64_ok
         rpc_has_w cc_peer_ok cc_addr_ok cc_hex_ok b58dec jmarshal junmarshal,
  (forall c, junmarshal (jmarshal [JStr c]) = Some [c]) ->
  (forall x a, decode_address x = Some a -> small a) ->
  forall g g',
  Inv rpc_parts junmarshal g ->
  step to_upper decode_address encode_address b58 parse_big allowed_name list_entry_ok rpc_parts rpc_b64_ok
       rpc_has_w cc_peer_ok cc_addr_ok cc_hex_ok b58dec jmarshal junmarshal g g' ->
  Inv rpc_parts junmarshal g'.
Proof. exact inv_preserved. Qed.
Print Assumptions C14_storage_invariant_preserved.

(** Admission never panics on any state reachable from the genesis storage by executed
    governance transactions: no well-formedness assumption on the state is left. *)
Theorem C14_reachable_validate_total :
  forall to_upper decode_address encode_address b58 parse_big allowed_name list_entry_ok rpc_parts rpc_b64_ok
         rpc_has_w cc_peer_ok cc_addr_ok cc_hex_ok b58dec jmarshal junmarshal,
  (forall c, junmarshal (jmarshal [JStr c]) = Some [c]) ->
  (forall x a, decode_address x = Some a -> small a) ->
  forall bp_list ent0 g acct se e t p,
  result_ok false bp_list -> ent_wf rpc_parts ent0 = true ->
  reachable to_upper decode_address encode_address b58 parse_big allowed_name list_entry_ok rpc_parts rpc_b64_ok
            rpc_has_w cc_peer_ok cc_addr_ok cc_hex_ok b58dec jmarshal junmarshal (genesis bp_list ent0) g ->
  admission to_upper decode_address encode_address b58 parse_big allowed_name list_entry_ok rpc_parts rpc_b64_ok
            rpc_has_w cc_peer_ok cc_addr_ok cc_hex_ok e t (state_of g acct se) <> Panic p.
Proof. exact reachable_validate_total. Qed.
Print Assumptions C14_reachable_validate_total.

(** On every reachable state executeTx never panics in validation / argument handling, and the
    whole execution of a system transaction including cmd.run (vote tally load, SubVote, AddVote,
    Sync, refreshAllVote, record writes) can panic at one site only: the nil *big.Int that
    [voteResult.rmap[v]] yields in SubVote when a recorded vote names a candidate absent from the
    stored tally.  (C14_reachable_executes_full below removes this last site with the key invariant.) *)
Theorem C14_reachable_executes :
  forall to_upper decode_address encode_address b58 parse_big allowed_name list_entry_ok rpc_parts rpc_b64_ok
         rpc_has_w cc_peer_ok cc_addr_ok cc_hex_ok b58dec jmarshal junmarshal,
  (forall c, junmarshal (jmarshal [JStr c]) = Some [c]) ->
  (forall x a, decode_address x = Some a -> small a) ->
  forall bp_list ent0 g acct se e t,
  result_ok false bp_list -> ent_wf rpc_parts ent0 = true ->
  reachable to_upper decode_address encode_address b58 parse_big allowed_name list_entry_ok rpc_parts rpc_b64_ok
            rpc_has_w cc_peer_ok cc_addr_ok cc_hex_ok b58dec jmarshal junmarshal (genesis bp_list ent0) g ->
  (forall p, exec_gov to_upper decode_address encode_address b58 parse_big allowed_name list_entry_ok rpc_parts
               rpc_b64_ok rpc_has_w cc_peer_ok cc_addr_ok cc_hex_ok e t (state_of g acct se) <> Panic p) /\
  (forall p, exec_system_full to_upper decode_address encode_address b58 parse_big allowed_name list_entry_ok
               rpc_parts rpc_b64_ok rpc_has_w cc_peer_ok cc_addr_ok cc_hex_ok b58dec jmarshal junmarshal
               e t g acct se = Panic p -> p = rmap_site).
Proof. exact reachable_executes. Qed.
Print Assumptions C14_reachable_executes.

(** Full statement: on every state reachable from genesis the whole execution of a system
    transaction -- validation, argument handling and cmd.run with the vote tally update -- never
    panics.  Uses the key invariant (every candidate a recorded vote names is a key of the stored
    tally of its issue; BP tally keys are 39 bytes, amounts short), proved to be preserved by every
    step.  Hypotheses: encoding/json round trip of a one-element string list, DecodeAddress results
    are short, base58.Decode returns as many bytes as the validator measured; the genesis BP list
    is the serialisation of a tally with 39-byte keys. *)
Theorem C14_reachable_executes_full :
  forall to_upper decode_address encode_address b58 parse_big allowed_name list_entry_ok rpc_parts rpc_b64_ok
         rpc_has_w cc_peer_ok cc_addr_ok cc_hex_ok b58dec jmarshal junmarshal,
  (forall c, junmarshal (jmarshal [JStr c]) = Some [c]) ->
  (forall x a, decode_address x = Some a -> small a) ->
  (forall x n ok, b58 x = Some (n, ok) -> List.length (b58dec x) = n) ->
  forall t0 ent0 g acct se e t p,
  tally_ok false t0 -> small (store_result false t0) -> ent_wf rpc_parts ent0 = true ->
  reachable to_upper decode_address encode_address b58 parse_big allowed_name list_entry_ok rpc_parts rpc_b64_ok
            rpc_has_w cc_peer_ok cc_addr_ok cc_hex_ok b58dec jmarshal junmarshal (genesis (store_result false t0) ent0) g ->
  exec_system_full to_upper decode_address encode_address b58 parse_big allowed_name list_entry_ok
    rpc_parts rpc_b64_ok rpc_has_w cc_peer_ok cc_addr_ok cc_hex_ok b58dec jmarshal junmarshal e t g acct se <> Panic p.
Proof. exact reachable_executes_full. Qed.
Print Assumptions C14_reachable_executes_full.

(** The byte-size premises of [step] ([upd_bounded]) follow from numeric bounds on amounts: an
    amount below 2^304 is written in at most 38 bytes (the total supply is 5*10^26 < 2^89). *)
Theorem C14_staking_record_short : forall w amount, (Z.abs amount < 256 ^ 38)%Z ->
  (List.length (ser_staking w (be_bytes amount)) < 47)%nat.
Proof. exact staking_record_short. Qed.
Print Assumptions C14_staking_record_short.

Theorem C14_bp_entry_short : forall k v, List.length k = 39%nat -> (Z.abs v < 256 ^ 38)%Z ->
  (List.length (ser_vote false k (be_bytes v)) < 78)%nat.
Proof. exact bp_entry_short. Qed.
Print Assumptions C14_bp_entry_short.

(** chain.executeTx dispatches on the transaction type; a type without a case leaves txFee nil and
    [bs.BpReward.Add(&bs.BpReward, txFee)] dereferences it (a Panic outcome of [exec_gov], excluded
    by Tx.Validate in C14_exec_total).  The case lists of both switches are regenerated from the
    source on every run: every admitted type has a case, and the model's lists are the source's. *)
Theorem C14_dispatch_complete :
  dispatch_complete Gen.PanicSites.validate_types Gen.PanicSites.exec_dispatch_types
                    Model.validate_types Model.exec_dispatch_types = true.
Proof. vm_compute. reflexivity. Qed.
Print Assumptions C14_dispatch_complete.

(** Every index / slice / single-value assertion / explicit panic found by gen_panicsites in the
    current source tree is one the model accounts for (Sites.model_sites). *)
Theorem C14_sites_covered : sites_covered Gen.PanicSites.sites = true.
Proof. vm_compute. reflexivity. Qed.
Print Assumptions C14_sites_covered.

(* ------------------------------------------------------------------------------------------
   Admission terminates: no path out of a pool function leaves a mutex held.  gen_panicsites_locks
   translates every function of mempool/*.go that operates on a mutex, once per (mutex, mode), into
   the statement language of VmGuard/Lang.v with acquire = IncV and release = DecV (deferred
   releases are Defer); the counter analysis of VmGuard/Balance.v is run on it on every build. *)
Definition no_bracket : string -> bool := fun _ => false.

Theorem C14_pool_lock_paths_checked :
  Balance.counter_ok no_bracket [] Gen.AdmitLocks.lock_program [] = true /\
  Gen.AdmitLocks.lock_unsupported = [] /\
  existsb (String.eqb "MemPool.verifyTx@mp.r"%string) (map fst Gen.AdmitLocks.lock_program) = true /\
  existsb (String.eqb "MemPool.put@mp.w"%string) (map fst Gen.AdmitLocks.lock_program) = true.
Proof. vm_compute. repeat split. Qed.
Print Assumptions C14_pool_lock_paths_checked.

(** Every run of every translated pool function, whatever branches it takes and whether it ends
    at the end of the body, by a return or by a panic statement: the releases performed, those of
    the deferred statements included, equal the acquires (the counter of held locks is back at
    its entry value).  A leaked lock -- a return between Lock and Unlock -- is a path on which
    [d + pp] is 1: it makes [counter_ok] false and this theorem's proof fail. *)
Theorem C14_pool_locks_released : forall f body d pp o l,
  Lang.lookup Gen.AdmitLocks.lock_program f = Some body ->
  Balance.crun Gen.AdmitLocks.lock_program [] (Balance.flagsb false) body (0, 0)%Z (d, pp) o l ->
  (d + pp = 0)%Z.
Proof.
  intros f body d pp o l Hl Hr.
  destruct C14_pool_lock_paths_checked as (Hok & _).
  destruct (Balance.counter_discipline no_bracket [] _ [] Hok f body (Balance.flagsb false) d pp o l 0%Z Hl eq_refl
              (fun _ => eq_refl) (Z.le_refl 0) Hr) as [Hz _].
  simpl in Hz. exact Hz.
Qed.
Print Assumptions C14_pool_locks_released.

(** C15  Governance accounting: stakes, votes, rankings and names stay consistent.
    Only statements, each closed by [exact] of a lemma proved in Gov/*.v / Determ/Sorting.v,
    followed by [Print Assumptions]. *)
From Coq Require Import ZArith NArith List Bool Permutation Sorted.
From Verif Require Import Gov.Model Determ.Sorting Gov.VoteOrder.
Import ListNotations.
Open Scope Z_scope.

(** The repaired VoteList.Less (fixes/F10_votelist_total_order.diff) is a strict total order
    on (candidate, tally) entries. *)
Theorem C15_vote_less_total :
  irreflexive vote_less_fixed /\ transitive vote_less_fixed /\
  forall x y, x <> y -> vote_less_fixed x y = true \/ vote_less_fixed y x = true.
Proof. exact vote_less_total. Qed.
Print Assumptions C15_vote_less_total.

(** Ranking = the sort of the tallies, unique: whatever order the Go map is iterated in and
    whatever sort.Sort does, the stored producer ranking is one list. *)
Theorem C15_ranking_unique :
  forall (entries listing out : list (cand * Z)),
    NoDup entries -> Permutation entries listing -> Permutation listing out ->
    go_sorted (rank_before true) out ->
    out = isort (rank_before true) entries.
Proof. exact ranking_unique. Qed.
Print Assumptions C15_ranking_unique.

(** F10: with the comparator at HEAD two parity-twin candidates with equal votes are
    unordered and the stored ranking depends on the map iteration order. *)
Theorem C15_vote_less_not_total_refuted :
  exists x y : cand * Z, x <> y /\ fst x <> fst y /\
    vote_less_legacy x y = false /\ vote_less_legacy y x = false.
Proof. exact vote_less_not_total_refuted. Qed.
Print Assumptions C15_vote_less_not_total_refuted.

Theorem C15_ranking_depends_on_map_order_refuted :
  exists l1 l2 : list (cand * Z), Permutation l1 l2 /\ NoDup l1 /\
    isort (rank_before false) l1 <> isort (rank_before false) l2.
Proof. exact ranking_depends_on_map_order_refuted. Qed.
Print Assumptions C15_ranking_depends_on_map_order_refuted.

(** The repair changes no outcome that is defined at HEAD. *)
Theorem C15_fixed_agrees_with_legacy :
  forall x y : cand * Z,
    length (fst x) = length (fst y) -> cand_key (fst x) <> cand_key (fst y) ->
    vote_less_fixed x y = vote_less_legacy x y.
Proof. exact fixed_agrees_with_legacy. Qed.
Print Assumptions C15_fixed_agrees_with_legacy.

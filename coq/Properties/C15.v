(** C15  Governance accounting: stakes, votes, rankings and names stay consistent.
    Only statements, each closed by [exact] of a lemma proved in Gov/*.v / Determ/Sorting.v,
    followed by [Print Assumptions]. *)
From Coq Require Import ZArith NArith List Bool Permutation Sorted.
From Verif Require Import Gov.Model Determ.Sorting Gov.VoteOrder.
Import ListNotations.
Open Scope Z_scope.

(** The repaired VoteList.Less (fixes/F10_votelist_total_order.diff) is a strict total order
    on (candidate, tally) entries. *)
Theorem C15_vote_less_total :
  irreflexive vote_less_fixed /\ transitive vote_less_fixed /\
  forall x y, x <> y -> vote_less_fixed x y = true \/ vote_less_fixed y x = true.
Proof. exact vote_less_total. Qed.
Print Assumptions C15_vote_less_total.

(** Ranking = the sort of the tallies, unique: whatever order the Go map is iterated in and
    whatever sort.Sort does, the stored producer ranking is one list. *)
Theorem C15_ranking_unique :
  forall (entries listing out : list (cand * Z)),
    NoDup entries -> Permutation entries listing -> Permutation listing out ->
    go_sorted (rank_before true) out ->
    out = isort (rank_before true) entries.
Proof. exact ranking_unique. Qed.
Print Assumptions C15_ranking_unique.

(** F10: with the comparator at HEAD two parity-twin candidates with equal votes are
    unordered and the stored ranking depends on the map iteration order. *)
Theorem C15_vote_less_not_total_refuted :
  exists x y : cand * Z, x <> y /\ fst x <> fst y /\
    vote_less_legacy x y = false /\ vote_less_legacy y x = false.
Proof. exact vote_less_not_total_refuted. Qed.
Print Assumptions C15_vote_less_not_total_refuted.

Theorem C15_ranking_depends_on_map_order_refuted :
  exists l1 l2 : list (cand * Z), Permutation l1 l2 /\ NoDup l1 /\
    isort (rank_before false) l1 <> isort (rank_before false) l2.
Proof. exact ranking_depends_on_map_order_refuted. Qed.
Print Assumptions C15_ranking_depends_on_map_order_refuted.

(** The repair changes no outcome that is defined at HEAD. *)
Theorem C15_fixed_agrees_with_legacy :
  forall x y : cand * Z,
    length (fst x) = length (fst y) -> cand_key (fst x) <> cand_key (fst y) ->
    vote_less_fixed x y = vote_less_legacy x y.
Proof. exact fixed_agrees_with_legacy. Qed.
Print Assumptions C15_fixed_agrees_with_legacy.

(* ================================================================== accounting invariant *)
From Verif Require Import Gov.AList Gov.Tally Gov.Inv Gov.Inv2.

(** GovInv holds after every history of governance transactions (accepted, rejected, or
    executed on a discarded block state), block boundaries, restarts and plain transfers to
    aergo.system; [received] is the sum of those transfers (F19: the balance clause needs it).
    Every step carries the hardfork version of its block, so histories may cross fork heights. *)
Theorem C15_GovInv_all_histories : forall c hs g donated g' received,
  GovInv donated (g_d g) -> Forall (fun vh => hop_wf (snd vh)) hs -> hrun c g hs = (g', received) ->
  GovInv (donated + received) (g_d g').
Proof. exact GovInv_all_histories. Qed.
Print Assumptions C15_GovInv_all_histories.

(** What GovInv says: total = Σ stakes; balance(aergo.system) = total + donated; every
    stored tally = Σ of the recorded amounts of the ballots naming the candidate; recorded
    vote amount between 0 and the current stake; rankings list each candidate once; the
    stored vote total of a parameter issue = Σ amounts of its ballots. *)
Theorem C15_GovInv_clauses : forall donated d,
  GovInv donated d ->
  d_total d = sum_stakes d /\
  d_sysbal d = d_total d + donated /\
  (forall issue c, tally_get (get_result d issue) c = tally_spec d issue c) /\
  (forall issue a v, get_vote d issue a = Some v -> 0 <= vt_amount v <= st_amount (get_stake d a)) /\
  (forall issue, NoDup (map fst (get_result d issue))) /\
  (forall issue, is_ex issue = true -> getZ issue (d_vtotals d) = vsum_v (d_votes d) issue).
Proof. exact GovInv_clauses. Qed.
Print Assumptions C15_GovInv_clauses.

Theorem C15_apply_tx_preserves_GovInv : forall c no d m t e d' m' donated,
  GovInv donated d -> tx_wf t -> apply_tx c no d m t = (e, d', m') -> GovInv donated d'.
Proof. exact apply_tx_preserves_GovInv. Qed.
Print Assumptions C15_apply_tx_preserves_GovInv.

(** F19: the literal "balance = total" is refuted by one accepted plain transfer. *)
Theorem C15_sysbal_equals_total_refuted :
  exists d from amt, GovInv 0 d /\ 0 <= amt <= bal_of d from /\
    d_sysbal (donate d from amt) <> d_total (donate d from amt).
Proof. exact sysbal_equals_total_refuted. Qed.
Print Assumptions C15_sysbal_equals_total_refuted.

(** Unstaking returns exactly the requested amount and touches nobody else's money. *)
Theorem C15_unstake_returns_exactly : forall c no d m who amt d' m' donated,
  GovInv donated d -> 0 <= amt ->
  exec_unstake c no d m who amt = (EOk, d', m') ->
  bal_of d' who = bal_of d who + amt /\
  d_sysbal d' = d_sysbal d - amt /\
  d_total d' = d_total d - amt /\
  st_amount (get_stake d' who) = st_amount (get_stake d who) - amt /\
  (forall a, a <> who -> bal_of d' a = bal_of d a /\ get_stake d' a = get_stake d a).
Proof. exact unstake_returns_exactly. Qed.
Print Assumptions C15_unstake_returns_exactly.

(** Lock period and minimum stake. *)
Theorem C15_stake_refused_in_lock_period : forall c no d m who amt,
  stake_present d who = true -> no < st_when (get_stake d who) + StakingDelay -> amt <= bal_of d who ->
  fst (fst (exec_stake c no d m who amt)) = ELessTime.
Proof. exact stake_refused_in_lock_period. Qed.
Print Assumptions C15_stake_refused_in_lock_period.

Theorem C15_stake_refused_below_minimum : forall c no d m who amt,
  st_amount (get_stake d who) + amt < staking_min c m ->
  fst (fst (exec_stake c no d m who amt)) <> EOk.
Proof. exact stake_refused_below_minimum. Qed.
Print Assumptions C15_stake_refused_below_minimum.

Theorem C15_unstake_refused : forall c no d m who amt d' m',
  exec_unstake c no d m who amt = (EOk, d', m') ->
  st_when (get_stake d who) + StakingDelay <= no /\ amt <= st_amount (get_stake d who) /\
  (st_amount (get_stake d who) - amt = 0 \/ staking_min c m <= st_amount (get_stake d who) - amt).
Proof. exact unstake_refused. Qed.
Print Assumptions C15_unstake_refused.

Theorem C15_vote_refused : forall c no d m who issue cands d' m',
  exec_vote c no d m who issue cands = (EOk, d', m') ->
  st_amount (get_stake d who) <> 0 /\
  (get_vote d issue who <> None -> st_when (get_stake d who) + VotingDelay <= no).
Proof. exact vote_refused. Qed.
Print Assumptions C15_vote_refused.

(** A rejected governance transaction leaves the durable state unchanged. *)
Theorem C15_rejected_tx_unchanged : forall c no d m t e d' m',
  apply_tx c no d m t = (e, d', m') -> e <> EOk -> d' = d.
Proof. exact rejected_tx_unchanged. Qed.
Print Assumptions C15_rejected_tx_unchanged.

(* ================================================================== voting power rank *)
From Verif Require Import Gov.VprProofs Gov.VprLoad.

(** Buckets stay strictly ordered by account id under vprStore.update, hence a bucket's
    stored bytes are a function of its set of entries. *)
Theorem C15_vpr_bucket_sorted : forall e b, buckets_sorted b -> buckets_sorted (store_update e b).
Proof. exact vpr_bucket_sorted. Qed.
Print Assumptions C15_vpr_bucket_sorted.

Theorem C15_bucket_canonical : forall l1 l2,
  bucket_sorted l1 -> bucket_sorted l2 -> Permutation l1 l2 -> l1 = l2.
Proof. exact bucket_canonical. Qed.
Print Assumptions C15_bucket_canonical.

(** vpr_mem_equals_reload, bucket part (what the state root and pickVotingRewardWinner's walk
    read): in histories in which every executed block state is connected — transactions are
    accepted or refused by validation, no execution on a discarded block state — the stored
    buckets equal the in-memory ones.  _partial: totalPower and the powers map are not
    covered by the proof (they are compared on every run by the correspondence check). *)
Theorem C15_vpr_mem_equals_reload_partial : forall c g ops g',
  Connected c g ops g' -> gmirror (g_d g) (g_m g) -> gmirror (g_d g') (g_m g').
Proof. exact mirror_connected_histories. Qed.
Print Assumptions C15_vpr_mem_equals_reload_partial.

(** The same as an equation between loadVpr(state) and memory: bucket i of the rank rebuilt
    from the state is the in-memory bucket i with the sign of every power dropped
    (big.Int.Bytes(); the identity on the non-negative powers of reachable states).
    Still _partial w.r.t. the whole clause: totalPower and the powers map are not covered. *)
Theorem C15_vpr_mem_equals_reload_buckets_partial : forall c g ops g',
  Connected c g ops g' -> gmirror (g_d g) (g_m g) ->
  forall i, (i < 71)%N ->
    get_bucket i (v_buckets (load_vpr (d_vpr (g_d g')))) = bucket_disk (get_bucket i (v_buckets (m_vpr (g_m g')))).
Proof. exact reload_buckets_equal_memory. Qed.
Print Assumptions C15_vpr_mem_equals_reload_buckets_partial.

(** F12: without that hypothesis the clause fails — one execution on a block state that is
    never connected leaves residue in the process-wide rank. *)
Theorem C15_vpr_mem_equals_reload_refuted :
  exists c g t, g_m g = reload c (g_d g) /\
    let g' := snd (step c (snd (step c g (OGhost t))) (OBlock (g_no g + 1))) in
    v_total (m_vpr (g_m g')) <> v_total (load_vpr (d_vpr (g_d g'))).
Proof. exact vpr_mem_equals_reload_refuted. Qed.
Print Assumptions C15_vpr_mem_equals_reload_refuted.

(** A transaction refused by validation does not touch the process-wide state. *)
Theorem C15_rejected_tx_memory_unchanged : forall c no d m t e d' m',
  apply_tx c no d m t = (e, d', m') -> e <> EOk -> e <> EPanic ->
  (forall who amt, t = TUnstake who amt -> e <> EInsufficient) -> m' = m.
Proof. exact rejected_tx_memory_unchanged. Qed.
Print Assumptions C15_rejected_tx_memory_unchanged.

(* ================================================================== names *)
From Verif Require Import Gov.Names Gov.NamesProofs.

(** A name is bound to at most one owner (and the stored registry never holds two entries
    for one name). *)
Theorem C15_name_one_owner : forall s k o1 d1 o2 d2,
  al_get N.eqb k (n_cur s) = Some (o1, d1) -> al_get N.eqb k (n_cur s) = Some (o2, d2) -> o1 = o2 /\ d1 = d2.
Proof. exact name_one_owner. Qed.
Print Assumptions C15_name_one_owner.

Theorem C15_registry_nodup : forall price s o e s',
  NoDup (map fst (n_cur s)) -> nstep price s o = (e, s') -> NoDup (map fst (n_cur s')).
Proof. exact registry_nodup. Qed.
Print Assumptions C15_registry_nodup.

(** Created only for at least the price, only when free, bound to the creator, nothing else
    changes. *)
Theorem C15_name_create_only_for_price_when_free : forall price s sender name amt s',
  nstep price s (NCreate sender name amt) = (NOk, s') ->
  price <= amt /\ amt <= nbal s sender /\ al_get N.eqb name (n_cur s) = None /\
  al_get N.eqb name (n_cur s') = Some (sender, sender) /\
  (forall k, k <> name -> al_get N.eqb k (n_cur s') = al_get N.eqb k (n_cur s)) /\
  n_namebal s' = n_namebal s + amt.
Proof. exact create_only_for_price_when_free. Qed.
Print Assumptions C15_name_create_only_for_price_when_free.

(** Changed only by its owner — or by a transaction whose account field is the name itself
    (the chain resolves that account to the name's destination before executing). *)
Theorem C15_name_update_only_by_owner : forall price s sender acct name dest amt s',
  nstep price s (NUpdate sender acct name dest amt) = (NOk, s') ->
  price <= amt /\
  (acct = AName name \/ exists o, owner_of s name = Some o /\ acct = AAddr o) /\
  al_get N.eqb name (n_init s) <> None /\
  al_get N.eqb name (n_cur s') = Some (dest, dest) /\
  (forall k, k <> name -> al_get N.eqb k (n_cur s') = al_get N.eqb k (n_cur s)).
Proof. exact update_only_by_owner. Qed.
Print Assumptions C15_name_update_only_by_owner.

Theorem C15_rejected_name_tx_unchanged : forall price s o e s',
  nstep price s o = (e, s') -> e <> NOk -> s' = s.
Proof. exact rejected_name_tx_unchanged. Qed.
Print Assumptions C15_rejected_name_tx_unchanged.

Theorem C15_name_tx_conserves : forall price s o e s',
  (forall a, 0 <= nbal s a) -> nstep price s o = (e, s') -> nsum s' = nsum s /\ (forall a, 0 <= nbal s' a).
Proof. exact name_tx_conserves. Qed.
Print Assumptions C15_name_tx_conserves.

(* ================================================================== parameters *)
From Verif Require Import Gov.ParamProofs.

(** Every candidate of an accepted parameter ballot is a positive number, so what updateParam
    stores (big.Int.Bytes(), sign dropped) is what it keeps in memory for the running node
    (since 0d636195; before it a vote for "-5" made memory and state disagree). *)
Theorem C15_param_vote_no_sign_loss : forall issue vals,
  all_valid_cands issue vals = None ->
  forall s, In s vals -> exists z, parse_dec s = Some z /\ 0 < z /\ Z.abs z = z.
Proof. exact param_vote_no_sign_loss. Qed.
Print Assumptions C15_param_vote_no_sign_loss.

(** VoteResult.threshold is total (since 21a8ebaa: no division by zero for a tally < 100 aer). *)
Theorem C15_threshold_total : forall total power, threshold total power <> None.
Proof. exact threshold_total. Qed.
Print Assumptions C15_threshold_total.

(* ================================================================== stored form of the ranking *)
From Verif Require Import Gov.Serial.

(** deserializeVoteList (serializeVoteList l) = l for 39-byte candidates and amounts shorter than
    39 bytes: the stored ranking is read back exactly. *)
Theorem C15_vote_list_round_trip : forall l,
  Forall entry_wf l -> forall fuel, (length (ser_list l) <= fuel)%nat -> deser_list fuel (ser_list l) = l.
Proof. exact vote_list_round_trip. Qed.
Print Assumptions C15_vote_list_round_trip.

(* ================================================================== BP election snapshots *)
From Verif Require Import Gov.Election.

(** After every history of connected blocks and reorganisations the producer list in office on the
    running node (cached election snapshots) is the one a restarted node installs: the ranking of
    the election reference block of the CURRENT branch. *)
Theorem C15_office_all_histories : forall genesis ops n,
  0 <= best n -> cache_ok n -> (forall o, In o ops -> match o with EReorg r => 0 <= r | _ => True end) ->
  let n' := fold_left estep ops n in office genesis n' = office_restarted genesis n'.
Proof. exact office_all_histories. Qed.
Print Assumptions C15_office_all_histories.

(** seeded/C15-r7 (AddSnapshot reuses a cached entry): refuted after a reorganisation below an
    election block that was already connected. *)
Theorem C15_cached_snapshot_reused_after_reorg_refuted :
  exists ops, let n := fold_left eseeded ops e_start in office [9%nat] n <> office_restarted [9%nat] n.
Proof. exact cached_snapshot_reused_after_reorg_refuted. Qed.
Print Assumptions C15_cached_snapshot_reused_after_reorg_refuted.

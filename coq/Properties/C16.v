(** C16  Raft log storage and membership: durable, truncating correctly, quorum-safe.
    Only statements, each closed by [exact] of a lemma proved in RaftWal/WalProofs.v or
    RaftWal/MembershipProofs.v, followed by [Print Assumptions].

    [wal] is the durable store (the only raft state of ChainDB); [wrun] runs a history of
    operations; [rlog] is the reference log with a compaction base ([spec_run]: an append at
    first index i0 keeps the entries below i0 and replaces the rest, ClearWAL empties it,
    ResetWAL (term, commit) empties it and moves the base to commit); [history_wf]: every
    append batch has consecutive indices and starts between base+1 and last+1 (what the
    consensus library hands over). *)
From Coq Require Import ZArith NArith List Bool.
From Verif Require Import RaftWal.Wal RaftWal.WalProofs RaftWal.Membership RaftWal.MembershipProofs.
Import ListNotations.
Open Scope N_scope.

(** After any history the entry read at every live index is the reference-log entry (the one
    most recently stored there), indices removed by a conflicting overwrite, ClearWAL or
    ResetWAL read as absent, and the last index is the log's. *)
Theorem C16_wal_refines_log : forall ops w,
  history_wf (mk_rlog 0 []) ops -> wrun wal_empty ops = Some w ->
  let r := spec_run (mk_rlog 0 []) ops in
  last_index w = base r + N.of_nat (length (ents r)) /\
  (forall p e, nth_error (ents r) p = Some e -> get_entry w (base r + 1 + N.of_nat p) = ROk e) /\
  (forall j, j <= base r \/ base r + N.of_nat (length (ents r)) < j -> get_entry w j = RErr ENoEntry).
Proof. exact wal_refines_log. Qed.
Print Assumptions C16_wal_refines_log.

(** One append on an uncompacted log: log' = firstn (i0-1) log ++ batch, whether the batch is
    shorter than, as long as, or longer than the suffix it replaces. *)
Theorem C16_write_log_shape : forall w log items w',
  Inv w (mk_rlog 0 log) -> batch_wf (mk_rlog 0 log) items -> write_raft_entry w items = Some w' ->
  Inv w' (mk_rlog 0 (log_append log (map (fun it => fst it) items))).
Proof. exact write_log_shape. Qed.
Print Assumptions C16_write_log_shape.

(** Deleting from ents[0].Index + 1 instead of ents[0].Index would store the same entries
    (the first index of the batch is overwritten anyway): the truncation bound that matters is
    the upper one. *)
Theorem C16_truncate_from_next_is_equivalent : forall w it0 tl j,
  let i0 := e_index (fst it0) in
  let mk := fun m => mk_wal m (w_last w) (w_inv w) (w_blocks w) (w_cc w) (w_hs w) (w_snap w) (w_id w) in
  w_ent (fold_left write_one (it0 :: tl) (mk (del_range (w_ent w) (i0 + 1) (last_index w)))) j =
  w_ent (fold_left write_one (it0 :: tl) (mk (del_range (w_ent w) i0 (last_index w)))) j.
Proof. exact truncate_from_next_is_equivalent. Qed.
Print Assumptions C16_truncate_from_next_is_equivalent.

(** ReadAll after a snapshot at index s hands back identity, hard state and exactly the
    acknowledged log after s, block entries re-materialised from the stored blocks. *)
Theorem C16_read_all_returns_log : forall w r hs s sterm,
  Inv w r -> w_hs w = Some hs -> base r <= s -> s <= base r + N.of_nat (length (ents r)) ->
  (forall e, In e (skipn (N.to_nat (s - base r)) (ents r)) -> conv_ok w e /\ sterm <= e_term e) ->
  read_all w (Some (s, sterm)) = ROk (w_id w, hs, map to_raft (skipn (N.to_nat (s - base r)) (ents r))).
Proof. exact read_all_returns_log. Qed.
Print Assumptions C16_read_all_returns_log.

(** History form: after any well-formed history ReadAll cannot fail on a missing block body —
    every live block entry was written together with its block and block bodies are never
    removed — so a restarted node hands the consensus library exactly the acknowledged log. *)
Theorem C16_read_all_after_history : forall ops w hs s sterm,
  history_wf (mk_rlog 0 []) ops -> wrun wal_empty ops = Some w ->
  let r := spec_run (mk_rlog 0 []) ops in
  w_hs w = Some hs -> base r <= s -> s <= base r + N.of_nat (length (ents r)) ->
  (forall e, In e (skipn (N.to_nat (s - base r)) (ents r)) -> e_type e <= 2 /\ sterm <= e_term e) ->
  read_all w (Some (s, sterm)) = ROk (w_id w, hs, map to_raft (skipn (N.to_nat (s - base r)) (ents r))).
Proof. exact read_all_after_history. Qed.
Print Assumptions C16_read_all_after_history.

(** Every read of the observation is a function of the content of the durable store only:
    a restarted node (new ChainDB on the same store) reads the same WAL. *)
Theorem C16_restart_same_log : forall a b maxi hashes ccids,
  wal_equiv a b -> observe a maxi hashes ccids = observe b maxi hashes ccids.
Proof. exact restart_same_log. Qed.
Print Assumptions C16_restart_same_log.

Theorem C16_hardstate_roundtrip : forall w hs, w_hs (write_hard_state w hs) = Some hs.
Proof. exact hardstate_roundtrip. Qed.
Print Assumptions C16_hardstate_roundtrip.
Theorem C16_snapshot_roundtrip : forall w s, w_snap (write_snapshot w s) = Some s.
Proof. exact snapshot_roundtrip. Qed.
Print Assumptions C16_snapshot_roundtrip.
Theorem C16_identity_roundtrip : forall w i, w_id (write_identity w i) = Some i.
Proof. exact identity_roundtrip. Qed.
Print Assumptions C16_identity_roundtrip.

(** Appending entries never changes hard state, snapshot or identity. *)
Theorem C16_write_entries_keeps_meta : forall w items w', write_raft_entry w items = Some w' ->
  w_hs w' = w_hs w /\ w_snap w' = w_snap w /\ w_id w' = w_id w.
Proof. exact write_entries_keeps_meta. Qed.
Print Assumptions C16_write_entries_keeps_meta.

(** ResetWAL leaves hard state {term, 0, commit}, the best-block snapshot at (commit, term),
    no identity and last index = commit. *)
Theorem C16_reset_meta : forall w t c,
  w_hs (reset_wal w t c) = Some (t, 0, c) /\ w_snap (reset_wal w t c) = Some (c, t, best_snap) /\
  w_id (reset_wal w t c) = None /\ last_index (reset_wal w t c) = c.
Proof. exact reset_meta. Qed.
Print Assumptions C16_reset_meta.

(** The block -> index map returns the index of the most recent entry written for the block,
    over the whole history (entries of truncated blocks are never removed by the code). *)
Theorem C16_invert_points_to_latest : forall ops w h,
  wrun wal_empty ops = Some w -> w_inv w h = history_latest ops h.
Proof. exact invert_points_to_latest_from_empty. Qed.
Print Assumptions C16_invert_points_to_latest.

(** Membership. *)
Theorem C16_add_refused_if_duplicate_attr : forall applied removed m,
  validate_change_membership applied removed 0 (Some m) = VOk ->
  (forall x, In x applied ->
     m_name x <> m_name m /\ m_id x <> m_id m /\ m_addr x <> m_addr m /\ m_peer x <> m_peer m) /\
  is_valid m = true /\ is_exist removed (m_id m) = false.
Proof. exact add_refused_if_duplicate_attr. Qed.
Print Assumptions C16_add_refused_if_duplicate_attr.

Theorem C16_readd_removed_refused : forall applied removed t m,
  m_id m <> 0 -> is_exist removed (m_id m) = true ->
  validate_change_membership applied removed t (Some m) = VAlreadyRemoved.
Proof. exact readd_removed_refused. Qed.
Print Assumptions C16_readd_removed_refused.

Theorem C16_remove_unknown_refused : forall applied removed m,
  is_exist applied (m_id m) = false ->
  validate_change_membership applied removed 1 (Some m) <> VOk.
Proof. exact remove_unknown_refused. Qed.
Print Assumptions C16_remove_unknown_refused.

Theorem C16_remove_healthy_keeps_quorum : forall sid self last gap ps nid p,
  is_enable_change_membership sid true self last gap ps 1 nid = EOk ->
  get_prog ps nid = Some p -> member_state self last gap p = 0 ->
  (healthy_count self last gap ps - 1 >= (Z.of_nat (length ps) - 1) / 2 + 1)%Z.
Proof. exact remove_healthy_keeps_quorum. Qed.
Print Assumptions C16_remove_healthy_keeps_quorum.

(** Over any sequence of validated and applied changes a removed id is never a member again. *)
Theorem C16_removed_never_member_again : forall rs c,
  disjoint_ids c -> disjoint_ids (fold_left apply_req rs c).
Proof. exact removed_never_member_again_run. Qed.
Print Assumptions C16_removed_never_member_again.

(** C16  Raft log storage and membership: durable, truncating correctly, quorum-safe.
    Only statements, each closed by [exact] of a lemma proved in RaftWal/WalProofs.v or
    RaftWal/MembershipProofs.v, followed by [Print Assumptions].

    [wal] is the durable store (the only raft state of ChainDB); [wrun] runs a history of
    operations; [rlog] is the reference log with a compaction base ([spec_run]: an append at
    first index i0 keeps the entries below i0 and replaces the rest, ClearWAL empties it,
    ResetWAL (term, commit) empties it and moves the base to commit); [history_wf]: every
    append batch has consecutive indices and starts between base+1 and last+1 (what the
    consensus library hands over). *)
From Coq Require Import ZArith NArith List Bool.
From Verif Require Import RaftWal.Wal RaftWal.WalProofs RaftWal.Membership RaftWal.MembershipProofs RaftWal.Server RaftWal.ServerProofs.
Import ListNotations.
Open Scope N_scope.

(** After any history the entry read at every live index is the reference-log entry (the one
    most recently stored there), indices removed by a conflicting overwrite, ClearWAL or
    ResetWAL read as absent, and the last index is the log's. *)
Theorem C16_wal_refines_log : forall ops w,
  history_wf (mk_rlog 0 []) ops -> wrun wal_empty ops = Some w ->
  let r := spec_run (mk_rlog 0 []) ops in
  last_index w = base r + N.of_nat (length (ents r)) /\
  (forall p e, nth_error (ents r) p = Some e -> get_entry w (base r + 1 + N.of_nat p) = ROk e) /\
  (forall j, j <= base r \/ base r + N.of_nat (length (ents r)) < j -> get_entry w j = RErr ENoEntry).
Proof. exact wal_refines_log. Qed.
Print Assumptions C16_wal_refines_log.

(** One append on an uncompacted log: log' = firstn (i0-1) log ++ batch, whether the batch is
    shorter than, as long as, or longer than the suffix it replaces. *)
Theorem C16_write_log_shape : forall w log items w',
  Inv w (mk_rlog 0 log) -> batch_wf (mk_rlog 0 log) items -> write_raft_entry w items = Some w' ->
  Inv w' (mk_rlog 0 (log_append log (map (fun it => fst it) items))).
Proof. exact write_log_shape. Qed.
Print Assumptions C16_write_log_shape.

(** Deleting from ents[0].Index + 1 instead of ents[0].Index would store the same entries
    (the first index of the batch is overwritten anyway): the truncation bound that matters is
    the upper one. *)
Theorem C16_truncate_from_next_is_equivalent : forall w it0 tl j,
  let i0 := e_index (fst it0) in
  let mk := fun m => mk_wal m (w_last w) (w_inv w) (w_blocks w) (w_cc w) (w_hs w) (w_snap w) (w_id w) in
  w_ent (fold_left write_one (it0 :: tl) (mk (del_range (w_ent w) (i0 + 1) (last_index w)))) j =
  w_ent (fold_left write_one (it0 :: tl) (mk (del_range (w_ent w) i0 (last_index w)))) j.
Proof. exact truncate_from_next_is_equivalent. Qed.
Print Assumptions C16_truncate_from_next_is_equivalent.

(** ReadAll after a snapshot at index s hands back identity, hard state and exactly the
    acknowledged log after s, block entries re-materialised from the stored blocks. *)
Theorem C16_read_all_returns_log : forall w r hs s sterm,
  Inv w r -> w_hs w = Some hs -> base r <= s -> s <= base r + N.of_nat (length (ents r)) ->
  (forall e, In e (skipn (N.to_nat (s - base r)) (ents r)) -> conv_ok w e /\ sterm <= e_term e) ->
  read_all w (Some (s, sterm)) = ROk (w_id w, hs, map to_raft (skipn (N.to_nat (s - base r)) (ents r))).
Proof. exact read_all_returns_log. Qed.
Print Assumptions C16_read_all_returns_log.

(** History form: after any well-formed history ReadAll cannot fail on a missing block body —
    every live block entry was written together with its block and block bodies are never
    removed — so a restarted node hands the consensus library exactly the acknowledged log. *)
Theorem C16_read_all_after_history : forall ops w hs s sterm,
  history_wf (mk_rlog 0 []) ops -> wrun wal_empty ops = Some w ->
  let r := spec_run (mk_rlog 0 []) ops in
  w_hs w = Some hs -> base r <= s -> s <= base r + N.of_nat (length (ents r)) ->
  (forall e, In e (skipn (N.to_nat (s - base r)) (ents r)) -> e_type e <= 2 /\ sterm <= e_term e) ->
  read_all w (Some (s, sterm)) = ROk (w_id w, hs, map to_raft (skipn (N.to_nat (s - base r)) (ents r))).
Proof. exact read_all_after_history. Qed.
Print Assumptions C16_read_all_after_history.

(** Every read of the observation is a function of the content of the durable store only:
    a restarted node (new ChainDB on the same store) reads the same WAL. *)
Theorem C16_restart_same_log : forall a b maxi hashes ccids,
  wal_equiv a b -> observe a maxi hashes ccids = observe b maxi hashes ccids.
Proof. exact restart_same_log. Qed.
Print Assumptions C16_restart_same_log.

Theorem C16_hardstate_roundtrip : forall w hs, w_hs (write_hard_state w hs) = Some hs.
Proof. exact hardstate_roundtrip. Qed.
Print Assumptions C16_hardstate_roundtrip.
Theorem C16_snapshot_roundtrip : forall w s, w_snap (write_snapshot w s) = Some s.
Proof. exact snapshot_roundtrip. Qed.
Print Assumptions C16_snapshot_roundtrip.
Theorem C16_identity_roundtrip : forall w i, w_id (write_identity w i) = Some i.
Proof. exact identity_roundtrip. Qed.
Print Assumptions C16_identity_roundtrip.

(** Appending entries never changes hard state, snapshot or identity. *)
Theorem C16_write_entries_keeps_meta : forall w items w', write_raft_entry w items = Some w' ->
  w_hs w' = w_hs w /\ w_snap w' = w_snap w /\ w_id w' = w_id w.
Proof. exact write_entries_keeps_meta. Qed.
Print Assumptions C16_write_entries_keeps_meta.

(** ResetWAL leaves hard state {term, 0, commit}, the best-block snapshot at (commit, term),
    no identity and last index = commit. *)
Theorem C16_reset_meta : forall w t c,
  w_hs (reset_wal w t c) = Some (t, 0, c) /\ w_snap (reset_wal w t c) = Some (c, t, best_snap) /\
  w_id (reset_wal w t c) = None /\ last_index (reset_wal w t c) = c.
Proof. exact reset_meta. Qed.
Print Assumptions C16_reset_meta.

(** The block -> index map returns the index of the most recent entry written for the block,
    over the whole history (entries of truncated blocks are never removed by the code). *)
Theorem C16_invert_points_to_latest : forall ops w h,
  wrun wal_empty ops = Some w -> w_inv w h = history_latest ops h.
Proof. exact invert_points_to_latest_from_empty. Qed.
Print Assumptions C16_invert_points_to_latest.

(** Membership. *)
Theorem C16_add_refused_if_duplicate_attr : forall applied removed m,
  validate_change_membership applied removed 0 (Some m) = VOk ->
  (forall x, In x applied ->
     m_name x <> m_name m /\ m_id x <> m_id m /\ m_addr x <> m_addr m /\ m_peer x <> m_peer m) /\
  is_valid m = true /\ is_exist removed (m_id m) = false.
Proof. exact add_refused_if_duplicate_attr. Qed.
Print Assumptions C16_add_refused_if_duplicate_attr.

Theorem C16_readd_removed_refused : forall applied removed t m,
  m_id m <> 0 -> is_exist removed (m_id m) = true ->
  validate_change_membership applied removed t (Some m) = VAlreadyRemoved.
Proof. exact readd_removed_refused. Qed.
Print Assumptions C16_readd_removed_refused.

Theorem C16_remove_unknown_refused : forall applied removed m,
  is_exist applied (m_id m) = false ->
  validate_change_membership applied removed 1 (Some m) <> VOk.
Proof. exact remove_unknown_refused. Qed.
Print Assumptions C16_remove_unknown_refused.

Theorem C16_remove_healthy_keeps_quorum : forall sid self last gap ps nid p,
  is_enable_change_membership sid true self last gap ps 1 nid = EOk ->
  get_prog ps nid = Some p -> member_state self last gap p = 0 ->
  (healthy_count self last gap ps - 1 >= (Z.of_nat (length ps) - 1) / 2 + 1)%Z.
Proof. exact remove_healthy_keeps_quorum. Qed.
Print Assumptions C16_remove_healthy_keeps_quorum.

(** Over any sequence of validated and applied changes a removed id is never a member again. *)
Theorem C16_removed_never_member_again : forall rs c,
  disjoint_ids c -> disjoint_ids (fold_left apply_req rs c).
Proof. exact removed_never_member_again_run. Qed.
Print Assumptions C16_removed_never_member_again.

(** raftserver.go around restart and snapshot.  replayWAL: after any well-formed history, with
    identity and hard state stored and the stored snapshot (index > 0) inside the log, the
    consensus library's storage is started with exactly the acknowledged log after the snapshot,
    the stored hard state, and a last index equal to the WAL's. *)
Theorem C16_replay_hands_over_log : forall ops w hs idn s sterm,
  history_wf (mk_rlog 0 []) ops -> wrun wal_empty ops = Some w ->
  let r := spec_run (mk_rlog 0 []) ops in
  w_hs w = Some hs -> w_id w = Some idn ->
  ((exists dat, w_snap w = Some (s, sterm, dat) /\ 0 < s) \/ (w_snap w = None /\ s = 0 /\ sterm = 0)) ->
  base r <= s -> s <= base r + N.of_nat (length (ents r)) ->
  (forall e, In e (skipn (N.to_nat (s - base r)) (ents r)) -> e_type e <= 2 /\ sterm <= e_term e) ->
  exists m, replay w = Some m /\ ms_snap m = (s, sterm) /\ ms_hs m = hs /\
            ms_ents m = map to_raft (skipn (N.to_nat (s - base r)) (ents r)) /\
            ms_last m = last_index w.
Proof. exact replay_hands_over_log. Qed.
Print Assumptions C16_replay_hands_over_log.

(** entriesToApply: exactly the committed entries above appliedIndex, none twice, none skipped. *)
Theorem C16_entries_to_apply_spec : forall applied i0 ents,
  consecutive_r i0 ents = true -> i0 <= applied + 1 -> ents <> [] ->
  exists l, entries_to_apply applied ents = Some l /\
            forall e, In e l <-> (In e ents /\ applied < r_index e).
Proof. exact entries_to_apply_spec. Qed.
Print Assumptions C16_entries_to_apply_spec.

(** triggerSnapshot: the snapshot written to the WAL is at the last connected index; the in-memory
    log is only compacted forward; nothing happens within the snapshot frequency; as configured
    (catch-up entries = snapshot frequency) a triggered snapshot compacts forward to an index in
    (off, idx] and advances rs.snapshotIndex.  (With a catch-up window larger than the frequency
    — only reachable through the DEBUG_RAFT_SNAP_FREQ test hook — Compact answers ErrCompacted and
    rs.snapshotIndex is not advanced: modelled, listed in the notes.) *)
Theorem C16_trigger_snapshot_spec : forall idx snap freq catchup off s k i,
  trigger_snapshot idx snap freq catchup off = Some (s, k, i) ->
  s = idx /\ off <= k /\ (snap <= idx -> freq < idx - snap) /\
  (off < (if catchup <? idx then idx - catchup else 1) -> k = (if catchup <? idx then idx - catchup else 1) /\ 1 <= k /\ k <= s /\ i = idx).
Proof. exact trigger_snapshot_spec. Qed.
Print Assumptions C16_trigger_snapshot_spec.
Theorem C16_trigger_snapshot_waits : forall idx snap freq catchup off,
  snap <= idx -> idx - snap <= freq -> trigger_snapshot idx snap freq catchup off = None.
Proof. exact trigger_snapshot_waits. Qed.
Print Assumptions C16_trigger_snapshot_waits.
Theorem C16_trigger_snapshot_advances : forall idx snap freq off s k i,
  off <= snap -> snap <= idx -> trigger_snapshot idx snap freq freq off = Some (s, k, i) ->
  i = idx /\ off < k /\ k <= idx.
Proof. exact trigger_snapshot_advances. Qed.
Print Assumptions C16_trigger_snapshot_advances.

(** HasWal accepts exactly a stored identity with the configured name and peer id plus a hard state. *)
Theorem C16_has_wal_spec : forall w name peer,
  has_wal w name peer = 0 <-> exists c i, w_id w = Some (c, i, name, peer) /\ w_hs w <> None.
Proof. exact has_wal_spec. Qed.
Print Assumptions C16_has_wal_spec.

(** One membership change in flight: a second proposal is refused while one is saved; a
    completion for another request id does not free the slot; a busy channel leaves nothing saved. *)
Theorem C16_submit_while_pending_refused : forall s c x, ps_saved s = Some c -> submit s x = (s, PPending).
Proof. exact submit_while_pending_refused. Qed.
Print Assumptions C16_submit_while_pending_refused.
Theorem C16_after_other_id_ignored : forall s c x, ps_saved s = Some c -> c <> x -> after_conf_change s x = s.
Proof. exact after_other_id_ignored. Qed.
Print Assumptions C16_after_other_id_ignored.
Theorem C16_submit_busy_leaves_nothing : forall s x s', submit s x = (s', PBusy) -> ps_saved s' = None /\ ps_chan s' = ps_chan s.
Proof. exact submit_busy_leaves_nothing. Qed.
Print Assumptions C16_submit_busy_leaves_nothing.

(** A requester's time-out (recvConfChangeReply) does not free the proposal slot, and over any
    sequence of requests, completions, takes and time-outs at most one membership change is in
    flight (accepted and not yet applied): every further request is refused until it is applied. *)
Theorem C16_timeout_keeps_pending : forall s c x, ps_saved s = Some c -> submit (reply_timeout s) x = (s, PPending).
Proof. exact timeout_keeps_pending. Qed.
Print Assumptions C16_timeout_keeps_pending.
Theorem C16_one_change_in_flight : forall ops cap,
  let st := fold_left pstep ops (mk_ps None [] cap, []) in
  (length (snd st) <= 1)%nat /\
  forall c x, In c (snd st) -> submit (fst st) x = (fst st, PPending).
Proof. exact one_change_in_flight. Qed.
Print Assumptions C16_one_change_in_flight.

(** Cluster.Recover(snapshot): applied ids = the snapshot's members, removed ids = the snapshot's
    removed members (both branches), so a removed id is still refused after a restart. *)
Theorem C16_recover_ids : forall c ms rs id,
  is_exist (fst (recover c ms rs)) id = is_exist ms id /\ is_exist (snd (recover c ms rs)) id = is_exist rs id.
Proof. exact recover_ids. Qed.
Print Assumptions C16_recover_ids.
Theorem C16_removed_refused_after_recover : forall c ms rs applied' t m,
  m_id m <> 0 -> is_exist rs (m_id m) = true ->
  validate_change_membership applied' (snd (recover c ms rs)) t (Some m) = VAlreadyRemoved.
Proof. exact removed_refused_after_recover. Qed.
Print Assumptions C16_removed_refused_after_recover.

(** Crash points.  The write units of an operation (one DB transaction / bulk flush each), run one
    after the other, are the operation; for WalDB.SaveEntry as the consensus library calls it (batch
    above the stored commit, new commit inside the new log) the state after EVERY prefix of its units
    is consistent — reference log plus a stored commit index inside it, so ReadAll / replayWAL hand
    over a state the library accepts; the opposite unit order is not crash safe; ClearWAL / ResetWAL
    leave no WAL identity in any intermediate state (HasWal false: the node starts over). *)
(** createSnapshotData lists ALL members of the id-indexed maps (sorted by name): same multiset,
    |array| = |MapByID|; in particular the removed set keeps two removed members that had the
    same name one after the other. *)
From Coq Require Import Permutation.
Theorem C16_snapshot_members_complete : forall c,
  Permutation (fst (snapshot_data c)) (fst c) /\ Permutation (snd (snapshot_data c)) (snd c) /\
  length (fst (snapshot_data c)) = length (fst c) /\ length (snd (snapshot_data c)) = length (snd c) /\
  forall id, is_exist (snd (snapshot_data c)) id = is_exist (snd c) id.
Proof. exact snapshot_members_complete. Qed.
Print Assumptions C16_snapshot_members_complete.

(** [srun]: validated changes, marks and snapshot round trips (snapshot data of the running
    cluster recovered into the initial configuration, an empty cluster, or the lagging follower
    saved at the last mark).  An id once removed stays removed, is never an applied member
    again, and every change naming it is refused — whatever names, addresses or peer ids were
    used again in between. *)
Theorem C16_removed_never_member_again_through_snapshots : forall init l st id,
  disjoint_ids (fst st) -> is_exist (snd (fst st)) id = true ->
  let c' := fst (srun init st l) in
  is_exist (snd c') id = true /\ is_exist (fst c') id = false /\
  forall t m, m_id m = id -> id <> 0 -> validate_change_membership (fst c') (snd c') t (Some m) = VAlreadyRemoved.
Proof. exact removed_never_member_again_through_snapshots. Qed.
Print Assumptions C16_removed_never_member_again_through_snapshots.

Theorem C16_units_compose : forall w o, (forall u, o <> WUnit u) -> wrun w (units_of o) = wstep w o.
Proof. exact units_compose. Qed.
Print Assumptions C16_units_compose.

Theorem C16_crash_prefix_consistent : forall w r items hs k,
  wal_consistent w r -> batch_wf r items ->
  (forall t v c, w_hs w = Some (t, v, c) -> match items with [] => True | it0 :: _ => c < e_index (fst it0) end) ->
  snd hs <= base r + N.of_nat (length (ents (spec_write r items))) ->
  exists w', wrun w (firstn k (save_units items hs)) = Some w' /\
             wal_consistent w' (match k with O => r | _ => spec_write r items end).
Proof. exact crash_prefix_consistent. Qed.
Print Assumptions C16_crash_prefix_consistent.

Theorem C16_hardstate_first_not_crash_safe :
  let w0 := wrun wal_empty [WIdent (1, 1, 1, 1); WWrite [E 0 1 1 1; E 0 1 2 2; E 0 1 3 3]; WHard (1, 1, 3)] in
  match w0 with
  | Some w => match wrun w (firstn 1 [WHard (1, 1, 5); WWrite [E 0 1 4 4; E 0 1 5 5]]) with
              | Some w' => last_index w' = 3 /\ w_hs w' = Some (1, 1, 5)
              | None => False
              end
  | None => False
  end.
Proof. exact hardstate_first_not_crash_safe. Qed.
Print Assumptions C16_hardstate_first_not_crash_safe.

Theorem C16_clear_reset_prefix_no_identity : forall w o k w',
  (o = WClear \/ exists t c, o = WReset t c) -> (0 < k)%nat ->
  wrun w (firstn k (units_of o)) = Some w' -> w_id w' = None.
Proof. exact clear_reset_prefix_no_identity. Qed.
Print Assumptions C16_clear_reset_prefix_no_identity.

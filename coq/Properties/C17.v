(** C17  Block sync delivers a gap-free ascending linked chain from a true common ancestor. *)
From Coq Require Import ZArith NArith List Bool.
From Verif Require Import Syncer.Model Syncer.Proofs.
Import ListNotations.

Theorem C17_conn_queue_push_length : forall c q, length (conn_push c q) = S (length q).
Proof. exact conn_push_length. Qed.
Print Assumptions C17_conn_queue_push_length.

(** C17  Block sync delivers a gap-free ascending linked chain from a true common ancestor.
    Only statements, each closed by [exact] of a lemma proved in Syncer/*.v, followed by
    [Print Assumptions].  Models: Syncer/Model.v (BlockFetcher + BlockProcessor after the F16
    repair), Syncer/Finder.v, Syncer/Session.v. *)
From Coq Require Import ZArith NArith List Bool.
From Verif Require Import Syncer.Model Syncer.Proofs Syncer.Theorems Syncer.Progress Syncer.Idle Syncer.HashFetcher Syncer.Finder Syncer.FinderProofs Syncer.Session.
From Verif Require Gen.SeqCases Syncer.SeqCheck.
Import ListNotations.

(** The invariant of the fetcher/processor loop is kept by every event (any response of any
    peer, stale or not, timeouts, hash sets, acknowledgements), and what one event hands to
    the chain service continues the chain delivered so far. *)
Theorem C17_step_inv : forall L c s e s' o, Inv L s -> ev_ok L e -> step c s e = (s', o) ->
  Inv L s' /\ chain_from L (last_of s) (delivered o) /\ last_of s' = last (delivered o) (last_of s).
Proof. exact step_ok. Qed.
Print Assumptions C17_step_inv.

(** For every event sequence the delivered blocks have heights ancestor+1, +2, ... (no gap,
    no duplicate) and each is the block the hash list names at its height. *)
Theorem C17_delivered_contiguous : forall L c np anc es s o i b,
  Forall (ev_ok L) es -> run c (init_st np anc) es = (s, o) ->
  nth_error (delivered o) i = Some b ->
  b_no b = (b_no anc + 1 + N.of_nat i)%N /\ L (b_no b) = Some (b_hash b).
Proof. exact delivered_contiguous. Qed.
Print Assumptions C17_delivered_contiguous.

(** Each delivered block is a child of the previously delivered one, the first of the
    common ancestor (full after the F16 repair). *)
Theorem C17_delivered_linked : forall L c np anc es s o i b,
  Forall (ev_ok L) es -> run c (init_st np anc) es = (s, o) ->
  nth_error (delivered o) i = Some b ->
  b_prev b = b_hash (match i with O => anc | S j => nth j (delivered o) anc end).
Proof. exact delivered_linked. Qed.
Print Assumptions C17_delivered_linked.

(** F16: the unrepaired pop test (first block number only) delivers Y3 after X2 for a hash
    list spliced on a chunk boundary and reports success. *)
Theorem C17_delivered_linked_refuted_unrepaired :
  let '(_, o) := run_with pop_conn_f16 f16_cfg (init_st 2 f16_anc) f16_events in
  delivered o = [mkBlk 1 101 100; mkBlk 2 102 101; mkBlk 3 203 202; mkBlk 4 204 203]
  /\ stops o = [E_OK].
Proof. exact delivered_linked_refuted_unrepaired. Qed.
Print Assumptions C17_delivered_linked_refuted_unrepaired.

(** Completion: the successful stop is sent only for the acknowledgement of the block being
    connected when that block is the target ... *)
Theorem C17_success_stop_only_for_target : forall c s e s' o,
  step c s e = (s', o) -> In (OStop E_OK) o ->
  exists cb, cur_blk s = Some cb /\ b_no cb = c_target c
             /\ e = EAddRsp (b_no cb) (Some (b_hash cb)) false.
Proof. exact success_stop_only_for_target. Qed.
Print Assumptions C17_success_stop_only_for_target.

(** At most one successful stop in a session, and the progress measure (twice the height of
    the last block handed over, +1 once acknowledged) never decreases. *)
Theorem C17_success_at_most_once : forall L c np anc es s o,
  Forall (ev_ok L) es -> run c (init_st np anc) es = (s, o) ->
  (count_ok o <= 1)%nat /\ (phase (init_st np anc) <= phase s)%N.
Proof. exact success_at_most_once. Qed.
Print Assumptions C17_success_at_most_once.

(** Whenever no block is being connected and the loop has not stopped, no chunk is
    half-consumed and the head of the connect queue is not the next block: a fetched next
    chunk is always taken up at once (support for "stops or completes"; liveness of the
    goroutines is outside the model). *)
Theorem C17_never_sits_on_next_chunk_partial : forall L c np anc es s o,
  Forall (ev_ok L) es -> run c (init_st np anc) es = (s, o) -> idle_ok s.
Proof. exact never_sits_on_next_chunk. Qed.
Print Assumptions C17_never_sits_on_next_chunk_partial.

(** A failed (timed out / rejected) chunk at the head of the retry queue is re-requested as soon
    as a peer is free and a fetch slot is open, however full the connect queue is. *)
Theorem C17_retry_task_always_schedulable : forall k c s p fr t r,
  free s = p :: fr -> (length (running s) < max_tasks c)%nat ->
  retry s = t :: r -> (0 < t_retry t)%nat -> all_bad s = false ->
  exists s' outs e, schedule (S k) c s = (s', OReq (p_no p) (t_hashes t) :: outs, e).
Proof. exact retry_task_always_schedulable. Qed.
Print Assumptions C17_retry_task_always_schedulable.

(** ... every error is reported together with leaving the loop, after which nothing more
    is sent. *)
Theorem C17_error_stops : forall c s o e s' o',
  finish c (s, o, Some e) = (s', o') -> stopped s' = true /\ o' = o ++ [OStop e].
Proof. exact error_stops. Qed.
Print Assumptions C17_error_stops.

Theorem C17_stopped_ignores_events : forall c s e, stopped s = true -> step c s e = (s, []).
Proof. exact stopped_ignores_events. Qed.
Print Assumptions C17_stopped_ignores_events.

(** A late AddBlockRsp of an earlier session (it carries no sequence number) that does not
    name the block being connected can only stop the session with an error. *)
Theorem C17_stale_add_rsp_stops : forall c s no h,
  stopped s = false ->
  (match cur_blk s with Some cb => b_no cb <> no \/ b_hash cb <> h | None => True end) ->
  exists err, step c s (EAddRsp no (Some h) false) = (set_stopped s, [OStop err]) /\ err <> E_OK.
Proof. exact stale_add_rsp_stops. Qed.
Print Assumptions C17_stale_add_rsp_stops.

(** Session layer: after any stop a new session starts with a fresh sequence number;
    messages carrying an old number are dropped; AddBlockRsp is not (see above). *)
Theorem C17_new_session_can_start : forall s q target best,
  srunning s = true -> q = seq s -> (best < target)%N ->
  let s1 := fst (recv s (MStop q)) in
  recv s1 (MStart target best) = (mkSess (seq s + 1) true, Started).
Proof. exact new_session_can_start. Qed.
Print Assumptions C17_new_session_can_start.

Theorem C17_stale_sequence_dropped : forall s q, (q <> seq s)%N ->
  recv s (MSeq q) = (s, Dropped) /\ recv s (MStop q) = (s, Dropped).
Proof. exact stale_sequence_dropped. Qed.
Print Assumptions C17_stale_sequence_dropped.

(** Finder: the light scan's result is one of the local anchors and on the remote main chain
    when the peer answers with its findAncestor; whatever the peer answers the result lies
    between the lowest anchor and the target. *)
Theorem C17_ancestor_is_common : forall lc rc target h no,
  lightscan lc target (find_ancestor rc (anchor_hashes lc)) = LFound h no ->
  (exists a, In a (anchors lc) /\ hash_at lc a = Some h) /\ hash_at rc no = Some h
  /\ (last_anchor lc <= no < target)%N.
Proof. exact ancestor_is_common. Qed.
Print Assumptions C17_ancestor_is_common.

Theorem C17_lightscan_range : forall lc target ans h no,
  lightscan lc target ans = LFound h no -> ans = Some (h, no) /\ (last_anchor lc <= no < target)%N.
Proof. exact lightscan_range. Qed.
Print Assumptions C17_lightscan_range.

(** Binary search returns the highest common height when the chains share exactly a prefix
    of [m] blocks within the searched range and the peer reports its own hashes. *)
Theorem C17_fullscan_highest_common : forall lc rc m right fuel,
  (forall i, (i < m)%N -> exists h, hash_at lc i = Some h /\ hash_at rc i = Some h) ->
  (forall i, (m <= i <= right)%N -> exists a b, hash_at lc i = Some a /\ hash_at rc i = Some b /\ a <> b) ->
  (m <= right + 1)%N -> (N.to_nat (right + 1) < fuel)%nat ->
  bin_search fuel lc (truthful rc) 0 right None =
  inl (if (m =? 0)%N then None
       else match hash_at lc (m - 1) with Some h => Some (h, m - 1)%N | None => None end).
Proof. exact fullscan_highest_common. Qed.
Print Assumptions C17_fullscan_highest_common.

(** The height handed to the full scan as "last anchor" is the height of an anchor of the list,
    and the full scan covers every height below it: with the fork at or below the lowest
    anchor the highest common block is found. *)
Theorem C17_last_anchor_is_an_anchor : forall lc, In (last_anchor lc) (anchors lc).
Proof. exact last_anchor_is_an_anchor. Qed.
Print Assumptions C17_last_anchor_is_an_anchor.

Theorem C17_fullscan_range_covers_below_last_anchor : forall lc rc m fuel,
  (0 < last_anchor lc)%N -> (m <= last_anchor lc)%N ->
  (forall i, (i < m)%N -> exists h, hash_at lc i = Some h /\ hash_at rc i = Some h) ->
  (forall i, (m <= i < last_anchor lc)%N -> exists a b, hash_at lc i = Some a /\ hash_at rc i = Some b /\ a <> b) ->
  (N.to_nat (last_anchor lc) < fuel)%nat ->
  bin_search fuel lc (truthful rc) 0 (last_anchor lc - 1) None =
  inl (if (m =? 0)%N then None
       else match hash_at lc (m - 1) with Some h => Some (h, m - 1)%N | None => None end).
Proof. exact fullscan_range_covers_below_last_anchor. Qed.
Print Assumptions C17_fullscan_range_covers_below_last_anchor.

(** HashFetcher: whatever the peer answers, the hash sets handed to the BlockFetcher are
    consecutive non-empty ranges from ancestor+1, hence agree with one hash list: the premise
    [ev_ok] of the delivery theorems is what the HashFetcher guarantees. *)
Theorem C17_hashsets_consecutive : forall maxreq target rs s,
  consecutive (hf_last_no s) (hf_run maxreq target s rs).
Proof. exact hashsets_consecutive. Qed.
Print Assumptions C17_hashsets_consecutive.

Theorem C17_hashsets_agree_with_one_list : forall maxreq target rs s,
  exists L, Forall (fun x => ev_ok L (EHashSet (fst x) (snd x))) (hf_run maxreq target s rs).
Proof. exact hashsets_agree_with_one_list. Qed.
Print Assumptions C17_hashsets_agree_with_one_list.

(** The HashFetcher goroutine with its response timer as an event: after any history (response
    then expiry, expiry then response, ...) closing quitCh ends the goroutine, so Reset's wait
    on it returns; the drain idiom `if !timer.Stop() { <-timer.C }` does not have this property. *)
Theorem C17_hashfetcher_exits_after_stop : forall es,
  hl_loc (hl_run false hl_init (es ++ [HQuit])) = LExited.
Proof. exact hashfetcher_exits_after_stop. Qed.
Print Assumptions C17_hashfetcher_exits_after_stop.

Theorem C17_drain_idiom_refuted :
  hl_loc (hl_run true hl_init [HFire; HReadTimer; HRsp; HQuit]) = LBlockedOnTimer.
Proof. exact drain_idiom_refuted. Qed.
Print Assumptions C17_drain_idiom_refuted.

(** Tie of the session theorems to the source, per message type: every message type consumed by
    Syncer.handleMessage that carries a Seq field is a pointer case of verifySeq (go/ast translator
    gen/gen_seqcases.go, reflection). *)
Theorem C17_verify_seq_covers_consumed_messages : Syncer.SeqCheck.seq_cases_ok = true.
Proof. exact Syncer.SeqCheck.verify_seq_covers_consumed_messages. Qed.
Print Assumptions C17_verify_seq_covers_consumed_messages.

(** The finder's wait for the ancestor answer has one deadline fixed at request time: ignored
    (below-anchor) answers, however many and however spaced, do not extend it; re-arming the timer
    per ignored answer does (refuted variant). *)
Theorem C17_ancestor_wait_bounded : forall evs timeout left, (left <= timeout)%N ->
  (wait_time false left timeout evs <= timeout)%N.
Proof. exact ancestor_wait_bounded. Qed.
Print Assumptions C17_ancestor_wait_bounded.

Theorem C17_ancestor_wait_rearmed_refuted :
  wait_time true 300 300 [100; 100; 100; 100; 100; 100; 100; 100; 100; 100]%N = 1300%N.
Proof. exact ancestor_wait_rearmed_refuted. Qed.
Print Assumptions C17_ancestor_wait_rearmed_refuted.

(** C18  P2P boundary: bounded framing, handshake only with same-chain peers,
    content-addressed blocks.  Only statements, each closed by [exact] of a lemma proved in
    P2P/*Proofs.v, followed by [Print Assumptions]. *)
From Coq Require Import NArith List Bool.
From Verif Require Import Common.Bytes Codec.ChainId.
From Verif Require Import P2P.Frame P2P.FrameProofs P2P.Handshake P2P.HandshakeProofs
  P2P.Inbound P2P.InboundProofs P2P.BlockId P2P.BlockIdProofs P2P.Stream P2P.StreamProofs
  P2P.BlockRecv P2P.BlockRecvProofs P2P.WireHS P2P.WireHSProofs P2P.StatusRaw P2P.StatusRawProofs
  P2P.Limits.
From Verif Require P2P.ChainAdmit P2P.ChainAdmitProofs.
Import ListNotations.
Open Scope N_scope.

(** * Framing (p2p/v030/v030io.go) *)

(** A well-formed message written by WriteMsg is read back identically by ReadMsg,
    whatever follows it in the stream; the allocation is the payload length. *)
Theorem C18_read_write_roundtrip : forall max m rest,
  msg_wf max m ->
  exists bs, write_msg max m = Some bs /\
             read_msg max (bs ++ rest) = mk_rr (ROk m rest) (blen (m_payload m)).
Proof. exact read_write_roundtrip. Qed.
Print Assumptions C18_read_write_roundtrip.

(** Reading from an arbitrary byte stream never requests more than the maximum payload. *)
Theorem C18_read_alloc_bounded : forall max s, alloc (read_msg max s) <= max.
Proof. exact read_alloc_bounded. Qed.
Print Assumptions C18_read_alloc_bounded.

(** Reading from an arbitrary byte stream never panics. *)
Theorem C18_read_total : forall max s, outcome_of (read_msg max s) <> RPanic.
Proof. exact read_total. Qed.
Print Assumptions C18_read_total.

(** Every strict prefix of a written frame fails cleanly: header error below 48 bytes,
    payload error from there on (allocation = announced length <= max). *)
Theorem C18_read_truncated_clean : forall max m bs p q,
  msg_wf max m -> write_msg max m = Some bs -> bs = p ++ q -> q <> [] ->
  (blen p < header_len /\ read_msg max p = mk_rr RErrHeader 0) \/
  (header_len <= blen p /\ read_msg max p = mk_rr RErrPayload (m_length m)).
Proof. exact read_truncated_clean. Qed.
Print Assumptions C18_read_truncated_clean.

(** A header announcing more than the maximum is refused before anything is allocated. *)
Theorem C18_read_oversize_clean : forall max s,
  header_len <= blen s -> max < be_decode (sub 4 8 (take header_len s)) ->
  read_msg max s = mk_rr RErrTooBig 0.
Proof. exact read_oversize_clean. Qed.
Print Assumptions C18_read_oversize_clean.

(** Success consumes exactly header + payload and returns a payload of the announced
    length, at most max. *)
Theorem C18_read_ok_shape : forall max s m rest a,
  read_msg max s = mk_rr (ROk m rest) a ->
  a = blen (m_payload m) /\ m_length m = a /\ a <= max /\
  s = take header_len s ++ m_payload m ++ rest /\ blen (take header_len s) = header_len.
Proof. exact read_ok_shape. Qed.
Print Assumptions C18_read_ok_shape.

(** Framing is injective on well-formed messages. *)
Theorem C18_write_msg_injective : forall max m1 m2 bs,
  msg_wf max m1 -> msg_wf max m2 -> write_msg max m1 = Some bs -> write_msg max m2 = Some bs -> m1 = m2.
Proof. exact write_msg_injective. Qed.
Print Assumptions C18_write_msg_injective.

(** A stream of written frames is read back message by message, then a clean end. *)
Theorem C18_read_all_roundtrip : forall max ms,
  Forall (msg_wf max) ms ->
  exists bs, fold_right (fun m acc => match write_msg max m, acc with
                                      | Some b, Some r => Some (b ++ r) | _, _ => None end)
                        (Some []) ms = Some bs /\
             read_all (S (length ms)) max bs = (ms, RErrHeader).
Proof. exact read_all_roundtrip. Qed.
Print Assumptions C18_read_all_roundtrip.

(** A connection is a stream of frames: every message written by the writer of a connection
    is read back by its reader, in order, and all of them are still what was written once the
    whole stream has been read (messages are values in the model; the frame engine holds on to
    the real Message objects of a stream and compares them after the last read). *)
Theorem C18_read_stream_write_stream : forall max ms,
  Forall (msg_wf max) ms ->
  exists bs, write_stream max ms = Some bs /\ read_stream max bs = ms /\ read_stream_end max bs = RErrHeader.
Proof. exact read_stream_write_stream. Qed.
Print Assumptions C18_read_stream_write_stream.

(** A refused WriteMsg ("Invalid payload size", "too big payload") puts nothing on the wire,
    neither at once nor at a later flush of the same writer ... *)
Theorem C18_refused_write_emits_nothing : forall max m e b,
  write_msg_emit max m = (Some e, b) -> b = [].
Proof. exact refused_write_emits_nothing. Qed.
Print Assumptions C18_refused_write_emits_nothing.

(** ... so on one long-lived writer with refused writes interleaved, one reader gets exactly
    the accepted messages, in order, and then a clean end. *)
Theorem C18_read_stream_mixed_writes : forall max ms,
  (forall m, In m ms -> accepted max m = true -> msg_wf max m) ->
  read_stream max (write_stream_mixed max ms) = filter (accepted max) ms /\
  read_stream_end max (write_stream_mixed max ms) = RErrHeader.
Proof. exact read_stream_mixed_writes. Qed.
Print Assumptions C18_read_stream_mixed_writes.

(** * Handshake (v200handshake.go, v033handshake.go, v032handshake.go, v030handshake.go) *)

Theorem C18_handshake_ok_implies_same_chain_v200 : forall l st,
  check_remote_status_v200 l st = None ->
  exists rc, chain_id_read (st_chain_id st) = Some rc /\
    cid_version rc = cid_version (l_chain_id_at l (st_best_height st)) /\
    cid_public rc = cid_public (l_chain_id_at l (st_best_height st)) /\
    cid_main rc = cid_main (l_chain_id_at l (st_best_height st)) /\
    cid_magic rc = cid_magic (l_chain_id_at l (st_best_height st)) /\
    cid_consensus rc = cid_consensus (l_chain_id_at l (st_best_height st)) /\
    st_genesis st = l_genesis l /\ st_peer_id st = l_peer_id l.
Proof. exact handshake_ok_implies_same_chain_v200. Qed.
Print Assumptions C18_handshake_ok_implies_same_chain_v200.

Theorem C18_handshake_ok_implies_same_chain_v033 : forall l st,
  check_remote_status_v033 l st = None ->
  exists rc, chain_id_read (st_chain_id st) = Some rc /\
    cid_version rc = cid_version (l_chain_id_at l (st_best_height st)) /\
    cid_public rc = cid_public (l_chain_id_at l (st_best_height st)) /\
    cid_main rc = cid_main (l_chain_id_at l (st_best_height st)) /\
    cid_magic rc = cid_magic (l_chain_id_at l (st_best_height st)) /\
    cid_consensus rc = cid_consensus (l_chain_id_at l (st_best_height st)) /\
    st_genesis st = l_genesis l /\ st_peer_id st = l_peer_id l.
Proof. exact handshake_ok_implies_same_chain_v033. Qed.
Print Assumptions C18_handshake_ok_implies_same_chain_v033.

Theorem C18_handshake_ok_implies_same_chain_v032 : forall l st,
  check_remote_status_v032 l st = None ->
  exists rc, chain_id_read (st_chain_id st) = Some rc /\
    cid_version rc = cid_version (l_static_chain_id l) /\
    cid_public rc = cid_public (l_static_chain_id l) /\
    cid_main rc = cid_main (l_static_chain_id l) /\
    cid_magic rc = cid_magic (l_static_chain_id l) /\
    cid_consensus rc = cid_consensus (l_static_chain_id l) /\
    st_genesis st = l_genesis l /\ st_peer_id st = l_peer_id l.
Proof. exact handshake_ok_implies_same_chain_v032. Qed.
Print Assumptions C18_handshake_ok_implies_same_chain_v032.

(** Exact acceptance condition of the current handshaker. *)
Theorem C18_v200_accept_iff : forall l st,
  check_remote_status_v200 l st = None <->
  same_chain (l_chain_id_at l (st_best_height st)) l st /\ st_addr_ok st = true /\
  blen (st_best_hash st) = hash_id_length /\ st_cert_ok st = true.
Proof. exact v200_accept_iff. Qed.
Print Assumptions C18_v200_accept_iff.

(** Per-field refusals, for each of the three strict handshakers (2.0.0, 0.3.3, 0.3.2). *)
Theorem C18_refuse_undecodable_chain_id : forall c lc, strict_checker c lc ->
  forall l st, chain_id_read (st_chain_id st) = None -> c l st = Some EChainIdRead.
Proof. exact refuse_undecodable_chain_id. Qed.
Print Assumptions C18_refuse_undecodable_chain_id.

Theorem C18_refuse_chain_id_field : forall c lc, strict_checker c lc ->
  forall l st rc, chain_id_read (st_chain_id st) = Some rc ->
  (cid_version rc <> cid_version (lc l st) \/ cid_public rc <> cid_public (lc l st) \/
   cid_main rc <> cid_main (lc l st) \/ cid_magic rc <> cid_magic (lc l st) \/
   cid_consensus rc <> cid_consensus (lc l st)) ->
  c l st = Some EChainIdDiff.
Proof. exact refuse_chain_id_field. Qed.
Print Assumptions C18_refuse_chain_id_field.

Theorem C18_refuse_genesis : forall c lc, strict_checker c lc ->
  forall l st, st_genesis st <> l_genesis l -> c l st <> None.
Proof. exact refuse_genesis. Qed.
Print Assumptions C18_refuse_genesis.

Theorem C18_refuse_peer_id : forall c lc, strict_checker c lc ->
  forall l st, st_peer_id st <> l_peer_id l -> c l st <> None.
Proof. exact refuse_peer_id. Qed.
Print Assumptions C18_refuse_peer_id.

(** A status differing from an accepted one in exactly the genesis / the peer id / (2.0.0)
    the best hash length is refused, with that error. *)
Theorem C18_mutate_genesis_refused : forall c lc, strict_checker c lc ->
  forall l st g, c l st = None -> g <> st_genesis st -> c l (with_genesis st g) = Some EGenesis.
Proof. exact mutate_genesis_refused. Qed.
Print Assumptions C18_mutate_genesis_refused.

Theorem C18_mutate_peer_id_refused : forall c lc, strict_checker c lc ->
  forall l st p, c l st = None -> p <> st_peer_id st -> c l (with_peer_id st p) = Some EPeerId.
Proof. exact mutate_peer_id_refused. Qed.
Print Assumptions C18_mutate_peer_id_refused.

Theorem C18_mutate_best_hash_refused_v200 : forall l st h,
  check_remote_status_v200 l st = None -> blen h <> hash_id_length ->
  check_remote_status_v200 l (with_best_hash st h) = Some EBestHash.
Proof. exact mutate_best_hash_refused_v200. Qed.
Print Assumptions C18_mutate_best_hash_refused_v200.

(** Negotiation: FindBestP2PVersion returns the first accepted version, in the order of
    the accepted list, that the peer requested. *)
Theorem C18_find_best_version_spec : forall acc req,
  (exists pre post, acc = pre ++ find_best_version acc req :: post /\
                    In (find_best_version acc req) req /\
                    forall a, In a pre -> ~ In a req)
  \/ (find_best_version acc req = v_unknown /\ forall a, In a acc -> ~ In a req).
Proof. exact find_best_version_spec. Qed.
Print Assumptions C18_find_best_version_spec.

Theorem C18_negotiation_picks_best_common : forall req,
  let v := find_best_version accepted_inbound_versions req in
  (In v200 req -> v = v200) /\
  (~ In v200 req -> In v033 req -> v = v033) /\
  (~ In v200 req -> ~ In v033 req -> In v032 req -> v = v032) /\
  (~ In v200 req -> ~ In v033 req -> ~ In v032 req -> In v031 req -> v = v031) /\
  (~ In v200 req -> ~ In v033 req -> ~ In v032 req -> ~ In v031 req -> v = v_unknown).
Proof. exact negotiation_picks_best_common. Qed.
Print Assumptions C18_negotiation_picks_best_common.

(** A handshake completed at any negotiated version other than 0.3.1: same genesis, the
    expected peer id, the local chain id. *)
Theorem C18_handshake_ok_not_v031_same_genesis : forall l versions st v,
  handshake l versions st = HsOk v -> v <> v031 ->
  st_genesis st = l_genesis l /\ st_peer_id st = l_peer_id l /\
  exists rc, chain_id_read (st_chain_id st) = Some rc /\
    (rc = l_chain_id_at l (st_best_height st) \/ rc = l_static_chain_id l).
Proof. exact handshake_ok_not_v031_same_genesis. Qed.
Print Assumptions C18_handshake_ok_not_v031_same_genesis.

(** The mapping version -> handshaker of GetVersionedHandshaker (its concrete result type is
    compared with [versioned_handshaker] for every version value on every run; the whole-path
    theorems [C18_inbound_ok_same_chain] and [C18_wire_inbound_ok_same_chain] run the check
    selected by this mapping, so they describe the code only as far as the mapping is tied). *)
Theorem C18_run_handshaker_via_kind : forall v l st,
  run_handshaker v l st =
  match versioned_handshaker v with
  | None => HsNoVersion
  | Some k => match check_of_kind k l st with None => HsOk v | Some e => HsRefused v e end
  end.
Proof. exact run_handshaker_via_kind. Qed.
Print Assumptions C18_run_handshaker_via_kind.

(** Every version that exchanges the genesis hash is mapped to a handshaker that checks it. *)
Theorem C18_versioned_handshaker_checks_genesis : forall v k l st,
  In v [v032; v033; v200] -> versioned_handshaker v = Some k ->
  check_of_kind k l st = None ->
  st_genesis st = l_genesis l /\ st_peer_id st = l_peer_id l /\
  exists rc, chain_id_read (st_chain_id st) = Some rc /\
    (rc = l_chain_id_at l (st_best_height st) \/ rc = l_static_chain_id l).
Proof. exact versioned_handshaker_checks_genesis. Qed.
Print Assumptions C18_versioned_handshaker_checks_genesis.

Theorem C18_versioned_handshaker_table :
  versioned_handshaker v031 = Some HK030 /\ versioned_handshaker v032 = Some HK032 /\
  versioned_handshaker v033 = Some HK033 /\ versioned_handshaker v200 = Some HK200 /\
  forall v, ~ In v accepted_inbound_versions -> versioned_handshaker v = None.
Proof. exact versioned_handshaker_table. Qed.
Print Assumptions C18_versioned_handshaker_table.

(** F20.  The still accepted 0.3.1 handshaker checks chain id and peer id only ... *)
Theorem C18_handshake_v031_partial : forall l st,
  check_remote_status_v031 l st = None ->
  chain_id_read (st_chain_id st) = Some (l_static_chain_id l) /\ st_peer_id st = l_peer_id l.
Proof. exact handshake_v031_partial. Qed.
Print Assumptions C18_handshake_v031_partial.

(** ... so a peer that offers only 0.3.1 completes the handshake with another genesis. *)
Theorem C18_handshake_v031_no_genesis_refuted :
  exists l st,
    st_genesis st <> l_genesis l /\
    check_remote_status_v031 l st = None /\
    check_remote_status_v032 l st = Some EGenesis /\
    check_remote_status_v033 l st = Some EGenesis /\
    check_remote_status_v200 l st = Some EGenesis /\
    find_best_version accepted_inbound_versions [v031] = v031 /\
    handshake l [v031] st = HsOk v031.
Proof. exact handshake_v031_no_genesis_refuted. Qed.
Print Assumptions C18_handshake_v031_no_genesis_refuted.

Theorem C18_handshake_same_genesis_refuted :
  ~ (forall l versions st v, handshake l versions st = HsOk v -> st_genesis st = l_genesis l).
Proof. exact handshake_same_genesis_refuted. Qed.
Print Assumptions C18_handshake_same_genesis_refuted.

Theorem C18_handshake_v031_only_if_no_better : forall l versions st,
  handshake l versions st = HsOk v031 ->
  ~ In v200 versions /\ ~ In v033 versions /\ ~ In v032 versions /\ In v031 versions.
Proof. exact handshake_v031_only_if_no_better. Qed.
Print Assumptions C18_handshake_v031_only_if_no_better.

(** * Framing and status checks composed (receiveRemoteStatus + checkRemoteStatus) *)

(** A status is delivered only from a stream that starts with a complete StatusRequest
    frame of at most max payload bytes. *)
Theorem C18_receive_status_shape : forall max s payload rest,
  receive_remote_status max s = RecvStatus payload rest ->
  blen payload <= max /\
  s = take header_len s ++ payload ++ rest /\
  be_decode (sub 0 4 (take header_len s)) = sp_status_request.
Proof. exact receive_status_shape. Qed.
Print Assumptions C18_receive_status_shape.

(** For every protobuf decoder: an inbound handshake over a byte stream that completes at
    a version other than 0.3.1 was with a peer whose status (carried in a well-formed frame
    within the size limit) has the local genesis, the connection's peer id and the local
    chain id. *)
Theorem C18_inbound_ok_same_chain : forall (decode : bytes -> option status) max l versions s v st rest,
  inbound decode max l versions s = InOk v st rest -> v <> v031 ->
  (exists payload, receive_remote_status max s = RecvStatus payload rest /\
                   decode payload = Some st /\ blen payload <= max) /\
  st_genesis st = l_genesis l /\ st_peer_id st = l_peer_id l /\
  exists rc, chain_id_read (st_chain_id st) = Some rc /\
    (rc = l_chain_id_at l (st_best_height st) \/ rc = l_static_chain_id l).
Proof. exact inbound_ok_same_chain. Qed.
Print Assumptions C18_inbound_ok_same_chain.

Theorem C18_inbound_never_reads_panic : forall (decode : bytes -> option status) max l versions s,
  inbound decode max l versions s <> InNotStatus (RecvReadError RPanic).
Proof. exact inbound_never_reads_panic. Qed.
Print Assumptions C18_inbound_never_reads_panic.

(** A truncated header or an oversized first frame never yields a handshake. *)
Theorem C18_inbound_bad_frame_refused : forall (decode : bytes -> option status) max l versions s,
  (blen s < header_len \/
   (header_len <= blen s /\ max < be_decode (sub 4 8 (take header_len s)))) ->
  forall v st rest, inbound decode max l versions s <> InOk v st rest.
Proof. exact inbound_bad_frame_refused. Qed.
Print Assumptions C18_inbound_bad_frame_refused.

(** * Block identity (types/blockchain.go BlockHash, chain/chainhandle.go addBlock) *)

(** F8.  For every digest function H: a block with a forged non-empty Hash field is filed
    under an identifier different from the digest of its own header. *)
Theorem C18_stored_under_own_digest_refuted : forall H : bytes -> bytes,
  exists b st',
    b_hash_field b <> [] /\
    add_block H (fun _ => true) empty_store b = (st', Added) /\
    block_hash H b <> own_digest H b /\
    lookup (block_hash H b) (s_blocks st') = Some b /\
    lookup (own_digest H b) (s_blocks st') = None.
Proof. exact stored_under_own_digest_refuted. Qed.
Print Assumptions C18_stored_under_own_digest_refuted.

Theorem C18_stored_under_own_digest_false : forall H : bytes -> bytes,
  ~ (forall valid st b st', add_block H valid st b = (st', Added) ->
       lookup (own_digest H b) (s_blocks st') = Some b).
Proof. exact stored_under_own_digest_false. Qed.
Print Assumptions C18_stored_under_own_digest_false.

(** What does hold: a block received with an empty Hash field is filed under the digest
    of its own header. *)
Theorem C18_stored_under_own_digest_partial : forall (H : bytes -> bytes) valid st b st',
  b_hash_field b = [] ->
  add_block H valid st b = (st', Added) ->
  lookup (own_digest H b) (s_blocks st') = Some b.
Proof. exact stored_under_own_digest_partial. Qed.
Print Assumptions C18_stored_under_own_digest_partial.

Theorem C18_consistent_field_filed_under_digest : forall (H : bytes -> bytes) valid st b st',
  (b_hash_field b = [] \/ b_hash_field b = own_digest H b) ->
  add_block H valid st b = (st', Added) ->
  lookup (own_digest H b) (s_blocks st') = Some b.
Proof. exact consistent_field_filed_under_digest. Qed.
Print Assumptions C18_consistent_field_filed_under_digest.

(** F8b.  An altered block announcing the genuine identifier makes the genuine block be
    rejected afterwards ("block is in errored blocks cache"). *)
Theorem C18_forged_poisons_genuine_refuted :
  forall (H : bytes -> bytes) (genuine : block) (valid : block -> bool),
  b_hash_field genuine = [] -> valid genuine = true ->
  forall altered_header, valid (mk_block (own_digest H genuine) altered_header) = false ->
  own_digest H genuine <> [] ->
  exists st1,
    add_block H valid empty_store (mk_block (own_digest H genuine) altered_header) = (st1, ErrInvalid) /\
    add_block H valid st1 genuine = (st1, ErrCached) /\
    snd (add_block H valid empty_store genuine) = Added.
Proof. exact forged_poisons_genuine_refuted. Qed.
Print Assumptions C18_forged_poisons_genuine_refuted.

(** * Block receive path (p2p/blkreceiver.go, p2p/syncmanager.go) *)

(** Whatever responses arrive: blocks handed to the syncer carry exactly the requested
    identifiers (Hash fields), in order, none extra, none missing, none above the size
    limit; the receiver is then finished. *)
Theorem C18_recv_delivers_requested_order : forall too_big hashes inputs st evs bs,
  run too_big (new_receiver hashes) inputs = (st, evs) ->
  In (TellBlocks bs) (map ev_tell evs) ->
  map b_hash_field bs = hashes /\ length bs = length hashes /\
  Forall (fun b => too_big b = false) bs /\ r_got st = bs /\ r_status st = Finished.
Proof. exact recv_delivers_requested_order. Qed.
Print Assumptions C18_recv_delivers_requested_order.

(** A chunk containing a block whose identifier is not the next requested one: the syncer
    is told "unexpected blocks response", the receiver leaves the waiting state and every
    later response produces nothing. *)
Theorem C18_recv_unrequested_rejected : forall too_big st pre b post has_next later,
  r_status st = Waiting ->
  map b_hash_field pre = firstn (length pre) (skipn (length (r_got st)) (r_hashes st)) ->
  (length pre <= length (skipn (length (r_got st)) (r_hashes st)))%nat ->
  Forall (fun x => too_big x = false) pre ->
  (length (r_got st) + length pre < length (r_hashes st))%nat ->
  nth_error (r_hashes st) (length (r_got st) + length pre) <> Some (b_hash_field b) ->
  exists st1,
    receive_resp too_big st false (BBlocks true (pre ++ b :: post) has_next)
      = (st1, mk_event (TellErr EUnexpectedBlock) (negb has_next)) /\
    r_status st1 <> Waiting /\
    run too_big st1 later = (st1, map (fun _ => silent) later).
Proof. exact recv_unrequested_rejected. Qed.
Print Assumptions C18_recv_unrequested_rejected.

(** Never more blocks kept than requested; the request list is never altered. *)
Theorem C18_recv_count_bounded : forall too_big hashes inputs st evs,
  run too_big (new_receiver hashes) inputs = (st, evs) ->
  (length (r_got st) <= length hashes)%nat /\ r_hashes st = hashes.
Proof. exact recv_count_bounded. Qed.
Print Assumptions C18_recv_count_bounded.

(** The syncer is told at most once per receiver (result or error). *)
Theorem C18_recv_tells_at_most_once : forall too_big inputs st st' evs,
  run too_big st inputs = (st', evs) -> (length (tells evs) <= 1)%nat.
Proof. exact recv_tells_at_most_once. Qed.
Print Assumptions C18_recv_tells_at_most_once.

(** F8 on this path.  Refuted: for every digest function H a block whose Hash field is the
    requested identifier but whose header has another digest is delivered. *)
Theorem C18_recv_requested_id_not_content_refuted : forall H : bytes -> bytes,
  exists (hashes : list bytes) (b : block),
    run (fun _ => false) (new_receiver hashes) [(false, BBlocks true [b] false)]
      = (mk_rstate hashes [b] Finished, [mk_event (TellBlocks [b]) true]) /\
    map b_hash_field [b] = hashes /\
    map (own_digest H) [b] <> hashes.
Proof. exact recv_requested_id_not_content_refuted. Qed.
Print Assumptions C18_recv_requested_id_not_content_refuted.

(** Partial: if every delivered block's Hash field is consistent with its header, the
    delivered contents are the requested ones. *)
Theorem C18_recv_requested_id_is_content_partial :
  forall (H : bytes -> bytes) too_big hashes inputs st evs bs,
  run too_big (new_receiver hashes) inputs = (st, evs) ->
  In (TellBlocks bs) (map ev_tell evs) ->
  Forall (fun b => b_hash_field b = own_digest H b) bs ->
  map (own_digest H) bs = hashes.
Proof. exact recv_requested_id_is_content_partial. Qed.
Print Assumptions C18_recv_requested_id_is_content_partial.

(** A block whose Hash field is empty is never delivered for a non-empty requested hash. *)
Theorem C18_recv_empty_field_rejected : forall too_big hashes inputs st evs bs,
  run too_big (new_receiver hashes) inputs = (st, evs) ->
  In (TellBlocks bs) (map ev_tell evs) ->
  Forall (fun h => h <> []) hashes -> Forall (fun b => b_hash_field b <> []) bs.
Proof. exact recv_empty_field_rejected. Qed.
Print Assumptions C18_recv_empty_field_rejected.

(** syncManager: an identifier announced once is a duplicate when announced again (by a
    block-produced notice with any content, or by a new-block notice). *)
Theorem C18_notice_duplicate_suppressed : forall too_big cap c b c' a b2,
  (0 < cap)%nat ->
  handle_block_produced too_big cap c b = (c', a) -> a <> APanic ->
  b_hash_field b2 = b_hash_field b ->
  handle_block_produced too_big cap c' b2 = (c', ADuplicate) /\
  forall known, handle_new_block_notice cap c' (b_hash_field b) known = (c', ADuplicate).
Proof. exact notice_duplicate_suppressed. Qed.
Print Assumptions C18_notice_duplicate_suppressed.

Theorem C18_notice_forward_at_most_once : forall too_big cap c b c1 a1 b2 c2 a2,
  (0 < cap)%nat ->
  handle_block_produced too_big cap c b = (c1, a1) ->
  b_hash_field b2 = b_hash_field b ->
  handle_block_produced too_big cap c1 b2 = (c2, a2) ->
  forall x, a2 <> AForward x.
Proof. exact notice_forward_at_most_once. Qed.
Print Assumptions C18_notice_forward_at_most_once.

(** F8 on the notice path (refuted: "a suppressed duplicate is the same block"): an
    oversized block announcing a genuine identifier makes the genuine block be dropped. *)
Theorem C18_notice_forged_id_suppresses_genuine_refuted : forall too_big (genuine : block),
  hash_len_ok (b_hash_field genuine) = true -> too_big genuine = false ->
  forall junk_header,
  let forged := mk_block (b_hash_field genuine) junk_header in
  too_big forged = true ->
  exists c1, handle_block_produced too_big 300 [] forged = (c1, ATooBig) /\
             handle_block_produced too_big 300 c1 genuine = (c1, ADuplicate) /\
             handle_block_produced too_big 300 [] genuine = ([b_hash_field genuine], AForward genuine).
Proof. exact notice_forged_id_suppresses_genuine_refuted. Qed.
Print Assumptions C18_notice_forged_id_suppresses_genuine_refuted.

(** The legacy single-block response path forwards any one block within the size limit. *)
Theorem C18_get_block_response_forwards_any : forall too_big b,
  too_big b = false -> handle_get_block_response too_big [b] = AForward b.
Proof. exact get_block_response_forwards_any. Qed.
Print Assumptions C18_get_block_response_forwards_any.

(** * Wire handshake header (p2p/handshakev2.go, p2p/p2pcommon/handshake.go) *)

(** A well-formed request header (1..16 versions) is read back whatever follows it. *)
Theorem C18_hs_header_roundtrip : forall r rest, hs_req_wf r ->
  read_hs_req (marshal_hs_req r ++ rest)
  = mk_hrr (HOk r rest) (hs_word + 4 * N.of_nat (length (hq_versions r))).
Proof. exact hs_header_roundtrip. Qed.
Print Assumptions C18_hs_header_roundtrip.

Theorem C18_hs_resp_roundtrip : forall r rest, hp_magic r < 2 ^ 32 -> hp_code r < 2 ^ 32 ->
  read_hs_resp (marshal_hs_resp r ++ rest) = Some (r, rest).
Proof. exact hs_resp_roundtrip. Qed.
Print Assumptions C18_hs_resp_roundtrip.

(** Reading the request header from arbitrary bytes never panics and never requests more
    than 4 + 4*16 bytes, whatever version count the peer announces. *)
Theorem C18_hs_read_total : forall s, hs_outcome (read_hs_req s) <> HPanic.
Proof. exact hs_read_total. Qed.
Print Assumptions C18_hs_read_total.

Theorem C18_hs_alloc_bounded : forall s, hs_alloc (read_hs_req s) <= hs_word + 4 * hs_max_version_cnt.
Proof. exact hs_alloc_bounded. Qed.
Print Assumptions C18_hs_alloc_bounded.

Theorem C18_hs_bad_count_refused : forall magic cnt rest,
  magic < 2 ^ 32 -> cnt < 2 ^ 32 -> (cnt = 0 \/ hs_max_version_cnt < cnt) ->
  read_hs_req (be_bytes 4 magic ++ be_bytes 4 cnt ++ rest) = mk_hrr (HBadCount cnt) hs_word.
Proof. exact hs_bad_count_refused. Qed.
Print Assumptions C18_hs_bad_count_refused.

Theorem C18_hs_read_ok_shape : forall s r rest a,
  read_hs_req s = mk_hrr (HOk r rest) a ->
  (1 <= length (hq_versions r) <= 16)%nat /\ a = hs_word + 4 * N.of_nat (length (hq_versions r)) /\
  exists used, s = used ++ rest /\ length used = (8 + 4 * length (hq_versions r))%nat.
Proof. exact hs_read_ok_shape. Qed.
Print Assumptions C18_hs_read_ok_shape.

(** Anything but a complete header with the main-net magic and a common version is answered
    with the error magic and refused; otherwise the answer carries the magic and the best
    common version and the versioned handshaker runs on the bytes after the header. *)
Theorem C18_wire_refused_unless_well_formed : forall (decode : bytes -> option status) max l s resp nx,
  handle_inbound_wire decode max l s = (resp, nx) ->
  (hp_magic resp = hs_error /\ nx = WRefused) \/
  (exists r rest, hs_outcome (read_hs_req s) = HOk r rest /\ hq_magic r = magic_main /\
     hp_magic resp = magic_main /\
     hp_code resp = find_best_version accepted_inbound_versions (hq_versions r) /\
     hp_code resp <> v_unknown /\
     nx = WInner (hp_code resp) (inbound decode max l (hq_versions r) rest)).
Proof. exact wire_refused_unless_well_formed. Qed.
Print Assumptions C18_wire_refused_unless_well_formed.

(** From the first byte of an inbound connection: a handshake completed at a version other
    than 0.3.1 is with a peer of the same chain. *)
Theorem C18_wire_inbound_ok_same_chain : forall (decode : bytes -> option status) max l s resp v v' st rest,
  handle_inbound_wire decode max l s = (resp, WInner v (InOk v' st rest)) -> v' <> v031 ->
  hp_magic resp = magic_main /\ hp_code resp = v /\ v' = v /\
  st_genesis st = l_genesis l /\ st_peer_id st = l_peer_id l /\
  exists rc, chain_id_read (st_chain_id st) = Some rc /\
    (rc = l_chain_id_at l (st_best_height st) \/ rc = l_static_chain_id l).
Proof. exact wire_inbound_ok_same_chain. Qed.
Print Assumptions C18_wire_inbound_ok_same_chain.

(** Two nodes of this code base: the outbound request is read by the inbound side, which
    answers 2.0.0, and the outbound side accepts that answer. *)
Theorem C18_wire_interop : forall (decode : bytes -> option status) max l rest rest',
  hs_outcome (read_hs_req (outbound_request ++ rest))
    = HOk (mk_hs_req magic_main attempting_outbound_versions) rest /\
  fst (handle_inbound_wire decode max l (outbound_request ++ rest)) = mk_hs_resp magic_main v200 /\
  handle_outbound_wire (marshal_hs_resp (mk_hs_resp magic_main v200) ++ rest')
    = (outbound_request, OInner v200 rest').
Proof. exact wire_interop. Qed.
Print Assumptions C18_wire_interop.

Theorem C18_outbound_refuses_error_response : forall s,
  (blen s < 8 \/ (8 <= blen s /\ be_decode (take 4 s) <> magic_main)) ->
  snd (handle_outbound_wire s) = ORefused.
Proof. exact outbound_refuses_error_response. Qed.
Print Assumptions C18_outbound_refuses_error_response.

(** F20, outbound side: the listener chooses the version; answering 0.3.1 is followed. *)
Theorem C18_outbound_version_chosen_by_listener_refuted :
  exists s l st,
    snd (handle_outbound_wire s) = OInner v031 [] /\
    In v200 attempting_outbound_versions /\
    st_genesis st <> l_genesis l /\ check_remote_status_v031 l st = None.
Proof. exact outbound_version_chosen_by_listener_refuted. Qed.
Print Assumptions C18_outbound_version_chosen_by_listener_refuted.

(** * Status messages with optional fields explicit; the role / certificate rule *)

(** No decoded status (nil Sender, empty fields, any certificates) makes a status check
    dereference nil: the four checks are total. *)
Theorem C18_check_total : forall l rs,
  check_raw_v031 l rs <> CPanic /\ check_raw_v032 l rs <> CPanic /\
  check_raw_v033 l rs <> CPanic /\ check_raw_v200 l rs <> CPanic.
Proof. exact check_total. Qed.
Print Assumptions C18_check_total.

(** The checks on decoded statuses are the abstract checks of P2P/Handshake.v (so every
    handshake theorem above applies to them). *)
Theorem C18_check_raw_refines : forall l rs,
  check_raw_v031 l rs = of_option (check_remote_status_v031 l (status_of_raw rs)) /\
  check_raw_v032 l rs = of_option (check_remote_status_v032 l (status_of_raw rs)) /\
  check_raw_v033 l rs = of_option (check_remote_status_v033 l (status_of_raw rs)) /\
  check_raw_v200 l rs = of_option (check_remote_status_v200 l (status_of_raw rs)).
Proof. exact check_raw_refines. Qed.
Print Assumptions C18_check_raw_refines.

(** checkByRole / checkAgent: accepted iff not an agent, or at least one producer id and
    every certificate valid, issued for this agent and for a listed producer. *)
Theorem C18_agent_accepted_iff : forall sd certs,
  check_by_role sd certs = true <->
  role_eff sd <> role_agent \/
  (sd_producers sd <> [] /\
   forall c, In c certs ->
     c_valid c = true /\ c_agent_id c = sd_peer_id sd /\ In (c_bp_id c) (sd_producers sd)).
Proof. exact agent_accepted_iff. Qed.
Print Assumptions C18_agent_accepted_iff.

Theorem C18_v200_raw_accept_iff : forall l rs,
  check_raw_v200 l rs = CAccept <->
  exists sd, rs_sender rs = Some sd /\
    chain_id_read (rs_chain_id rs) = Some (l_chain_id_at l (rs_best_height rs)) /\
    blen (rs_best_hash rs) = hash_id_length /\ sd_addr_class_ok sd = true /\
    sd_peer_id sd = l_peer_id l /\ rs_genesis rs = l_genesis l /\
    check_by_role sd (rs_certs rs) = true.
Proof. exact v200_raw_accept_iff. Qed.
Print Assumptions C18_v200_raw_accept_iff.

(** * Size limits: a maximal legal block always fits in one frame *)
Theorem C18_max_block_message_fits : forall body_limit block_bytes,
  body_limit <= block_size_hard_limit -> block_bytes <= max_block_size body_limit ->
  block_bytes + envelope <= max_payload_length.
Proof. exact max_block_message_fits. Qed.
Print Assumptions C18_max_block_message_fits.

(** * Chain identifier of received blocks (chain/chainhandle.go addBlockInternal, resolveOrphan) *)

(** For every arrival order (direct children, orphans resolved later, orphan chains): from a
    node whose blocks are of the local chain, no block of another chain is ever connected,
    becomes best, or even waits in the orphan pool. *)
Theorem C18_foreign_chain_block_never_connected : forall st bs,
  ChainAdmit.local_only st -> ChainAdmit.cs_orphans st = [] ->
  let st' := ChainAdmit.run ChainAdmit.CheckBeforeOrphan st bs in
  Forall (fun b => ChainAdmit.cb_foreign b = false) (ChainAdmit.cs_connected st') /\
  ChainAdmit.cb_foreign (ChainAdmit.cs_best st') = false /\
  Forall (fun b => ChainAdmit.cb_foreign b = false) (ChainAdmit.cs_orphans st').
Proof. exact ChainAdmitProofs.foreign_chain_block_never_connected. Qed.
Print Assumptions C18_foreign_chain_block_never_connected.

(** ... and it is discarded without affecting what the node accepts later: the final state
    is the one reached without the foreign blocks. *)
Theorem C18_foreign_blocks_do_not_affect_later_acceptance : forall bs st,
  ChainAdmit.run ChainAdmit.CheckBeforeOrphan st bs
  = ChainAdmit.run ChainAdmit.CheckBeforeOrphan st (filter (fun b => negb (ChainAdmit.cb_foreign b)) bs).
Proof. exact ChainAdmitProofs.foreign_blocks_do_not_affect_later_acceptance. Qed.
Print Assumptions C18_foreign_blocks_do_not_affect_later_acceptance.

(** The position of the test matters: with the chain-identifier test after the orphan branch a
    foreign block arriving before its parent becomes the best block. *)
Theorem C18_check_after_orphan_refuted :
  let st' := ChainAdmit.run ChainAdmit.CheckAfterOrphan ChainAdmitProofs.st3
               [ChainAdmitProofs.f5; ChainAdmitProofs.h4; ChainAdmitProofs.h5] in
  ChainAdmit.local_only ChainAdmitProofs.st3 /\
  ChainAdmit.cb_foreign (ChainAdmit.cs_best st') = true /\
  In ChainAdmitProofs.f5 (ChainAdmit.cs_connected st') /\
  ChainAdmit.cs_best (ChainAdmit.run ChainAdmit.CheckBeforeOrphan ChainAdmitProofs.st3
                        [ChainAdmitProofs.f5; ChainAdmitProofs.h4; ChainAdmitProofs.h5]) = ChainAdmitProofs.h5.
Proof. exact ChainAdmitProofs.check_after_orphan_refuted. Qed.
Print Assumptions C18_check_after_orphan_refuted.

(** C19  Canonical, binding encodings of blocks, transactions, receipts, chain id and
    hardfork versions.  Only statements, each closed by [exact] of a lemma proved under
    Codec/, followed by [Print Assumptions]; the field-list ties to the Go source
    (coq/Gen/FieldLists.v, regenerated from the tree under test on every run) are closed by
    computation. *)
From Coq Require Import NArith ZArith List String Bool.
From Verif Require Import Common.Bytes Codec.Fields Codec.Digest Codec.DigestProofs
  Codec.ChainId Codec.ChainIdProofs Gen.FieldLists.
Import ListNotations.
Open Scope string_scope.
Open Scope list_scope.

(** * Tie: the field lists of the Go source are the lists the model encoders are defined over *)

Theorem C19_fieldlists_header :
  gen_struct_BlockHeader = header_struct_fields /\
  gen_raw_writeBlockHeader = header_digest_fields /\
  gen_raw_writeBlockHeaderOmitSign = header_sign_fields.
Proof. vm_compute. repeat split; reflexivity. Qed.
Print Assumptions C19_fieldlists_header.

Theorem C19_fieldlists_tx :
  gen_struct_TxBody = tx_struct_fields /\
  gen_raw_CalculateTxHash = tx_hash_fields /\
  gen_raw_CalculateHashWithoutSign = tx_sign_fields.
Proof. vm_compute. repeat split; reflexivity. Qed.
Print Assumptions C19_fieldlists_tx.

(** * Block header *)

(** Changing any single header field (others fixed) changes the identifier input, hence the
    identifier unless the hash collides. *)
Theorem C19_block_hash_single_field : forall (H : bytes -> bytes) f h1 h2,
  In f header_struct_fields -> header_wf h1 -> header_wf h2 ->
  agree_except header hget f h1 h2 -> hget f h1 <> hget f h2 ->
  block_hash H h1 <> block_hash H h2 \/ collision H.
Proof. exact block_hash_single_field. Qed.
Print Assumptions C19_block_hash_single_field.

(** The signed digest covers every header field other than Sign ... *)
Theorem C19_sign_digest_covers_all_but_sign : forall f h1 h2,
  In f header_struct_fields -> f <> "Sign" -> header_wf h1 -> header_wf h2 ->
  agree_except header hget f h1 h2 -> hget f h1 <> hget f h2 ->
  sign_digest_input h1 <> sign_digest_input h2.
Proof. exact sign_digest_covers_all_but_sign. Qed.
Print Assumptions C19_sign_digest_covers_all_but_sign.

(** ... and omits only Sign. *)
Theorem C19_sign_input_omits_only_sign :
  (forall h1 h2, agree_except header hget "Sign" h1 h2 -> sign_digest_input h1 = sign_digest_input h2) /\
  (forall f, In f header_struct_fields -> f <> "Sign" -> In f header_sign_fields).
Proof. exact sign_input_omits_only_sign. Qed.
Print Assumptions C19_sign_input_omits_only_sign.

(** No length prefixes are written: with equal field lengths the input is injective,
    without that hypothesis it is not (two adjacent fields changed together). *)
Theorem C19_block_input_injective_equal_lengths : forall h1 h2,
  header_wf h1 -> header_wf h2 ->
  (forall f, In f header_struct_fields ->
     List.length (enc_fval (hget f h1)) = List.length (enc_fval (hget f h2))) ->
  block_digest_input h1 = block_digest_input h2 ->
  forall f, In f header_struct_fields -> hget f h1 = hget f h2.
Proof. exact block_input_injective_equal_lengths. Qed.
Print Assumptions C19_block_input_injective_equal_lengths.

Theorem C19_header_input_not_injective_refuted :
  exists h1 h2, h1 <> h2 /\ block_digest_input h1 = block_digest_input h2.
Proof. exact header_input_not_injective_refuted. Qed.
Print Assumptions C19_header_input_not_injective_refuted.

(** * Transaction *)

Theorem C19_tx_hash_single_field : forall (H : bytes -> bytes) f t1 t2,
  In f tx_struct_fields -> tx_wf t1 -> tx_wf t2 ->
  agree_except txbody tget f t1 t2 -> tget f t1 <> tget f t2 ->
  tx_hash H t1 <> tx_hash H t2 \/ collision H.
Proof. exact tx_hash_single_field. Qed.
Print Assumptions C19_tx_hash_single_field.

Theorem C19_tx_sign_covers_all_but_sign : forall f t1 t2,
  In f tx_struct_fields -> f <> "Sign" -> tx_wf t1 -> tx_wf t2 ->
  agree_except txbody tget f t1 t2 -> tget f t1 <> tget f t2 ->
  tx_sign_input t1 <> tx_sign_input t2.
Proof. exact tx_sign_covers_all_but_sign. Qed.
Print Assumptions C19_tx_sign_covers_all_but_sign.

Theorem C19_tx_sign_input_omits_only_sign :
  (forall t1 t2, agree_except txbody tget "Sign" t1 t2 -> tx_sign_input t1 = tx_sign_input t2) /\
  (forall f, In f tx_struct_fields -> f <> "Sign" -> In f tx_sign_fields).
Proof. exact tx_sign_input_omits_only_sign. Qed.
Print Assumptions C19_tx_sign_input_omits_only_sign.

(** * Chain id *)

Theorem C19_fieldlists_chain_id :
  gen_struct_ChainID = ["Version"; "PublicNet"; "MainNet"; "Magic"; "Consensus"] /\
  gen_raw_chainIDBytes = gen_struct_ChainID /\ gen_raw_chainIDRead = gen_struct_ChainID /\
  gen_raw_chainIDEquals = gen_struct_ChainID.
Proof. vm_compute. repeat split; reflexivity. Qed.
Print Assumptions C19_fieldlists_chain_id.

Theorem C19_chain_id_roundtrip : forall c, chain_id_wf c -> chain_id_read (chain_id_bytes c) = Some c.
Proof. exact chain_id_roundtrip. Qed.
Print Assumptions C19_chain_id_roundtrip.

(** F6 (known finding). *)
Theorem C19_chain_id_slash_refuted :
  exists c, (cid_version c < 2 ^ 32)%N /\ chain_id_read (chain_id_bytes c) <> Some c.
Proof. exact chain_id_slash_refuted. Qed.
Print Assumptions C19_chain_id_slash_refuted.

(** C19  Canonical, binding encodings of blocks, transactions, receipts, chain id and
    hardfork versions.  Only statements, each closed by [exact] of a lemma proved under
    Codec/, followed by [Print Assumptions]; the field-list ties to the Go source
    (coq/Gen/FieldLists.v, regenerated from the tree under test on every run) are closed by
    computation. *)
From Coq Require Import NArith ZArith List String Bool.
From Verif Require Import Common.Bytes Codec.Fields Codec.Digest Codec.DigestProofs
  Codec.ChainId Codec.ChainIdProofs Gen.FieldLists.
Import ListNotations.
Open Scope string_scope.
Open Scope list_scope.

(** * Tie: the field lists of the Go source are the lists the model encoders are defined over *)

Theorem C19_fieldlists_header :
  gen_struct_BlockHeader = header_struct_fields /\
  gen_raw_writeBlockHeader = header_digest_fields /\
  gen_raw_writeBlockHeaderOmitSign = header_sign_fields.
Proof. vm_compute. repeat split; reflexivity. Qed.
Print Assumptions C19_fieldlists_header.

Theorem C19_fieldlists_tx :
  gen_struct_TxBody = tx_struct_fields /\
  gen_raw_CalculateTxHash = tx_hash_fields /\
  gen_raw_CalculateHashWithoutSign = tx_sign_fields.
Proof. vm_compute. repeat split; reflexivity. Qed.
Print Assumptions C19_fieldlists_tx.

(** * Block header *)

(** Changing any single header field (others fixed) changes the identifier input, hence the
    identifier unless the hash collides. *)
Theorem C19_block_hash_single_field : forall (H : bytes -> bytes) f h1 h2,
  In f header_struct_fields -> header_wf h1 -> header_wf h2 ->
  agree_except header hget f h1 h2 -> hget f h1 <> hget f h2 ->
  block_hash H h1 <> block_hash H h2 \/ collision H.
Proof. exact block_hash_single_field. Qed.
Print Assumptions C19_block_hash_single_field.

(** The signed digest covers every header field other than Sign ... *)
Theorem C19_sign_digest_covers_all_but_sign : forall f h1 h2,
  In f header_struct_fields -> f <> "Sign" -> header_wf h1 -> header_wf h2 ->
  agree_except header hget f h1 h2 -> hget f h1 <> hget f h2 ->
  sign_digest_input h1 <> sign_digest_input h2.
Proof. exact sign_digest_covers_all_but_sign. Qed.
Print Assumptions C19_sign_digest_covers_all_but_sign.

(** ... and omits only Sign. *)
Theorem C19_sign_input_omits_only_sign :
  (forall h1 h2, agree_except header hget "Sign" h1 h2 -> sign_digest_input h1 = sign_digest_input h2) /\
  (forall f, In f header_struct_fields -> f <> "Sign" -> In f header_sign_fields).
Proof. exact sign_input_omits_only_sign. Qed.
Print Assumptions C19_sign_input_omits_only_sign.

(** No length prefixes are written: with equal field lengths the input is injective,
    without that hypothesis it is not (two adjacent fields changed together). *)
Theorem C19_block_input_injective_equal_lengths : forall h1 h2,
  header_wf h1 -> header_wf h2 ->
  (forall f, In f header_struct_fields ->
     List.length (enc_fval (hget f h1)) = List.length (enc_fval (hget f h2))) ->
  block_digest_input h1 = block_digest_input h2 ->
  forall f, In f header_struct_fields -> hget f h1 = hget f h2.
Proof. exact block_input_injective_equal_lengths. Qed.
Print Assumptions C19_block_input_injective_equal_lengths.

Theorem C19_header_input_not_injective_refuted :
  exists h1 h2, h1 <> h2 /\ block_digest_input h1 = block_digest_input h2.
Proof. exact header_input_not_injective_refuted. Qed.
Print Assumptions C19_header_input_not_injective_refuted.

(** * Transaction *)

Theorem C19_tx_hash_single_field : forall (H : bytes -> bytes) f t1 t2,
  In f tx_struct_fields -> tx_wf t1 -> tx_wf t2 ->
  agree_except txbody tget f t1 t2 -> tget f t1 <> tget f t2 ->
  tx_hash H t1 <> tx_hash H t2 \/ collision H.
Proof. exact tx_hash_single_field. Qed.
Print Assumptions C19_tx_hash_single_field.

Theorem C19_tx_input_not_injective_refuted :
  exists t1 t2, t1 <> t2 /\ tx_hash_input t1 = tx_hash_input t2.
Proof. exact tx_input_not_injective_refuted. Qed.
Print Assumptions C19_tx_input_not_injective_refuted.

Theorem C19_tx_sign_covers_all_but_sign : forall f t1 t2,
  In f tx_struct_fields -> f <> "Sign" -> tx_wf t1 -> tx_wf t2 ->
  agree_except txbody tget f t1 t2 -> tget f t1 <> tget f t2 ->
  tx_sign_input t1 <> tx_sign_input t2.
Proof. exact tx_sign_covers_all_but_sign. Qed.
Print Assumptions C19_tx_sign_covers_all_but_sign.

Theorem C19_tx_sign_input_omits_only_sign :
  (forall t1 t2, agree_except txbody tget "Sign" t1 t2 -> tx_sign_input t1 = tx_sign_input t2) /\
  (forall f, In f tx_struct_fields -> f <> "Sign" -> In f tx_sign_fields).
Proof. exact tx_sign_input_omits_only_sign. Qed.
Print Assumptions C19_tx_sign_input_omits_only_sign.

(** * Chain id *)

Theorem C19_fieldlists_chain_id :
  gen_struct_ChainID = ["Version"; "PublicNet"; "MainNet"; "Magic"; "Consensus"] /\
  gen_raw_chainIDBytes = gen_struct_ChainID /\ gen_raw_chainIDRead = gen_struct_ChainID /\
  gen_raw_chainIDEquals = gen_struct_ChainID.
Proof. vm_compute. repeat split; reflexivity. Qed.
Print Assumptions C19_fieldlists_chain_id.

Theorem C19_chain_id_roundtrip : forall c, chain_id_wf c -> chain_id_read (chain_id_bytes c) = Some c.
Proof. exact chain_id_roundtrip. Qed.
Print Assumptions C19_chain_id_roundtrip.

(** MakeChainId only replaces the four version bytes.  It is a function of (cid, v): chain ids
    are values in the model; that the Go slices behave like values (the caller's slice is not
    written to, a sealed parent block is unchanged after a child was prepared across a fork
    boundary) is what the engine's hold-and-compare cases check. *)
Theorem C19_make_chain_id_spec : forall cid v out,
  make_chain_id cid v = Some out ->
  decode_chain_id_version out = Some (v mod 2 ^ 32)%N /\ chain_id_equal_without_version cid out = true.
Proof. exact make_chain_id_spec. Qed.
Print Assumptions C19_make_chain_id_spec.

(** F6 (known finding). *)
Theorem C19_chain_id_slash_refuted :
  exists c, (cid_version c < 2 ^ 32)%N /\ chain_id_read (chain_id_bytes c) <> Some c.
Proof. exact chain_id_slash_refuted. Qed.
Print Assumptions C19_chain_id_slash_refuted.

(** * Merkle roots (transaction root, receipts root) *)
From Verif Require Import Codec.Merkle Codec.MerkleProofs Codec.MerkleArray Codec.Receipt Codec.ReceiptProofs
  Codec.Hardfork Codec.HardforkProofs.

(** Two entry lists of the same length with the same root are equal, or the hash collides
    (entries and hash outputs of one fixed length, 32 in the code). *)
Theorem C19_merkle_binding_same_length :
  forall (H : bytes -> bytes) (hlen : nat), (forall x, List.length (H x) = hlen) ->
  forall l1 l2, all_len hlen l1 -> all_len hlen l2 -> List.length l1 = List.length l2 ->
  merkle_root H l1 = merkle_root H l2 -> l1 = l2 \/ collision H.
Proof. exact merkle_binding_same_length. Qed.
Print Assumptions C19_merkle_binding_same_length.

(** The literal array algorithm of merkle.go returns the root of the level-list model the
    theorems are stated over, for every hash function and entry list. *)
Theorem C19_merkle_root_array_eq : forall (H : bytes -> bytes) leaves,
  merkle_root_array H leaves = Some (merkle_root H leaves).
Proof. exact Codec.MerkleArray.merkle_root_array_eq. Qed.
Print Assumptions C19_merkle_root_array_eq.

(** F5 (known finding): the number of entries is not bound, for every hash function. *)
Theorem C19_merkle_length_not_bound_refuted : forall (H : bytes -> bytes),
  exists l1 l2, l1 <> l2 /\ Forall (fun x => List.length x = 32%nat) l1 /\ Forall (fun x => List.length x = 32%nat) l2 /\
                merkle_root H l1 = merkle_root H l2.
Proof. exact merkle_length_not_bound_refuted. Qed.
Print Assumptions C19_merkle_length_not_bound_refuted.

Theorem C19_merkle_odd_extension : forall (H : bytes -> bytes) l x,
  Nat.even (List.length l) = true -> l <> [] ->
  merkle_root H (l ++ [x]) = merkle_root H (l ++ [x; x]).
Proof. exact merkle_odd_extension. Qed.
Print Assumptions C19_merkle_odd_extension.

From Verif Require Import Codec.TxRoot Codec.TxRootProofs.

(** The transaction root binds the ordered list of transaction identifier inputs. *)
Theorem C19_txs_root_binding :
  forall (H : bytes -> bytes) (hlen : nat), (forall x, List.length (H x) = hlen) ->
  forall txs1 txs2, List.length txs1 = List.length txs2 -> txs_root H txs1 = txs_root H txs2 ->
  List.map tx_hash_input txs1 = List.map tx_hash_input txs2 \/ collision H.
Proof. exact txs_root_binding. Qed.
Print Assumptions C19_txs_root_binding.

(** * Receipts *)

Theorem C19_fieldlists_receipt :
  gen_marshalBody = receipt_v1_fields /\ gen_marshalBodyV2 = receipt_v2_fields /\
  gen_unmarshalBody = List.filter (fun f => negb (String.eqb f "Events")) receipt_v1_fields /\
  gen_unmarshalBodyV2 = List.filter (fun f => negb (String.eqb f "Events")) receipt_v2_fields /\
  (* every field of the message is in the V2 format or is one of the declared memory-only fields *)
  List.forallb (fun f => List.existsb (String.eqb f) (receipt_v2_fields ++ receipt_memory_fields)) gen_struct_Receipt = true /\
  List.length gen_struct_Receipt = List.length (receipt_v2_fields ++ receipt_memory_fields) /\
  gen_marshalCommonBinary = event_merkle_fields /\ gen_eventMarshalStoreBinary = event_store_fields /\
  gen_eventUnmarshalStoreBinary = event_store_fields /\
  List.forallb (fun f => List.existsb (String.eqb f) (event_merkle_fields ++ event_memory_fields)) gen_struct_Event = true /\
  List.length gen_struct_Event = List.length (event_merkle_fields ++ event_memory_fields).
Proof. vm_compute. repeat split; reflexivity. Qed.
Print Assumptions C19_fieldlists_receipt.

Theorem C19_receipt_store_roundtrip_v2 : forall r, receipt_wf r ->
  exists b, marshal_store true r = Some b /\
            forall rest, unmarshal_store true (b ++ rest) = Some (receipt_view true false r, rest).
Proof. exact receipt_store_roundtrip_v2. Qed.
Print Assumptions C19_receipt_store_roundtrip_v2.

Theorem C19_receipt_store_roundtrip_v1 : forall r, receipt_wf r ->
  exists b, marshal_store false r = Some b /\
            forall rest, unmarshal_store false (b ++ rest) = Some (receipt_view false false r, rest).
Proof. exact receipt_store_roundtrip_v1. Qed.
Print Assumptions C19_receipt_store_roundtrip_v1.

Theorem C19_receipt_store_roundtrip_v2_exact : forall r b,
  receipt_wf r -> Forall event_no_memory (r_events r) -> marshal_store true r = Some b ->
  unmarshal_store true b = Some (r, []).
Proof. exact receipt_store_roundtrip_v2_exact. Qed.
Print Assumptions C19_receipt_store_roundtrip_v2_exact.

Theorem C19_receipt_store_roundtrip_v1_exact : forall r b,
  receipt_wf r -> Forall event_no_memory (r_events r) -> r_gas r = 0%N -> r_feedeleg r = false ->
  marshal_store false r = Some b -> unmarshal_store false b = Some (r, []).
Proof. exact receipt_store_roundtrip_v1_exact. Qed.
Print Assumptions C19_receipt_store_roundtrip_v1_exact.

(** F17 (known finding). *)
Theorem C19_receipt_v1_drops_feedelegation_refuted :
  exists r b, receipt_wf r /\ Forall event_no_memory (r_events r) /\ marshal_store false r = Some b /\
              unmarshal_store false b <> Some (r, []).
Proof. exact receipt_v1_drops_feedelegation_refuted. Qed.
Print Assumptions C19_receipt_v1_drops_feedelegation_refuted.

Theorem C19_receipt_merkle_v1_misses_feedelegation_refuted :
  exists r1 r2, receipt_wf_merkle r1 /\ receipt_wf_merkle r2 /\ r1 <> r2 /\
                marshal_merkle false r1 = marshal_merkle false r2 /\
                marshal_merkle true r1 <> marshal_merkle true r2.
Proof. exact receipt_merkle_v1_misses_feedelegation_refuted. Qed.
Print Assumptions C19_receipt_merkle_v1_misses_feedelegation_refuted.

(** Latent (CumulativeFeeUsed is never set by the node). *)
Theorem C19_receipt_store_cumfee_refuted :
  exists r b, blen (r_addr r) = 33%N /\ blen (r_txhash r) = 32%N /\ r_events r = [] /\
              marshal_store true r = Some b /\
              forall r' rest', unmarshal_store true (b ++ [222; 173; 190]%N) = Some (r', rest') -> rest' <> [222; 173; 190]%N.
Proof. exact receipt_store_cumfee_refuted. Qed.
Print Assumptions C19_receipt_store_cumfee_refuted.

(** The merkle leaf input of a format version determines every field that version commits to. *)
Theorem C19_receipt_merkle_covers : forall v2 r1 r2 b1 b2,
  receipt_wf_merkle r1 -> receipt_wf_merkle r2 ->
  marshal_merkle v2 r1 = Some b1 -> marshal_merkle v2 r2 = Some b2 ->
  receipt_view v2 true r1 <> receipt_view v2 true r2 -> b1 <> b2.
Proof. exact receipt_merkle_covers. Qed.
Print Assumptions C19_receipt_merkle_covers.

Theorem C19_receipts_roundtrip : forall v2 bloom rs b,
  Forall receipt_wf rs -> bloom_wf bloom -> (N.of_nat (List.length rs) < 2 ^ 32)%N ->
  marshal_receipts v2 bloom rs = Some b ->
  unmarshal_receipts v2 b = Some (bloom, List.map (receipt_view v2 false) rs).
Proof. exact receipts_roundtrip. Qed.
Print Assumptions C19_receipts_roundtrip.

Theorem C19_receipts_root_binding :
  forall (H : bytes -> bytes) (hlen : nat), (forall x, List.length (H x) = hlen) ->
  forall v2 rs1 rs2,
  Forall receipt_wf_merkle rs1 -> Forall receipt_wf_merkle rs2 -> List.length rs1 = List.length rs2 ->
  receipts_root H v2 None rs1 = receipts_root H v2 None rs2 ->
  List.map (receipt_view v2 true) rs1 = List.map (receipt_view v2 true) rs2 \/ collision H.
Proof. exact receipts_root_binding. Qed.
Print Assumptions C19_receipts_root_binding.

(** * Genesis info through the chain DB (chain/chaindb.go addGenesisBlock / GetGenesisInfo) *)
From Verif Require Import Codec.GenesisStore Codec.GenesisStoreProofs.

(** Whatever ChainID.Read returns on the output of ChainID.Bytes is the chain id written
    (with a '/' in magic or consensus it returns an error, never a different id). *)
Theorem C19_chain_id_read_bytes_sound : forall c c',
  (cid_version c < 2 ^ 32)%N -> chain_id_read (chain_id_bytes c) = Some c' -> c' = c.
Proof. exact chain_id_read_bytes_sound. Qed.
Print Assumptions C19_chain_id_read_bytes_sound.

(** What is stored at genesis is read back at start-up, for every chain id (an id that Read
    cannot parse falls back to the stored copy), timestamp, producer list and non-zero total. *)
Theorem C19_genesis_info_roundtrip : forall g,
  (cid_version (g_id g) < 2 ^ 32)%N -> g_total g <> Some 0%N -> get_genesis (add_genesis g) = g.
Proof. exact genesis_info_roundtrip. Qed.
Print Assumptions C19_genesis_info_roundtrip.

Theorem C19_genesis_zero_total_reads_absent : forall id ts bps,
  g_total (get_genesis (add_genesis (mk_genesis_info id ts bps (Some 0%N)))) = None.
Proof. exact genesis_zero_total_reads_absent. Qed.
Print Assumptions C19_genesis_zero_total_reads_absent.

(** * Receipts and the hardfork configuration through the chain DB, across a restart
      (chain/chaindb.go writeReceiptsAndOperations / getReceipts / getReceipt / WriteHardfork / Hardfork) *)
From Verif Require Import Codec.ChainStore Codec.ChainStoreProofs.

(** Receipts written under the stored configuration are read back by a restarted node whose
    (possibly edited) configuration passes CheckCompatibility at a best block >= the block. *)
Theorem C19_db_receipts_restart_roundtrip : forall c db best no bloom rs data,
  check_compatibility c db best = true -> (no <= best)%N ->
  Forall receipt_wf rs -> bloom_wf bloom -> (N.of_nat (List.length rs) < 2 ^ 32)%N ->
  put_receipts (db_heights (List.length c) db) no bloom rs = Some data ->
  get_receipts c no data = Some (bloom, List.map (receipt_view (v2_at c no) false) rs).
Proof. exact db_receipts_restart_roundtrip. Qed.
Print Assumptions C19_db_receipts_restart_roundtrip.

(** Without that check (V2 height moved across the block) the reader uses the other format. *)
Theorem C19_db_receipts_version_mismatch_refuted :
  exists cw cr no rs data,
    Forall receipt_wf rs /\ put_receipts cw no None rs = Some data /\
    get_receipts cr no data <> Some (None, List.map (receipt_view (v2_at cw no) false) rs).
Proof. exact db_receipts_version_mismatch_refuted. Qed.
Print Assumptions C19_db_receipts_version_mismatch_refuted.

(** getReceipt: correct below the length, an error above it, a panic AT it (bound test `>`). *)
Theorem C19_get_receipt_spec : forall rs idx,
  ((0 <= idx < Z.of_nat (List.length rs))%Z ->
     exists r, get_receipt rs idx = GROk r /\ List.nth_error rs (Z.to_nat idx) = Some r) /\
  ((idx < 0 \/ Z.of_nat (List.length rs) < idx)%Z -> get_receipt rs idx = GRErr).
Proof. exact get_receipt_spec. Qed.
Print Assumptions C19_get_receipt_spec.

Theorem C19_get_receipt_total_refuted : forall rs, get_receipt rs (Z.of_nat (List.length rs)) = GRPanic.
Proof. exact get_receipt_total_refuted. Qed.
Print Assumptions C19_get_receipt_total_refuted.

(** With the proposed repair (fixes/Fxx_c19_getreceipt_index_bound.diff) it is total. *)
Theorem C19_get_receipt_fixed_total : forall rs idx, get_receipt_fixed rs idx <> GRPanic.
Proof. exact get_receipt_fixed_total. Qed.
Print Assumptions C19_get_receipt_fixed_total.

(** A validated configuration is compatible with what it wrote itself, at every height. *)
Theorem C19_write_read_hardfork_compatible : forall c best,
  validate c = true -> restart_compatible (write_hardfork c) c best = true.
Proof. exact write_read_hardfork_compatible. Qed.
Print Assumptions C19_write_read_hardfork_compatible.

(** FixDbConfig keeps stored heights and adopts the configuration's for missing keys only. *)
Theorem C19_fix_db_keeps_stored : forall db c k x,
  In (k, x) db -> NoDup (List.map fst db) -> db_get (fix_db db c) k = x.
Proof. exact fix_db_keeps_stored. Qed.
Print Assumptions C19_fix_db_keeps_stored.

Theorem C19_fix_db_adds_missing : forall db c i,
  ~ In (N.of_nat i + 2)%N (List.map fst db) -> (i < List.length c)%nat ->
  db_get (fix_db db c) (N.of_nat i + 2)%N = List.nth i c 0%N.
Proof. exact fix_db_adds_missing. Qed.
Print Assumptions C19_fix_db_adds_missing.

(** * Restart protocol of the hardfork configuration (chain/chainservice.go checkHardfork) *)
From Verif Require Import Codec.Restart Codec.RestartProofs.

(** "The hardfork version assigned to a height is stable across restarts": along ANY sequence
    of accepted or refused starts (with any configurations of the binary's arity) interleaved
    with chain growth, the running node reports for every produced height the version the
    height was produced with. *)
Theorem C19_restart_sequence_version_stable : forall (n : nat) evs,
  Forall (event_len n) evs -> versions_stable (run true evs).
Proof. exact restart_sequence_version_stable. Qed.
Print Assumptions C19_restart_sequence_version_stable.

(** The final WriteHardfork of checkHardfork is what makes it true: without it the stored
    heights stay those of the first start and a reverted configuration is accepted later. *)
Theorem C19_restart_without_writeback_refuted :
  Forall (event_len 4) reschedule /\ ~ versions_stable (run false reschedule).
Proof. exact restart_without_writeback_refuted. Qed.
Print Assumptions C19_restart_without_writeback_refuted.

(** * The cached identifier of a produced block (types/blockchain.go BlockHash + header mutators) *)
From Verif Require Import Codec.BlockCache Codec.BlockCacheProofs.

(** The identifier is a function of the header VALUE: if every request for it comes after the
    last header mutator, the identifier of the finished block is the hash of its final header. *)
Theorem C19_block_id_of_final_header :
  forall (H : bytes -> bytes), (forall x, H x <> []) ->
  forall muts asks h,
  List.forallb is_mutate muts = true -> List.forallb (fun o => negb (is_mutate o)) asks = true ->
  final_id H false (mk_cblock [] h) (muts ++ asks) = block_hash H (final_header H false (mk_cblock [] h) (muts ++ asks)).
Proof. exact block_id_of_final_header. Qed.
Print Assumptions C19_block_id_of_final_header.

(** The code as it is: ONE earlier request (a log line) and the identifier stays the hash of
    the unfinished header; it then misses the fields set afterwards. *)
Theorem C19_early_id_is_stale_refuted : forall (H : bytes -> bytes) h n,
  H (block_digest_input h) <> [] ->
  final_id H false (mk_cblock [] h) [AskId; Mutate (set_confirms n)] = block_hash H h.
Proof. exact early_id_is_stale_refuted. Qed.
Print Assumptions C19_early_id_is_stale_refuted.

Theorem C19_early_id_misses_confirms : forall (H : bytes -> bytes) h n,
  H (block_digest_input h) <> [] -> h_confirms h <> n -> (n < 2 ^ 64)%N -> header_wf h ->
  final_id H false (mk_cblock [] h) [AskId; Mutate (set_confirms n)] <>
  block_hash H (final_header H false (mk_cblock [] h) [AskId; Mutate (set_confirms n)]) \/ collision H.
Proof. exact early_id_misses_confirms. Qed.
Print Assumptions C19_early_id_misses_confirms.

(** With mutators that clear the cached field (proposed repair) it holds for ANY order of
    requests and mutators. *)
Theorem C19_block_id_of_final_header_invalidating :
  forall (H : bytes -> bytes), (forall x, H x <> []) ->
  forall ops b, consistent H b -> final_id H true b ops = block_hash H (final_header H true b ops).
Proof. exact block_id_of_final_header_invalidating. Qed.
Print Assumptions C19_block_id_of_final_header_invalidating.

(** * Event bloom filters (state/block.go AddReceipt, types/receipt.go BloomFilter) *)
From Verif Require Import Codec.Bloom Codec.BloomProofs.

(** No false negatives, whatever the bit positions of a key are: every event of a receipt is
    found through the receipt's filter and through the block's filter. *)
Theorem C19_bloom_receipt_event_found :
  forall (single : bytes -> bytes), (forall k, List.length (single k) = bloom_len) ->
  forall es e, In e es -> receipt_bloom_filter single (receipt_bloom single es) (ev_addr e) (ev_name e) = true.
Proof. exact receipt_event_found. Qed.
Print Assumptions C19_bloom_receipt_event_found.

Theorem C19_bloom_block_event_found :
  forall (single : bytes -> bytes), (forall k, List.length (single k) = bloom_len) ->
  forall rs es e, In es rs -> In e es ->
  receipts_bloom_filter single (block_bloom single rs) (ev_addr e) (ev_name e) = true.
Proof. exact block_event_found. Qed.
Print Assumptions C19_bloom_block_event_found.

(** * Hardfork versions *)

Theorem C19_fieldlists_hardfork : gen_struct_HardforkConfig = ["V2"; "V3"; "V4"; "V5"].
Proof. vm_compute. reflexivity. Qed.
Print Assumptions C19_fieldlists_hardfork.

Theorem C19_version_monotone : forall c h1 h2, (h1 <= h2)%N -> (version c h1 <= version c h2)%N.
Proof. exact version_monotone. Qed.
Print Assumptions C19_version_monotone.

Theorem C19_compat_implies_same_versions : forall c db h,
  check_compatibility c db h = true ->
  forall h', (h' <= h)%N -> version c h' = version (db_heights (List.length c) db) h'.
Proof. exact compat_implies_same_versions. Qed.
Print Assumptions C19_compat_implies_same_versions.

Theorem C19_version_fork_consistent : forall c h k,
  validate c = true -> (k < List.length c)%nat ->
  ((N.of_nat k + 2 <= version c h)%N <-> is_vfork c k h = true).
Proof. exact version_fork_consistent. Qed.
Print Assumptions C19_version_fork_consistent.

(** C20  Contract queries and view functions cannot change state.  Statements only.
    [Gen.Callbacks] is regenerated from contract/{vm_callback,vm,vm_state,internal_operations}.go
    by gen/gen_vmguard on every run (the VM cannot be built or run here: the tie is the translator). *)
From Coq Require Import List Bool String.
From Verif Require Import VmGuard.Lang VmGuard.Analysis VmGuard.CSide VmGuard.Reviewed Gen.Callbacks Gen.CCallbacks.
Import ListNotations.

(** The analyser is sound for every program, callback list and iteration bound (it verifies that
    its summary table is inductive, so recursion and any call depth are covered): if [check]
    accepts, no trace of any exported callback started in a read-only context (isQuery or
    nestedView > 0; amounts non-negative unless fork version >= 5) performs a mutator forbidden
    in the context it is performed in, contract code run from callbacks included. *)
Theorem C20_analysis_sound : forall (p : prog) (cbs : list string) (n : nat),
  check p cbs n = true ->
  forall cb e t o, In cb cbs -> good e = true -> exec p cbs e (Call cb) t o ->
  forall m k e0, In (m, k, e0) t -> forbidden k e0 = false.
Proof. exact analysis_sound. Qed.
Print Assumptions C20_analysis_sound.

(** The obligation over the translated source.  Entry points are the exported Go host callbacks
    and every C function registered with Lua; a C function's body (calls of Go callbacks, luaCheckView guards, SQL statement execution) is translated by
    lib/g6_cscan.py and checked together with the Go callbacks it calls, in every context. *)
Definition whole_program : prog := (Gen.Callbacks.program ++ Gen.CCallbacks.c_program)%list.
Definition entry_points : list string := (Gen.Callbacks.callbacks ++ Gen.CCallbacks.c_entries)%list.

Theorem C20_c_side_checked : check whole_program entry_points 7 = true.
Proof. vm_cast_no_check (eq_refl true). Qed.
Print Assumptions C20_c_side_checked.

Theorem C20_readonly_no_mutation_c_side :
  forall cb e t o, In cb entry_points -> good e = true ->
  exec whole_program entry_points e (Call cb) t o ->
  forall m k e0, In (m, k, e0) t -> forbidden k e0 = false.
Proof. exact (analysis_sound whole_program entry_points 7 C20_c_side_checked). Qed.
Print Assumptions C20_readonly_no_mutation_c_side.

(** Every Lua-registered C function and every call of a Go callback from C is a reviewed one. *)
Theorem C20_c_inventory_reviewed : c_inventory_reviewed Gen.CCallbacks.c_inventory = true.
Proof. vm_compute. reflexivity. Qed.
Print Assumptions C20_c_inventory_reviewed.

(** Every verb-named external callee occurring in the reachable functions is classified in
    VmGuard/Reviewed.v, and the classification agrees with the translator's mutator / restore lists. *)
Theorem C20_callees_classified :
  classification_ok Gen.Callbacks.verb_callees Gen.Callbacks.translator_mutators Gen.Callbacks.translator_restore = true.
Proof. vm_compute. reflexivity. Qed.
Print Assumptions C20_callees_classified.

(** F13 (known finding, fork version 4 only): the theorems above carry the hypothesis
    [good e] = read-only and (amount >= 0 or fork version >= 5).  Without it the check finds, on
    the translated source, luaSendAmount reaching SendBalance in a read-only context with a
    negative amount; checks/C20.py recomputes that path on every run and reports it as
    KNOWN-FINDING (it is not a theorem here so that repairing F13 does not break the build). *)

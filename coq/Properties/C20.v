(** C20  Contract queries and view functions cannot change state.  Statements only.
    [Gen.Callbacks] is regenerated from contract/{vm_callback,vm,vm_state,internal_operations}.go
    by gen/gen_vmguard on every run (the VM cannot be built or run here: the tie is the translator). *)
From Coq Require Import List Bool String.
From Coq Require Import ZArith.
From Verif Require Import VmGuard.Lang VmGuard.Analysis VmGuard.Balance VmGuard.Slots VmGuard.RecPoint VmGuard.CSide VmGuard.Reviewed Gen.Callbacks Gen.CCallbacks Gen.Slots.
Import ListNotations.

(** The analyser is sound for every program, callback list and iteration bound (it verifies that
    its summary table is inductive, so recursion and any call depth are covered): if [check]
    accepts, no trace of any exported callback started in a read-only context (isQuery or
    nestedView > 0; amounts non-negative unless fork version >= 5) performs a mutator forbidden
    in the context it is performed in, contract code run from callbacks included. *)
Theorem C20_analysis_sound : forall (p : prog) (cbs : list string) (n : nat),
  check p cbs n = true ->
  forall cb e t o, In cb cbs -> good e = true -> exec p cbs e (Call cb) t o ->
  forall m k e0, In (m, k, e0) t -> forbidden k e0 = false.
Proof. exact analysis_sound. Qed.
Print Assumptions C20_analysis_sound.

(** The obligation over the translated source.  Entry points are the exported Go host callbacks
    and every C function registered with Lua; a C function's body (calls of Go callbacks, luaCheckView guards, SQL statement execution) is translated by
    lib/g6_cscan.py and checked together with the Go callbacks it calls, in every context. *)
Definition whole_program : prog := (Gen.Callbacks.program ++ Gen.CCallbacks.c_program)%list.
Definition entry_points : list string := (Gen.Callbacks.callbacks ++ Gen.CCallbacks.c_entries)%list.

Theorem C20_c_side_checked : check whole_program entry_points 7 = true.
Proof. vm_cast_no_check (eq_refl true). Qed.
Print Assumptions C20_c_side_checked.

Theorem C20_readonly_no_mutation_c_side :
  forall cb e t o, In cb entry_points -> good e = true ->
  exec whole_program entry_points e (Call cb) t o ->
  forall m k e0, In (m, k, e0) t -> forbidden k e0 = false.
Proof. exact (analysis_sound whole_program entry_points 7 C20_c_side_checked). Qed.
Print Assumptions C20_readonly_no_mutation_c_side.

(** Every Lua-registered C function and every call of a Go callback from C is a reviewed one. *)
Theorem C20_c_inventory_reviewed : c_inventory_reviewed Gen.CCallbacks.c_inventory = true.
Proof. vm_compute. reflexivity. Qed.
Print Assumptions C20_c_inventory_reviewed.

(** Every verb-named external callee occurring in the reachable functions is classified in
    VmGuard/Reviewed.v, and the classification agrees with the translator's mutator / restore lists. *)
Theorem C20_callees_classified :
  classification_ok Gen.Callbacks.verb_callees Gen.Callbacks.translator_mutators Gen.Callbacks.translator_restore = true.
Proof. vm_compute. reflexivity. Qed.
Print Assumptions C20_callees_classified.

(* ------------------------------------------------------------------------------------------
   The context flags are not assumed: the view-depth counter discipline and the flag inventory. *)

(** Soundness of the counter analysis for every program (VmGuard/Balance.v): if [counter_ok]
    accepts, then on every path through every function -- early returns, panics of callees or of
    contract code, deferred statements, the callbacks that contract code calls -- the counter is
    back at its entry value when the function is left, it is never below the entry value while
    contract code runs, and it is above it while contract code runs under a view executor. *)
Theorem C20_counter_analysis_sound : forall exempt L p cbs, counter_ok exempt L p cbs = true ->
  forall f body fl d pp o l c, lookup p f = Some body -> exempt f = false ->
  (uses_view body = false -> fl "isView"%string = false) -> (0 <= c)%Z ->
  crun p cbs fl body (0, 0)%Z (d, pp) o l ->
  (c + (d + pp) = c)%Z /\
  Forall (fun e => (0 <= c + snd e)%Z /\ (fst e = true -> Z.ltb 0 (c + snd e) = true)) l.
Proof. exact counter_discipline. Qed.
Print Assumptions C20_counter_analysis_sound.

(** The obligation over the translated source: every Go function of package contract (not only
    those reachable from the callbacks: Execute, Call, Query, ... too) and the C functions. *)
Definition bracket (f : string) : bool := String.eqb f "luaViewStart" || String.eqb f "luaViewEnd".
Definition counter_program : prog := (Gen.Callbacks.all_functions ++ Gen.CCallbacks.c_program)%list.
Definition counter_callbacks : list string :=
  (filter (fun f => negb (bracket f)) Gen.Callbacks.callbacks ++ Gen.CCallbacks.c_entries)%list.
Definition lua_runners : list string := lua_iter 12 counter_program [].

Theorem C20_view_counter_balanced : counter_ok bracket lua_runners counter_program counter_callbacks = true.
Proof. vm_cast_no_check (eq_refl true). Qed.
Print Assumptions C20_view_counter_balanced.

(** executor.call is in the program, tests the isView flag and runs contract code; so does,
    through it, the callback with which contracts call contracts (the obligation is not vacuous) *)
Theorem C20_executor_call_translated :
  lookup counter_program "executor.call" = Some Gen.Callbacks.f_executor_call /\
  uses_view Gen.Callbacks.f_executor_call = true /\
  existsb (String.eqb "executor.call") lua_runners = true /\
  existsb (String.eqb "luaCallContract") lua_runners = true.
Proof. vm_compute. repeat split. Qed.
Print Assumptions C20_executor_call_translated.

(** Every write, initialiser, copy of the context flags is a reviewed one: isQuery is never
    assigned (never cleared), contexts are built by two constructors only and never copied,
    nestedView is only changed by ++ / -- in executor.call and the bracket callbacks. *)
Theorem C20_flag_sites_reviewed :
  flag_sites_ok Gen.Callbacks.flag_sites = true /\ lua_running_ok Gen.Callbacks.lua_running_c Gen.Callbacks.lua_library_c = true.
Proof. vm_compute. split; reflexivity. Qed.
Print Assumptions C20_flag_sites_reviewed.

(** The read-only hypothesis derived for view functions.  A context whose counter is c >= 0
    (it starts at 0 and every function restores it) enters executor.call for a view function
    (isView set).  Wherever contract code then runs as the body of that function -- nested calls
    included -- the counter is positive, i.e. atom V holds; so with the amount hypothesis the
    context is [good], and nothing that contract code does through the host API mutates state. *)
Theorem C20_view_function_readonly :
  forall fl d pp o l c, (0 <= c)%Z ->
  crun counter_program counter_callbacks fl Gen.Callbacks.f_executor_call (0, 0)%Z (d, pp) o l ->
  (c + (d + pp) = c)%Z /\
  forall dd, In (true, dd) l ->
  forall e, eV e = Z.ltb 0 (c + dd) -> (eF e || eP e || eZ e) = true ->
  forall cb t o', In cb entry_points -> exec whole_program entry_points e (Call cb) t o' ->
  forall m k e0, In (m, k, e0) t -> forbidden k e0 = false.
Proof.
  intros fl d pp o l c Hc Hr.
  destruct C20_executor_call_translated as (Hl & Hu & _).
  assert (Hu' : uses_view f_executor_call = false -> fl "isView"%string = false) by (rewrite Hu; discriminate).
  destruct (counter_discipline _ _ _ _ C20_view_counter_balanced "executor.call"%string _ fl d pp o l c Hl eq_refl Hu' Hc Hr) as [Hz Hev].
  split; [exact Hz|]. intros dd Hin e HV Hamt cb t o' Hcb Hex m k e0 Hm.
  rewrite Forall_forall in Hev. destruct (Hev _ Hin) as [_ Hpos]. simpl in Hpos. specialize (Hpos eq_refl).
  assert (Hg : good e = true).
  { unfold good. rewrite HV, Hpos, Hamt. rewrite orb_true_r. reflexivity. }
  exact (C20_readonly_no_mutation_c_side cb e t o' Hcb Hg Hex m k e0 Hm).
Qed.
Print Assumptions C20_view_function_readonly.

(* ------------------------------------------------------------------------------------------
   The context-slot discipline: each running Lua state's callbacks see its own context. *)
Open Scope nat_scope.

(** The source's constants, initialisation and store statement are the ones the model
    (VmGuard/Slots.v) is instantiated with, and every store into the context table, every write
    of a service field and every use of the service constants is a reviewed one. *)
Theorem C20_slot_sites_reviewed :
  slots_config_ok Gen.Slots.slot_constants Gen.Slots.init_last_query_index Gen.Slots.init_context_arg
                  Gen.Slots.tx_store_stmt Gen.Slots.init_context_base Gen.Slots.slot_loads_by_service = true /\
  slot_sites_ok Gen.Slots.slot_sites Gen.Slots.slot_constant_uses = true.
Proof. vm_compute. split; reflexivity. Qed.
Print Assumptions C20_slot_sites_reviewed.

(** a node with [w] >= 1 chain workers: maxContext = w + 2, first query slot = ChainService + 1 *)
Definition node_cfg (w : nat) : cfg :=
  mkCfg (w + Gen.Slots.init_context_base) (nat_of "ChainService" Gen.Slots.slot_constants + 1).
Lemma node_cfg_wf : forall w, 1 <= w -> wf (node_cfg w).
Proof. intros w Hw. unfold wf, node_cfg. simpl. vm_compute nat_of. vm_compute init_context_base. split; [|apply Nat.lt_add_pos_l]; auto. Qed.
Print Assumptions node_cfg_wf.

(** For every number of workers and every history of query allocations, releases and transaction
    stores since the node started: a live query (or fee-delegation check) holds a slot above
    ChainService -- never a slot in which transactions are executed. *)
Theorem C20_alloc_never_returns_reserved_slot : forall w h q j, 1 <= w ->
  In (q, j) (live (reached (node_cfg w) h)) -> nat_of "ChainService" Gen.Slots.slot_constants < j /\ j < w + 2.
Proof.
  intros w h q j Hw Hin. destruct (alloc_never_returns_reserved_slot _ h q j (node_cfg_wf w Hw) Hin) as [A B].
  unfold node_cfg in A, B. simpl in A, B. vm_compute nat_of in *. vm_compute init_context_base in *. split; [apply A | exact B].
Qed.
Print Assumptions C20_alloc_never_returns_reserved_slot.

Theorem C20_distinct_live_contexts_distinct_slots : forall w h q1 q2 j1 j2, 1 <= w ->
  In (q1, j1) (live (reached (node_cfg w) h)) -> In (q2, j2) (live (reached (node_cfg w) h)) -> q1 <> q2 -> j1 <> j2.
Proof. intros w h q1 q2 j1 j2 Hw. exact (distinct_live_contexts_distinct_slots _ h q1 q2 j1 j2 (node_cfg_wf w Hw)). Qed.
Print Assumptions C20_distinct_live_contexts_distinct_slots.

(** Hence [contexts[service]], evaluated by a callback of a live query at any later time --
    whatever transactions the chain service or the block factory stored meanwhile -- is that
    query's own context (isQuery = true): the guards are evaluated on the right flags. *)
Theorem C20_callbacks_see_own_context : forall w h q j, 1 <= w ->
  In (q, j) (live (reached (node_cfg w) h)) -> occ (reached (node_cfg w) h) j = Some (Q q).
Proof. intros w h q j Hw. exact (callbacks_see_own_context _ h q j (node_cfg_wf w Hw)). Qed.
Print Assumptions C20_callbacks_see_own_context.

(* ------------------------------------------------------------------------------------------
   The recovery-point discipline: restore operations have nothing to undo in a read-only context. *)

(** Soundness of the recovery-point analysis (VmGuard/RecPoint.v), for every program: on every
    path through a function of an accepted program, in a context with a positive amount, that
    leaves with an amount-carrying recovery point of this invocation linked, the transfer
    (SendBalance, sendBalance(...), ExecuteSystemTx) was reached before. *)
Theorem C20_recpoint_matches_effect : forall p, recpoints_ok p = true ->
  forall f body e y o, In (f, body) p -> eP e = true -> eZ e = false ->
  prun e body (false, false) y o -> fst y = true -> snd y = true.
Proof. exact recpoint_matches_effect. Qed.
Print Assumptions C20_recpoint_matches_effect.

(** ... and in a read-only context with a positive amount no path -- in particular none ending
    with the refusal -- leaves such a recovery point linked at all. *)
Theorem C20_refusal_leaves_no_recovery_point : forall p, recpoints_ro_ok p = true ->
  forall f body e y o, In (f, body) p -> (eQ e || eV e) = true -> eP e = true -> eZ e = false ->
  prun e body (false, false) y o -> fst y = false.
Proof. exact refusal_leaves_no_recovery_point. Qed.
Print Assumptions C20_refusal_leaves_no_recovery_point.

(** The obligations over the translated source (createRecoveryPoint(..., amount, ...) = RecPush,
    clearRecoveryPoint / `lastRecoveryPoint = lastRecoveryPoint.prev` = RecPop), all Go functions. *)
Theorem C20_recovery_points_checked :
  recpoints_ok Gen.Callbacks.all_functions = true /\ recpoints_ro_ok Gen.Callbacks.all_functions = true /\
  has_rec Gen.Callbacks.f_luaCallContract = true /\ has_rec Gen.Callbacks.f_luaSendAmount = true /\
  has_rec Gen.Callbacks.f_luaDeployContract = true.
Proof. vm_compute. repeat split. Qed.
Print Assumptions C20_recovery_points_checked.

(** F13 (known finding, fork version 4 only): the theorems above carry the hypothesis
    [good e] = read-only and (amount >= 0 or fork version >= 5).  Without it the check finds, on
    the translated source, luaSendAmount reaching SendBalance in a read-only context with a
    negative amount; checks/C20.py recomputes that path on every run and reports it as
    KNOWN-FINDING (it is not a theorem here so that repairing F13 does not break the build). *)

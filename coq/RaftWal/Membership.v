(** C16 model, part 2: raft cluster membership validation
    (consensus/impl/raftv2/cluster.go: validateChangeMembership, Members.hasDuplicatedMember,
    isEnableChangeMembership; consensus/raftCommon.go: Member.HasDuplicatedAttr, IsValid;
    raftserver.go: GetClusterProgress / getProgressState).

    Strings and peer ids are numbers, 0 = empty.  [Members.MapByID] is an association list
    keyed by member id.  No proofs in this file. *)
From Coq Require Import ZArith NArith List Bool.
Import ListNotations.
Open Scope N_scope.

(** consensus.Member; [m_addr_ok]: types.ParseMultiaddr(Address) succeeds (oracle bit) *)
Record member := mk_member { m_id : N; m_name : N; m_addr : N; m_peer : N; m_addr_ok : bool }.

(** Member.HasDuplicatedAttr *)
Definition has_dup_attr (m x : member) : bool :=
  (m_name m =? m_name x) || (m_id m =? m_id x) || (m_addr m =? m_addr x) || (m_peer m =? m_peer x).
(** Member.IsValid *)
Definition is_valid (m : member) : bool :=
  negb ((m_id m =? 0) || (m_peer m =? 0) || (m_name m =? 0) || (m_addr m =? 0)) && m_addr_ok m.

Definition members := list member.
(** Members.getMember / isExist (MapByID lookup) *)
Fixpoint get_member (ms : members) (id : N) : option member :=
  match ms with
  | [] => None
  | m :: tl => if m_id m =? id then Some m else get_member tl id
  end.
Definition is_exist (ms : members) (id : N) : bool :=
  match get_member ms id with Some _ => true | None => false end.
(** Members.hasDuplicatedMember *)
Definition has_duplicated_member (ms : members) (x : member) : bool := existsb (fun m => has_dup_attr m x) ms.

Inductive verr :=
| VOk | VMemberNil | VInvalidMemberID | VAlreadyRemoved | VInvalidMember | VAlreadyAdded | VDupBP
| VNoMemberToRemove | VInvCCType.

(** raftpb.ConfChangeType: 0 AddNode, 1 RemoveNode, 2 UpdateNode, ... *)
Definition validate_change_membership (applied removed : members) (cc_type : N) (m : option member) : verr :=
  match m with
  | None => VMemberNil
  | Some m =>
      if m_id m =? 0 then VInvalidMemberID
      else if is_exist removed (m_id m) then VAlreadyRemoved
      else if cc_type =? 0 then
        (if negb (is_valid m) then VInvalidMember
         else if is_exist applied (m_id m) then VAlreadyAdded
         else if has_duplicated_member applied m then VDupBP
         else VOk)
      else if cc_type =? 1 then
        (if is_exist applied (m_id m) then VOk else VNoMemberToRemove)
      else VInvCCType
  end.

(** Cluster.addMember(applied = true) / removeMember on the applied and removed sets *)
Definition apply_add (applied : members) (m : member) : members :=
  if is_exist applied (m_id m) then applied else applied ++ [m].
(** validateChangeMembership copies the applied member over the request's member ([*member = *m]:
    a remove request carries the id only), so the removed set records the member's attributes *)
Definition full_member (applied : members) (m : member) : member :=
  match get_member applied (m_id m) with Some x => x | None => m end.
Definition apply_remove (applied removed : members) (m : member) : members * members :=
  (filter (fun x => negb (m_id x =? m_id m)) applied,
   if is_exist removed (m_id m) then removed else removed ++ [full_member applied m]).

(** ---- availability check ---- *)
(** raft.Progress of one node as seen by the leader: State (0 probe, 1 replicate, 2 snapshot), Match *)
Record prog := mk_prog { p_id : N; p_state : N; p_match : N }.

(** getProgressState: 0 healthy, 1 slow, 2 syncing *)
Definition member_state (self last gap : N) (p : prog) : N :=
  if p_id p =? self then 0
  else if p_state p =? 2 then 2
  else if (p_state p =? 0) || ((p_match p <? last) && (gap <? last - p_match p)) then 1
  else 0.

Inductive eerr := EOk | EStatusEmpty | EUnhealthyNodeExist | ENoProgress | ERemoveHealthyNode | EInvalidReqType.

Fixpoint get_prog (ps : list prog) (id : N) : option prog :=
  match ps with
  | [] => None
  | p :: tl => if p_id p =? id then Some p else get_prog tl id
  end.

Definition healthy_count (self last gap : N) (ps : list prog) : Z :=
  Z.of_nat (length (filter (fun p => member_state self last gap p =? 0) ps)).
(** isClusterAvilable(total, healthy): healthy >= total/2 + 1 (Go int division) *)
Definition cluster_available (total healthy : Z) : bool := (Z.quot total 2 + 1 <=? healthy)%Z.

(** isEnableChangeMembership.  [status_id]: raft Status.ID (0 = node not initialised);
    [leader]: rs.IsLeader(); when the node is not the leader or the progress map is empty the
    cluster progress is empty (N = 0, no member progress). *)
Definition is_enable_change_membership (status_id : N) (leader : bool) (self last gap : N)
           (ps : list prog) (cc_type node_id : N) : eerr :=
  if status_id =? 0 then EStatusEmpty
  else
    let ps' := if leader then ps else [] in
    let n := Z.of_nat (length ps') in
    let healthy := healthy_count self last gap ps' in
    if cc_type =? 0 then
      (if forallb (fun p => member_state self last gap p =? 0) ps' then EOk else EUnhealthyNodeExist)
    else if cc_type =? 1 then
      match get_prog ps' node_id with
      | None => ENoProgress
      | Some p =>
          if negb (member_state self last gap p =? 0) then EOk
          else if cluster_available (n - 1) (healthy - 1) then EOk else ERemoveHealthyNode
      end
    else EInvalidReqType.

(** ---- evaluation helpers ---- *)
Definition verr_code (e : verr) : N :=
  match e with VOk => 0 | VMemberNil => 1 | VInvalidMemberID => 2 | VAlreadyRemoved => 3 | VInvalidMember => 4
             | VAlreadyAdded => 5 | VDupBP => 6 | VNoMemberToRemove => 7 | VInvCCType => 8 end.
Definition eerr_code (e : eerr) : N :=
  match e with EOk => 0 | EStatusEmpty => 1 | EUnhealthyNodeExist => 2 | ENoProgress => 3 | ERemoveHealthyNode => 4
             | EInvalidReqType => 5 end.

Definition vcase : Type := members * members * N * option member * N.
Definition vcase_ok (c : vcase) : bool :=
  let '(applied, removed, t, m, code) := c in verr_code (validate_change_membership applied removed t m) =? code.
(** status id, leader, self, last, gap, progress, cc type, node id, observed code, observed
    states (one per progress entry, in order) *)
Definition ecase : Type := N * bool * N * N * N * list prog * N * N * N * list N.
Fixpoint list_eqbN (a b : list N) : bool :=
  match a, b with
  | [], [] => true
  | x :: ta, y :: tb => (x =? y) && list_eqbN ta tb
  | _, _ => false
  end.
Definition ecase_ok (c : ecase) : bool :=
  let '(sid, leader, self, last, gap, ps, t, nid, code, states) := c in
  (eerr_code (is_enable_change_membership sid leader self last gap ps t nid) =? code)
  && (if leader then list_eqbN (map (member_state self last gap) ps) states else true).

(** ---- sequences of requests: validate, then Cluster.addMember(applied) / removeMember ---- *)
Inductive req := RAdd (m : member) | RRemove (m : member).
Definition cluster : Type := members * members.
Definition req_code (c : cluster) (r : req) : verr :=
  match r with
  | RAdd m => validate_change_membership (fst c) (snd c) 0 (Some m)
  | RRemove m => validate_change_membership (fst c) (snd c) 1 (Some m)
  end.
Definition apply_req (c : cluster) (r : req) : cluster :=
  let '(applied, removed) := c in
  match r with
  | RAdd m => match validate_change_membership applied removed 0 (Some m) with
              | VOk => (apply_add applied m, removed)
              | _ => c
              end
  | RRemove m => match validate_change_membership applied removed 1 (Some m) with
                 | VOk => apply_remove applied removed m
                 | _ => c
                 end
  end.
Fixpoint ninsert (x : N) (l : list N) : list N :=
  match l with [] => [x] | y :: tl => if x <=? y then x :: l else y :: ninsert x tl end.
Fixpoint nsort (l : list N) : list N := match l with [] => [] | x :: tl => ninsert x (nsort tl) end.
(** a sequence case: initial applied members, then (request, observed code, observed applied
    ids (sorted), observed removed ids (sorted)) *)
Definition scase : Type := members * list (req * N * list N * list N).
Fixpoint seq_ok (c : cluster) (l : list (req * N * list N * list N)) : bool :=
  match l with
  | [] => true
  | (r, code, ap, rm) :: tl =>
      let c' := apply_req c r in
      (verr_code (req_code c r) =? code) && list_eqbN (nsort (map m_id (fst c'))) ap
      && list_eqbN (nsort (map m_id (snd c'))) rm && seq_ok c' tl
  end.
Definition scase_ok (s : scase) : bool := seq_ok (fst s, []) (snd s).

Fixpoint mismatches_from {A} (ok : A -> bool) (l : list A) (i : nat) : list nat :=
  match l with
  | [] => []
  | x :: tl => if ok x then mismatches_from ok tl (S i) else i :: mismatches_from ok tl (S i)
  end.

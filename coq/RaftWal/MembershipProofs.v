(** Proofs about the membership model (RaftWal/Membership.v). *)
From Coq Require Import ZArith NArith List Bool Lia.
From Verif Require Import RaftWal.Membership.
Import ListNotations.
Open Scope N_scope.

Lemma get_member_in ms id m : get_member ms id = Some m -> In m ms /\ m_id m = id.
Proof.
  induction ms as [|x tl IH]; cbn; [discriminate|].
  destruct (N.eqb_spec (m_id x) id); intros H.
  - inversion H; subst. auto.
  - destruct (IH H). auto.
Qed.
Lemma is_exist_false ms id : is_exist ms id = false -> forall x, In x ms -> m_id x <> id.
Proof.
  unfold is_exist. induction ms as [|y tl IH]; cbn; intros H x Hin; [contradiction|].
  destruct (N.eqb_spec (m_id y) id); [discriminate|]. destruct Hin as [<-|Hin]; auto.
Qed.
Lemma is_exist_true ms id : is_exist ms id = true -> exists x, In x ms /\ m_id x = id.
Proof.
  unfold is_exist. destruct (get_member ms id) eqn:E; [|discriminate]. intros _.
  apply get_member_in in E. eauto.
Qed.
Lemma in_is_exist ms x : In x ms -> is_exist ms (m_id x) = true.
Proof.
  unfold is_exist. induction ms as [|y tl IH]; cbn; [tauto|]. intros [->|H].
  - now rewrite N.eqb_refl.
  - destruct (m_id y =? m_id x); auto.
Qed.

(** an accepted add shares no name, id, address or peer id with any applied member, is a valid
    member, and its id was never removed *)
Theorem add_refused_if_duplicate_attr applied removed m :
  validate_change_membership applied removed 0 (Some m) = VOk ->
  (forall x, In x applied ->
     m_name x <> m_name m /\ m_id x <> m_id m /\ m_addr x <> m_addr m /\ m_peer x <> m_peer m) /\
  is_valid m = true /\ is_exist removed (m_id m) = false.
Proof.
  unfold validate_change_membership.
  destruct (m_id m =? 0); [discriminate|].
  destruct (is_exist removed (m_id m)) eqn:R; [discriminate|]. cbn.
  destruct (is_valid m) eqn:V; cbn; [|discriminate].
  destruct (is_exist applied (m_id m)); [discriminate|].
  destruct (has_duplicated_member applied m) eqn:D; [discriminate|]. intros _.
  split; auto. intros x Hin. unfold has_duplicated_member in D.
  assert (Hx : has_dup_attr x m = false).
  { destruct (has_dup_attr x m) eqn:Hd; auto.
    assert (existsb (fun y => has_dup_attr y m) applied = true) by (apply existsb_exists; eauto). congruence. }
  unfold has_dup_attr in Hx. repeat (apply orb_false_iff in Hx; destruct Hx as [Hx ?]).
  repeat split; apply N.eqb_neq; auto.
Qed.

(** contrapositive form: any single duplicated attribute makes the add fail *)
Theorem add_duplicate_refused applied removed m x :
  In x applied ->
  (m_name x = m_name m \/ m_id x = m_id m \/ m_addr x = m_addr m \/ m_peer x = m_peer m) ->
  validate_change_membership applied removed 0 (Some m) <> VOk.
Proof.
  intros Hin Hd Hok. destruct (add_refused_if_duplicate_attr _ _ _ Hok) as [H _].
  destruct (H x Hin) as (A & B & C & D). tauto.
Qed.

(** a removed id is refused whatever the request type *)
Theorem readd_removed_refused applied removed t m :
  m_id m <> 0 -> is_exist removed (m_id m) = true ->
  validate_change_membership applied removed t (Some m) = VAlreadyRemoved.
Proof.
  intros Hz Hr. unfold validate_change_membership.
  destruct (N.eqb_spec (m_id m) 0); [contradiction|]. now rewrite Hr.
Qed.

(** removing an id that is not an applied member is refused *)
Theorem remove_unknown_refused applied removed m :
  is_exist applied (m_id m) = false ->
  validate_change_membership applied removed 1 (Some m) <> VOk.
Proof.
  intros Ha. unfold validate_change_membership.
  destruct (m_id m =? 0); [discriminate|].
  destruct (is_exist removed (m_id m)); [discriminate|]. cbn. rewrite Ha. discriminate.
Qed.

(** an accepted removal of a healthy node (on the leader) leaves a quorum of healthy nodes
    among the remaining ones: healthy - 1 >= (N - 1) / 2 + 1 *)
Theorem remove_healthy_keeps_quorum sid self last gap ps nid p :
  is_enable_change_membership sid true self last gap ps 1 nid = EOk ->
  get_prog ps nid = Some p -> member_state self last gap p = 0 ->
  (healthy_count self last gap ps - 1 >= (Z.of_nat (length ps) - 1) / 2 + 1)%Z.
Proof.
  unfold is_enable_change_membership. destruct (sid =? 0); [discriminate|]. cbn [N.eqb].
  intros H Hp Hs. rewrite Hp, Hs in H. cbn in H.
  unfold cluster_available in H.
  destruct (Z.leb_spec (Z.quot (Z.of_nat (length ps) - 1) 2 + 1) (healthy_count self last gap ps - 1)); [|discriminate].
  assert (Hn : (0 <= Z.of_nat (length ps) - 1)%Z).
  { destruct ps; [discriminate|]. cbn [length]. lia. }
  rewrite Z.quot_div_nonneg in H0 by lia. lia.
Qed.

(** an add is accepted by the availability check only when every node is healthy (leader) *)
Theorem add_requires_all_healthy sid self last gap ps nid :
  is_enable_change_membership sid true self last gap ps 0 nid = EOk ->
  forall p, In p ps -> member_state self last gap p = 0.
Proof.
  unfold is_enable_change_membership. destruct (sid =? 0); [discriminate|]. cbn [N.eqb].
  destruct (forallb (fun p => member_state self last gap p =? 0) ps) eqn:F; [|discriminate].
  intros _ p Hin. rewrite forallb_forall in F. apply N.eqb_eq. now apply F.
Qed.

(** ---- sequences of validated changes: a removed id never becomes a member again ---- *)
Definition disjoint_ids (c : cluster) : Prop :=
  forall x, In x (fst c) -> is_exist (snd c) (m_id x) = false.

Lemma is_exist_app ms x id : is_exist (ms ++ [x]) id = is_exist ms id || (m_id x =? id).
Proof.
  unfold is_exist. induction ms as [|y tl IH]; cbn.
  - destruct (m_id x =? id); reflexivity.
  - destruct (m_id y =? id); auto.
Qed.

Lemma get_member_id ms id x : get_member ms id = Some x -> m_id x = id.
Proof.
  induction ms as [|y tl IH]; cbn; [discriminate|]. destruct (N.eqb_spec (m_id y) id); auto.
  intros H; injection H as <-; auto.
Qed.
Lemma full_member_id applied m : m_id (full_member applied m) = m_id m.
Proof. unfold full_member. destruct (get_member applied (m_id m)) eqn:E; auto. now apply get_member_id in E. Qed.

Theorem removed_never_member_again c r : disjoint_ids c -> disjoint_ids (apply_req c r).
Proof.
  destruct c as [applied removed]. intros Hd. destruct r as [m|m]; cbn [apply_req].
  - destruct (validate_change_membership applied removed 0 (Some m)) eqn:V; auto.
    destruct (add_refused_if_duplicate_attr _ _ _ V) as (_ & _ & Hr).
    unfold apply_add. destruct (is_exist applied (m_id m)); auto.
    intros x Hin. cbn in *. apply in_app_or in Hin. destruct Hin as [Hin|[<-|[]]]; auto.
  - destruct (validate_change_membership applied removed 1 (Some m)) eqn:V; auto.
    unfold apply_remove. intros x Hin. cbn in *. apply filter_In in Hin. destruct Hin as [Hin Hne].
    apply negb_true_iff in Hne. pose proof (Hd x Hin) as Hx. cbn in Hx.
    destruct (is_exist removed (m_id m)); auto.
    rewrite is_exist_app, Hx, full_member_id. cbn. rewrite N.eqb_sym. exact Hne.
Qed.

Theorem removed_never_member_again_run rs : forall c, disjoint_ids c -> disjoint_ids (fold_left apply_req rs c).
Proof. induction rs as [|r tl IH]; intros c H; cbn; auto. apply IH. now apply removed_never_member_again. Qed.

(** removed ids stay removed *)
Theorem removed_stays_removed c r id : is_exist (snd c) id = true -> is_exist (snd (apply_req c r)) id = true.
Proof.
  destruct c as [applied removed]. intros H. destruct r as [m|m]; cbn [apply_req].
  - destruct (validate_change_membership applied removed 0 (Some m)); auto.
  - destruct (validate_change_membership applied removed 1 (Some m)); auto.
    unfold apply_remove. cbn in *. destruct (is_exist removed (m_id m)); auto.
    rewrite is_exist_app, H. reflexivity.
Qed.

(** ---- satisfiable hypotheses ---- *)
Definition M (i : N) : member := mk_member i i i i true.
Example ex_add_ok : validate_change_membership [M 1; M 2] [M 7] 0 (Some (M 3)) = VOk.
Proof. reflexivity. Qed.
Example ex_add_dup_peer : validate_change_membership [M 1; M 2] [M 7] 0 (Some (mk_member 3 3 3 2 true)) = VDupBP.
Proof. reflexivity. Qed.
Example ex_remove_healthy_ok :
  is_enable_change_membership 1 true 1 500 100 [mk_prog 1 1 500; mk_prog 2 1 500; mk_prog 3 1 500; mk_prog 4 0 500] 1 2 = EOk.
Proof. reflexivity. Qed.
Example ex_remove_healthy_refused :
  is_enable_change_membership 1 true 1 500 100 [mk_prog 1 1 500; mk_prog 2 1 500; mk_prog 3 0 500; mk_prog 4 0 500] 1 2 = ERemoveHealthyNode.
Proof. reflexivity. Qed.

(** C16 model, part 3: what consensus/impl/raftv2/raftserver.go does with the WAL around a
    restart and a snapshot — replayWAL (hand-over of the stored log to the consensus library's
    MemoryStorage), entriesToApply, the index arithmetic of triggerSnapshot (snapshot +
    compaction), ChainDB.HasWal — and the conf-change proposal slot of cluster.go
    (makeProposal / submitProposal / AfterConfChange) and Cluster.Recover from snapshot data.
    No proofs in this file. *)
From Coq Require Import NArith List Bool Arith.
From Verif Require Import RaftWal.Wal RaftWal.Membership.
Import ListNotations.
Open Scope N_scope.

(** raft.MemoryStorage after replayWAL: snapshot metadata (index, term), the entries after it,
    the hard state; [rs.lastIndex] *)
Record mstore := mk_ms { ms_snap : N * N; ms_ents : list rentry; ms_hs : N * N * N; ms_lastidx : N }.

(** replayWAL(snapshot): ReadAll, RecoverIdentity (the stored identity must exist — and match
    the configured name and peer id, else the node stops), NewMemoryStorage, ApplySnapshot,
    SetHardState, Append.  [None]: the node stops (logger.Fatal) instead of starting. *)
Definition replay (w : wal) : option mstore :=
  match w_id w with
  | None => None
  | Some _ =>
      let snap := match w_snap w with Some (i, t, _) => Some (i, t) | None => None end in
      (* MemoryStorage.ApplySnapshot refuses an index that is not above its own (0 when new):
         a stored snapshot with index 0 (ResetWAL with commit 0) stops the node *)
      if match snap with Some (i, _) => i =? 0 | None => false end then None else
      match read_all w snap with
      | RErr _ => None
      | ROk (_, hs, l) =>
          Some (mk_ms (match snap with Some p => p | None => (0, 0) end) l hs
                      (match rev l with [] => 0 | e :: _ => r_index e end))
      end
  end.
Definition ms_first (m : mstore) : N := fst (ms_snap m) + 1.
Definition ms_last (m : mstore) : N := fst (ms_snap m) + N.of_nat (length (ms_ents m)).

(** entriesToApply: the committed entries not applied yet.  [None]: first index beyond
    appliedIndex+1 (logger.Fatal) *)
Definition entries_to_apply (applied : N) (ents : list rentry) : option (list rentry) :=
  match ents with
  | [] => Some []
  | e0 :: _ =>
      if applied + 1 <? r_index e0 then None
      else let skip := applied + 1 - r_index e0 in
           if skip <? N.of_nat (length ents) then Some (skipn (N.to_nat skip) ents) else Some []
  end.

(** triggerSnapshot: from the index of the last connected block [idx], rs.snapshotIndex [snap],
    the snapshot frequency, ConfSnapshotCatchUpEntriesN and the index the in-memory log is already
    compacted to [off]: the index of the snapshot written to the WAL, the new compaction index and
    the new rs.snapshotIndex.  (uint64 subtraction wraps; when the compaction index is not above
    [off], MemoryStorage.Compact answers ErrCompacted and the function returns before advancing
    rs.snapshotIndex.) *)
Definition trigger_snapshot (idx snap freq catchup off : N) : option (N * N * N) :=
  if idx =? 0 then None
  else if (snap <=? idx) && (idx - snap <=? freq) then None
  else let k := if catchup <? idx then idx - catchup else 1 in
       if k <=? off then Some (idx, off, snap) else Some (idx, k, idx).

(** ChainDB.HasWal(identity): 0 = (true, nil); 1 = (false, nil) no identity stored;
    2 name differs; 3 peer id differs; 4 no hard state *)
Definition has_wal (w : wal) (name peer : N) : N :=
  match w_id w with
  | None => 1
  | Some (_, _, n, p) =>
      if negb (n =? name) then 2 else if negb (p =? peer) then 3
      else match w_hs w with None => 4 | Some _ => 0 end
  end.

(** ---- the conf-change proposal slot ---- *)
(** [savedChange] (at most one proposal in flight) and the buffered channel to the raft loop *)
Record pslot := mk_ps { ps_saved : option N; ps_chan : list N; ps_cap : nat }.
Inductive perr := POk | PPending | PBusy.
(** submitProposal *)
Definition submit (s : pslot) (ccid : N) : pslot * perr :=
  match ps_saved s with
  | Some _ => (s, PPending)
  | None => if Nat.ltb (length (ps_chan s)) (ps_cap s)
            then (mk_ps (Some ccid) (ps_chan s ++ [ccid]) (ps_cap s), POk)
            else (mk_ps None (ps_chan s) (ps_cap s), PBusy)
  end.
(** AfterConfChange(cc): only the saved proposal is completed *)
Definition after_conf_change (s : pslot) (ccid : N) : pslot :=
  match ps_saved s with
  | Some c => if c =? ccid then mk_ps None (ps_chan s) (ps_cap s) else s
  | None => s
  end.
(** recvConfChangeReply, time-out branch: the requester stops waiting.  The proposal was handed
    to raft and will still be applied, so it stays saved; AfterConfChange frees the slot when
    the change has been applied. *)
Definition reply_timeout (s : pslot) : pslot := s.
(** the raft loop takes the next proposal from the channel *)
Definition take (s : pslot) : pslot := mk_ps (ps_saved s) (tl (ps_chan s)) (ps_cap s).

(** ---- Cluster.Recover(snapshot) ---- *)
Fixpoint minsert (x : member) (l : members) : members :=
  match l with [] => [x] | y :: tl => if m_name x <=? m_name y then x :: l else y :: minsert x tl end.
Fixpoint msort (l : members) : members := match l with [] => [] | x :: tl => minsert x (msort tl) end.
(** Member.Equal *)
Definition member_equal (a b : member) : bool :=
  (m_id a =? m_id b) && (m_peer a =? m_peer b) && (m_name a =? m_name b) && (m_addr a =? m_addr b).
Fixpoint members_equal (x y : members) : bool :=
  match x, y with
  | [], [] => true
  | a :: tx, b :: ty => member_equal a b && members_equal tx ty
  | _, _ => false
  end.
Definition add_removed (removed : members) (m : member) : members :=
  if is_exist removed (m_id m) then removed else removed ++ [m].
(** Recover: unchanged when the snapshot lists equal the cluster's, else reset and refill *)
Definition recover (c : cluster) (ms rs : members) : cluster :=
  if members_equal (msort (fst c)) (msort ms) && members_equal (msort (snd c)) (msort rs) then c
  else (fold_left apply_add ms [], fold_left add_removed rs []).

(** ---- evaluation helpers ---- *)
Definition enc_replay (w : wal) : list N :=
  match replay w with
  | None => [0]
  | Some m => [1; fst (ms_snap m); snd (ms_snap m); ms_first m; ms_last m; ms_lastidx m]
              ++ enc_o3 (Some (ms_hs m)) ++ N.of_nat (length (ms_ents m)) :: concat (map enc_rentry (ms_ents m))
  end.
Definition observe_srv (w : wal) (qs : list (N * N)) : list N :=
  enc_replay w ++ map (fun q => has_wal w (fst q) (snd q)) qs.

(** entriesToApply case: applied index, entry indices (terms/data irrelevant), observed: 0 =
    stop, or 1 :: indices *)
Definition eta_case_ok (c : N * list N * list N) : bool :=
  let '(applied, idxs, ob) := c in
  let ents := map (fun i => mk_rentry 0 1 i None) idxs in
  Membership.list_eqbN (match entries_to_apply applied ents with
                        | None => [0]
                        | Some l => 1 :: map r_index l
                        end) ob.
(** triggerSnapshot case *)
Definition ts_case_ok (c : N * N * N * N * N * list N) : bool :=
  let '(idx, snap, freq, catchup, off, ob) := c in
  Membership.list_eqbN (match trigger_snapshot idx snap freq catchup off with
                        | None => [0]
                        | Some (s, k, i) => [1; s; k; i]
                        end) ob.

(** createSnapshotData: the member lists of the snapshot are Members.ToArray() of the applied
    and of the removed set: ALL values of the id-indexed map, sorted by name.  (The name index
    of the removed set can hold fewer members: a name may be used again by a member with a fresh
    id after its first holder was removed.) *)
Definition snapshot_data (c : cluster) : members * members := (msort (fst c), msort (snd c)).
Fixpoint dup_names (l : members) : bool :=
  match l with [] => false | x :: tl => existsb (fun y => m_name y =? m_name x) tl || dup_names tl end.

(** request sequences with snapshot round trips: the snapshot data of the running cluster is
    recovered into (mode 0) a cluster that still has the initial configuration, (1) an empty
    cluster, (2) a lagging follower: the cluster as it was at the last mark.  The node goes on
    with the recovered cluster. *)
Inductive sreq := SReq (r : req) | SMark | SRestart (mode : N).
Definition restart_target (init : members) (lag : cluster) (mode : N) : cluster :=
  if mode =? 0 then (init, []) else if mode =? 1 then ([], []) else lag.
Definition sstep (init : members) (st : cluster * cluster) (r : sreq) : cluster * cluster :=
  let '(c, lag) := st in
  match r with
  | SReq r => (apply_req c r, lag)
  | SMark => (c, c)
  | SRestart mode =>
      let sd := snapshot_data c in (recover (restart_target init lag mode) (fst sd) (snd sd), lag)
  end.
Fixpoint sseq_ok (init : members) (st : cluster * cluster) (l : list (sreq * N * list N * list N)) : bool :=
  match l with
  | [] => true
  | (r, code, ap, rm) :: tl =>
      let c := fst st in
      let st' := sstep init st r in
      let c' := fst st' in
      (match r with
       | SReq q => verr_code (req_code c q) =? code
       | SMark => true
       | SRestart mode =>
           let t := restart_target init (snd st) mode in
           let eq := members_equal (msort (fst t)) (msort (fst c)) && members_equal (msort (snd t)) (msort (snd c)) in
           (* two removed members with one name: the order sort.Sort gives them is not determined,
              so isAllMembersEqual may answer either way (both branches yield the same id sets) *)
           (code =? (if eq then 10 else 0)) || (dup_names (snd c) && ((code =? 0) || (code =? 10)))
       end)
      && Membership.list_eqbN (nsort (map m_id (fst c'))) ap
      && Membership.list_eqbN (nsort (map m_id (snd c'))) rm && sseq_ok init st' tl
  end.
Definition sscase : Type := members * list (sreq * N * list N * list N).
Definition sscase_ok (s : sscase) : bool := sseq_ok (fst s) ((fst s, []), (fst s, [])) (snd s).

(** proposal slot cases *)
Inductive pop := PSubmit (c : N) | PMake (c : N) | PAfter (c : N) | PTake | PTimeout.
Fixpoint pseq_ok (s : pslot) (l : list (pop * N * N * N)) : bool :=
  match l with
  | [] => true
  | (o, code, saved, clen) :: tl =>
      let '(s', c) := match o with
                      | PSubmit x => let '(s1, e) := submit s x in (s1, match e with POk => 0 | PPending => 1 | PBusy => 2 end)
                      | PMake _ => (s, match ps_saved s with Some _ => 1 | None => 0 end)
                      | PAfter x => (after_conf_change s x, 0)
                      | PTake => match ps_chan s with [] => (s, 3) | _ => (take s, 0) end
                      | PTimeout => (reply_timeout s, 4)
                      end in
      (c =? code) && ((match ps_saved s' with Some x => x | None => 0 end) =? saved)
      && (N.of_nat (length (ps_chan s')) =? clen) && pseq_ok s' tl
  end.
(** the changes in flight: accepted by submitProposal (handed to raft) and not yet applied
    ([PAfter x] = change x has been applied, whether or not anybody still waits for it) *)
Definition pstep (st : pslot * list N) (o : pop) : pslot * list N :=
  let '(s, fl) := st in
  match o with
  | PSubmit x => let '(s1, e) := submit s x in (s1, match e with POk => fl ++ [x] | _ => fl end)
  | PMake _ => st
  | PAfter x => (after_conf_change s x, filter (fun y => negb (y =? x)) fl)
  | PTake => (match ps_chan s with [] => s | _ => take s end, fl)
  | PTimeout => (reply_timeout s, fl)
  end.
Definition pcase_ok (c : nat * list (pop * N * N * N)) : bool := pseq_ok (mk_ps None [] (fst c)) (snd c).

(** Proofs about RaftWal/Server.v. *)
From Coq Require Import ZArith NArith List Bool Arith Lia.
From Verif Require Import RaftWal.Wal RaftWal.WalProofs RaftWal.Membership RaftWal.MembershipProofs RaftWal.Server.
Import ListNotations.
Open Scope N_scope.

(** ---- replayWAL ---- *)
Lemma read_all_none w : read_all w None = read_all w (Some (0, 0)).
Proof. reflexivity. Qed.

(** After any well-formed history, with identity and hard state stored and the stored snapshot
    (if any) inside the log, replayWAL starts the consensus library with exactly the acknowledged
    log after the snapshot, the stored hard state, and a last index equal to the WAL's. *)
Theorem replay_hands_over_log ops w hs idn s sterm :
  history_wf (mk_rlog 0 []) ops -> wrun wal_empty ops = Some w ->
  let r := spec_run (mk_rlog 0 []) ops in
  w_hs w = Some hs -> w_id w = Some idn ->
  ((exists dat, w_snap w = Some (s, sterm, dat) /\ 0 < s) \/ (w_snap w = None /\ s = 0 /\ sterm = 0)) ->
  base r <= s -> s <= base r + N.of_nat (length (ents r)) ->
  (forall e, In e (skipn (N.to_nat (s - base r)) (ents r)) -> e_type e <= 2 /\ sterm <= e_term e) ->
  exists m, replay w = Some m /\ ms_snap m = (s, sterm) /\ ms_hs m = hs /\
            ms_ents m = map to_raft (skipn (N.to_nat (s - base r)) (ents r)) /\
            ms_last m = last_index w.
Proof.
  intros Hwf Hr r Hhs Hid Hsn Hlo Hhi Hall.
  pose proof (read_all_after_history ops w hs s sterm Hwf Hr Hhs Hlo Hhi Hall) as RA. fold r in RA.
  pose proof (run_refines ops _ _ _ inv_empty Hwf Hr) as (Hl & _). fold r in Hl.
  assert (Hlen : s + N.of_nat (length (map to_raft (skipn (N.to_nat (s - base r)) (ents r)))) = last_index w).
  { rewrite map_length, skipn_length, Hl. lia. }
  unfold replay. rewrite Hid.
  destruct Hsn as [(dat & Hs & Hpos)|(Hs & -> & ->)]; rewrite Hs.
  - destruct (N.eqb_spec s 0); [lia|]. rewrite RA. eexists. split; [reflexivity|]. unfold ms_last. cbn. repeat split. exact Hlen.
  - change (read_all w None) with (read_all w (Some (0, 0))). rewrite RA.
    eexists. split; [reflexivity|]. unfold ms_last. cbn. repeat split. exact Hlen.
Qed.

(** ---- entriesToApply ---- *)
Fixpoint consecutive_r (i : N) (l : list rentry) : bool :=
  match l with [] => true | e :: tl => (r_index e =? i) && consecutive_r (i + 1) tl end.

Lemma consecutive_r_nth l : forall i k e, consecutive_r i l = true -> nth_error l k = Some e -> r_index e = i + N.of_nat k.
Proof.
  induction l as [|x tl IH]; intros i [|k] e Hc Hn; cbn in *; try discriminate;
    apply andb_true_iff in Hc; destruct Hc as [H1 H2]; apply N.eqb_eq in H1.
  - inversion Hn; subst. lia.
  - rewrite (IH (i + 1) k e H2 Hn). lia.
Qed.

Lemma in_skipn_nth {A} (l : list A) : forall n x, In x (skipn n l) <-> exists k, (n <= k)%nat /\ nth_error l k = Some x.
Proof.
  induction l as [|y tl IH]; intros [|n] x; cbn.
  - split; [tauto|]. intros (k & _ & H). destruct k; discriminate.
  - split; [tauto|]. intros (k & _ & H). destruct k; discriminate.
  - split.
    + intros [->|H]; [exists 0%nat; split; [lia|reflexivity]|].
      apply In_nth_error in H. destruct H as (k & H). exists (S k). split; [lia|exact H].
    + intros (k & _ & H). destruct k; cbn in H; [inversion H; auto|]. right. eapply nth_error_In; eauto.
  - rewrite IH. split; intros (k & Hk & H).
    + exists (S k). split; [lia|exact H].
    + destruct k; [lia|]. exists k. split; [lia|exact H].
Qed.

(** committed entries handed over by the library start at or before appliedIndex+1 and are
    consecutive: exactly the entries above appliedIndex are applied — none twice, none skipped *)
Theorem entries_to_apply_spec applied i0 ents :
  consecutive_r i0 ents = true -> i0 <= applied + 1 -> ents <> [] ->
  exists l, entries_to_apply applied ents = Some l /\
            forall e, In e l <-> (In e ents /\ applied < r_index e).
Proof.
  intros Hc Hle Hne. destruct ents as [|e0 tl]; [congruence|].
  assert (H0 : r_index e0 = i0). { cbn in Hc. apply andb_true_iff in Hc. destruct Hc as [H _]. now apply N.eqb_eq in H. }
  unfold entries_to_apply. rewrite H0. destruct (N.ltb_spec (applied + 1) i0) as [Hx|Hx]; [lia|].
  set (l0 := e0 :: tl) in *. set (skip := applied + 1 - i0).
  destruct (N.ltb_spec skip (N.of_nat (length l0))) as [Hs|Hs].
  - eexists. split; [reflexivity|]. intros e. rewrite in_skipn_nth. split.
    + intros (k & Hk & Hn). split; [eapply nth_error_In; eauto|].
      rewrite (consecutive_r_nth _ _ _ _ Hc Hn). unfold skip in *. lia.
    + intros [Hin Hgt]. apply In_nth_error in Hin. destruct Hin as (k & Hn). exists k. split; auto.
      rewrite (consecutive_r_nth _ _ _ _ Hc Hn) in Hgt. unfold skip. lia.
  - exists []. split; [reflexivity|]. intros e. split; [intros []|]. intros [Hin Hgt].
    apply In_nth_error in Hin. destruct Hin as (k & Hn).
    rewrite (consecutive_r_nth _ _ _ _ Hc Hn) in Hgt.
    assert (Hk : (k < length l0)%nat) by (apply nth_error_Some; congruence). unfold skip in *. lia.
Qed.

(** ---- triggerSnapshot ---- *)
Theorem trigger_snapshot_spec idx snap freq catchup off s k i :
  trigger_snapshot idx snap freq catchup off = Some (s, k, i) ->
  s = idx /\ off <= k /\ (snap <= idx -> freq < idx - snap) /\
  (off < (if catchup <? idx then idx - catchup else 1) -> k = (if catchup <? idx then idx - catchup else 1) /\ 1 <= k /\ k <= s /\ i = idx).
Proof.
  unfold trigger_snapshot. destruct (N.eqb_spec idx 0); [discriminate|].
  destruct (N.leb_spec snap idx) as [A|A], (N.leb_spec (idx - snap) freq) as [B|B]; cbn; try discriminate;
    destruct (N.ltb_spec catchup idx) as [D|D];
    match goal with |- context [?a <=? off] => destruct (N.leb_spec a off) as [C|C] end;
    intros E; inversion E; subst; repeat split; lia.
Qed.
(** no snapshot is taken while at most [freq] entries were connected since the last one *)
Theorem trigger_snapshot_waits idx snap freq catchup off :
  snap <= idx -> idx - snap <= freq -> trigger_snapshot idx snap freq catchup off = None.
Proof.
  intros H1 H2. unfold trigger_snapshot. destruct (idx =? 0); auto.
  destruct (N.leb_spec snap idx), (N.leb_spec (idx - snap) freq); auto; lia.
Qed.
(** as configured (catch-up entries = snapshot frequency, log compacted no further than the last
    snapshot) a triggered snapshot always compacts forward and advances rs.snapshotIndex *)
Theorem trigger_snapshot_advances idx snap freq off s k i :
  off <= snap -> snap <= idx -> trigger_snapshot idx snap freq freq off = Some (s, k, i) ->
  i = idx /\ off < k /\ k <= idx.
Proof.
  intros H1 H2. unfold trigger_snapshot. destruct (N.eqb_spec idx 0); [discriminate|].
  destruct (N.leb_spec snap idx) as [A|A], (N.leb_spec (idx - snap) freq) as [B|B]; cbn; try discriminate; try lia.
  destruct (N.ltb_spec freq idx) as [D|D]; [|lia].
  destruct (N.leb_spec (idx - freq) off) as [C|C]; intros E; inversion E; subst; lia.
Qed.

(** ---- HasWal ---- *)
Theorem has_wal_spec w name peer :
  has_wal w name peer = 0 <-> exists c i, w_id w = Some (c, i, name, peer) /\ w_hs w <> None.
Proof.
  unfold has_wal. destruct (w_id w) as [[[[c i] n] p]|].
  - destruct (N.eqb_spec n name); cbn.
    + destruct (N.eqb_spec p peer); cbn.
      * subst. destruct (w_hs w) eqn:E; split; try discriminate.
        -- intros _. exists c, i. split; auto. discriminate.
        -- intros (c' & i' & _ & H). congruence.
        -- intros (c' & i' & _ & H). congruence.
      * split; [discriminate|]. intros (c' & i' & H & _). inversion H. congruence.
    + split; [discriminate|]. intros (c' & i' & H & _). inversion H. congruence.
  - split; [discriminate|]. intros (c' & i' & H & _). discriminate.
Qed.

(** ---- proposal slot ---- *)
Theorem submit_while_pending_refused s c x : ps_saved s = Some c -> submit s x = (s, PPending).
Proof. intros H. unfold submit. now rewrite H. Qed.
Theorem submit_ok_saves s x s' : submit s x = (s', POk) -> ps_saved s = None /\ ps_saved s' = Some x /\ ps_chan s' = ps_chan s ++ [x].
Proof.
  unfold submit. destruct (ps_saved s); [discriminate|]. destruct (Nat.ltb _ _); intros H; inversion H; subst. auto.
Qed.
Theorem submit_busy_leaves_nothing s x s' : submit s x = (s', PBusy) -> ps_saved s' = None /\ ps_chan s' = ps_chan s.
Proof.
  unfold submit. destruct (ps_saved s); [discriminate|]. destruct (Nat.ltb _ _); intros H; inversion H; subst. auto.
Qed.
Theorem after_other_id_ignored s c x : ps_saved s = Some c -> c <> x -> after_conf_change s x = s.
Proof. intros H Hn. unfold after_conf_change. rewrite H. destruct (N.eqb_spec c x); congruence. Qed.
Theorem after_saved_id_frees s c : ps_saved s = Some c -> ps_saved (after_conf_change s c) = None.
Proof. intros H. unfold after_conf_change. rewrite H, N.eqb_refl. reflexivity. Qed.

(** a time-out of the requester does not free the slot: the next request is still refused *)
Theorem timeout_keeps_pending s c x : ps_saved s = Some c -> submit (reply_timeout s) x = (s, PPending).
Proof. intros H. unfold reply_timeout. now apply submit_while_pending_refused with c. Qed.
(** at most one membership change is in flight, over any sequence of requests, completions,
    takes by the raft loop and requester time-outs: the changes in flight are exactly the saved
    one.  (With one change in flight the availability check of the next accepted request runs
    against a configuration that already contains every earlier change:
    [remove_healthy_keeps_quorum] then applies to each accepted removal.) *)
Definition slot_inv (st : pslot * list N) : Prop :=
  snd st = match ps_saved (fst st) with Some c => [c] | None => [] end.
Lemma pstep_inv st o : slot_inv st -> slot_inv (pstep st o).
Proof.
  destruct st as [s fl]. unfold slot_inv. cbn [fst snd]. intros H. destruct o as [x|x|x| |]; cbn [pstep fst snd]; auto.
  - unfold submit. destruct (ps_saved s) eqn:E; cbn [fst snd]; [now rewrite E|].
    destruct (Nat.ltb _ _); cbn; subst fl; reflexivity.
  - unfold after_conf_change. destruct (ps_saved s) eqn:E; subst fl; cbn.
    + destruct (N.eqb_spec n x); cbn; [reflexivity|now rewrite E].
    + now rewrite E.
  - destruct (ps_chan s); cbn; auto.
Qed.
Theorem one_change_in_flight ops cap :
  let st := fold_left pstep ops (mk_ps None [] cap, []) in
  (length (snd st) <= 1)%nat /\
  forall c x, In c (snd st) -> submit (fst st) x = (fst st, PPending).
Proof.
  cbn zeta. assert (H : slot_inv (fold_left pstep ops (mk_ps None [] cap, []))).
  { generalize (mk_ps None [] cap, @nil N) (eq_refl : slot_inv (mk_ps None [] cap, [])).
    induction ops as [|o tl IH]; intros st Hs; cbn; auto. apply IH. now apply pstep_inv. }
  unfold slot_inv in H. destruct (fold_left pstep ops (mk_ps None [] cap, [])) as [s fl]. cbn [fst snd] in *.
  destruct (ps_saved s) eqn:E; subst fl; cbn.
  - split; [lia|]. intros c x _. now apply submit_while_pending_refused with n.
  - split; [lia|]. intros c x [].
Qed.

(** ---- Cluster.Recover ---- *)
Lemma is_exist_in ms id : is_exist ms id = true <-> In id (map m_id ms).
Proof.
  unfold is_exist. induction ms as [|x tl IH]; cbn; [split; [discriminate|tauto]|].
  destruct (N.eqb_spec (m_id x) id); [split; auto|]. rewrite IH. intuition.
Qed.
Lemma minsert_in x l y : In y (minsert x l) <-> y = x \/ In y l.
Proof.
  induction l as [|z tl IH]; cbn; [intuition|]. destruct (m_name x <=? m_name z); cbn; [intuition|].
  rewrite IH. intuition.
Qed.
Lemma msort_in l y : In y (msort l) <-> In y l.
Proof. induction l as [|x tl IH]; cbn; [tauto|]. rewrite minsert_in, IH. intuition. Qed.
Lemma members_equal_ids x : forall y, members_equal x y = true -> map m_id x = map m_id y.
Proof.
  induction x as [|a tx IH]; intros [|b ty] H; cbn in *; try discriminate; auto.
  apply andb_true_iff in H. destruct H as [H1 H2]. unfold member_equal in H1.
  repeat (apply andb_true_iff in H1; destruct H1 as [H1 ?]). apply N.eqb_eq in H1. f_equal; auto.
Qed.
Lemma equal_sorted_same_ids a b id : members_equal (msort a) (msort b) = true -> is_exist a id = is_exist b id.
Proof.
  intros H. apply members_equal_ids in H.
  assert (G : forall l, In id (map m_id l) <-> In id (map m_id (msort l))).
  { intros l. rewrite !in_map_iff. split; intros (x & Hx & Hin); exists x; split; auto; now apply msort_in. }
  destruct (is_exist a id) eqn:Ea, (is_exist b id) eqn:Eb; auto.
  - apply is_exist_in in Ea. apply G in Ea. rewrite H in Ea. apply G in Ea. apply is_exist_in in Ea. congruence.
  - apply is_exist_in in Eb. apply G in Eb. rewrite <- H in Eb. apply G in Eb. apply is_exist_in in Eb. congruence.
Qed.
Lemma is_exist_cons x l id : is_exist (x :: l) id = (m_id x =? id) || is_exist l id.
Proof. unfold is_exist. cbn. destruct (m_id x =? id); reflexivity. Qed.
Lemma is_exist_nil id : is_exist [] id = false.
Proof. reflexivity. Qed.

Lemma fold_add_exist ms : forall acc id, is_exist (fold_left apply_add ms acc) id = is_exist acc id || is_exist ms id.
Proof.
  induction ms as [|x tl IH]; intros acc id; cbn [fold_left].
  - rewrite is_exist_nil. now rewrite orb_false_r.
  - rewrite IH, is_exist_cons. unfold apply_add. destruct (is_exist acc (m_id x)) eqn:E.
    + destruct (N.eqb_spec (m_id x) id); [subst; rewrite E; reflexivity|reflexivity].
    + rewrite is_exist_app. destruct (m_id x =? id); [now rewrite !orb_true_r|]. cbn. now rewrite orb_false_r.
Qed.
Lemma fold_removed_exist rs : forall acc id, is_exist (fold_left add_removed rs acc) id = is_exist acc id || is_exist rs id.
Proof.
  induction rs as [|x tl IH]; intros acc id; cbn [fold_left].
  - rewrite is_exist_nil. now rewrite orb_false_r.
  - rewrite IH, is_exist_cons. unfold add_removed. destruct (is_exist acc (m_id x)) eqn:E.
    + destruct (N.eqb_spec (m_id x) id); [subst; rewrite E; reflexivity|reflexivity].
    + rewrite is_exist_app. destruct (m_id x =? id); [now rewrite !orb_true_r|]. cbn. now rewrite orb_false_r.
Qed.

(** after Recover the applied ids are the snapshot's members and the removed ids the snapshot's
    removed members, whichever branch is taken: the refusal of removed ids survives a restart *)
Theorem recover_ids c ms rs id :
  is_exist (fst (recover c ms rs)) id = is_exist ms id /\ is_exist (snd (recover c ms rs)) id = is_exist rs id.
Proof.
  unfold recover. destruct (members_equal (msort (fst c)) (msort ms)) eqn:E1; cbn [andb].
  - destruct (members_equal (msort (snd c)) (msort rs)) eqn:E2.
    + split; [now apply equal_sorted_same_ids|now apply equal_sorted_same_ids].
    + cbn. rewrite fold_add_exist, fold_removed_exist. split; reflexivity.
  - cbn. rewrite fold_add_exist, fold_removed_exist. split; reflexivity.
Qed.
Corollary removed_refused_after_recover c ms rs applied' t m :
  m_id m <> 0 -> is_exist rs (m_id m) = true ->
  validate_change_membership applied' (snd (recover c ms rs)) t (Some m) = VAlreadyRemoved.
Proof.
  intros Hz Hr. apply readd_removed_refused; auto. now rewrite (proj2 (recover_ids c ms rs (m_id m))).
Qed.

(** ---- snapshot round trips ---- *)
From Coq Require Import Permutation.
Lemma minsert_perm x l : Permutation (minsert x l) (x :: l).
Proof.
  induction l as [|y tl IH]; cbn; [reflexivity|]. destruct (m_name x <=? m_name y); [reflexivity|].
  rewrite IH. apply perm_swap.
Qed.
Lemma msort_perm l : Permutation (msort l) l.
Proof. induction l as [|x tl IH]; cbn; [constructor|]. rewrite minsert_perm. now constructor. Qed.
Lemma msort_exist l id : is_exist (msort l) id = is_exist l id.
Proof.
  destruct (is_exist (msort l) id) eqn:A, (is_exist l id) eqn:B; auto.
  - apply is_exist_in in A. apply in_map_iff in A. destruct A as (x & Hx & Hin). apply (proj1 (msort_in _ _)) in Hin.
    assert (G : is_exist l id = true) by (apply is_exist_in; apply in_map_iff; exists x; split; auto). congruence.
  - apply is_exist_in in B. apply in_map_iff in B. destruct B as (x & Hx & Hin).
    assert (G : is_exist (msort l) id = true) by (apply is_exist_in; apply in_map_iff; exists x; split; auto; now apply msort_in). congruence.
Qed.
(** the snapshot lists every member of the id-indexed maps exactly once: same multiset, hence
    |array| = |MapByID| and the same ids *)
Theorem snapshot_members_complete c :
  Permutation (fst (snapshot_data c)) (fst c) /\ Permutation (snd (snapshot_data c)) (snd c) /\
  length (fst (snapshot_data c)) = length (fst c) /\ length (snd (snapshot_data c)) = length (snd c) /\
  forall id, is_exist (snd (snapshot_data c)) id = is_exist (snd c) id.
Proof.
  unfold snapshot_data; cbn [fst snd]. repeat split; try apply msort_perm;
    try (apply Permutation_length, msort_perm). intros id. apply msort_exist.
Qed.

Definition srun (init : members) (st : cluster * cluster) (l : list sreq) : cluster * cluster :=
  fold_left (sstep init) l st.
Lemma sstep_removed init st r id :
  is_exist (snd (fst st)) id = true -> is_exist (snd (fst (sstep init st r))) id = true.
Proof.
  destruct st as [c lag]. intros H. destruct r as [q| |mode]; cbn [sstep fst snd] in *; auto.
  - now apply removed_stays_removed.
  - rewrite (proj2 (recover_ids _ _ _ id)). cbn. now rewrite msort_exist.
Qed.
Lemma sstep_disjoint init st r : disjoint_ids (fst st) -> disjoint_ids (fst (sstep init st r)).
Proof.
  destruct st as [c lag]. intros H. destruct r as [q| |mode]; cbn [sstep fst snd] in *; auto.
  - now apply removed_never_member_again.
  - intros x Hx. rewrite (proj2 (recover_ids _ _ _ (m_id x))).
    assert (E : is_exist (fst (recover (restart_target init lag mode) (fst (snapshot_data c)) (snd (snapshot_data c)))) (m_id x) = true)
      by (apply is_exist_in; apply in_map_iff; exists x; split; auto).
    rewrite (proj1 (recover_ids _ _ _ (m_id x))) in E. cbn in *. rewrite msort_exist in *.
    apply is_exist_in in E. apply in_map_iff in E. destruct E as (y & Hy & Hin). rewrite <- Hy. now apply H.
Qed.
(** Over any sequence of validated changes, marks and snapshot round trips (restart into the
    initial configuration, into an empty cluster, or a lagging follower installing the snapshot)
    an id that was removed stays removed, is never an applied member again, and any change
    naming it is refused. *)
Theorem removed_never_member_again_through_snapshots init l : forall st id,
  disjoint_ids (fst st) -> is_exist (snd (fst st)) id = true ->
  let c' := fst (srun init st l) in
  is_exist (snd c') id = true /\ is_exist (fst c') id = false /\
  forall t m, m_id m = id -> id <> 0 -> validate_change_membership (fst c') (snd c') t (Some m) = VAlreadyRemoved.
Proof.
  unfold srun. induction l as [|r tl IH]; intros st id D H; cbn [fold_left].
  - cbn zeta. split; [exact H|]. split.
    + destruct (is_exist (fst (fst st)) id) eqn:E; auto. apply is_exist_in in E. apply in_map_iff in E.
      destruct E as (y & Hy & Hin). apply D in Hin. rewrite Hy in Hin. congruence.
    + intros t m Hm Hz. subst id. now apply readd_removed_refused.
  - apply IH; [now apply sstep_disjoint|now apply sstep_removed].
Qed.

(** the history of the name re-use: 3 is removed, its name, address and peer id are used again
    by 13, 13 is removed too.  The snapshot lists both; a list built from a name index (a later
    member replaces an earlier one with the same name) would have lost 3. *)
Fixpoint name_index (l : members) : members :=
  match l with
  | [] => []
  | x :: tl => if existsb (fun y => m_name y =? m_name x) tl then name_index tl else x :: name_index tl
  end.
Example ex_name_reuse :
  let c := fold_left apply_req [RAdd (mk_member 1 1 1 1 true); RAdd (mk_member 3 3 3 3 true); RRemove (mk_member 3 0 0 0 true);
                                RAdd (mk_member 13 3 3 3 true); RRemove (mk_member 13 0 0 0 true)] ([], []) in
  disjoint_ids c /\ map m_id (snd c) = [3; 13] /\ dup_names (snd c) = true /\
  map m_id (snd (snapshot_data c)) = [3; 13] /\ map m_id (name_index (snd c)) = [13] /\
  map m_id (snd (fst (srun [] (c, c) [SRestart 1]))) = [3; 13].
Proof. vm_compute. repeat split; auto. intros x [<-|[]]. reflexivity. Qed.

(** ---- satisfiable hypotheses ---- *)
Example ex_replay :
  match wrun wal_empty (WIdent (1, 2, 3, 4) :: ex_history ++ [WSnap (2, 3, 9)]) with
  | Some w => exists m, replay w = Some m /\ ms_snap m = (2, 3) /\ ms_last m = 5 /\ ms_lastidx m = 5 /\
                        map r_index (ms_ents m) = [3; 4; 5] /\ has_wal w 3 4 = 0 /\ has_wal w 3 5 = 3
  | None => False
  end.
Proof. vm_compute. eexists. repeat split. Qed.
Example ex_eta : entries_to_apply 4 (map (fun i => mk_rentry 0 1 i None) [3; 4; 5; 6]) =
                 Some (map (fun i => mk_rentry 0 1 i None) [5; 6]).
Proof. reflexivity. Qed.

(** ---- crash points: every prefix of the write units of an operation ---- *)
(** the units of an operation, run one after the other, are the operation *)
Theorem units_compose w o : (forall u, o <> WUnit u) -> wrun w (units_of o) = wstep w o.
Proof.
  intros Hn. destruct o; cbn; try reflexivity; try (destruct (write_raft_entry w items); reflexivity).
Qed.

(** what a restarted node needs: the log is the reference log and the stored commit index is
    inside it *)
Definition commit_ok (w : wal) (r : rlog) : Prop :=
  forall t v c, w_hs w = Some (t, v, c) -> c <= base r + N.of_nat (length (ents r)).
Definition wal_consistent (w : wal) (r : rlog) : Prop := Inv w r /\ commit_ok w r.

(** SaveEntry as the consensus library calls it: the batch does not touch committed entries
    (its first index is above the stored commit) and the new commit is inside the new log.  Then
    the state after EVERY prefix of its two write units — nothing, entries only, entries and hard
    state — is consistent: a crash between the two transactions leaves the old commit over the
    new log. *)
Theorem crash_prefix_consistent w r items hs k :
  wal_consistent w r -> batch_wf r items ->
  (forall t v c, w_hs w = Some (t, v, c) -> match items with [] => True | it0 :: _ => c < e_index (fst it0) end) ->
  snd hs <= base r + N.of_nat (length (ents (spec_write r items))) ->
  exists w', wrun w (firstn k (save_units items hs)) = Some w' /\
             wal_consistent w' (match k with O => r | _ => spec_write r items end).
Proof.
  intros [HI HC] Hwf Hold Hnew. destruct hs as [[t0 v0] c0]. cbn [snd] in Hnew.
  destruct items as [|it0 tl]; [contradiction|].
  destruct (write_raft_entry w (it0 :: tl)) as [w1|] eqn:E1; [|discriminate].
  pose proof (write_refines _ _ _ _ HI Hwf E1) as HI1.
  destruct (write_entries_keeps_meta _ _ _ E1) as (Hhs & _).
  assert (Hb : base (spec_write r (it0 :: tl)) = base r) by reflexivity.
  assert (C1 : commit_ok w1 (spec_write r (it0 :: tl))).
  { intros t v c Hc. rewrite Hhs in Hc. specialize (Hold t v c Hc). cbn in Hold.
    destruct Hwf as (Hlo & Hhi & Hcons). rewrite Hb. unfold spec_write. cbn [ents].
    rewrite app_length, map_length, firstn_length. cbn [length]. lia. }
  destruct k as [|[|k]]; cbn [firstn save_units wrun wstep].
  - exists w. split; [reflexivity|]. split; assumption.
  - rewrite E1. exists w1. split; [reflexivity|]. split; assumption.
  - rewrite E1. cbn. rewrite firstn_nil. cbn. eexists. split; [reflexivity|]. split.
    + destruct HI1 as (A & B & C & D). repeat split; auto.
    + intros t v c Hc. cbn in Hc. inversion Hc; subst. exact Hnew.
Qed.

(** the other order — hard state first, as a variant of SaveEntry would do — is not crash safe:
    a Ready that carries entries 4..5 together with commit 5 leaves, after its first unit, a
    commit index beyond the durable log *)
Theorem hardstate_first_not_crash_safe :
  let w0 := wrun wal_empty [WIdent (1, 1, 1, 1); WWrite [E 0 1 1 1; E 0 1 2 2; E 0 1 3 3]; WHard (1, 1, 3)] in
  match w0 with
  | Some w => match wrun w (firstn 1 [WHard (1, 1, 5); WWrite [E 0 1 4 4; E 0 1 5 5]]) with
              | Some w' => last_index w' = 3 /\ w_hs w' = Some (1, 1, 5)
              | None => False
              end
  | None => False
  end.
Proof. vm_compute. split; reflexivity. Qed.

(** ClearWAL and ResetWAL delete the identity in their first unit and never write one: in every
    state a crash can leave inside them the node has no WAL identity (HasWal answers false and
    the node starts over), so their intermediate states are never handed to the library *)
Theorem clear_reset_prefix_no_identity w o k w' :
  (o = WClear \/ exists t c, o = WReset t c) -> (0 < k)%nat ->
  wrun w (firstn k (units_of o)) = Some w' -> w_id w' = None.
Proof.
  intros Ho Hk H. destruct Ho as [->|(t & c & ->)]; cbn [units_of] in H.
  - destruct k as [|[|[|k]]]; [lia|..]; cbn in H; inversion H; subst; reflexivity.
  - destruct k as [|[|[|[|[|[|k]]]]]]; [lia|..]; cbn in H; inversion H; subst; reflexivity.
Qed.

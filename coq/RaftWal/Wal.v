(** C16 model, part 1: the KV-backed raft write-ahead log of chain/chaindbForRaft.go and
    its reader consensus/impl/raftv2/waldb.go (ReadAll, convertWalToRaft).

    The durable store is the only state: ChainDB keeps no raft data in memory, so a
    restarted node computes every read from the same map.  Key families of
    types/dbkey (r_identity, r_state, r_snap, r_last, r_entry.<idx>, r_inv.<hash>,
    r_ccstatus.<id>, <block hash>) are disjoint byte strings and are modelled as the
    components of [wal]; maps are functions (executable by vm_compute).  Encodings (gob of
    WalEntry / RaftIdentity, protobuf of HardState / Snapshot / Block) are opaque: a stored
    value is read back as the value written.  Block bodies and conf-change payloads are
    identified by numbers.  No proofs in this file. *)
From Coq Require Import NArith List Bool Arith.
Import ListNotations.
Open Scope N_scope.

(** consensus.WalEntry: Type (0 EntryBlock, 1 EntryEmpty, 2 EntryConfChange), Term, Index,
    Data (block hash for EntryBlock, conf-change bytes for EntryConfChange) *)
Record wentry := mk_wentry { e_type : N; e_term : N; e_index : N; e_data : N }.
Definition wentry_eqb (a b : wentry) : bool :=
  (e_type a =? e_type b) && (e_term a =? e_term b) && (e_index a =? e_index b) && (e_data a =? e_data b).

Record wal := mk_wal {
  w_ent : N -> option wentry;          (* r_entry.<idx> *)
  w_last : option N;                   (* r_last *)
  w_inv : N -> option N;               (* r_inv.<block hash> -> index *)
  w_blocks : N -> bool;                (* <block hash> -> block body (addBlock) *)
  w_cc : N -> bool;                    (* r_ccstatus.<request id> = SAVED *)
  w_hs : option (N * N * N);           (* r_state: term, vote, commit *)
  w_snap : option (N * N * N);         (* r_snap: index, term, data *)
  w_id : option (N * N * N * N)        (* r_identity: cluster id, id, name, peer id *)
}.

Definition wal_empty : wal :=
  mk_wal (fun _ => None) None (fun _ => None) (fun _ => false) (fun _ => false) None None None.

Definition upd {A} (m : N -> A) (i : N) (a : A) : N -> A := fun j => if j =? i then a else m j.

(** GetRaftEntryLastIdx: 0 when the key is absent *)
Definition last_index (w : wal) : N := match w_last w with Some n => n | None => 0 end.

(** the truncation loop [for i := from; i <= last; i++ { dbTx.Delete(RaftEntry(i)) }],
    [n] iterations *)
Fixpoint del_loop (m : N -> option wentry) (i : N) (n : nat) : N -> option wentry :=
  match n with
  | O => m
  | S k => del_loop (upd m i None) (i + 1) k
  end.
Definition del_range (m : N -> option wentry) (from last : N) : N -> option wentry :=
  if from <=? last then del_loop m from (N.to_nat (last + 1 - from)) else m.

(** one element of a batch: the entry and, for a conf change, the request id of its
    proposal (0 = initial members, not recorded) *)
Definition bitem : Type := wentry * N.

Definition write_one (w : wal) (it : bitem) : wal :=
  let e := fst it in
  let blocks := if e_type e =? 0 then upd (w_blocks w) (e_data e) true else w_blocks w in
  let inv := if e_type e =? 0 then upd (w_inv w) (e_data e) (Some (e_index e)) else w_inv w in
  let cc := if (e_type e =? 2) && negb (snd it =? 0) then upd (w_cc w) (snd it) true else w_cc w in
  mk_wal (upd (w_ent w) (e_index e) (Some e)) (w_last w) inv blocks cc (w_hs w) (w_snap w) (w_id w).

(** ChainDB.WriteRaftEntry (one DB transaction).  [None]: called with an empty batch
    ([ents[0]] panics; WalDB.SaveEntry never does that). *)
Definition write_raft_entry (w : wal) (items : list bitem) : option wal :=
  match items with
  | [] => None
  | it0 :: _ =>
      let last := last_index w in
      let w1 := mk_wal (del_range (w_ent w) (e_index (fst it0)) last) (w_last w) (w_inv w) (w_blocks w)
                       (w_cc w) (w_hs w) (w_snap w) (w_id w) in
      let w2 := fold_left write_one items w1 in
      let last_idx := fold_left (fun _ it => e_index (fst it)) items 0 in
      Some (mk_wal (w_ent w2) (Some last_idx) (w_inv w2) (w_blocks w2) (w_cc w2) (w_hs w2) (w_snap w2) (w_id w2))
  end.

Inductive rerr := ENoEntry | EMismatch | ENoEntryForBlock | ENoHardState | ETooLowTerm | ENoBlock | EInvalidEntry.
Inductive rres (A : Type) := ROk (a : A) | RErr (e : rerr).
Arguments ROk {A} a.
Arguments RErr {A} e.

(** GetRaftEntry *)
Definition get_entry (w : wal) (i : N) : rres wentry :=
  match w_ent w i with
  | None => RErr ENoEntry
  | Some e => if e_index e =? i then ROk e else RErr EMismatch
  end.
(** GetRaftEntryIndexOfBlock / GetRaftEntryOfBlock *)
Definition index_of_block (w : wal) (h : N) : rres N :=
  match w_inv w h with
  | None => RErr ENoEntryForBlock
  | Some i => if i =? 0 then RErr ENoEntryForBlock else ROk i
  end.
Definition entry_of_block (w : wal) (h : N) : rres wentry :=
  match index_of_block w h with ROk i => get_entry w i | RErr e => RErr e end.

Definition write_hard_state (w : wal) (hs : N * N * N) : wal :=
  mk_wal (w_ent w) (w_last w) (w_inv w) (w_blocks w) (w_cc w) (Some hs) (w_snap w) (w_id w).
Definition write_snapshot (w : wal) (s : N * N * N) : wal :=
  mk_wal (w_ent w) (w_last w) (w_inv w) (w_blocks w) (w_cc w) (w_hs w) (Some s) (w_id w).
Definition write_identity (w : wal) (i : N * N * N * N) : wal :=
  mk_wal (w_ent w) (w_last w) (w_inv w) (w_blocks w) (w_cc w) (w_hs w) (w_snap w) (Some i).

(** ClearWAL: identity, hard state, snapshot deleted; entries 1..last and r_last deleted.
    The inverse map, conf-change progress and block bodies stay. *)
Definition clear_wal (w : wal) : wal :=
  let last := last_index w in
  mk_wal (del_range (w_ent w) 1 last) None (w_inv w) (w_blocks w) (w_cc w) None None None.

(** ResetWAL(term, commit): clear, hard state {term, vote 0, commit}, snapshot of the best
    block at (index commit, term) — its data is the constant [best_snap] — and last := commit *)
Definition best_snap : N := 0.
Definition reset_wal (w : wal) (term commit : N) : wal :=
  let w1 := clear_wal w in
  let w2 := write_hard_state w1 (term, 0, commit) in
  let w3 := write_snapshot w2 (commit, term, best_snap) in
  mk_wal (w_ent w3) (Some commit) (w_inv w3) (w_blocks w3) (w_cc w3) (w_hs w3) (w_snap w3) (w_id w3).

(** raftpb.Entry handed back to the consensus library: type (0 normal, 1 conf change), term,
    index, data ([None] = nil; for a block entry the re-marshalled block) *)
Record rentry := mk_rentry { r_type : N; r_term : N; r_index : N; r_data : option N }.

(** WalDB.convertWalToRaft *)
Definition convert_wal_to_raft (w : wal) (e : wentry) : rres rentry :=
  if e_type e =? 2 then ROk (mk_rentry 1 (e_term e) (e_index e) (Some (e_data e)))
  else if e_type e =? 1 then ROk (mk_rentry 0 (e_term e) (e_index e) None)
  else if e_type e =? 0 then
    (if w_blocks w (e_data e) then ROk (mk_rentry 0 (e_term e) (e_index e) (Some (e_data e))) else RErr ENoBlock)
  else RErr EInvalidEntry.

(** the loop of ReadAll: [for i := start; i <= lastIdx; i++], [n] iterations *)
Fixpoint read_loop (w : wal) (snap_term : N) (i : N) (n : nat) : rres (list rentry) :=
  match n with
  | O => ROk []
  | S k =>
      match get_entry w i with
      | RErr e => RErr e
      | ROk e =>
          if e_term e <? snap_term then RErr ETooLowTerm
          else match convert_wal_to_raft w e with
               | RErr x => RErr x
               | ROk r => match read_loop w snap_term (i + 1) k with
                          | RErr x => RErr x
                          | ROk l => ROk (r :: l)
                          end
               end
      end
  end.
(** WalDB.ReadAll(snapshot): identity, hard state, entries after the snapshot index *)
Definition read_all (w : wal) (snap : option (N * N))
  : rres (option (N * N * N * N) * (N * N * N) * list rentry) :=
  match w_hs w with
  | None => RErr ENoHardState
  | Some hs =>
      let '(sidx, sterm) := match snap with Some p => p | None => (0, 0) end in
      let last := last_index w in
      let start := sidx + 1 in
      let n := if start <=? last then N.to_nat (last + 1 - start) else O in
      match read_loop w sterm start n with
      | RErr e => RErr e
      | ROk l => ROk (w_id w, hs, l)
      end
  end.

(** ---- write units: what reaches the database as one transaction / one bulk flush ----
    A crash leaves a prefix of the units of the operation in progress.  WriteRaftEntry,
    WriteHardState, WriteSnapshot, WriteIdentity are one transaction each; ClearWAL is a
    transaction (identity, hard state, snapshot deleted) followed by a bulk (entries 1..last and
    r_last deleted, [last] read in between); ResetWAL is ClearWAL, then three more
    transactions (hard state, snapshot, r_last := commit); WalDB.SaveEntry is WriteRaftEntry
    followed by WriteHardState — "hardstate must save after entries". *)
Inductive wunit :=
| UClearMeta                 (* delete r_identity, r_state, r_snap *)
| UClearEntries              (* delete r_entry.1 .. r_entry.last and r_last *)
| USetLast (n : N).          (* r_last := n *)
Definition apply_unit (w : wal) (u : wunit) : wal :=
  match u with
  | UClearMeta => mk_wal (w_ent w) (w_last w) (w_inv w) (w_blocks w) (w_cc w) None None None
  | UClearEntries => mk_wal (del_range (w_ent w) 1 (last_index w)) None (w_inv w) (w_blocks w) (w_cc w)
                            (w_hs w) (w_snap w) (w_id w)
  | USetLast n => mk_wal (w_ent w) (Some n) (w_inv w) (w_blocks w) (w_cc w) (w_hs w) (w_snap w) (w_id w)
  end.

(** ---- operations of a history and the reference log ---- *)
Inductive wop :=
| WWrite (items : list bitem)
| WHard (hs : N * N * N)
| WSnap (s : N * N * N)
| WIdent (i : N * N * N * N)
| WClear
| WReset (term commit : N)
| WUnit (u : wunit).            (* one write unit of ClearWAL / ResetWAL on its own (crash points) *)

Definition wstep (w : wal) (o : wop) : option wal :=
  match o with
  | WWrite items => write_raft_entry w items
  | WHard hs => Some (write_hard_state w hs)
  | WSnap s => Some (write_snapshot w s)
  | WIdent i => Some (write_identity w i)
  | WClear => Some (clear_wal w)
  | WReset t c => Some (reset_wal w t c)
  | WUnit u => Some (apply_unit w u)
  end.
(** the write units of an operation, in the order the code issues them *)
Definition units_of (o : wop) : list wop :=
  match o with
  | WClear => [WUnit UClearMeta; WUnit UClearEntries]
  | WReset t c => [WUnit UClearMeta; WUnit UClearEntries; WHard (t, 0, c); WSnap (c, t, best_snap); WUnit (USetLast c)]
  | _ => [o]
  end.
(** WalDB.SaveEntry(hard state, entries) *)
Definition save_units (items : list bitem) (hs : N * N * N) : list wop := [WWrite items; WHard hs].
Fixpoint wrun (w : wal) (ops : list wop) : option wal :=
  match ops with
  | [] => Some w
  | o :: tl => match wstep w o with Some w' => wrun w' tl | None => None end
  end.

(** reference log: position p (0-based) holds the entry of index p+1;
    an append at first index i0 keeps the first i0-1 entries *)
Definition log_append (log : list wentry) (ents : list wentry) : list wentry :=
  match ents with
  | [] => log
  | e0 :: _ => firstn (N.to_nat (e_index e0 - 1)) log ++ ents
  end.
(** a batch as raft hands it over: consecutive indices starting at i0 *)
Fixpoint consecutive (i : N) (ents : list wentry) : bool :=
  match ents with
  | [] => true
  | e :: tl => (e_index e =? i) && consecutive (i + 1) tl
  end.
Definition batch_ok (log : list wentry) (ents : list wentry) : bool :=
  match ents with
  | [] => false
  | e0 :: _ => (1 <=? e_index e0) && (e_index e0 <=? N.of_nat (length log) + 1) && consecutive (e_index e0) ents
  end.

(** ---- evaluation helpers for the correspondence check ---- *)
Definition enc_rres {A} (f : A -> list N) (r : rres A) : list N :=
  match r with
  | ROk a => 0 :: f a
  | RErr ENoEntry => [1] | RErr EMismatch => [2] | RErr ENoEntryForBlock => [3] | RErr ENoHardState => [4]
  | RErr ETooLowTerm => [5] | RErr ENoBlock => [6] | RErr EInvalidEntry => [7]
  end.
Definition enc_wentry (e : wentry) : list N := [e_type e; e_term e; e_index e; e_data e].
Definition enc_rentry (r : rentry) : list N :=
  [r_type r; r_term r; r_index r] ++ match r_data r with None => [0] | Some d => [1; d] end.
Definition enc_o3 (o : option (N * N * N)) : list N :=
  match o with None => [0] | Some (a, b, c) => [1; a; b; c] end.
Definition enc_o4 (o : option (N * N * N * N)) : list N :=
  match o with None => [0] | Some (a, b, c, d) => [1; a; b; c; d] end.

(** what is read back after every operation (and after the restart that follows it):
    last index, entries 1..maxi, inverse map of the block universe, hard state, snapshot,
    identity, conf-change progress of the request universe, ReadAll with and without the
    stored snapshot *)
Definition observe (w : wal) (maxi : nat) (hashes ccids : list N) : list N :=
  last_index w
  :: concat (map (fun i => enc_rres enc_wentry (get_entry w (N.of_nat i))) (seq 1 maxi))
  ++ concat (map (fun h => enc_rres (fun i => [i]) (index_of_block w h)) hashes)
  ++ concat (map (fun h => enc_rres enc_wentry (entry_of_block w h)) hashes)
  ++ enc_o3 (w_hs w) ++ enc_o3 (w_snap w) ++ enc_o4 (w_id w)
  ++ map (fun c => if w_cc w c then 1 else 0) ccids
  ++ enc_rres (fun r => let '(i, hs, l) := r in enc_o4 i ++ enc_o3 (Some hs) ++ N.of_nat (length l) :: concat (map enc_rentry l))
              (read_all w (match w_snap w with Some (i, t, _) => Some (i, t) | None => None end))
  ++ enc_rres (fun r => let '(i, hs, l) := r in N.of_nat (length l) :: concat (map enc_rentry l))
              (read_all w None).

Fixpoint list_eqbN (a b : list N) : bool :=
  match a, b with
  | [], [] => true
  | x :: ta, y :: tb => (x =? y) && list_eqbN ta tb
  | _, _ => false
  end.

(** a trace: universe, then (operation, observation) pairs; 0 = agrees, S i = first
    disagreement at step i *)
Fixpoint wtrace_check (w : wal) (maxi : nat) (hashes ccids : list N) (tr : list (wop * list N)) (i : nat) : nat :=
  match tr with
  | [] => O
  | (o, ob) :: tl =>
      match wstep w o with
      | None => S i
      | Some w' => if list_eqbN (observe w' maxi hashes ccids) ob
                   then wtrace_check w' maxi hashes ccids tl (S i) else S i
      end
  end.
Definition wtrace : Type := nat * list N * list N * list (wop * list N).
Definition wtrace_bad (t : wtrace) : nat :=
  let '(maxi, hashes, ccids, tr) := t in wtrace_check wal_empty maxi hashes ccids tr 0.
Fixpoint bad_wtraces (l : list wtrace) (i : nat) : list (nat * nat) :=
  match l with
  | [] => []
  | t :: tl => match wtrace_bad t with
               | O => bad_wtraces tl (S i)
               | S j => (i, j) :: bad_wtraces tl (S i)
               end
  end.
